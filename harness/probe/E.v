From Coq Require Import Reals ZArith QArith List Lia Lra.
From Coquelicot Require Import Coquelicot.
Open Scope R_scope.
Check Cmult. Check Cconj. 
Definition cis (t:R) : C := (cos t, sin t).
Lemma cis_add a b : cis (a+b) = Cmult (cis a) (cis b).
Proof. unfold cis, Cmult; simpl. rewrite cos_plus, sin_plus. f_equal; ring. Qed.
Lemma cis_conj a : Cconj (cis a) = cis (-a).
Proof. unfold cis, Cconj; simpl. rewrite cos_neg, sin_neg. reflexivity. Qed.
Goal forall x y z : C, Cmult x (Cplus y z) = Cplus (Cmult x y) (Cmult x z).
Proof. intros. ring. Qed.
(* zeta8^4 = -1 *)
Lemma z8 : let z := cis (PI/4) in Cmult (Cmult z z) (Cmult z z) = (-1,0)%R.
Proof. cbv zeta. rewrite <- !cis_add. unfold cis. replace (PI/4+PI/4+(PI/4+PI/4)) with PI by field. rewrite cos_PI, sin_PI. reflexivity. Qed.
Print Assumptions z8.
From Interval Require Import Tactic.
Goal Rabs (cos (37/100) * sin (113/200) - 0.499) <= 1/100.
Proof. interval. Qed.
Lemma der_test t : is_derive (fun x => cos (3*x)) t (- 3 * sin (3*t)).
Proof. auto_derive; [trivial| ring]. Qed.
