import numpy as np, pennylane as qp, warnings, itertools, collections, math, random
warnings.filterwarnings("ignore")
import jax, jax.numpy as jnp
R=random.Random(113)
bad=collections.defaultdict(list)
def make(s):
    RR=random.Random(s)
    prog=[]
    def gen(depth):
        out=[]
        for _ in range(RR.randint(1,3)):
            r=RR.random()
            if r<0.35: out.append(('g',RR.choice(['RX','RY','RZ']),RR.randrange(2),RR.randrange(3)))
            elif r<0.5: out.append(('c',RR.sample(range(3),2)))
            elif r<0.62 and depth<2: out.append(('for',RR.randint(0,2),RR.randint(1,3),gen(depth+1)))
            elif r<0.72 and depth<2: out.append(('adj',gen(depth+1)))
            elif r<0.82 and depth<2: out.append(('ctrl',gen(depth+1)))
            elif r<0.92 and depth<2: out.append(('cond',RR.randrange(2),gen(depth+1),gen(depth+1) if RR.random()<0.5 else None))
            else: out.append(('h',RR.randrange(3)))
        return out
    prog=gen(0)
    def run(p,x,flags):
        for item in p:
            k=item[0]
            if k=='g': getattr(qp,item[1])(x[item[2]],wires=item[3])
            elif k=='c': qp.CNOT(item[1])
            elif k=='h': qp.Hadamard(item[1])
            elif k=='for':
                @qp.for_loop(item[1],item[1]+item[2])
                def body(i): run(item[3],x,flags)
                body()
            elif k=='adj': qp.adjoint(lambda: run(item[1],x,flags))()
            elif k=='ctrl': qp.ctrl(lambda: run(item[1],x,flags),control=3)()
            elif k=='cond':
                if item[3] is not None: qp.cond(flags[item[1]],lambda: run(item[2],x,flags),lambda: run(item[3],x,flags))()
                else: qp.cond(flags[item[1]],lambda: run(item[2],x,flags))()
    def f(x,flags):
        run(prog,x,flags)
        return qp.expval(qp.Z(0)),qp.probs(wires=[1,2,3])
    return f
dev=qp.device('default.qubit',wires=4)
for it in range(80):
    s=R.randint(0,10**9); f=make(s)
    x=np.array([R.uniform(-3,3),R.uniform(-3,3)]); flags=(R.random()<0.5,R.random()<0.5)
    try:
        t1=qp.tape.make_qscript(f)(x,flags)
        r1=qp.execute([t1],dev)[0]
    except Exception as e: bad['tape_exc'].append((s,repr(e)[:100])); continue
    try:
        qp.capture.enable()
        plxpr=qp.capture.make_plxpr(f)(jnp.array(x),flags) if False else jax.make_jaxpr(f)(jnp.array(x),flags)
        t2=qp.tape.plxpr_to_tape(plxpr.jaxpr,plxpr.consts,jnp.array(x),*flags)
        qp.capture.disable()
        r2=qp.execute([t2],dev)[0]
        ok=all(np.allclose(a,b,atol=1e-6) for a,b in zip(r1,r2))
        if not ok: bad['C42'].append((s,[str(o) for o in t1.operations][:10],[str(o) for o in t2.operations][:10]))
    except Exception as e:
        qp.capture.disable(); bad['cap_exc:'+type(e).__name__].append((s,repr(e)[:120]))
for k,v in bad.items(): print(k,len(v),str(v[:2])[:900])
print('done')
