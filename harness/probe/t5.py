import numpy as np, pennylane as qp, inspect, collections, warnings
warnings.filterwarnings("ignore")
from pennylane.decomposition import decomposition_rule as dr
from pennylane.decomposition.utils import _get_decomp_args
from pennylane.decomposition.resources import Resources
reg=dr._decompositions_private
rng=np.random.default_rng(1)
def find_cls(name):
    for mod in (qp, qp.templates, qp.ops, qp.ops.op_math):
        c=getattr(mod,name,None)
        if inspect.isclass(c): return c
    return None
def rule_matrix(rule,op,extra=0):
    params,args,kwargs=_get_decomp_args(op)
    with qp.queuing.AnnotatedQueue() as q:
        rule(*args,**kwargs)
    ops=q.queue
    tape=qp.tape.QuantumScript(ops)
    if any(o.name in("Allocate","Deallocate") for o in ops):
        [tape],_=qp.transforms.resolve_dynamic_wires(tape,min_int=100)
    if any("Measure" in o.name or o.name=="Conditional" for o in tape.operations): return None,ops
    wo=list(op.wires)+[w for w in tape.wires if w not in op.wires]
    M=qp.matrix(tape,wire_order=wo)
    return M,ops
stats=collections.Counter(); bad=[]
def test(op,name):
    for rule in reg[name]:
        try:
            params,args,kwargs=_get_decomp_args(op)
            if not rule.is_applicable(**params): stats['na']+=1; continue
            M,ops=rule_matrix(rule,op)
            if M is None: stats['mcm']+=1; continue
            ref=qp.matrix(op,wire_order=list(op.wires))
            d=ref.shape[0]
            if M.shape[0]!=d:
                k=M.shape[0]//d
                # work wires last: restrict to work=0 block
                Mr=M.reshape(d,k,d,k)[:,0,:,0]; leak=np.abs(M.reshape(d,k,d,k)[:,1:,:,0]).max() if k>1 else 0
                if leak>1e-8: bad.append((name,rule.name if hasattr(rule,'name') else str(rule)[:30],'leak',leak))
                M=Mr
            err=np.abs(M-ref).max()
            stats['ok' if err<1e-8 else 'BAD']+=1
            if err>=1e-8: bad.append((name,getattr(rule,'name',str(rule)[:40]),err))
            # resources
            try:
                res=rule.compute_resources(**params)
                from pennylane.decomposition.decomposition_rule import _count_gates
                actual,alloc=_count_gates(op,rule)
                decl={k:v for k,v in res.gate_counts.items() if v}
                if rule.exact_resources if hasattr(rule,'exact_resources') else True:
                    if decl!=actual: stats['res_mismatch']+=1; bad.append((name,getattr(rule,'name',''),'RES',str(decl)[:150],str(actual)[:150]))
                    else: stats['res_ok']+=1
            except Exception as e:
                stats['res_err']+=1
        except Exception as e:
            stats['err']+=1; bad.append((name,getattr(rule,'name',''),'EXC',repr(e)[:120]))
for name in [k for k in reg if '(' not in k]:
    cls=find_cls(name)
    if cls is None: continue
    npar=getattr(cls,'num_params',None); nw=getattr(cls,'num_wires',None)
    if not isinstance(npar,int) or not isinstance(nw,int): continue
    try: op=cls(*rng.uniform(-6,6,npar),wires=list(range(nw)))
    except Exception as e: continue
    test(op,name)
    # symbolic variants
    for sname,mk in (("Adjoint(%s)"%name, lambda o: qp.adjoint(o,lazy=True)), ("Pow(%s)"%name, lambda o: qp.pow(o,3,lazy=True)), ("Pow(%s)"%name, lambda o: qp.pow(o,-2,lazy=True)),("Pow(%s)"%name, lambda o: qp.pow(o,0.5,lazy=True)), ("C(%s)"%name, lambda o: qp.ops.op_math.Controlled(o,control_wires=[10,11],control_values=[1,0]))):
        if sname in reg:
            try: sop=mk(op)
            except Exception as e: continue
            test(sop,sname)
print(dict(stats))
for b in bad[:50]: print(b)
