import numpy as np, pennylane as qp, warnings, itertools, collections, math, random, inspect
warnings.filterwarnings("ignore")
R=random.Random(23); rng=np.random.default_rng(8)
bad=collections.defaultdict(list)
names=['Hadamard','PauliX','PauliY','PauliZ','S','T','SX','RX','RY','RZ','PhaseShift','Rot','U1','U2','U3','CNOT','CZ','CY','CH','SWAP','ISWAP','SISWAP','ECR','CSWAP','Toffoli','CCZ','CRX','CRY','CRZ','CRot','ControlledPhaseShift','CPhaseShift00','CPhaseShift01','CPhaseShift10','IsingXX','IsingYY','IsingZZ','IsingXY','PSWAP','SingleExcitation','SingleExcitationPlus','SingleExcitationMinus','DoubleExcitation','DoubleExcitationPlus','DoubleExcitationMinus','OrbitalRotation','FermionicSWAP','MultiRZ','PauliRot','MultiControlledX','GlobalPhase','QubitUnitary','DiagonalQubitUnitary','GroverOperator']
def mkop(n,labels):
    while True:
        nm=R.choice(names); cls=getattr(qp,nm)
        nw=cls.num_wires if isinstance(getattr(cls,'num_wires',None),int) else R.randint(1,min(n,4))
        if nm=='GroverOperator': nw=R.randint(2,min(n,4)) if n>=2 else 99
        if nw>n: continue
        ws=[labels[i] for i in R.sample(range(n),nw)]
        if nm=='PauliRot': return qp.PauliRot(R.uniform(-6,6),''.join(R.choice('XYZI') for _ in ws),wires=ws)
        if nm=='QubitUnitary':
            from scipy.stats import unitary_group
            return qp.QubitUnitary(unitary_group.rvs(2**nw,random_state=R.randint(0,9999)),wires=ws)
        if nm=='DiagonalQubitUnitary': return qp.DiagonalQubitUnitary(np.exp(1j*rng.uniform(0,6,2**nw)),wires=ws)
        if nm=='MultiControlledX': 
            if nw<2: continue
            return qp.MultiControlledX(wires=ws,control_values=[R.randint(0,1) for _ in ws[:-1]])
        if nm=='GlobalPhase': return qp.GlobalPhase(R.uniform(-3,3))
        if nm=='GroverOperator': return qp.GroverOperator(wires=ws)
        npar=cls.num_params
        if not isinstance(npar,int): npar=1
        return cls(*[R.uniform(-7,7) for _ in range(npar)],wires=ws)
for it in range(400):
    n=R.randint(1,6); labels=R.sample([0,1,2,3,4,5,'a','b','c'],n)
    ops=[mkop(n,labels) for _ in range(R.randint(1,10))]
    order=R.sample(labels,n)
    U=np.eye(2**n,dtype=complex)
    for o in ops: U=qp.matrix(o,wire_order=order)@U if len(o.wires) else np.exp(-1j*o.data[0])*U
    psi=U[:,0]
    dev=qp.device('default.qubit',wires=order)
    mw=R.sample(order,R.randint(1,n))
    ob=qp.prod(*[R.choice([qp.X,qp.Y,qp.Z])(w) for w in mw])
    t=qp.tape.QuantumScript(ops,[qp.state(),qp.probs(wires=mw),qp.expval(ob),qp.var(ob)])
    try: st,pr,ev,va=qp.execute([t],dev)[0]
    except Exception as e: bad['exc'].append((repr(e)[:100],[str(o) for o in ops])); continue
    if not np.allclose(st,psi,atol=1e-9): bad['state'].append(([str(o) for o in ops],order))
    O=qp.matrix(ob,wire_order=order); e=np.real(psi.conj()@O@psi); v=np.real(psi.conj()@O@O@psi)-e**2
    P=np.abs(psi.reshape((2,)*n))**2
    idx=[order.index(w) for w in mw]; Pm=np.transpose(P,idx+[i for i in range(n) if i not in idx]).reshape(2**len(mw),-1).sum(1)
    if not np.allclose(pr,Pm,atol=1e-9): bad['probs'].append(([str(o) for o in ops],order,mw))
    if abs(ev-e)>1e-8 or abs(va-v)>1e-8: bad['ev'].append(([str(o) for o in ops],order,str(ob)))
    # other devices
    for dname in ('default.mixed','reference.qubit'):
        try:
            d2=qp.device(dname,wires=order)
            t2=qp.tape.QuantumScript(ops,[qp.probs(wires=mw),qp.expval(ob)])
            prog=d2.preprocess_transforms() if hasattr(d2,'preprocess_transforms') else None
            r=qp.execute([t2],d2)[0]
            if not (np.allclose(r[0],Pm,atol=1e-7) and abs(r[1]-e)<1e-7): bad[dname].append(([str(o) for o in ops],order,mw))
        except Exception as ex: bad[dname+'_exc'].append((repr(ex)[:100],[o.name for o in ops]))
print({k:(len(v),v[:2]) for k,v in bad.items()})
