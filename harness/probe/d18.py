import numpy as np, pennylane as qp, warnings, itertools, collections, math, random, threading
warnings.filterwarnings("ignore")
R=random.Random(67); rng=np.random.default_rng(20)
bad=collections.defaultdict(list)
# ---- C41 queuing
def run_prog(depth=0):
    """build random program; return (expected list of reprs for this context)"""
    exp=[]
    for _ in range(R.randint(1,5)):
        r=R.random()
        if r<0.3:
            o=qp.RX(round(R.random(),3),R.randrange(3)); exp.append(repr(o))
        elif r<0.42:
            b=qp.RY(round(R.random(),3),0); o=qp.adjoint(b); exp.append(repr(o))
        elif r<0.52:
            b=qp.S(1); o=qp.ctrl(b,control=0); exp.append(repr(o))
        elif r<0.6:
            a=qp.X(0); b=qp.Z(1); o=a@b; exp.append(repr(o))
        elif r<0.68:
            a=qp.X(0); o=2.0*a; exp.append(repr(o))
        elif r<0.76:
            a=qp.T(2); o=a**2; exp.append(repr(o))
        elif r<0.84:
            with qp.QueuingManager.stop_recording():
                qp.Hadamard(0); 
                if depth<2: run_prog(depth+1)
        elif r<0.92 and depth<2:
            with qp.queuing.AnnotatedQueue() as q2:
                inner=run_prog(depth+1)
            if [repr(o) for o in q2.queue]!=inner: bad['C41inner'].append((inner,[repr(o) for o in q2.queue]))
        else:
            with qp.QueuingManager.stop_recording():
                o=qp.RZ(0.5,1)
            qp.apply(o); exp.append(repr(o))
    return exp
for it in range(500):
    try:
        with qp.queuing.AnnotatedQueue() as q:
            exp=run_prog()
            if R.random()<0.2:
                try:
                    with qp.queuing.AnnotatedQueue() as q3:
                        qp.X(0); raise RuntimeError('x')
                except RuntimeError: pass
                o=qp.Y(2); exp.append(repr(o))
        got=[repr(o) for o in q.queue]
        if got!=exp: bad['C41'].append((exp,got))
        if qp.QueuingManager.recording(): bad['C41stack'].append(1)
    except Exception as e: bad['C41exc'].append(repr(e)[:100])
# ---- C66 local decomps isolation with threads
from pennylane.decomposition import local_decomps, add_decomps, list_decomps, register_resources
def mkrule(i):
    @register_resources({qp.RZ:1})
    def r(phi,wires,**_): qp.RZ(phi,wires)
    r.tagname='r%d'%i; return r
base_len=len(list_decomps(qp.RX)); errs=[]
barrier=threading.Barrier(4)
def worker(i):
    try:
        barrier.wait()
        with local_decomps():
            rule=mkrule(i); add_decomps(qp.RX,rule)
            barrier.wait()
            ld=list_decomps(qp.RX)
            if len(ld)!=base_len+1 or ld[-1] is not rule: errs.append(('view',i,len(ld)))
            try:
                with local_decomps():
                    add_decomps(qp.RX,mkrule(100+i)); 
                    if len(list_decomps(qp.RX))!=base_len+2: errs.append(('nested',i))
                    raise ValueError
            except ValueError: pass
            if len(list_decomps(qp.RX))!=base_len+1: errs.append(('afterexc',i))
            barrier.wait()
        if len(list_decomps(qp.RX))!=base_len: errs.append(('leak',i,len(list_decomps(qp.RX))))
    except Exception as e: errs.append(('exc',i,repr(e)))
ths=[threading.Thread(target=worker,args=(i,)) for i in range(4)]
[t.start() for t in ths]; [t.join() for t in ths]
if len(list_decomps(qp.RX))!=base_len: errs.append(('global leak',))
if errs: bad['C66']=errs
# ---- C39 vjp/jvp
from pennylane.gradients import compute_vjp_single, compute_vjp_multi, compute_jvp_single, compute_jvp_multi
for it in range(400):
    npar=R.randint(1,4); dim=R.choice([None,2,4])
    if dim is None: jac=tuple(np.array(R.random()) for _ in range(npar)) if npar>1 else np.array(R.random()); dy=np.array(R.random()); J=np.array([np.asarray(jac).ravel()]) if npar==1 else np.array([[float(j) for j in jac]])
    else: jac=tuple(rng.random(dim) for _ in range(npar)) if npar>1 else rng.random(dim); dy=rng.random(dim); J=(np.stack(jac,axis=1) if npar>1 else np.asarray(jac).reshape(dim,1))
    exp=np.ravel(np.atleast_1d(dy))@J
    got=compute_vjp_single(dy,jac)
    if not np.allclose(np.ravel(got),exp): bad['C39vjp_single'].append((npar,dim))
    tan=rng.random(npar)
    gj=compute_jvp_single(tan,jac)
    if not np.allclose(np.ravel(gj),J@tan): bad['C39jvp_single'].append((npar,dim,gj,J@tan))
print({k:(len(v),v[:2]) for k,v in bad.items()})
