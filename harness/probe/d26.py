import numpy as np, pennylane as qp, warnings, itertools, collections, math, random
from scipy.stats import unitary_group
warnings.filterwarnings("ignore")
R=random.Random(97); rng=np.random.default_rng(32)
bad=collections.defaultdict(list)
dev=qp.device('default.qubit')
def state_of(ops,wires):
    return np.asarray(qp.execute([qp.tape.QuantumScript(ops,[qp.state()])],qp.device('default.qubit',wires=wires))[0])
def eq_phase_vec(a,b,tol=1e-7):
    k=np.argmax(np.abs(b)); 
    return abs(a[k])>1e-9 and np.allclose(a*(b[k]/a[k]),b,atol=tol)
def dec_state(op,wires):
    [t],_=qp.transforms.decompose(qp.tape.QuantumScript([op],[qp.state()]),gate_set={qp.RX,qp.RY,qp.RZ,qp.CNOT,qp.GlobalPhase,qp.Hadamard,qp.PhaseShift,qp.X,qp.Y,qp.Z,qp.S,qp.T,qp.CZ,qp.Toffoli,qp.SWAP,qp.ControlledPhaseShift,qp.CRY,qp.CRZ,qp.MultiControlledX})
    allw=list(wires)+[w for w in t.wires if w not in wires]
    st=np.asarray(qp.execute([t],qp.device('default.qubit',wires=allw))[0])
    return st.reshape(2**len(wires),-1)[:,0], t
for it in range(120):
    n=R.randint(1,4); wires=R.sample([0,1,2,3,'a','b'],n)
    kind=R.choice(['complex','real','sparse','signs','basis'])
    v=rng.normal(size=2**n)+(1j*rng.normal(size=2**n) if kind=='complex' else 0)
    if kind=='sparse': v=v*(rng.random(2**n)<0.4); v[R.randrange(2**n)]=1.0
    if kind=='signs': v=np.sign(rng.normal(size=2**n))*rng.random(2**n)
    if kind=='basis': v=np.zeros(2**n); v[R.randrange(2**n)]=1
    v=v/np.linalg.norm(v)
    for name,mk,upto in [('StatePrep',lambda: qp.StatePrep(v,wires=wires),False),('Mottonen',lambda: qp.MottonenStatePreparation(v,wires=wires),True),('AmplitudeEmbedding',lambda: qp.AmplitudeEmbedding(v*3.7,wires=wires,normalize=True),False)]:
        try:
            op=mk()
            s1=state_of([op],wires)
            if not (eq_phase_vec(s1,v) if upto else np.allclose(s1,v,atol=1e-7)): bad[name+'_prim'].append((kind,n))
            s2,t=dec_state(op,wires)
            if not eq_phase_vec(s2,v,1e-6): bad[name+'_decomp'].append((kind,n,np.round(v,3).tolist()))
        except Exception as e: bad[name+'_exc:'+type(e).__name__].append((kind,n,repr(e)[:100]))
# C58: QFT, Select, QROM, Permute, FlipSign, GroverOperator, ControlledSequence, Reflection
for n in range(1,5):
    F=np.array([[np.exp(2j*np.pi*j*k/2**n) for k in range(2**n)] for j in range(2**n)])/np.sqrt(2**n)
    w=R.sample([0,1,2,3,4],n)
    if not np.allclose(qp.matrix(qp.QFT(wires=w),wire_order=w),F): bad['QFT_mat'].append(n)
    [t],_=qp.transforms.decompose(qp.tape.QuantumScript([qp.QFT(wires=w)]),gate_set={qp.Hadamard,qp.ControlledPhaseShift,qp.SWAP,qp.GlobalPhase,qp.PhaseShift,qp.CNOT,qp.RZ})
    if not np.allclose(qp.matrix(t,wire_order=w),F,atol=1e-7): bad['QFT_dec'].append(n)
for it in range(40):
    nc=R.randint(1,2); nt=R.randint(1,2); cw=list(range(nc)); tw=list(range(nc,nc+nt))
    ops=[qp.QubitUnitary(unitary_group.rvs(2**nt,random_state=R.randint(0,999)),wires=tw) if R.random()<0.5 else R.choice([qp.X,qp.Z,qp.Hadamard])(tw[0]) for _ in range(R.randint(1,2**nc))]
    sel=qp.Select(ops,control=cw); wo=cw+tw
    ref=np.zeros((2**(nc+nt),)*2,dtype=complex)
    for i in range(2**nc):
        blk=qp.matrix(ops[i],wire_order=tw) if i<len(ops) else np.eye(2**nt)
        ref[i*2**nt:(i+1)*2**nt,i*2**nt:(i+1)*2**nt]=blk
    try:
        if not np.allclose(qp.matrix(sel,wire_order=wo),ref): bad['Select_mat'].append((nc,nt,len(ops)))
        [t],_=qp.transforms.decompose(qp.tape.QuantumScript([sel]),max_expansion=1)
        if not np.allclose(qp.matrix(t,wire_order=wo),ref,atol=1e-7): bad['Select_dec'].append((nc,nt,len(ops)))
    except Exception as e: bad['Select_exc'].append(repr(e)[:100])
for it in range(60):
    nc=R.randint(1,3); nt=R.randint(1,3); nwk=R.choice([0,nt,2*nt])
    bs=[''.join(R.choice('01') for _ in range(nt)) for _ in range(R.randint(1,2**nc))]
    cw=list(range(nc)); tw=list(range(nc,nc+nt)); ww=list(range(nc+nt,nc+nt+nwk))
    try:
        op=qp.QROM(bs,control_wires=cw,target_wires=tw,work_wires=ww or None,clean=R.choice([True,False]))
        for i in range(len(bs)):
            bits=[int(x) for x in format(i,'0%db'%nc)]
            p=qp.execute([qp.tape.QuantumScript([qp.BasisState(np.array(bits),wires=cw),op],[qp.probs(wires=tw)])],qp.device('default.qubit',wires=cw+tw+ww))[0]
            if int(np.argmax(p))!=int(bs[i],2) or p.max()<1-1e-7: bad['QROM'].append((bs,i,nwk)); break
    except Exception as e: bad['QROM_exc'].append(repr(e)[:100])
for k,v in bad.items(): print(k,len(v),v[:3])
print('done')
