import numpy as np, pennylane as qp, warnings, itertools, collections, math, random
from pennylane import numpy as pnp
warnings.filterwarnings("ignore")
R=random.Random(101); rng=np.random.default_rng(34)
bad=collections.defaultdict(list)
# ---- C61 optimizers vs independent formulas
def cost(x,y): return pnp.sum(pnp.sin(x)*x)+pnp.sum(y**2)*0.3+pnp.sum(x)*pnp.sum(y)*0.1
def grad(x,y):
    gx=np.cos(x)*x+np.sin(x)+0.1*np.sum(y); gy=0.6*y+0.1*np.sum(x); return gx,gy
for it in range(30):
    x0=rng.normal(size=3); y0=rng.normal(size=2); eta=R.choice([0.01,0.1,0.3]); steps=R.randint(1,5)
    impl={}
    refs={}
    # GD
    def run(opt):
        x=pnp.array(x0,requires_grad=True); y=pnp.array(y0,requires_grad=True); cs=[]
        for _ in range(steps):
            (x,y),c=opt.step_and_cost(cost,x,y); cs.append(float(c))
        return np.array(x),np.array(y),cs
    def refrun(update):
        x=x0.copy(); y=y0.copy(); st={}; cs=[]
        for t in range(1,steps+1):
            cs.append(float(cost(x,y))); gx,gy=grad(x,y)
            x,y=update(st,t,(x,y),(gx,gy))
        return x,y,cs
    def gd(st,t,p,g): return tuple(pi-eta*gi for pi,gi in zip(p,g))
    m=0.9
    def mom(st,t,p,g):
        a=st.setdefault('a',[np.zeros_like(pi) for pi in p]); a[:]=[m*ai+eta*gi for ai,gi in zip(a,g)]; return tuple(pi-ai for pi,ai in zip(p,a))
    def adagrad(st,t,p,g):
        a=st.setdefault('a',[np.zeros_like(pi) for pi in p]); a[:]=[ai+gi**2 for ai,gi in zip(a,g)]; return tuple(pi-eta*gi/np.sqrt(ai+1e-8) for pi,gi,ai in zip(p,g,a))
    def rms(st,t,p,g):
        a=st.setdefault('a',[np.zeros_like(pi) for pi in p]); a[:]=[0.9*ai+0.1*gi**2 for ai,gi in zip(a,g)]; return tuple(pi-eta*gi/np.sqrt(ai+1e-8) for pi,gi,ai in zip(p,g,a))
    b1,b2=0.9,0.99
    def adam(st,t,p,g):
        fm=st.setdefault('fm',[np.zeros_like(pi) for pi in p]); sm=st.setdefault('sm',[np.zeros_like(pi) for pi in p])
        fm[:]=[b1*f+(1-b1)*gi for f,gi in zip(fm,g)]; sm[:]=[b2*s+(1-b2)*gi**2 for s,gi in zip(sm,g)]
        lr=eta*np.sqrt(1-b2**t)/(1-b1**t)
        return tuple(pi-lr*f/(np.sqrt(s)+1e-8) for pi,f,s in zip(p,fm,sm))
    for name,opt,upd in [('GD',qp.GradientDescentOptimizer(eta),gd),('Momentum',qp.MomentumOptimizer(eta,momentum=m),mom),('Adagrad',qp.AdagradOptimizer(eta),adagrad),('RMSProp',qp.RMSPropOptimizer(eta),rms),('Adam',qp.AdamOptimizer(eta,beta1=b1,beta2=b2),adam)]:
        a=run(opt); b=refrun(upd)
        if not (np.allclose(a[0],b[0],atol=1e-9) and np.allclose(a[1],b[1],atol=1e-9) and np.allclose(a[2],b[2],atol=1e-9)): bad['C61_'+name].append((eta,steps))
# ---- C68 kernels postprocessing
from pennylane import kernels as K
for it in range(200):
    n=R.randint(2,6); A=rng.normal(size=(n,n)); S=(A+A.T)/2
    for name,f in [('threshold',K.threshold_matrix),('displace',K.displace_matrix),('flip',K.flip_matrix)]:
        try:
            out=f(S)
            ev=np.linalg.eigvalsh((out+out.T)/2)
            if ev.min()<-1e-8 or not np.allclose(out,out.T,atol=1e-8): bad['C68_'+name].append(ev.min())
        except Exception as e: bad['C68exc_'+name].append(repr(e)[:80])
    X=rng.normal(size=(n,2)); kf=lambda a,b: float(np.exp(-np.sum((a-b)**2)))
    KM=K.square_kernel_matrix(X,kf)
    if not np.allclose(KM,[[kf(a,b) for b in X] for a in X]): bad['C68_square'].append(n)
    X2=rng.normal(size=(3,2)); KM2=K.kernel_matrix(X,X2,kf)
    if not np.allclose(KM2,[[kf(a,b) for b in X2] for a in X]): bad['C68_km'].append(n)
    Y=np.array([R.choice([-1,1]) for _ in range(n)])
    pol=K.polarity(X,Y,kf,normalize=False,rescale_class_labels=False); 
    if not np.isclose(pol,np.sum(np.outer(Y,Y)*KM)): bad['C68_pol'].append((pol,np.sum(np.outer(Y,Y)*KM)))
    ta=K.target_alignment(X,Y,kf,rescale_class_labels=False); T=np.outer(Y,Y)
    if not np.isclose(ta,np.sum(KM*T)/np.sqrt(np.sum(KM*KM)*np.sum(T*T))): bad['C68_ta'].append(ta)
# ---- C59 fourier coefficients
from pennylane.fourier import coefficients
for it in range(100):
    d=R.randint(1,4); c=rng.normal(size=2*d+1)+1j*rng.normal(size=2*d+1); c=(c+np.conj(c[::-1]))/2
    freqs=np.arange(-d,d+1)
    f=lambda x: np.real(sum(ck*np.exp(1j*k*x[0]) for ck,k in zip(c,freqs)))
    got=coefficients(f,1,d)
    exp=np.array([c[d+k] for k in list(range(0,d+1))+list(range(-d,0))])
    if not np.allclose(got,exp,atol=1e-8): bad['C59'].append((d,np.round(got,3).tolist(),np.round(exp,3).tolist()))
# ---- C69 spin models on chain/square
from pennylane import spin
for n in range(2,7):
    for pbc in (False,True):
        H=spin.transverse_ising('chain',[n],coupling=0.7,h=0.3,boundary_condition=pbc)
        edges=[(i,i+1) for i in range(n-1)]+([(n-1,0)] if pbc and n>2 else [])
        ref=sum(-0.7*(qp.Z(i)@qp.Z(j)) for i,j in edges)+sum(-0.3*qp.X(i) for i in range(n))
        if not np.allclose(qp.matrix(H,wire_order=range(n)),qp.matrix(ref,wire_order=range(n))): bad['C69_ising_chain'].append((n,pbc))
for nx,ny in ((2,2),(2,3),(3,3)):
    for pbc in (False,True):
        H=spin.heisenberg('square',[nx,ny],coupling=[1.0,0.5,0.2],boundary_condition=pbc)
        idx=lambda i,j: i*ny+j; edges=set()
        for i in range(nx):
            for j in range(ny):
                for di,dj in ((1,0),(0,1)):
                    a,b=i+di,j+dj
                    if a<nx and b<ny: edges.add(tuple(sorted((idx(i,j),idx(a,b)))))
                    elif pbc:
                        a%=nx; b%=ny
                        if (a,b)!=(i,j) and ((di and nx>2) or (dj and ny>2)): edges.add(tuple(sorted((idx(i,j),idx(a,b)))))
        N=nx*ny
        ref=sum(1.0*(qp.X(a)@qp.X(b))+0.5*(qp.Y(a)@qp.Y(b))+0.2*(qp.Z(a)@qp.Z(b)) for a,b in edges)
        if not np.allclose(qp.matrix(H,wire_order=range(N)),qp.matrix(ref,wire_order=range(N))): bad['C69_heis_square'].append((nx,ny,pbc))
for k,v in bad.items(): print(k,len(v),v[:3])
print('done')
