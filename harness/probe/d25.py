import numpy as np, pennylane as qp, warnings, itertools, collections, math, random
from pennylane import numpy as pnp
warnings.filterwarnings("ignore")
R=random.Random(89); rng=np.random.default_rng(30)
bad=collections.defaultdict(list)
dev=qp.device('default.qubit')
# ---- C24 cut_circuit with manual WireCut
for it in range(60):
    n=R.randint(2,4); ops=[]
    L=R.randint(3,8); cutpos=R.randint(1,L-1)
    for i in range(L):
        if R.random()<0.5: ops.append(R.choice([qp.RX,qp.RY,qp.RZ])(R.uniform(-3,3),R.randrange(n)))
        else: ops.append(R.choice([qp.CNOT,qp.CZ])(R.sample(range(n),2)))
        if i==cutpos: ops.append(qp.WireCut(wires=R.randrange(n)))
        elif R.random()<0.15: ops.append(qp.WireCut(wires=R.randrange(n)))
    ws=R.sample(range(n),R.randint(1,min(2,n)))
    ob=qp.prod(*[R.choice([qp.X,qp.Y,qp.Z])(w) for w in ws]) if len(ws)>1 else R.choice([qp.X,qp.Y,qp.Z])(ws[0])
    t=qp.tape.QuantumScript(ops,[qp.expval(ob)])
    ref=qp.execute([qp.tape.QuantumScript([o for o in ops if o.name!='WireCut'],[qp.expval(ob)])],dev)[0]
    try:
        ts,fn=qp.cut_circuit(t,device_wires=qp.wires.Wires(range(n)))
        got=fn(qp.execute(ts,dev))
        if not np.isclose(got,ref,atol=1e-7): bad['C24'].append(([str(o) for o in ops],str(ob),float(got),float(ref)))
    except Exception as e: bad['C24exc:'+type(e).__name__].append((repr(e)[:100],[str(o) for o in ops]))
# ---- C37 hessian and C38 metric tensor
def circ_factory(s,n,npar):
    RR=random.Random(s); prog=[]
    for _ in range(RR.randint(2,6)):
        if RR.random()<0.6: prog.append((RR.choice([qp.RX,qp.RY,qp.RZ]),RR.randrange(npar),[RR.randrange(n)]))
        elif n>1 and RR.random()<0.5: prog.append((RR.choice([qp.CRX,qp.IsingXX,qp.IsingZZ]),RR.randrange(npar),RR.sample(range(n),2)))
        elif n>1: prog.append((qp.CNOT,None,RR.sample(range(n),2)))
    ob=RR.choice([qp.X,qp.Y,qp.Z])(RR.randrange(n))
    def f(x):
        qp.Hadamard(0)
        for g,pi,w in prog:
            if pi is None: g(wires=w)
            else: g(x[pi],wires=w)
        return qp.expval(ob)
    return f
for it in range(0):
    n=R.randint(1,3); npar=R.randint(1,3); s=R.randint(0,10**9)
    x=pnp.array([R.uniform(-3,3) for _ in range(npar)],requires_grad=True)
    f=circ_factory(s,n,npar)
    qb=qp.QNode(f,dev,diff_method='backprop',max_diff=2)
    Href=np.asarray(qp.jacobian(qp.grad(qb))(x))
    try:
        qps=qp.QNode(f,dev,diff_method='parameter-shift',max_diff=2)
        H1=np.asarray(qp.jacobian(qp.grad(qps))(x))
        if not np.allclose(H1,Href,atol=1e-7): bad['C37nested_ps'].append((s,n,npar))
        H2=np.asarray(qp.gradients.param_shift_hessian(qps)(x))
        if not np.allclose(np.squeeze(H2),np.squeeze(Href),atol=1e-7): bad['C37psh'].append((s,n,npar,np.round(H2,4).tolist(),np.round(Href,4).tolist()))
    except Exception as e: bad['C37exc:'+type(e).__name__].append((s,repr(e)[:100]))
    # metric tensor vs numeric Fubini-Study
    def state_fn(xx):
        def g(y):
            f(y); 
        qs=qp.QNode(lambda y: (f(y),qp.state())[1],dev)
        return None
    try:
        def fs(y):
            circuit=circ_factory(s,n,npar)
            @qp.qnode(dev)
            def st(z):
                circuit(z); return qp.state()
            return st(z=y)
        xs=np.array(x,dtype=float); eps=1e-6
        psi=np.asarray(fs(xs)); d=[]
        for i in range(npar):
            e=np.zeros(npar); e[i]=eps
            d.append((np.asarray(fs(xs+e))-np.asarray(fs(xs-e)))/(2*eps))
        G=np.array([[np.real(np.vdot(d[i],d[j])-np.vdot(d[i],psi)*np.vdot(psi,d[j])) for j in range(npar)] for i in range(npar)])
        qm=qp.QNode(f,qp.device('default.qubit',wires=n+1))
        mt=np.asarray(qp.metric_tensor(qm,approx=None)(x))
        if not np.allclose(mt,G,atol=1e-5): bad['C38full'].append((s,n,npar,np.round(mt,4).tolist(),np.round(G,4).tolist()))
        amt=np.asarray(qp.adjoint_metric_tensor(qp.QNode(f,dev))(x))
        if not np.allclose(amt,G,atol=1e-5): bad['C38adj'].append((s,n,npar))
    except Exception as e: bad['C38exc:'+type(e).__name__].append((s,repr(e)[:120]))
for k,v in bad.items(): print(k,len(v),v[:2])
print('done')
