import sys; sys.path.insert(0,'/tmp/probe')
import numpy as np, pennylane as qp
from sym import S
import pennylane.core.operator.operator2 as o2
o2._init_arg_types=lambda op: None
from pennylane.devices.qubit import apply_operation
def symarr(j,n):
    a=np.empty((1,),dtype=object); a[0]=S.var(j,n); return a
n=3
# symbolic state: amplitudes are formal? use basis columns with constants instead: state = e_k as object array of S consts
def basis(k,nv):
    st=np.empty((2,)*n,dtype=object)
    for idx in np.ndindex(*st.shape): st[idx]=S.const(0,nv)
    st[np.unravel_index(k,st.shape)]=S.const(1,nv)
    return st
res={}
for mk in [lambda: qp.RX(symarr(0,1),wires=1), lambda: qp.CNOT([2,0]), lambda: qp.Hadamard(1), lambda: qp.IsingXX(symarr(0,1),wires=[0,2]), lambda: qp.Toffoli([0,1,2]), lambda: qp.RZ(symarr(0,1),wires=2), lambda: qp.PhaseShift(symarr(0,1),wires=0), lambda: qp.T(1), lambda:qp.MultiControlledX(wires=[0,1,2])]:
    op=mk()
    try:
        cols=[]
        for k in range(2**n):
            out=apply_operation(op,basis(k,1))
            out=np.asarray(out)
            cols.append(out.reshape(-1, 2**n)[-1] if out.size>2**n else out.reshape(-1))
        th=[0.7321]
        M=np.array([[ (x.num(th) if isinstance(x,S) else complex(x)) for x in col] for col in cols]).T
        opn=op.__class__(*( [th[0]] if op.num_params else []),wires=op.wires)
        ref=qp.matrix(opn,wire_order=range(n))
        print(op.name, 'err',np.abs(M-ref).max())
    except Exception as e:
        import traceback; print(op.name,'FAIL',repr(e)[:300])
