import numpy as np, pennylane as qp, warnings, itertools, collections, math, random
from pennylane import numpy as pnp
warnings.filterwarnings("ignore")
R=random.Random(31)
bad=collections.defaultdict(list)
G1=[qp.RX,qp.RY,qp.RZ,qp.PhaseShift]
G2=[qp.CRX,qp.CRY,qp.CRZ,qp.IsingXX,qp.IsingYY,qp.IsingZZ,qp.IsingXY,qp.ControlledPhaseShift,qp.SingleExcitation,qp.PSWAP,qp.SingleExcitationPlus]
def make(n,s,npar):
    RR=random.Random(s)
    prog=[]
    for _ in range(RR.randint(2,7)):
        r=RR.random()
        if r<0.45: prog.append(('g1',RR.choice(G1),RR.randrange(npar),RR.choice([1,1,1,2,-0.5]),[RR.randrange(n)]))
        elif r<0.7 and n>1: prog.append(('g2',RR.choice(G2),RR.randrange(npar),RR.choice([1,1,0.5]),RR.sample(range(n),2)))
        elif r<0.8: prog.append(('rot',qp.Rot,[RR.randrange(npar) for _ in range(3)],1,[RR.randrange(n)]))
        elif n>1: prog.append(('c',qp.CNOT,None,None,RR.sample(range(n),2)))
        else: prog.append(('h',qp.Hadamard,None,None,[0]))
    meas=[]
    for _ in range(RR.randint(1,3)):
        k=RR.random()
        if k<0.5: meas.append(('e',RR.choice([qp.X,qp.Y,qp.Z]),RR.randrange(n)))
        elif k<0.7: meas.append(('v',RR.choice([qp.X,qp.Z]),RR.randrange(n)))
        else: meas.append(('p',None,RR.sample(range(n),RR.randint(1,n))))
    def f(x):
        for kind,g,pi,sc,w in prog:
            if kind in('g1','g2'): g(sc*x[pi],wires=w)
            elif kind=='rot': g(x[pi[0]],x[pi[1]]*0.5,x[pi[2]],wires=w)
            else: g(wires=w)
        out=[]
        for k,o,w in meas:
            out.append(qp.expval(o(w)) if k=='e' else qp.var(o(w)) if k=='v' else qp.probs(wires=w))
        return out
    return f
def jac(qn,x):
    fn=lambda x: pnp.hstack([pnp.ravel(r) for r in qn(x)])
    return np.asarray(qp.jacobian(fn)(x))
for it in range(120):
    n=R.randint(1,3); npar=R.randint(1,3); s=R.randint(0,10**9)
    x=pnp.array([R.uniform(-3,3) for _ in range(npar)],requires_grad=True)
    dev=qp.device('default.qubit')
    ref=None
    for dm in ('backprop','parameter-shift','adjoint','hadamard','finite-diff'):
        try:
            qn=qp.QNode(make(n,s,npar),dev,diff_method=dm)
            J=jac(qn,x)
        except Exception as e:
            bad[dm+'_exc:'+type(e).__name__].append((s,repr(e)[:90])); continue
        if ref is None: ref=J; continue
        tol=1e-4 if dm=='finite-diff' else 1e-7
        if J.shape!=ref.shape or not np.allclose(J,ref,atol=tol): bad[dm].append((s,n,npar,np.abs(J-ref).max() if J.shape==ref.shape else 'shape'))
print({k:(len(v),v[:3]) for k,v in bad.items()})
