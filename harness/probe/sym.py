# throwaway feasibility probe: symbolic scalars for executing PennyLane compute_matrix on formal angles
from fractions import Fraction as Fr
import numpy as np, math, cmath

# element: dict monomial -> coeff in Q(zeta8) ; monomial = tuple of ints (exponents of z_j = exp(i theta_j / D))
D = 8
Z8 = [cmath.exp(1j*math.pi*k/4) for k in range(4)]
def k_add(a,b): return tuple(x+y for x,y in zip(a,b))
def k_mul(a,b):
    r=[Fr(0)]*4
    for i,x in enumerate(a):
        if x==0: continue
        for j,y in enumerate(b):
            if y==0: continue
            k=i+j
            if k>=4: r[k-4]-=x*y
            else: r[k]+=x*y
    return tuple(r)
KZERO=(Fr(0),)*4
def k_from_complex(c):
    c=complex(c)
    # recognise a + b*sqrt2 + i(c + d sqrt2) with small rationals ; sqrt2 = z - z^3 ; i = z^2
    best=None
    def rec(x):
        for den in (1,2,3,4,6,8,16):
            for b in range(-8*den,8*den+1):
                a=x-b/den*math.sqrt(2)
                ar=Fr(a).limit_denominator(64)
                if abs(float(ar)-a)<1e-13: return ar,Fr(b,den)
        raise ValueError(f"unrecognised constant {x}")
    ra,rb=rec(c.real); ia,ib=rec(c.imag)
    # real: ra + rb*(z - z^3); imag: i*(ia + ib (z - z^3)) = ia z^2 + ib (z^3 - z^5)= ia z^2 + ib z^3 + ib z
    return (ra, rb+ib, ia, -rb+ib)
class S:
    __array_priority__=1000
    def __init__(self, terms=None, lin=None, nvars=0):
        self.t = {m:c for m,c in (terms or {}).items() if any(c)}
        self.lin = lin  # if this is a pure real linear form in thetas: (coeffs tuple of Fr, const multiple of pi as Fr)
        self.n = nvars
    @staticmethod
    def const(c,n):
        if isinstance(c,S): return c
        if isinstance(c,(int,Fr)): k=(Fr(c),Fr(0),Fr(0),Fr(0)); lin=((Fr(0),)*n, None) if c!=0 else ((Fr(0),)*n, Fr(0))
        else:
            k=k_from_complex(c); lin=None
            cc=complex(c)
            if cc.imag==0:
                r=Fr(cc.real/math.pi).limit_denominator(64)
                if abs(float(r)*math.pi-cc.real)<1e-13: lin=((Fr(0),)*n, r)
        s=S({(0,)*n:k},None,n)
        s.lin=lin if lin and lin[1] is not None else None
        if isinstance(c,(int,Fr)) : s.rat=Fr(c)
        elif complex(c).imag==0 and abs(complex(c).real-round(complex(c).real*64)/64)<1e-15: s.rat=Fr(complex(c).real).limit_denominator(64)
        return s
    @staticmethod
    def var(j,n):
        # theta_j as linear form; as a ring element it is NOT representable -> terms None
        s=S(None,(tuple(Fr(1) if i==j else Fr(0) for i in range(n)),Fr(0)),n); s.t=None; return s
    def _co(self,o): return S.const(o,self.n)
    def __add__(self,o):
        o=self._co(o)
        lin=None
        if self.lin is not None and o.lin is not None:
            lin=(tuple(a+b for a,b in zip(self.lin[0],o.lin[0])), self.lin[1]+o.lin[1])
        if self.t is None or o.t is None:
            if lin is None: raise ValueError("nonlinear use of angle")
            r=S(None,lin,self.n); r.t=None; return r
        t=dict(self.t)
        for m,c in o.t.items(): t[m]=k_add(t.get(m,KZERO),c)
        return S(t,lin,self.n)
    __radd__=__add__
    def __neg__(self): return self*(-1)
    def __sub__(self,o): return self+(-self._co(o))
    def __rsub__(self,o): return (-self)+o
    def __mul__(self,o):
        o=self._co(o)
        if self.t is None or o.t is None:
            a,b=(self,o) if self.t is None else (o,self)
            if b.t is None: raise ValueError("angle*angle")
            # b must be a constant: rational real, or rational*i, or rational*pi?
            r=getattr(b,'rat',None)
            if r is not None:
                x=S(None,(tuple(c*r for c in a.lin[0]),a.lin[1]*r),self.n); x.t=None; x.im=getattr(a,'im',False); return x
            # imaginary rational
            if len(b.t)==1 and list(b.t)[0]==(0,)*self.n:
                k=list(b.t.values())[0]
                if k[0]==0 and k[1]==0 and k[3]==0 and not getattr(a,'im',False):
                    x=S(None,(tuple(c*k[2] for c in a.lin[0]),a.lin[1]*k[2]),self.n); x.t=None; x.im=True; return x
            raise ValueError("angle * non-rational const")
        t={}
        for m1,c1 in self.t.items():
            for m2,c2 in o.t.items():
                m=tuple(a+b for a,b in zip(m1,m2)); t[m]=k_add(t.get(m,KZERO),k_mul(c1,c2))
        return S(t,None,self.n)
    __rmul__=__mul__
    def __truediv__(self,o):
        if isinstance(o,(int,float)) :
            return self*Fr(1/o).limit_denominator(1024) if not isinstance(o,int) else self*Fr(1,o)
        raise ValueError("div")
    def _angle_monomial(self,scale=1):
        # returns monomial exponents for exp(i*scale*self) ; needs D*coeff integral and const multiple of pi/4
        cs,c0=self.lin
        ex=[]
        for c in cs:
            e=c*D*scale
            if e.denominator!=1: raise ValueError("angle not multiple of theta/D")
            ex.append(int(e))
        p=c0*4*scale
        if p.denominator!=1: raise ValueError("const not multiple of pi/4")
        p=int(p)%8
        k=[Fr(0)]*4
        if p>=4: k[p-4]=Fr(-1)
        else: k[p]=Fr(1)
        return S({tuple(ex):tuple(k)},None,self.n)
    def exp(self):
        if self.t is None and getattr(self,'im',False): return self._angle_monomial()
        raise ValueError("exp of non-imaginary-angle")
    def cos(self):
        if self.t is None and not getattr(self,'im',False):
            e=self._angle_monomial(); ei=self._angle_monomial(-1); return (e+ei)*Fr(1,2)
        raise ValueError
    def sin(self):
        if self.t is None and not getattr(self,'im',False):
            e=self._angle_monomial(); ei=self._angle_monomial(-1); return (e-ei)*S.const(-0.5j,self.n)
        raise ValueError
    def conjugate(self):
        t={}
        for m,c in self.t.items():
            # conj zeta^k = zeta^-k = -zeta^(4-k)
            k=[c[0],-c[3],-c[2],-c[1]]
            t[tuple(-e for e in m)]=tuple(k)
        return S(t,None,self.n)
    conj=conjugate
    def num(self,thetas):
        if self.t is None:
            v=sum(float(c)*th for c,th in zip(self.lin[0],thetas))+float(self.lin[1])*math.pi
            return 1j*v if getattr(self,'im',False) else v
        tot=0
        for m,c in self.t.items():
            ph=sum(e*th/D for e,th in zip(m,thetas))
            tot+=sum(float(x)*Z8[i] for i,x in enumerate(c))*cmath.exp(1j*ph)
        return tot
    def __repr__(self):
        if self.t is None: return f"Ang{self.lin}{'i' if getattr(self,'im',False) else ''}"
        return "S"+str({m:tuple(str(x) for x in c) for m,c in self.t.items()})
    def __eq__(self,o):
        o=self._co(o); return self.t==o.t
    def __hash__(self): return 0
    def __bool__(self): return bool(self.t)
    def __complex__(self): raise TypeError("symbolic")
    def __float__(self): raise TypeError("symbolic")
