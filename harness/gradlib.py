"""Shared translator pieces for the differentiation properties (C34, C37, C38).

A tape whose trainable gate parameters are FORMAL angles (0-d object arrays holding qsym.Lin) is pushed through the
real PennyLane gradient transforms; the shifted tapes they return are translated gate by gate (qx.op_matrix_sym runs
PennyLane's own matrix code on the formal angles) into exact circuits over Q(zeta_N)[z_j^{+-1}], z_j = exp(i theta_j/D).
The post-processing function of the transform is linear in the tape results for expval/probs; its coefficient matrix
is read off by feeding one-hot results, and every entry is recognised as an exact constant.  The Coq obligation
`shift_rule_ok` (coq/Lin/Grad.v, soundness: Lin/GradSound.v shift_rule_ok_forall) then states that the linear combination
of the shifted tapes' exact expectation values IS the partial derivative, for all real parameter values.
"""
import sys, itertools, cmath, math
sys.path.insert(0, "/verif/harness")
import numpy as np
import qsym
from qsym import Sym, Lin, Fr, NotExtractable, set_cfg
from qx import install_patches, op_matrix_sym, g_gate, g_mat, g_nats, mat_to_sym
import pennylane as qp

NCFG, DCFG = 16, 4          # zeta = exp(2 pi i/16) (hz = 8);  z_j = exp(i theta_j / 4)

GRAD_HEADER = """From Coq Require Import List ZArith QArith Bool.
From PLV Require Import Alg.Poly Alg.DerivDef Lin.Vec Lin.PVec Lin.Grad.
Import ListNotations.
Open Scope Q_scope.
"""


def cfg(nvars):
    install_patches()
    set_cfg(NCFG, DCFG, nvars)


def fvar(j, scale=1, shift=0):
    """0-d object array holding the formal angle  scale*theta_j + shift"""
    a = np.empty((), dtype=object)
    l = Lin.var(j)
    if scale != 1:
        l = l.scale(Fr(scale))
    if shift:
        l = l + Lin.of(shift)
    a[()] = l
    return a


def s_const(M):
    return [[Sym.of(x) for x in row] for row in M]


def s_apply(n, ws, M, v):
    k = len(ws)
    out = []
    for i in range(1 << n):
        bits = [(i >> (n - 1 - t)) & 1 for t in range(n)]
        r = 0
        for w in ws:
            r = (r << 1) | bits[w]
        acc = Sym.of(0)
        for x in range(1 << k):
            m = M[r][x]
            if not m.t:
                continue
            cb = list(bits)
            for t, w in enumerate(ws):
                cb[w] = (x >> (k - 1 - t)) & 1
            j = 0
            for bb in cb:
                j = (j << 1) | bb
            if v[j].t:
                acc = acc + m * v[j]
        out.append(acc)
    return out


def to_batched(op):
    """formal 0-d parameters -> shape (1,) object arrays (the form qx.op_matrix_sym extracts matrices from)"""
    from pennylane.pytrees import flatten, unflatten
    leaves, struct = flatten(op)
    new = []
    ch = False
    for d in leaves:
        if isinstance(d, np.ndarray) and d.dtype == object and d.ndim == 0:
            e = np.empty((1,), dtype=object)
            e[0] = d[()]
            new.append(e)
            ch = True
        elif isinstance(d, (Lin, Sym)):
            e = np.empty((1,), dtype=object)
            e[0] = d
            new.append(e)
            ch = True
        else:
            new.append(d)
    return unflatten(new, struct) if ch else op


def tape_gates(tape, wire_order):
    """[(wire indices, symbolic matrix)] of the tape's operations"""
    gates = []
    for o in tape.operations:
        if o.name in ("Barrier", "Snapshot", "Identity") and not o.data:
            continue
        S = op_matrix_sym(to_batched(o))
        ws = [wire_order.index(w) for w in o.wires]
        if len(o.wires) == 0:        # wire-less global phase: put the scalar on wire 0
            c = S[0][0]
            S = [[c, Sym.of(0)], [Sym.of(0), c]]
            ws = [0]
        gates.append((ws, S))
    return gates


def meas_components(m, wire_order):
    """the scalar components of a measurement as observables: list of (label, [(coef Sym, [(ws, matrix)])])"""
    name = type(m).__name__
    if name == "ExpectationMP":
        S = op_matrix_sym(to_batched(m.obs))
        ws = [wire_order.index(w) for w in m.obs.wires]
        return [("expval", [(Sym.of(1), [(ws, S)])])]
    if name == "ProbabilityMP":
        wires = list(m.wires) if len(m.wires) else list(wire_order)
        ws = [wire_order.index(w) for w in wires]
        d = 1 << len(ws)
        pre, post = [], []
        if m.obs is not None:      # probabilities in the eigenbasis of obs:  D^dagger P_i D
            for g in m.obs.diagonalizing_gates():
                S = op_matrix_sym(to_batched(g))
                gw = [wire_order.index(w) for w in g.wires]
                pre.append((gw, S))
                post.insert(0, (gw, [[S[c][r].conjugate() for c in range(len(S))] for r in range(len(S))]))
        return [(f"probs[{i}]", [(Sym.of(1), pre + [(ws, s_const([[1 if (r == c == i) else 0 for c in range(d)] for r in range(d)]))] + post)])
                for i in range(d)]
    raise NotExtractable(f"measurement {name} is not linear in the state's density matrix components used here")


def sym_state(gates, n):
    v = [Sym.of(1 if i == 0 else 0) for i in range(1 << n)]
    for ws, S in gates:
        v = s_apply(n, ws, S, v)
    return v


def sym_expect(state, obs, n):
    tot = Sym.of(0)
    for c, gs in obs:
        w = state
        for ws, S in gs:
            w = s_apply(n, ws, S, w)
        acc = Sym.of(0)
        for a, b in zip(state, w):
            if a.t and b.t:
                acc = acc + a.conjugate() * b
        tot = tot + c * acc
    return tot


def sym_pderiv(S, j):
    """d/d theta_j of a ring element (z_j = exp(i theta_j / D))"""
    h = qsym.hz()
    assert h % 2 == 0
    I = qsym.k_zeta_pow(h // 2)
    t = {}
    for m, c in S.t.items():
        e = m[j] if j < len(m) else 0
        if e:
            t[m] = qsym.k_scale(qsym.k_mul(c, I), Fr(e, qsym.CFG.D))
    return Sym(t)


def g_circ(gates):
    return "[" + ";\n  ".join(g_gate(ws, S) for ws, S in gates) + "]"


def g_obs(obs):
    return "[" + "; ".join(f"({c.gallina()}, {g_circ(gs)})" for c, gs in obs) + "]"


def g_tape(gates, obs):
    return f"({g_circ(gates)},\n  {g_obs(obs)})"


def split_batch(tape):
    """the unbatched tapes of a broadcasted tape (own implementation: picks element b of every batched leaf)"""
    from pennylane.pytrees import flatten, unflatten
    bs = tape.batch_size
    if not bs:
        return [tape]
    out = []
    for b in range(bs):
        ops = []
        for o in tape.operations:
            if not getattr(o, "batch_size", None):
                ops.append(o)
                continue
            leaves, struct = flatten(o)
            new = []
            for d in leaves:
                if isinstance(d, np.ndarray) and d.ndim >= 1 and d.shape[0] == bs and d.ndim == (1 if d.dtype == object or True else 1):
                    e = d[b]
                    if d.dtype == object and not isinstance(e, np.ndarray):
                        a = np.empty((), dtype=object)
                        a[()] = e
                        e = a
                    new.append(e)
                else:
                    new.append(d)
            ops.append(unflatten(new, struct))
        out.append(qp.tape.QuantumScript(ops, tape.measurements, trainable_params=tape.trainable_params))
    return out


def expand_batches(tapes):
    """[(k, b, unbatched tape)] for a list of possibly broadcasted tapes"""
    out = []
    for k, t in enumerate(tapes):
        for b, u in enumerate(split_batch(t)):
            out.append((k, b, u))
    return out


def _mshape(t, m):
    shp = tuple(m.shape(None, len(t.wires)))
    return ((t.batch_size,) + shp) if t.batch_size else shp


def flatten_results(res):
    out = []
    if isinstance(res, (tuple, list)):
        for r in res:
            out += flatten_results(r)
    else:
        out += [x for x in np.asarray(res, dtype=float).reshape(-1)]
    return out


def result_shape_like(tape):
    """zero results of the right structure for one tape (analytic)"""
    rs = []
    for m in tape.measurements:
        shp = m.shape(None, len(tape.wires))
        rs.append(np.zeros(shp) if shp else np.float64(0.0))
    return rs[0] if len(rs) == 1 else tuple(rs)


def linear_coefficients(fn, tapes, rng, tol=1e-10):
    """fn is the transform's post-processing.  Returns (C, slots) where slots = [(tape k, batch b, measurement m, comp i)]
    and C[row][slot] is the coefficient of that result component in flattened output row; verifies linearity numerically."""
    slots = []
    for k, t in enumerate(tapes):
        for mi, m in enumerate(t.measurements):
            shp = _mshape(t, m)
            bs = t.batch_size or 1
            sz = (int(np.prod(shp)) if shp else 1) // bs
            for b in range(bs):
                for i in range(sz):
                    slots.append((k, b, mi, i))

    def build(vec):
        res = []
        p = 0
        for k, t in enumerate(tapes):
            rs = []
            for mi, m in enumerate(t.measurements):
                shp = _mshape(t, m)
                sz = int(np.prod(shp)) if shp else 1
                a = np.array(vec[p:p + sz], dtype=float)
                p += sz
                rs.append(a.reshape(shp) if shp else np.float64(a[0]))
            res.append(rs[0] if len(rs) == 1 else tuple(rs))
        return tuple(res)

    zero = flatten_results(fn(build([0.0] * len(slots))))
    if any(abs(x) > tol for x in zero):
        raise NotExtractable("post-processing is not linear (non-zero output on zero results)")
    cols = []
    for s in range(len(slots)):
        v = [0.0] * len(slots)
        v[s] = 1.0
        cols.append(flatten_results(fn(build(v))))
    rows = len(zero)
    C = [[cols[s][r] for s in range(len(slots))] for r in range(rows)]
    for _ in range(2):
        v = [rng.uniform(-1, 1) for _ in slots]
        got = flatten_results(fn(build(v)))
        exp = [sum(C[r][s] * v[s] for s in range(len(slots))) for r in range(rows)]
        if any(abs(a - b) > 1e-8 for a, b in zip(got, exp)):
            raise NotExtractable("post-processing is not linear in the tape results")
    return C, slots


# ----------------------------------------------------------------------------- degree-2 post-processing (metric tensor)
def quadratic_coefficients(fn, tapes, rng, tol=1e-9):
    """fn(results) is assumed to be a polynomial of degree <= 2 in the flattened tape results r (metric_tensor:
    covariances are products of probabilities).  Returns (rows, slots) with rows[r] = (c0, lin{a: c}, quad{(a,b): c}, a<=b);
    the model is verified on random inputs."""
    slots = []
    for k, t in enumerate(tapes):
        for mi, m in enumerate(t.measurements):
            shp = _mshape(t, m)
            bs = t.batch_size or 1
            sz = (int(np.prod(shp)) if shp else 1) // bs
            for b in range(bs):
                for i in range(sz):
                    slots.append((k, b, mi, i))
    N = len(slots)

    def build(vec):
        res = []
        p = 0
        for k, t in enumerate(tapes):
            rs = []
            for mi, m in enumerate(t.measurements):
                shp = _mshape(t, m)
                sz = int(np.prod(shp)) if shp else 1
                a = np.array(vec[p:p + sz], dtype=float)
                p += sz
                rs.append(a.reshape(shp) if shp else np.float64(a[0]))
            res.append(rs[0] if len(rs) == 1 else tuple(rs))
        return tuple(res)

    def f(vec):
        return np.array(flatten_results(fn(build(list(vec)))), dtype=float)
    z = np.zeros(N)
    f0 = f(z)
    R = len(f0)
    f1, f2 = [], []
    for a in range(N):
        e = z.copy(); e[a] = 1.0
        f1.append(f(e))
        e[a] = 2.0
        f2.append(f(e))
    A = np.zeros((R, N, N))
    B = np.zeros((R, N))
    for a in range(N):
        # f(e) = c0 + b + q ; f(2e) = c0 + 2b + 4q
        q = (f2[a] - 2 * f1[a] + f0) / 2.0
        b = f1[a] - f0 - q
        A[:, a, a] = q
        B[:, a] = b
    for a in range(N):
        for b2 in range(a + 1, N):
            e = z.copy(); e[a] = 1.0; e[b2] = 1.0
            A[:, a, b2] = f(e) - f1[a] - f1[b2] + f0
    for _ in range(3):
        v = np.array([rng.uniform(-1, 1) for _ in range(N)])
        got = f(v)
        exp = f0 + B @ v + np.einsum("rab,a,b->r", A, v, v)
        if np.max(np.abs(got - exp)) > 1e-8:
            raise NotExtractable("post-processing is not a polynomial of degree <= 2 in the tape results")
    rows = []
    for r in range(R):
        lin = {a: B[r, a] for a in range(N) if abs(B[r, a]) > tol}
        quad = {(a, b2): A[r, a, b2] for a in range(N) for b2 in range(a, N) if abs(A[r, a, b2]) > tol}
        rows.append((f0[r] if abs(f0[r]) > tol else 0.0, lin, quad))
    return rows, slots


def sym_inner(u, v):
    acc = Sym.of(0)
    for a, b in zip(u, v):
        if a.t and b.t:
            acc = acc + a.conjugate() * b
    return acc


def sym_metric(state, nparams):
    """exact Fubini-Study metric polynomials G[i][j] of a symbolic state"""
    ds = [[sym_pderiv(a, j) for a in state] for j in range(nparams)]
    G = [[None] * nparams for _ in range(nparams)]
    for i in range(nparams):
        for j in range(nparams):
            z = sym_inner(ds[i], ds[j]) - sym_inner(ds[i], state) * sym_inner(state, ds[j])
            G[i][j] = (z + z.conjugate()) * Fr(1, 2)
    return G
