"""Copies CONFIRMED seeded changes from /tmp/mut_<id>_out + /tmp/seed_results into /verif/seeded/<ID>/ and records whether
our check detected them.  Usage: seed_collect.py [notes.json]  (notes: {"C05_1": "strengthened: ..."} )"""
import json, glob, os, shutil, sys, re
notes = json.load(open("/verif/seeded/notes.json")) if os.path.exists("/verif/seeded/notes.json") else {}
kept = 0
for f in sorted(glob.glob("/tmp/seed_results/C??_?.json")):
    try:
        r = json.load(open(f))
    except Exception:
        continue
    pid, i = r["pid"], r["i"]
    out = f"/tmp/mut_{pid.lower()}_out"
    ok = (r.get("import") == "ok" and isinstance(r.get("suite"), dict) and r["suite"].get("not_passing") == 0
          and r.get("clean_demo", "").startswith("PROPERTY HOLDS") and r.get("mutated_demo", "").startswith("PROPERTY VIOLATED"))
    if not ok:
        continue
    d = f"/verif/seeded/{pid}"
    os.makedirs(d, exist_ok=True)
    for name in (f"patch{i}.diff", f"demo{i}.py"):
        shutil.copy(f"{out}/{name}", f"{d}/{name}")
    try:
        meta = json.load(open(f"{out}/meta{i}.json"))
    except Exception:
        meta = {"property": pid}
    nv = r.get("check_violations") or 0
    other = re.match(r"detected by \./check (C\d\d)", notes.get(f"{pid}_{i}", ""))
    lines = [l for l in r.get("check_output", "").splitlines() if l.startswith("VIOLATION") or l.startswith("[")]
    meta.update({"property": pid, "confirmed": {"patch_applies_to_repo_head": True, "import_pennylane": "ok", "baseline_tests_still_passing": f"{r['suite']['baseline_tests']}/{r['suite']['baseline_tests']}",
                                                "demo_clean_tree": r["clean_demo"][:200], "demo_changed_tree": r["mutated_demo"][:300]},
                 "detected": "yes" if nv else (f"yes (by ./check {other.group(1)})" if other else "NO"),
                 "detected_by": (f"./check {pid} (quick tier) reported {nv} VIOLATION line(s): " + (lines[-1] if lines else "")) if nv else "./check " + pid + " (quick tier) reported no violation",
                 "note": notes.get(f"{pid}_{i}", "")})
    if notes.get(f"{pid}_{i}"):
        meta["detected_by"] += " — " + notes[f"{pid}_{i}"]
    json.dump(meta, open(f"{d}/meta{i}.json", "w"), indent=1)
    kept += 1
print("kept", kept)
