"""Part-B helpers shared by the differentiation properties: real (unpatched) PennyLane QNodes built from circuit specs,
numeric evaluation of certified polynomials, reference Jacobians with the classical chain rule."""
import sys, json, random, math, cmath, warnings
warnings.filterwarnings("ignore")
import numpy as np
import pennylane as qp

PI = math.pi


def pnum(P, theta, D):
    return sum(complex(a, b) * cmath.exp(1j * sum(e * t / D for e, t in zip(m, theta))) for a, b, m in P)

def word_op(word, ws):
    P = {"X": qp.X, "Y": qp.Y, "Z": qp.Z}
    o = P[word[0]](ws[0])
    for c, w in zip(word[1:], ws[1:]):
        o = o @ P[c](w)
    return o


def meas_of(m):
    if m["k"] == "expval":
        return qp.expval(word_op(m["word"], m["wires"]))
    if m["k"] == "var":
        return qp.var(word_op(m["word"], m["wires"]))
    if m["k"] == "probs":
        return qp.probs(wires=m["wires"])
    if m["k"] == "ham":
        return qp.expval(qp.Hamiltonian([t[0] for t in m["terms"]], [word_op(t[1], t[2]) for t in m["terms"]]))
    raise ValueError(m)


def expr_val(e, x, M):
    """value of a gate-parameter expression with the math module M (np / autograd / jax / torch)"""
    if e[0] == "fix":
        return e[1]
    if e[0] == "lin":
        return e[2] * x[e[1]] + e[3]
    if e[0] == "prod":
        return x[e[1]] * x[e[2]]
    if e[0] == "sin":
        return M.sin(x[e[1]])
    if e[0] == "sq":
        return x[e[1]] ** 2
    raise ValueError(e)


def expr_grad(e, x):
    g = [0.0] * len(x)
    if e[0] == "lin":
        g[e[1]] = e[2]
    elif e[0] == "prod":
        g[e[1]] += x[e[2]]
        g[e[2]] += x[e[1]]
    elif e[0] == "sin":
        g[e[1]] = math.cos(x[e[1]])
    elif e[0] == "sq":
        g[e[1]] = 2 * x[e[1]]
    return g


# ------------------------------------------------------------------ Part B: configurations
def make_qnode(spec, interface, diff_method, extra):
    import pennylane as qp
    dev = qp.device("default.qubit", wires=spec["nw"] + (1 if diff_method == "hadamard" else 0))
    kw = dict(extra)
    gk = kw.pop("gradient_kwargs", {})

    if interface == "torch":
        import torch as M
    elif interface.startswith("jax"):
        import jax.numpy as M
    else:
        from pennylane import numpy as M

    @qp.qnode(dev, interface="jax" if interface == "jax-jit" else interface, diff_method=diff_method, gradient_kwargs=gk, **kw)
    def circ(x):
        for s in spec["steps"]:
            ps = [expr_val(p, x, M) for p in s["params"]]
            getattr(qp, s["name"])(*ps, wires=s["wires"])
        return tuple(meas_of(m) for m in spec["meas"])

    def cost(x):
        res = circ(x)
        return qp.math.hstack([qp.math.reshape(r, (-1,)) for r in res])
    return cost, circ


def jacobian_in(spec, interface, diff_method, extra, xval):
    cost, circ = make_qnode(spec, interface, diff_method, extra)
    if interface == "autograd":
        from pennylane import numpy as pnp
        x = pnp.array(xval, requires_grad=True)
        return np.asarray(qp.jacobian(cost)(x), dtype=float)
    if interface == "jax":
        import jax
        jax.config.update("jax_enable_x64", True)
        return np.asarray(jax.jacobian(cost)(jax.numpy.array(xval)), dtype=float)
    if interface == "jax-jit":
        import jax
        jax.config.update("jax_enable_x64", True)
        return np.asarray(jax.jit(jax.jacobian(cost))(jax.numpy.array(xval)), dtype=float)
    if interface == "torch":
        import torch
        x = torch.tensor(xval, dtype=torch.float64, requires_grad=True)
        return np.asarray(torch.autograd.functional.jacobian(cost, x).detach().numpy(), dtype=float)
    raise ValueError(interface)


def reference_jacobian(spec, refs_all, tp, xval, D=4):
    """rows in measurement order (var included) x QNode args; also the gate-level gradient G and d theta / d x"""
    theta = []
    for (si, pi) in tp:
        theta.append(expr_val(spec["steps"][si]["params"][pi], xval, math))
    dth = [expr_grad(spec["steps"][si]["params"][pi], xval) for (si, pi) in tp]
    rows, vals, G = [], [], []
    for r in refs_all:
        if r["kind"] == "lin":
            g = [pnum(r["dE"][p], theta, D) for p in range(len(tp))]
            val = pnum(r["E"], theta, D)
        else:   # var = <O^2> - <O>^2
            e1 = pnum(r["E"], theta, D)
            g = [pnum(r["dE2"][p], theta, D) - 2 * e1 * pnum(r["dE"][p], theta, D) for p in range(len(tp))]
            val = pnum(r["E2"], theta, D) - e1 * e1
        g = [complex(z) for z in g]
        assert all(abs(z.imag) < 1e-9 for z in g), g
        G.append([z.real for z in g])
        rows.append([sum(g[p].real * dth[p][a] for p in range(len(tp))) for a in range(len(xval))])
        vals.append(complex(val).real)
    return np.array(rows, dtype=float), np.array(vals, dtype=float), np.array(G, dtype=float).reshape(len(rows), len(tp)), np.array(dth, dtype=float).reshape(len(tp), len(xval)), theta


def numeric_tape(spec, theta_by_tp, tp):
    ops = []
    train = []
    idx = 0
    for si, s in enumerate(spec["steps"]):
        ps = []
        for pi, p in enumerate(s["params"]):
            if p[0] == "fix":
                ps.append(p[1])
            else:
                ps.append(qp.numpy.array(theta_by_tp[tp.index((si, pi))], requires_grad=True))
                train.append(idx)
            idx += 1
        ops.append(getattr(qp, s["name"])(*ps, wires=s["wires"]))
    return qp.tape.QuantumScript(ops, [meas_of(m) for m in spec["meas"]], trainable_params=train)


