"""C60 Classical-shadow estimators are exactly unbiased."""
from vlib import *
import itertools
import math
from fractions import Fraction as Fr

import numpy as np

PID = "C60"
META = {
    "level": "proof",
    "technique": "Coq proof (tensor induction over a quad-tree operator model with Gaussian-rational scalars) + exact "
                 "vm_compute correspondence on FULL enumerations of recipes x outcomes against ClassicalShadow; "
                 "statistical tie for device measurements",
    "design_ref": "DESIGN.md §3 C60",
    "text": "13 kernel-checked theorems (Props/C60.v, closed under the global context): for EVERY n and every "
            "2^n x 2^n complex-rational matrix rho the probability-weighted sum over all 3^n recipes and 2^n outcomes "
            "of the snapshot (x)(3 U^dag|b><b|U - I) equals rho (snapshot_unbiased_1q with formal entries, "
            "snapshot_unbiased_n by induction over the tensor structure); the enumeration is complete (6^n rows); the "
            "weights sum to tr rho; the local snapshot formula of local_snapshots equals 3 U^dag|b><b|U - I for the "
            "unitary rotations H, H S^dag, I; pauli_expval's value equals tr(snapshot P); its probability-weighted sum "
            "equals tr(rho P) for every Pauli word and every rational linear combination; the recorded tables have the "
            "documented form. Tie (every run, current /repo): for random rational density matrices (and arbitrary "
            "non-Hermitian rational matrices) on 1-3 qubits ALL 6^n (recipes, bits) rows are fed to the real "
            "ClassicalShadow.local_snapshots/global_snapshots/expval (single-snapshot shadows, random wire_map, "
            "Pauli words and sums in Hamiltonian/sum/bare form); every snapshot entry and every estimate is compared "
            "EXACTLY with the model inside Coq, and the implementation's outputs weighted with the exact Born "
            "probabilities are checked (in Coq and again with Fractions in Python) to equal rho and tr(rho H) exactly. "
            "The observables used by local_snapshots and the diagonalising matrices used by "
            "process_state_with_shots are exported from the running code and compared with the model. Device "
            "measurements (default.qubit, qml.classical_shadow / qml.shadow_expval): documented shape/dtype/ranges "
            "(checked by the Coq predicate), impossible (probability-0) recipe/outcome rows never occur, chi-square of "
            "the joint recipe/outcome histogram against the exact distribution, recipes uniform, shadow_expval within "
            "7 sigma of the exact value using the variance bound sum|c_k| 3^(w_k/2)/sqrt(T).",
    "note": "Trusted: Coq kernel; the hand transcription in coq/Num/ShadowsModel.v (tied by exact correspondence on full "
            "enumerations for n<=3 only; the theorems cover all n for the model). The device sampling path is tied "
            "only statistically (plus the exported diagonalisers and the zero-probability test); median-of-means with "
            "k>1, entropy(), snapshots= subsampling, other interfaces (torch/jax/tf), process_density_matrix_with_shots "
            "and non-default devices are not covered. Nonnegativity of the weights (rho PSD) is not stated in Coq. "
            "Floating point: all compared implementation outputs are exactly representable dyadic numbers "
            "(coefficients are multiples of 1/8). The Coq predicate well_formed is evaluated on the first 400 rows "
            "of each device record (Python evaluates the same ranges on all rows). KNOWN on the pinned tree: "
            "qml.shadow_expval returns estimates for the wrong qubits when the tape is remapped to standard wires "
            "(ShadowExpvalMP keeps its observable in .H, which MeasurementProcess.map_wires does not remap); reported "
            "under the stable key direct:device:shadow_expval-after-wire-remap by a fixed regression case.",
    "assumptions": ["expval k=1 (mean); k>1 median-of-means not modelled",
                    "device statistics: thresholds p>1e-9 (chi-square) and 7 sigma; seeds derived from VERIF_SEED"],
    "trusted": ["hand-written model coq/Num/ShadowsModel.v tied to /repo by exact correspondence on full enumerations (n<=3)",
                "numpy float arithmetic on dyadic numbers is exact (used to convert implementation outputs to integers)"],
}

SIX = [(r, b) for r in range(3) for b in range(2)]
S2 = 1 / math.sqrt(2)
PAULI = [np.array([[0, 1], [1, 0]], dtype=complex), np.array([[0, -1j], [1j, 0]], dtype=complex),
         np.array([[1, 0], [0, -1]], dtype=complex)]
ROT = [np.array([[1, 1], [1, -1]], dtype=complex) * S2, np.array([[1, -1j], [1, 1j]], dtype=complex) * S2,
       np.eye(2, dtype=complex)]                      # the model's rotations (rot_num / sqrt(rot_norm2))


# ------------------------------------------------------------------ exact Gaussian-rational matrices (object arrays)
class GM:
    """matrix over Q(i): re, im object arrays of Fractions"""
    def __init__(self, re, im):
        self.re, self.im = re, im

    @staticmethod
    def from_int(re, im):
        f = np.vectorize(Fr, otypes=[object])
        return GM(f(np.array(re, dtype=object)), f(np.array(im, dtype=object)))

    def __matmul__(self, o):
        return GM(self.re.dot(o.re) - self.im.dot(o.im), self.re.dot(o.im) + self.im.dot(o.re))

    def __add__(self, o):
        return GM(self.re + o.re, self.im + o.im)

    def scale(self, cr, ci=Fr(0)):
        return GM(self.re * cr - self.im * ci, self.re * ci + self.im * cr)

    def trace(self):
        return (sum(np.diag(self.re), Fr(0)), sum(np.diag(self.im), Fr(0)))

    def kron(self, o):
        k = lambda a, b: np.kron(a, b)
        return GM(k(self.re, o.re) - k(self.im, o.im), k(self.re, o.im) + k(self.im, o.re))

    def eq(self, o):
        return bool(np.all(self.re == o.re) and np.all(self.im == o.im))

    def dag(self):
        return GM(self.re.T.copy(), -self.im.T.copy())


def gm_eye(d):
    return GM.from_int(np.eye(d, dtype=int), np.zeros((d, d), dtype=int))


G_PAULI = [GM.from_int([[0, 1], [1, 0]], [[0, 0], [0, 0]]), GM.from_int([[0, 0], [0, 0]], [[0, -1], [1, 0]]),
           GM.from_int([[1, 0], [0, -1]], [[0, 0], [0, 0]])]


def g_proj(r, b):          # (I + (-1)^b P_r) / 2
    return (gm_eye(2) + G_PAULI[r].scale(Fr(1 - 2 * b))).scale(Fr(1, 2))


def g_kron_list(ms):
    out = GM.from_int([[1]], [[0]])
    for m in ms:
        out = out.kron(m)
    return out


# ------------------------------------------------------------------ generators
def rand_rho(rng, n, kind):
    d = 2 ** n
    if kind == "corpus0":
        v = np.zeros((d, 1), dtype=object); v[0, 0] = 1
        A = GM.from_int(v, np.zeros((d, 1), dtype=int))
    elif kind == "ghz":
        v = np.zeros((d, 1), dtype=object); v[0, 0] = 1; v[d - 1, 0] = 1
        A = GM.from_int(v, np.zeros((d, 1), dtype=int))
    elif kind == "mixed":
        A = gm_eye(d)
    elif kind == "nonhermitian":
        re = [[rng.randint(-4, 4) for _ in range(d)] for _ in range(d)]
        im = [[rng.randint(-4, 4) for _ in range(d)] for _ in range(d)]
        den = rng.choice([1, 2, 3, 5, 7])
        return GM.from_int(re, im).scale(Fr(1, den)), "nonhermitian"
    else:
        while True:
            r = rng.randint(1, d)
            re = [[rng.randint(-3, 3) for _ in range(r)] for _ in range(d)]
            im = [[rng.randint(-3, 3) for _ in range(r)] for _ in range(d)]
            A = GM.from_int(re, im)
            if (A @ A.dag()).trace()[0] != 0:
                break
    M = A @ A.dag()
    return M.scale(1 / M.trace()[0]), kind


def rand_ham(rng, wm):
    n = len(wm)
    nterms = rng.choice([1, 1, 2, 3, 4])
    h = []
    for _ in range(nterms):
        k = rng.choice([0] + list(range(1, n + 1)) * 3)
        ws = rng.sample(wm, k)
        word = [[w, rng.randint(0, 2)] for w in ws]
        c = rng.choice([k8 for k8 in range(-20, 21) if k8 != 0]) / 8
        h.append([c, word])
    if nterms == 1 and rng.random() < 0.5:
        h[0][0] = 1.0
        if h[0][1]:
            return h, "bare"
    return h, rng.choice(["hamiltonian", "sum"])


def gen_enum_case(rng, n, kind="random"):
    labels = rng.sample(range(0, 12), n)
    if rng.random() < 0.3:
        labels = list(range(n))
    hams, styles = [], []
    for _ in range(rng.randint(2, 4)):
        h, st = rand_ham(rng, labels)
        hams.append(h); styles.append(st)
    # always one full-weight word so that the 3^n factor is exercised
    hams.append([[1.0, [[w, rng.randint(0, 2)] for w in labels]]]); styles.append("bare")
    rho, kind = rand_rho(rng, n, kind)
    return {"n": n, "wire_map": labels, "hams": hams, "styles": styles, "kind": kind,
            "dtype": rng.choice(["int64", "int8"]), "batched_H": rng.random() < 0.5,
            "rho": [[[str(rho.re[i, j]), str(rho.im[i, j])] for j in range(2 ** n)] for i in range(2 ** n)]}


def rho_of(case):
    d = 2 ** case["n"]
    re = np.empty((d, d), dtype=object); im = np.empty((d, d), dtype=object)
    for i in range(d):
        for j in range(d):
            re[i, j] = Fr(case["rho"][i][j][0]); im[i, j] = Fr(case["rho"][i][j][1])
    return GM(re, im)


CLIFF = [("Hadamard", 1), ("S", 1), ("PauliX", 1), ("CNOT", 2), ("CZ", 2), ("SX", 1)]


def gen_device_case(rng, tier, clifford):
    ndev = rng.choice([1, 2, 2, 3, 3, 4])
    dev_wires = list(range(ndev))
    n = rng.randint(1, min(3, ndev))
    wires = rng.sample(dev_wires, n)
    ops = []
    for _ in range(rng.randint(2, 3 + 3 * ndev)):
        if clifford:
            name, k = rng.choice(CLIFF)
            if k > ndev:
                continue
            ops.append([name, rng.sample(dev_wires, k), None])
        else:
            if ndev > 1 and rng.random() < 0.35:
                ops.append(["CNOT", rng.sample(dev_wires, 2), None])
            else:
                ops.append([rng.choice(["RX", "RY", "RZ"]), [rng.choice(dev_wires)], round(rng.uniform(-3.1, 3.1), 6)])
    hams, styles = [], []
    for _ in range(2):
        h, st = rand_ham(rng, wires)
        hams.append(h); styles.append(st)
    shots = (3000 if tier == "quick" else 20000) * (1 if n < 3 else 2)
    return {"dev_wires": dev_wires, "wires": wires, "ops": ops, "shots": shots, "hams": hams, "styles": styles,
            "dev_seed": rng.randint(0, 10 ** 6), "seed": rng.randint(0, 10 ** 6), "clifford": clifford}


# ------------------------------------------------------------------ Gallina printers
def g_zz(re, im):
    return f"({gz(re)}, {gz(im)})"


def g_rat3(re, im):
    re, im = Fr(re), Fr(im)
    den = re.denominator * im.denominator // math.gcd(re.denominator, im.denominator)
    return f"({gz(re * den)}, {gz(im * den)}, {den}%positive)"


def g_frac(f):
    f = Fr(f)
    return f"({gz(f.numerator)}, {f.denominator}%positive)"


def g_mat_int(m):
    return glist(m, lambda row: glist(row, lambda e: g_zz(e[0], e[1])))


def exact_int(x, scale):
    """float x (dyadic) * scale as an exact integer, or None"""
    f = Fr(x) * scale
    return int(f) if f.denominator == 1 else None


def int_matrix(m, scale):
    """m[i][j] = [re, im] floats -> integer pairs (None if an entry is not an integer multiple of 1/scale)"""
    out, ok = [], True
    for row in m:
        o = []
        for re, im in row:
            a, b = exact_int(re, scale), exact_int(im, scale)
            if a is None or b is None:
                ok = False; a, b = 0, 0
            o.append((a, b))
        out.append(o)
    return out, ok


def g_enum_case(case, o, wcode):
    n = case["n"]
    rho = glist(case["rho"], lambda row: glist(row, lambda e: g_rat3(e[0], e[1])))
    wm = glist([wcode[w] for w in case["wire_map"]], gz)
    hams = glist(case["hams"], lambda h: glist(h, lambda t: f"({g_frac(t[0])}, {glist(t[1], lambda wl: f'({gz(wcode[wl[0]])}, {gz(wl[1])})')})"))
    rows, ok = [], True
    for t in range(len(o["recipes"])):
        gs, ok1 = int_matrix(o["global"][t], 2 ** n)
        ls = []
        for q in range(n):
            lq, ok2 = int_matrix(o["local"][t][q], 2)
            ok &= ok2
            ls.append(lq)
        ok &= ok1
        rows.append(f"({glist(o['recipes'][t], gz)}, {glist(o['bits'][t], gz)}, {g_mat_int(gs)}, "
                    f"{glist(ls, g_mat_int)}, {glist(o['vals'][t], g_frac)})")
    return f"({gnat(n)}, {rho}, {wm}, {hams}, {glist(rows)})", ok


# ------------------------------------------------------------------ direct oracles
def direct_enum(case, o):
    """the property itself on the implementation's outputs, exact: returns list of failure descriptions"""
    n, d = case["n"], 2 ** case["n"]
    rho = rho_of(case)
    rows = list(itertools.product(SIX, repeat=n))
    fails = []
    if o["recipes"] != [[x[0] for x in r] for r in rows] or o["bits"] != [[x[1] for x in r] for r in rows]:
        return ["driver did not enumerate the rows in the model order"]
    if o["global_shape"] != [6 ** n, d, d] or o["local_shape"] != [6 ** n, n, 2, 2]:
        fails.append(f"snapshot shapes {o['local_shape']} {o['global_shape']}")
        return fails
    probs = []
    for r in rows:
        P = g_kron_list([g_proj(x[0], x[1]) for x in r])
        tr = (rho @ P).trace()
        probs.append((tr[0] / 3 ** n, tr[1] / 3 ** n))
    if sum(p[0] for p in probs) != rho.trace()[0]:
        fails.append("harness: weights do not sum to tr rho")
    acc = GM.from_int(np.zeros((d, d), dtype=int), np.zeros((d, d), dtype=int))
    f = np.vectorize(Fr, otypes=[object])
    for t, r in enumerate(rows):
        g = np.array(o["global"][t], dtype=float)
        S = GM(f(g[:, :, 0].astype(object)), f(g[:, :, 1].astype(object)))
        acc = acc + S.scale(probs[t][0], probs[t][1])
    if not acc.eq(rho):
        fails.append("probability-weighted average of global_snapshots() differs from rho")
    # expectation of the estimator
    wm = case["wire_map"]
    for k, h in enumerate(case["hams"]):
        exact_re, exact_im = Fr(0), Fr(0)
        for c, word in h:
            ms = [gm_eye(2)] * n
            for w, l in word:
                ms[wm.index(w)] = G_PAULI[l]
            tr = (rho @ g_kron_list(ms)).trace()
            exact_re += Fr(c) * tr[0]; exact_im += Fr(c) * tr[1]
        e_re = sum((probs[t][0] * Fr(o["vals"][t][k]) for t in range(len(rows))), Fr(0))
        e_im = sum((probs[t][1] * Fr(o["vals"][t][k]) for t in range(len(rows))), Fr(0))
        if (e_re, e_im) != (exact_re, exact_im):
            fails.append(f"probability-weighted average of expval(H_{k}) = {e_re}+{e_im}i differs from tr(rho H) = {exact_re}+{exact_im}i")
    return fails


def reduced_density(state, dev_wires, wires):
    nd = len(dev_wires)
    psi = np.array([complex(a, b) for a, b in state]).reshape([2] * nd)
    pos = [dev_wires.index(w) for w in wires]
    rest = [i for i in range(nd) if i not in pos]
    psi = np.transpose(psi, pos + rest).reshape(2 ** len(pos), -1)
    return psi @ psi.conj().T


def joint_probs(rho, n):
    out = {}
    for rs in itertools.product(range(3), repeat=n):
        U = np.array([[1.0 + 0j]])
        for r in rs:
            U = np.kron(U, ROT[r])
        p = np.real(np.diag(U @ rho @ U.conj().T)) / 3 ** n
        for idx, bs in enumerate(itertools.product(range(2), repeat=n)):
            out[(rs, bs)] = max(float(p[idx]), 0.0)
    return out


def chi2_p(obs_counts, exp_counts):
    from scipy.stats import chi2
    big_o, big_e, pool_o, pool_e = [], [], 0.0, 0.0
    for oc, ec in zip(obs_counts, exp_counts):
        if ec < 5:
            pool_o += oc; pool_e += ec
        else:
            big_o.append(oc); big_e.append(ec)
    if pool_e >= 5 or (pool_e > 0 and pool_o > 0 and pool_e >= 1):
        big_o.append(pool_o); big_e.append(pool_e)
    if len(big_o) < 2:
        return 1.0, 0
    stat = sum((a - b) ** 2 / b for a, b in zip(big_o, big_e))
    return float(chi2.sf(stat, len(big_o) - 1)), len(big_o) - 1


def model_est(rec, bits, word):
    s, k = 0, 0
    for q, l in enumerate(word):
        if l is None:
            continue
        if rec[q] != l:
            return 0
        s ^= bits[q]; k += 1
    return (1 - 2 * s) * 3 ** k


def standard_order(case):
    """True iff QuantumScript.map_to_standard_wires leaves the tape alone as far as the operations go:
    the operation wires, in order of first use, are 0, 1, 2, ..."""
    seen = []
    for _, ws, _ in case["ops"]:
        for w in ws:
            if w not in seen:
                seen.append(w)
    return seen == list(range(len(seen)))


def direct_device(case, o):
    fails, info = [], {}
    n, T = len(case["wires"]), case["shots"]
    bits, recipes = o["bits"], o["recipes"]
    if o["shape"] != [2, T, n] or o["dtype"] != "int8":
        fails.append(f"classical_shadow returned shape {o['shape']} dtype {o['dtype']}, documented (2, T, n) int8")
        return fails, info
    if any(b not in (0, 1) for row in bits for b in row) or any(r not in (0, 1, 2) for row in recipes for r in row):
        fails.append("bits/recipes outside the documented ranges")
        return fails, info
    rho = reduced_density(o["state"], case["dev_wires"], case["wires"])
    jp = joint_probs(rho, n)
    counts = {}
    for r, b in zip(recipes, bits):
        key = (tuple(r), tuple(b))
        counts[key] = counts.get(key, 0) + 1
    zero_cells = [k for k, p in jp.items() if p < 1e-12]
    hit = [k for k in zero_cells if counts.get(k, 0) > 0]
    info["zero_cells"] = len(zero_cells)
    if hit:
        fails.append(f"recorded an impossible (probability 0) row recipes={hit[0][0]} bits={hit[0][1]} ({counts[hit[0]]} times)")
    keys = [k for k in jp if jp[k] >= 1e-12]
    p, dof = chi2_p([counts.get(k, 0) for k in keys], [T * jp[k] for k in keys])
    info["joint_p"], info["joint_dof"] = p, dof
    if p < 1e-9:
        fails.append(f"joint recipe/outcome histogram inconsistent with the exact distribution (chi-square p={p:.3g}, dof={dof})")
    rc = {}
    for r in recipes:
        rc[tuple(r)] = rc.get(tuple(r), 0) + 1
    rkeys = list(itertools.product(range(3), repeat=n))
    p2, dof2 = chi2_p([rc.get(k, 0) for k in rkeys], [T / 3 ** n] * len(rkeys))
    info["recipes_p"] = p2
    if p2 < 1e-9:
        fails.append(f"recipes not uniform (chi-square p={p2:.3g})")
    # estimates
    wm = case["wires"]
    for k, h in enumerate(case["hams"]):
        exact, sd, words = 0.0, 0.0, []
        for c, word in h:
            M = np.array([[1.0 + 0j]]); wd = [None] * n
            for w, l in word:
                wd[wm.index(w)] = l
            for q in range(n):
                M = np.kron(M, PAULI[wd[q]] if wd[q] is not None else np.eye(2))
            exact += c * float(np.real(np.trace(rho @ M)))
            sd += abs(c) * 3 ** (len(word) / 2)
            words.append((c, wd))
        bound = 7 * sd / math.sqrt(T) + 1e-9
        for nm in ("shadow_expval", "shadow_expval_from_record"):
            if abs(o[nm][k] - exact) > bound:
                fails.append(f"{nm}(H_{k}) = {o[nm][k]} but exact = {exact} (bound {bound:.4g})")
                if nm == "shadow_expval" and abs(o["shadow_expval_from_record"][k] - exact) <= bound and not standard_order(case):
                    info["remap_suspect"] = True
        # the estimate from the record must be the model's mean of the recorded rows
        mean = sum(sum(Fr(c) * model_est(r, b, wd) for c, wd in words) for r, b in zip(recipes, bits)) / T
        if abs(float(mean) - o["shadow_expval_from_record"][k]) > 1e-9:
            fails.append(f"ClassicalShadow.expval(H_{k}) on the record = {o['shadow_expval_from_record'][k]}, model mean = {float(mean)}")
    return fails, info


# ------------------------------------------------------------------ run
def run(ctx):
    rng = ctx.rng
    quick = ctx.tier == "quick"
    rp = getattr(ctx, "replay", None)
    rp = rp.get("replay", {}) if rp else {}
    if isinstance(rp.get("case"), dict) and "rho" in rp["case"]:
        enum, device = [rp["case"]], []
    elif isinstance(rp.get("case"), dict) and "dev_wires" in rp["case"]:
        enum, device = [], [rp["case"]]
    else:
        enum = [gen_enum_case(rng, 1, "corpus0"), gen_enum_case(rng, 2, "ghz"), gen_enum_case(rng, 2, "mixed"),
                gen_enum_case(rng, 1, "nonhermitian"), gen_enum_case(rng, 2, "nonhermitian")]
        enum[1]["wire_map"] = ["a", 5]          # non-integer label
        enum[1]["hams"] = [[[1.0, [["a", 0], [5, 0]]]], [[0.5, [[5, 1], ["a", 1]]], [-1.25, []]]]
        enum[1]["styles"] = ["bare", "hamiltonian"]
        for n, k in ((1, 4 if quick else 20), (2, 6 if quick else 30), (3, 2 if quick else 8)):
            for _ in range(k):
                enum.append(gen_enum_case(rng, n))
        if not quick:
            enum.append(gen_enum_case(rng, 3, "ghz")); enum.append(gen_enum_case(rng, 3, "nonhermitian"))
        device = [gen_device_case(rng, ctx.tier, clifford=(i % 2 == 0)) for i in range(6 if quick else 24)]
        device[0].update({"dev_wires": [0, 1, 2], "wires": [2, 0, 1], "clifford": True,   # GHZ, permuted wires
                          "ops": [["Hadamard", [0], None], ["CNOT", [0, 1], None], ["CNOT", [1, 2], None]],
                          "hams": [[[1.0, [[2, 0], [0, 0], [1, 0]]]], [[0.5, [[0, 2], [1, 2]]], [-1.0, [[2, 1], [0, 1], [1, 0]]]]],
                          "styles": ["bare", "hamiltonian"]})
        # regression: first operation acts on wires (2, 0) -> the simulator maps the tape to standard wires
        device[1].update({"dev_wires": [0, 1, 2], "wires": [0], "clifford": True,
                          "ops": [["CNOT", [2, 0], None], ["PauliX", [0], None], ["Hadamard", [0], None]],
                          "hams": [[[1.0, [[0, 0]]]], [[0.5, [[0, 2]]], [-1.0, [[0, 0]]]]],
                          "styles": ["bare", "sum"]})
    from concurrent.futures import ThreadPoolExecutor
    with ThreadPoolExecutor(max_workers=1) as pool:       # the implementation runs while Coq re-checks the theorems
        fut = pool.submit(ctx.run_impl, "c60_impl.py", {"enum": enum, "device": device, "export": True})
        ctx.coq_props()
        res = fut.result()

    terms, owners = [], []          # Gallina AnyCase terms and what to report when one fails
    # ---- (A) full enumerations: exact correspondence with the model + exact unbiasedness
    rows_total, hist = 0, {"n1": 0, "n2": 0, "n3": 0, "nonhermitian": 0, "H_total": 0, "bare": 0,
                           "hamiltonian": 0, "sum": 0, "identity_terms": 0, "permuted_wire_map": 0}
    for case, o in zip(enum, res.get("enum", [])):
        wcode = {w: (w if isinstance(w, int) else 1000 + i) for i, w in enumerate(case["wire_map"])}
        term, ok = g_enum_case(case, o, wcode)
        key = json.dumps({k: case[k] for k in ("n", "wire_map", "hams", "rho")}, sort_keys=True)
        key = hashlib.sha1(key.encode()).hexdigest()[:12]
        terms.append(f"CEnum {term}")
        owners.append(("corr:enum:" + key, {"case": case},
                       "ClassicalShadow snapshots/estimates differ from the proved model (or their exact "
                       "probability-weighted average differs from rho / tr(rho H)) on a full enumeration"))
        if not ok:
            ctx.violation("direct:enum-dyadic:" + key, {"case": case},
                          what="a snapshot entry is not an integer multiple of 2^-n (model: entries of (x)(3 Pi - I))")
        for f in direct_enum(case, o):
            ctx.violation("direct:enum:" + key + ":" + f[:40], {"case": case, "failure": f,
                          "first_rows": {"recipes": o["recipes"][:3], "bits": o["bits"][:3], "vals": o["vals"][:3]}},
                          what=f)
        rows_total += len(o["recipes"])
        hist[f"n{case['n']}"] += 1
        hist["nonhermitian"] += case["kind"] == "nonhermitian"
        hist["H_total"] += len(case["hams"])
        for h, st in zip(case["hams"], case["styles"]):
            hist[st] += 1
            hist["identity_terms"] += sum(1 for _, w in h if not w)
        hist["permuted_wire_map"] += case["wire_map"] != sorted(case["wire_map"], key=str)

    # ---- (B) exported matrices
    ex = res.get("export", {})
    exported = False
    if "error" in ex or len(ex.get("stacks", [])) != 2:
        ctx.notes.append("export of obs_list/diag_list from process_state_with_shots not available: " + str(ex.get("error", len(ex.get("stacks", [])))))
    else:
        exported = True
        obs_i, ok = [], True
        for m in ex["observables"]:
            mi, ok1 = int_matrix(m, 1); ok &= ok1; obs_i.append(mi)
        so = []
        for m in ex["stacks"][0]:
            mi, ok2 = int_matrix(m, 1); ok &= ok2; so.append(mi)
        if so != obs_i:
            ok = False
        projs = []
        for r in range(3):
            D = np.array([[complex(*e) for e in row] for row in ex["stacks"][1][r]])
            pb = []
            for b in range(2):
                kb = np.zeros((2, 2)); kb[b, b] = 1
                P2 = 2 * (D.conj().T @ kb @ D)
                R = np.round(P2.real) + 1j * np.round(P2.imag)
                if np.max(np.abs(P2 - R)) > 1e-9:
                    ok = False
                pb.append([[(int(R[i, j].real), int(R[i, j].imag)) for j in range(2)] for i in range(2)])
            if np.max(np.abs(D.conj().T @ D - np.eye(2))) > 1e-9:
                ok = False
            projs.append(pb)
        what = ("observables of local_snapshots / diagonalisers of process_state_with_shots differ from the model's "
                "X,Y,Z and U^dag|b><b|U for U = H, H S^dag, I")
        terms.append(f"CRot ({glist(obs_i, g_mat_int)}, {glist(projs, lambda pb: glist(pb, g_mat_int))})")
        owners.append(("corr:exported-matrices", {"exported": ex}, what))
        if not ok:
            ctx.violation("corr:exported-matrices", {"exported": ex}, found_input=True, what=what)

    # ---- (C) device measurements
    dinfo = []
    COQ_ROWS = 400        # the Coq predicate is evaluated on the first rows; Python evaluates it on all rows
    for case, o in zip(device, res.get("device", [])):
        key = hashlib.sha1(json.dumps(case, sort_keys=True).encode()).hexdigest()[:12]
        fails, info = direct_device(case, o)
        dinfo.append(info)
        for f in fails:
            if f.startswith("shadow_expval(") and info.get("remap_suspect"):
                # stable key: qml.shadow_expval on a tape whose operation wires are not 0,1,2,.. in order of first
                # use (the simulator remaps the wires; ClassicalShadow.expval on the classical_shadow record of
                # the same circuit is within the bound)
                ctx.violation("direct:device:shadow_expval-after-wire-remap",
                              {"case": case, "failure": f, "info": info,
                               "shadow_expval": o["shadow_expval"], "from_record": o["shadow_expval_from_record"]},
                              what="qml.shadow_expval is far from the exact expectation value on a circuit whose operation "
                                   "wires are not in standard order, while ClassicalShadow.expval on the classical_shadow "
                                   "record of the same circuit is within the bound: " + f)
            else:
                ctx.violation("direct:device:" + key + ":" + f[:30], {"case": case, "failure": f, "info": info}, what=f)
        bt, rt = o["bits"][:COQ_ROWS], o["recipes"][:COQ_ROWS]
        terms.append(f"CForm ({gz(min(case['shots'], COQ_ROWS))}, {gnat(len(case['wires']))}, "
                     f"{glist(bt, lambda r: glist(r, gz))}, {glist(rt, lambda r: glist(r, gz))})")
        owners.append(("corr:form:" + key, {"case": case},
                       "device bits/recipes do not have the documented form (well_formed)"))

    if terms:
        # interleave so that the heavy 3-qubit enumerations are spread over the files
        order = sorted(range(len(terms)), key=lambda i: -len(terms[i]))
        nfiles = 4 if quick else 12
        buckets = [[] for _ in range(nfiles)]
        for j, i in enumerate(order):
            buckets[j % nfiles].append(i)
        flat = [i for b in buckets for i in b]
        chunk = max(len(b) for b in buckets)
        # pad buckets to equal size with the (cheap) last term so that chunking reproduces the buckets
        padded, back = [], []
        for b in buckets:
            bb = b + [b[-1]] * (chunk - len(b)) if b else []
            padded += [terms[i] for i in bb]; back += bb
        bad = ctx.coq_eval_cases("cases", "From PLV Require Import Num.ShadowsModel.", padded, "check_any", chunk=chunk)
        for i in sorted({back[j] for j in bad}):
            k, rep, what = owners[i]
            ctx.violation(k, rep, found_input=True, what=what)
        ctx.coverage["correspondence_cases"] = len(terms)

    ctx.coverage.update({
        "evaluations": rows_total + sum(c["shots"] for c in device),
        "distinct_nontrivial": rows_total,
        "rule": "corpus (|0>, GHZ with string wire label, maximally mixed, arbitrary non-Hermitian matrices) + seeded random rational "
                "density matrices A A^dag / tr (Gaussian-integer A, random rank) on 1-3 qubits; for each ALL 6^n (recipes, bits) rows; "
                "2-5 observables per case (random Pauli words and sums, coefficients k/8, identity terms, a full-weight word); "
                "device: alternating Clifford / random-angle circuits on 1-4 device wires, measured wires a random ordered subset; "
                "non-trivial = enumerated row",
        "input_distribution": hist,
        "enumerated_rows": rows_total, "enum_cases": len(enum), "device_cases": len(device),
        "device_shots_total": sum(c["shots"] for c in device),
        "device_zero_probability_cells": sum(i.get("zero_cells", 0) for i in dinfo),
        "device_min_joint_p": min([i.get("joint_p", 1.0) for i in dinfo], default=None),
        "exported_matrices_compared": exported,
    })
    for case, o in list(zip(enum, res.get("enum", [])))[:3]:
        ctx.sample({"n": case["n"], "wire_map": case["wire_map"], "rho": case["rho"], "hams": case["hams"],
                    "row5": {"recipes": o["recipes"][5], "bits": o["bits"][5], "vals": o["vals"][5]}})
    for case, o, info in list(zip(device, res.get("device", []), dinfo))[:2]:
        ctx.sample({"device_case": {k: case[k] for k in ("dev_wires", "wires", "ops", "shots")},
                    "shadow_expval": o["shadow_expval"], "info": info})
