"""C08 Commutation checks are sound."""
from vlib import *

PID = "C08"
META = {
    "level": "proof",
    "engine": "qsym-translator",
    "technique": "Coq reflection proof (exact symbolic matrices with independent formal parameters, vm_compute + soundness theorem) of one commutation obligation per enumerated operator pair for which qp.is_commuting answers True; exactness on Pauli words by exhaustive comparison with matrices",
    "design_ref": "DESIGN.md §3 C08",
    "text": "Pairs of named gates (single-, two-, three-qubit, controlled and doubly controlled variants, MultiRZ, Identity, GlobalPhase) are placed on every kind of overlapping wire pattern (sampled per run); the real qp.is_commuting is asked at generic parameter values; for every True answer Coq proves that the two exact symbolic matrices (each with its own formal parameters) commute on the joint register for ALL parameter values (theorem reported_commuting_pairs_commute). Every True answer is also checked numerically (this also covers branches that depend on numeric parameters), and for random Pauli words the answer is compared with matrix commutation in both directions.",
    "note": "Trusted: Coq kernel + stdlib real axioms; translator qsym/qx (spot-checked); the pair space is sampled (pairs x wire patterns), each sample universal in the parameters; the numeric fallbacks of is_commuting (U2/U3/Rot/CRot via allclose) are only sound up to tolerance and are covered numerically only; Prod/Sum operands only through Pauli words.",
    "assumptions": [], "trusted": ["translator harness/qsym.py, qx.py, impl/c08_impl.py"],
}
HEADER = """From Coq Require Import List ZArith QArith Bool.
From PLV Require Import Alg.Poly Lin.Vec Lin.PVec.
Import ListNotations.
Open Scope Q_scope.
"""


def run(ctx):
    ctx.coq_props()
    out = ctx.run_impl("c08_impl.py", {"tier": ctx.tier, "seed": ctx.seed, "outdir": str(ctx.gen_dir)}, timeout=3000)
    items = out["items"]
    obl = json.loads((ctx.gen_dir / "obligations.json").read_text())
    failed = ctx.coq_obligations("comm", HEADER, [(o["name"], o["stmt"], "vm_compute. reflexivity.") for o in obl], chunk=25, par=16)
    by = {o["name"]: o for o in obl}
    lem = {i.get("lemma"): i for i in items if i.get("lemma")}
    for name, detail in failed:
        o = by.get(name)
        if o is None:
            ctx.broken_obligation("coq", name, detail); continue
        it = lem.get(name, {})
        wit = it.get("numeric_fail")
        if not wit:
            r = ctx.run_impl("c08_search.py", {"a": o["a"], "b": o["b"], "w2": o["w2"], "seed": ctx.seed})
            wit = r.get("witness")
        ctx.violation(f"pair:{o['a']}:{o['b']}:{o['w2']}", {"op1": o["a"], "op2": o["b"], "op2_wires": o["w2"], "witness": wit, "obligation": name},
                      found_input=bool(wit), what=f"is_commuting reports {o['a']} and {o['b']} on wires {o['w2']} as commuting but their matrices do not commute for all parameters")
    for i in items:
        if i.get("numeric_fail"):
            ctx.violation(f"pair:{i['a']}:{i['b']}:{i['w2']}", {"op1": i["a"], "op2": i["b"], "op2_wires": i["w2"], "witness": i["numeric_fail"]},
                          what="is_commuting returned True for operators whose matrices do not commute")
    for f in out["pauli_fail"]:
        ctx.violation(f"pauli:{f['w1']}:{f['w2']}", f, what="is_commuting is not exact on Pauli words")
    nerr = [i for i in items if i["status"] != "ok"]
    if len(nerr) > 0.05 * max(1, len(items)):
        ctx.broken_obligation("tie", "c08-extraction", json.dumps(nerr[:5])[:1500])
    ctx.coverage.update({"evaluations": len(items) + out["pauli_cases"], "distinct_nontrivial": len(obl),
                         "rule": "sampled (pair of gate names, overlapping wire pattern); non-trivial = is_commuting answered True and an obligation universal in all parameters was proved",
                         "pairs_asked": len(items), "answered_true": out["true_pairs"], "pauli_word_pairs": out["pauli_cases"],
                         "extraction_problems": [(i["a"], i["b"], i.get("detail", "")[:80]) for i in nerr][:20]})
    for i in [x for x in items if x.get("lemma")][:3]:
        ctx.sample({"op1": i["a"], "op2": i["b"], "op2_wires": i["w2"], "is_commuting": i["answer"]})
