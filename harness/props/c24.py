"""C24 Circuit cutting reconstructs the uncut result."""
from vlib import *
import exactsim
import numpy as np, math
from fractions import Fraction as Fr

PID = "C24"
META = {
    "level": "proof",
    "technique": "Coq proofs over Gaussian rationals (wire-cut identity with PennyLane's measure/prepare tables, single cut with environments of any size, k parallel cuts by tensor induction, contraction independent of operand/index order) + correspondence: the implementation's qcut_processing_fn against the Gallina contraction model on the real communication graphs, and the real cut_circuit pipeline against an exact Coq-simulated uncut reference",
    "design_ref": "DESIGN.md §3 C24",
    "text": "Theorems (Props/C24.v, closed under the global context): every 2x2 matrix is 1/2 sum_P tr(P rho) P; each Pauli is the CHANGE_OF_BASIS combination of the four prepared states |0>,|1>,|+>,|+i> and the PREPARE_SETTINGS circuits produce exactly those states; for upstream/downstream fragments with environments of ANY size and arbitrary operators the executable contraction model (the one compared with the implementation) applied to the two fragments' results equals the uncut expectation; k parallel cuts between two fragments for all k; the contraction does not depend on the order of fragments or of index assignments; the eight cut_circuit_mc settings resolve the identity channel with weights +-1/2. Tie on every run: (a) CHANGE_OF_BASIS, PREPARE_SETTINGS, MC tables exported from /repo equal the model's; (b) cut_circuit (raw tape transform) on generated circuits of 3-6 wires with 1-3 WireCuts (also two-wire WireCuts, ineffective cuts, disconnected pieces) and KaHyPar-placed cuts: the returned communication graph / prepare_nodes / measure_nodes plus random dyadic fragment results are evaluated by the implementation's qcut_processing_fn and by the Gallina model inside Coq (vm_compute); (c) every configuration tape prepares / measures the setting its position in the result vector stands for (4^prep x 3^meas tapes, product order, partition_pauli_group grouping), decoded semantically from the tapes; (d) fragment tapes are simulated EXACTLY in Coq (Q(zeta_8)), the exact expectation values are fed to the implementation's post-processing and must equal the exact uncut expectation (1e-9); (e) the full QNode pipeline on default.qubit (Pauli words and sums, manual cuts, KaHyPar-placed cuts, and a fixed corpus of callable auto_cutter cases whose cut edges join gates adjacent in the tape, the first two operations, or both wires of consecutive two-qubit gates, placed by place_wire_cuts) equals the exact uncut value (1e-9); (f) cut_circuit_mc: 6-sigma bound with the exactly known single-shot variance 16^K - mu^2 on random single-cut circuits and a designed GHZ case, plus a direct probe that the measurements of one single-shot fragment tape come from one joint shot (numeric/statistical only). On the pinned tree (f) FAILS: default.qubit samples sample(Projector) and sample(Pauli) measurements of a tape independently, so cut_circuit_mc is biased; reported under the stable key finding:cut_circuit_mc-samples-not-joint.",
    "note": "Trusted: Coq kernel; exactsim post-processing (numpy on exact amplitudes); the harness' extraction of edge/axis incidence from node uids. Modelled, not proved from source: the per-tensor factors 2^(-n/2) are represented by their rational total (1/2)^cuts; the einsum symbol allocation loop of contract_tensors is specified (one summed index per edge), not transcribed; partition_pauli_group's order is an oracle read from the tapes and compared with an independent enumeration. Not covered by proof: general multi-fragment topologies (sequential cuts, cycles) are validated per generated instance by (b),(d),(e) only; the automatic cutter is an oracle (any cut it returns is checked through (b),(e)); cut_circuit_mc only statistically; gradients and interfaces other than numpy are not exercised; use_opt_einsum=True only through every third pipeline case (numeric); WireCut inside nested templates (max_depth expansion) not generated.",
    "assumptions": ["default.qubit float error below 1e-9 for <= 6 wires"],
    "trusted": ["harness/exactsim.py post-processing", "translator harness/qx.py (gate matrices to exact constants)"],
}
HEADER = "From Coq Require Import List ZArith QArith Qcanon Bool.\nFrom PLV Require Import Num.ShadowsModel Num.QcutModel."
PAULI = {"I": np.eye(2, dtype=complex), "X": np.array([[0, 1], [1, 0]], dtype=complex),
         "Y": np.array([[0, -1j], [1j, 0]]), "Z": np.array([[1, 0], [0, -1]], dtype=complex)}
LET = {"I": 0, "X": 1, "Y": 2, "Z": 3}


def word_expval(state, n, word):
    word = {int(k): v for k, v in word.items() if v != "I"}
    if not word:
        return float(np.real(np.vdot(state, state)))
    ws = sorted(word)
    O = np.array([[1]], dtype=complex)
    for w in ws:
        O = np.kron(O, PAULI[word[w]])
    return exactsim.expval(state, n, O, ws)


def g_frag(f, res):
    r = glist([f"({gz(a)}, {int(b)}%positive)" for a, b in res])
    gf = glist([glist([gz(LET[ch]) for ch in w]) for w in f["gf"]])
    return f"({gnat(f['np'])}, {gnat(f['nm'])}, {r}, {gf}, {glist([gnat(e) for e in f['pe']])}, {glist([gnat(e) for e in f['me']])})"


def g_contract(st):
    frs, pos = [], 0
    for f in st["frags"]:
        cnt = 4 ** (f["np"] + f["nm"])
        frs.append(g_frag(f, st["dy_in"][pos:pos + cnt])); pos += cnt
    return f"(CContract ({gnat(st['k'])}, {glist(frs)}, ({gz(st['dy_out'][0])}, {int(st['dy_out'][1])}%positive)))"


def py_contract(st):
    """direct oracle: the same contraction with exact fractions in Python (used for every case, and the only
    check for networks too large for vm_compute)"""
    import itertools
    COB = [[1, 1, 0, 0], [-1, -1, 2, 0], [-1, -1, 0, 2], [1, -1, 0, 0]]
    tens, pos = [], 0
    for f in st["frags"]:
        p, m = f["np"], f["nm"]
        cnt = 4 ** (p + m)
        res = [Fr(a, b) for a, b in st["dy_in"][pos:pos + cnt]]; pos += cnt
        gfi = {w: i for i, w in enumerate(f["gf"])}
        T = {}
        for ss in itertools.product(range(4), repeat=p):
            sp = 0
            for x in ss:
                sp = 4 * sp + x
            for ws in itertools.product("IXYZ", repeat=m):
                T[(ss, ws)] = res[sp * 4 ** m + gfi["".join(ws)]]
        T2 = {}
        for qs in itertools.product(range(4), repeat=p):
            for ws in itertools.product("IXYZ", repeat=m):
                acc = Fr(0)
                for ss in itertools.product(range(4), repeat=p):
                    cf = 1
                    for q, s_ in zip(qs, ss):
                        cf *= COB[q][s_]
                    if cf:
                        acc += cf * T[(ss, ws)]
                T2[(qs, ws)] = acc
        tens.append((f, T2))
    total = Fr(0)
    for a in itertools.product(range(4), repeat=st["k"]):
        t = Fr(1)
        for f, T2 in tens:
            t *= T2[(tuple(a[e] for e in f["pe"]), tuple("IXYZ"[a[e]] for e in f["me"]))]
            if not t:
                break
        total += t
    return total / 2 ** st["k"]


def g_m2(m):
    return glist([glist([f"({gz(a)}, {gz(b)})" for a, b in row]) for row in m])


def g_tables(t):
    cob = glist([glist([gz(x) for x in row]) for row in t["cob"]])
    prs = glist([g_m2(m) for m in t["preps"]])
    mc = glist([f"({gz(p)}, {g_m2(dm)}, {gz(e)})" for p, dm, e in t["mc"]])
    return f"(CTables ({cob}, {prs}, {mc}))"


class Session:
    """one implementation process for the whole run (the post-processing closures of cut_circuit stay alive
    between the build request and the request that feeds exact fragment results to them)"""

    def __init__(self):
        import subprocess
        e = dict(os.environ)
        e.update({"PYTHONPATH": str(REPO), "PYTHONHASHSEED": "0", "OMP_NUM_THREADS": "1"})
        import tempfile
        self.err = tempfile.TemporaryFile(mode="w+")
        self.p = subprocess.Popen([PY, str(VERIF / "harness" / "impl" / "c24_impl.py")], stdin=subprocess.PIPE,
                                  stdout=subprocess.PIPE, stderr=self.err, text=True, env=e, cwd=str(VERIF))

    def call(self, payload):
        self.p.stdin.write(json.dumps(payload) + "\n"); self.p.stdin.flush()
        while True:
            line = self.p.stdout.readline()
            if not line:
                self.err.seek(0)
                raise RuntimeError("impl driver c24_impl.py died: " + self.err.read()[-3000:])
            line = line.strip()
            if line.startswith("{"):
                return json.loads(line)

    def close(self):
        try:
            self.p.stdin.write(json.dumps({"mode": "quit"}) + "\n"); self.p.stdin.flush(); self.p.stdin.close()
            self.p.wait(timeout=30)
        except Exception:
            self.p.kill()


def key_of(prefix, obj):
    return prefix + hashlib.sha1(json.dumps(obj, sort_keys=True).encode()).hexdigest()[:14]


def run(ctx):
    ctx.coq_props()
    quick = ctx.tier == "quick"
    payload = {"mode": "build", "seed": ctx.rng.randrange(10 ** 9), "tier": ctx.tier,
               "ncase": 14 if quick else 70, "nexact": 6 if quick else 30,
               "kcuts": [1, 2, 1, 3, 1, 2, 2] if quick else [1, 2, 3, 1, 2, 2, 3],
               "nauto": 4 if quick else 16, "nmc": 2 if quick else 6, "nmax": 6,
               "maxtapes": 48 if quick else 300, "maxcirc": 70 if quick else 600}
    sess = Session()
    try:
        _run(ctx, sess, payload)
    finally:
        sess.close()


def _run(ctx, sess, payload):
    tm = {"props": round(time.time() - ctx.t0, 1)}
    t1 = time.time()
    out = sess.call(payload)
    tm["build"] = round(time.time() - t1, 1); t1 = time.time()
    cases, auto, circs = out["cases"], out["auto"], out["circuits"]
    ctx.notes.append("kahypar importable: %s" % out["kahypar"])
    for c in cases + auto:
        if c["status"] == "error":
            ctx.violation(key_of("error:", [c["ops"], c["terms"]]), {"n": c["n"], "ops": c["ops"], "terms": c["terms"], "detail": c.get("detail")},
                          what="cut_circuit raised on a valid circuit with wire cuts")
    ok = [c for c in cases if c["status"] == "ok"]
    okauto = [a for a in auto if a["status"] == "ok"]

    # ---- (a)+(b) tables and contraction model inside Coq
    terms, meta = [g_tables(out["tables"])], [("tables", None, None)]
    quick = ctx.tier == "quick"
    kmax = 4 if quick else 5
    allst = [("manual", c, ti, st) for c in ok for ti, st in enumerate(c["t"])] + [("auto", a, 0, a["st"]) for a in okauto if "st" in a]
    npy = 0
    for kind, c, ti, st in allst:
        cost = 4 ** st["k"] * sum(4 ** f["np"] * (f["np"] + 1) for f in st["frags"])
        if st["k"] <= kmax and max(f["np"] + f["nm"] for f in st["frags"]) <= 4 and cost <= (8000 if quick else 60000):
            terms.append(g_contract(st)); meta.append((kind, c, ti))
        if st["k"] <= 6:
            npy += 1
            mine, impl = py_contract(st), Fr(st["dy_out"][0], st["dy_out"][1])
            if abs(mine - impl) > Fr(1, 10 ** 9) * (1 + abs(mine)):
                ctx.violation(key_of("oracle:contract:", [c["ops"], c["terms"], ti]),
                              {"n": c["n"], "ops": c["ops"], "term": c["terms"][ti], "cuts": st["k"], "fragments": st["frags"],
                               "fragment_results": st["dy_in"], "qcut_processing_fn": float(impl), "expected": float(mine), "placement": kind},
                              what="qcut_processing_fn on rational fragment results differs from 2^-cuts * sum over edge indices of the change-of-basis-transformed fragment tensors")
    bad = ctx.coq_eval_cases("cases", HEADER, terms, "check_any", chunk=12, par=8)
    for i in bad:
        kind, c, ti = meta[i]
        if kind == "tables":
            ctx.violation("corr:tables", {"tables": out["tables"]},
                          what="CHANGE_OF_BASIS / PREPARE_SETTINGS / MC tables of /repo differ from the model the theorems are about")
        else:
            st = c["t"][ti] if kind == "manual" else c["st"]
            ctx.violation(key_of("corr:contract:", [c["ops"], c["terms"], ti]),
                          {"n": c["n"], "ops": c["ops"], "term": c["terms"][ti], "cuts": st["k"], "fragments": st["frags"],
                           "fragment_results": st["dy_in"], "qcut_processing_fn": st["dy_out"], "placement": kind},
                          what="qcut_processing_fn on rational fragment results differs from the contraction model (CHANGE_OF_BASIS, 1/2 per cut, one summed index per communication-graph edge)")
    ctx.coverage["_npy"] = npy
    tm["coq_cases"] = round(time.time() - t1, 1); t1 = time.time()
    # ---- (c) settings
    nset = 0
    for c in ok:
        for ti, st in enumerate(c["t"]):
            nset += sum(f["ntapes"] for f in st["frags"])
            if st["problems"]:
                ctx.violation(key_of("settings:", [c["ops"], c["terms"], ti]),
                              {"n": c["n"], "ops": c["ops"], "term": c["terms"][ti], "problems": st["problems"][:10]},
                              what="a fragment configuration does not prepare/measure the setting its position in the result vector stands for")
            for f in st["frags"]:
                if -1 in f["pe"] or -1 in f["me"]:
                    ctx.violation(key_of("structure:", [c["ops"], c["terms"], ti]), {"n": c["n"], "ops": c["ops"], "fragments": st["frags"]},
                                  what="a PrepareNode/MeasureNode of a fragment has no communication-graph edge")
    # ---- exact reference simulation of every circuit (uncut circuits and fragment configurations)
    states = exactsim.exact_states(ctx, "ref", [(n, txt) for n, txt in circs], chunk=12, par=8)

    tm["exactsim"] = round(time.time() - t1, 1); t1 = time.time()

    def exact_uncut(c, terms_):
        st = states[c["uncut"]["c"]]
        return sum(co * word_expval(st, c["uncut"]["n"], {str(w): ch for w, ch in wd}) for co, wd in terms_)
    # ---- (e) pipeline
    nontriv = 0
    for c in ok:
        ex = exact_uncut(c, c["terms"])
        c["exact_value"] = ex
        if min(abs(abs(ex) - x) for x in (0.0, 1.0)) > 1e-6:
            nontriv += 1
        if abs(c["pipeline"] - ex) > 1e-9:
            ctx.violation(key_of("pipeline:", [c["ops"], c["terms"]]),
                          {"n": c["n"], "ops": c["ops"], "terms": c["terms"], "cut_circuit": c["pipeline"], "exact_uncut": ex, "default_qubit_uncut": c["dq_uncut"]},
                          what="qp.cut_circuit(qnode)() differs from the exact uncut expectation value")
        if "pipeline_opt" in c and abs(c["pipeline_opt"] - ex) > 1e-9:
            ctx.violation(key_of("pipeline-opt-einsum:", [c["ops"], c["terms"]]),
                          {"n": c["n"], "ops": c["ops"], "terms": c["terms"], "cut_circuit": c["pipeline_opt"], "exact_uncut": ex},
                          what="qp.cut_circuit(qnode, use_opt_einsum=True)() differs from the exact uncut expectation value")
        for ti, st in enumerate(c["t"]):
            ext = exact_uncut(c, [[1.0, c["terms"][ti][1]]])
            if abs(st["dq"] - ext) > 1e-9:
                ctx.violation(key_of("pipeline-term:", [c["ops"], c["terms"], ti]),
                              {"n": c["n"], "ops": c["ops"], "term": c["terms"][ti], "cut_circuit": st["dq"], "exact_uncut": ext},
                              what="cut_circuit tape transform + default.qubit + qcut_processing_fn differs from the exact uncut expectation value")
    for a in okauto:
        ex = exact_uncut(a, a["terms"])
        if min(abs(abs(ex) - x) for x in (0.0, 1.0)) > 1e-6:
            nontriv += 1
        if abs(a["dq"] - ex) > 1e-9:
            ctx.violation(key_of("auto:", [a["ops"], a["terms"], a["devw"]]),
                          {"n": a["n"], "ops": a["ops"], "terms": a["terms"], "device_wires": a["devw"], "cut_circuit_auto": a["dq"], "exact_uncut": ex,
                           "auto_cutter": a.get("cutter", "True (KaHyPar)"), "cuts_placed": a.get("k")},
                          what="cut_circuit(auto_cutter=%s) differs from the exact uncut expectation value" % ("<callable>" if "cutter" in a else "True"))
        if a["maxw"] > a["devw"]:
            ctx.violation(key_of("auto-width:", [a["ops"], a["terms"], a["devw"]]), {"n": a["n"], "ops": a["ops"], "device_wires": a["devw"], "widest_fragment": a["maxw"]},
                          what="the automatic cutter returned a fragment wider than the device")
    # ---- (d) exact fragment results through the implementation's post-processing; (f) MC
    items, imeta = [], []
    for c in ok:
        if not c["exact"]:
            continue
        for ti, st in enumerate(c["t"]):
            if "tapes" not in st:
                continue
            res = []
            for t in st["tapes"]:
                s = states[t["c"]]
                res.extend(word_expval(s, t["n"], w) for w in t["meas"])
            items.append({"ci": cases.index(c), "ti": ti, "results": res})
            imeta.append((c, ti))
    mcs = out.get("mc", [])
    for m in mcs:
        st = states[m["uncut"]["c"]]
        m["exact_value"] = word_expval(st, m["uncut"]["n"], {str(w): "Z" for w in m["zwires"]})
    post = sess.call({"mode": "post", "items": items, "mc": mcs})
    tm["post+mc"] = round(time.time() - t1, 1)
    ctx.coverage["timing_s"] = tm
    for (c, ti), r in zip(imeta, post["out"]):
        ext = exact_uncut(c, [[1.0, c["terms"][ti][1]]])
        if r["status"] != "ok":
            ctx.violation(key_of("exactpost-rebuild:", [c["ops"], c["terms"], ti]), {"ops": c["ops"], "detail": r},
                          what="cut_circuit is not deterministic: rebuilding the same circuit gave different configurations")
        elif abs(r["value"] - ext) > 1e-9:
            ctx.violation(key_of("exactpost:", [c["ops"], c["terms"], ti]),
                          {"n": c["n"], "ops": c["ops"], "term": c["terms"][ti], "qcut_processing_fn_on_exact_fragment_results": r["value"], "exact_uncut": ext},
                          what="the implementation's post-processing applied to EXACT fragment expectation values does not give the exact uncut expectation value")
    nmc, mc_fail = 0, []
    for m, r in zip(mcs, post["mc"]):
        if r["status"] != "ok":
            ctx.violation(key_of("mc-error:", [m["ops"], m["seed"]]), {"ops": m["ops"], "detail": r.get("detail")}, what="cut_circuit_mc raised")
            continue
        nmc += 1
        K = m["cuts"]
        sigma = math.sqrt(max(16.0 ** K - m["exact_value"] ** 2, 0.0) / m["shots"])
        if abs(r["value"] - m["exact_value"]) > 6 * sigma:
            mc_fail.append({"n": m["n"], "ops": m["ops"], "sample_wires": m["swires"], "z_parity_wires": m["zwires"], "shots": m["shots"],
                            "seed": m["seed"], "designed_GHZ_case": bool(m.get("designed")),
                            "cut_circuit_mc": r["value"], "exact_uncut": m["exact_value"], "six_sigma": 6 * sigma})
    probe = post.get("joint_probe") or {}
    not_joint = probe.get("impossible_projector_pauli", 0) + probe.get("impossible_projector_projector", 0) > 0
    if not_joint:
        # root cause established by the probe: one stable key for the defect and all its statistical consequences
        ctx.violation("finding:cut_circuit_mc-samples-not-joint",
                      {"probe": probe, "estimates_outside_six_sigma": mc_fail,
                       "explanation": "cut_circuit_mc's single-shot fragment tapes measure sample(Projector([1], wires=w)) on terminal wires and sample(Pauli) on cut wires and "
                                      "combine them as ONE joint shot; default.qubit (devices/qubit/sampling.py::_group_measurements) puts every non-Pauli-word observable in its own "
                                      "group and samples each group independently, so correlations between terminal bits and cut-wire outcomes (and between terminal bits) are lost "
                                      "and the reconstructed expectation value is biased",
                       "reproduce": ["import pennylane as qp", "dev = qp.device('default.qubit', wires=3)",
                                     "def circ():\n    qp.Hadamard(0); qp.CNOT([0, 1]); qp.WireCut(1); qp.CNOT([1, 2])\n    return qp.sample(wires=[0, 2])",
                                     "zz = lambda b: (-1) ** int(b[0] + b[1])",
                                     "print(qp.set_shots(qp.cut_circuit_mc(qp.QNode(circ, dev), classical_processing_fn=zz), shots=4000)())  # exact <Z0 Z2> = +1, prints about 0"]},
                      what="cut_circuit_mc is not statistically consistent with the uncut circuit on default.qubit: the measurements of one single-shot fragment tape are sampled independently instead of jointly")
    else:
        for f in mc_fail:
            ctx.violation(key_of("mc:", [f["ops"], f["seed"], f["shots"]]), f,
                          what="cut_circuit_mc estimate is more than 6 sigma from the exact uncut expectation (statistical check)")
    sp = post.get("settings_probe")
    if sp:
        N = sp["draws"]
        sig = math.sqrt(N * (1 / 8) * (7 / 8))
        if sp["outside_0_7"] or N != 4000 or any(abs(x - N / 8) > 6 * sig for x in sp["counts"]):
            ctx.violation("mc-settings-not-uniform", {"histogram_over_settings_0_to_7": sp["counts"], "draws": N, "six_sigma": 6 * sig,
                                                      "reproduce": "qcut.expand_fragment_tapes_mc(fragment_tapes, communication_graph, shots=800, seed=s)[1] for s in range(5)"},
                          what="expand_fragment_tapes_mc does not draw the 8 measure/prepare settings uniformly (the estimator's weights assume it)")
        ctx.coverage["mc_settings_histogram"] = sp["counts"]
    ctx.coverage["mc_joint_sampling_probe"] = probe
    ctx.coverage["mc_estimates_outside_six_sigma"] = len(mc_fail)
    npy = ctx.coverage.pop("_npy", 0)
    hist = {}
    for c in ok:
        for st in c["t"]:
            hist[str(st["k"])] = hist.get(str(st["k"]), 0) + 1
    ctx.coverage.update({
        "evaluations": len(terms) + len(items) + len(ok) + len(okauto) + nmc,
        "distinct_nontrivial": nontriv,
        "rule": "model contraction = qcut_processing_fn on rational fragment results; exact fragment results -> implementation post-processing = exact uncut; pipeline = exact uncut; settings decoded from tapes",
        "input_distribution": {"manual_cases": len(ok), "auto_cases": len(okauto), "auto_no_cut_found": sum(a["status"] == "nocut" for a in auto),
                               "auto_effective_cuts": [a.get("k") for a in okauto], "auto_callable_cutter_corpus_cases": sum("cutter" in a for a in okauto),
                               "not_extractable": sum(c["status"] == "notex" for c in cases + auto),
                               "effective_cuts_histogram(per Pauli term)": hist, "sum_observables": sum(len(c["terms"]) > 1 for c in ok), "opt_einsum_pipeline_cases": sum("pipeline_opt" in c for c in ok),
                               "fragments_max": max([len(st["frags"]) for c in ok for st in c["t"]] or [0]),
                               "configuration_tapes_checked": nset, "exact_circuits_simulated": len(circs),
                               "exact_postprocessing_cases": len(items), "mc_runs": nmc, "contraction_cases_in_coq": len(terms) - 1, "contraction_cases_python_oracle": npy,
                               "nontrivial_expectations": nontriv},
    })
    for c in ok[:2]:
        ctx.sample({"n": c["n"], "ops": c["ops"], "terms": c["terms"], "cut_circuit": c["pipeline"], "exact": c["exact_value"]})
