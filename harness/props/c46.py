"""C46 Resource counts report what the circuit contains."""
import re
from vlib import *

PID = "C46"
META = {
    "level": "proof",
    "technique": "Coq proofs (induction / prefix invariant over the dependency-DAG level recursion) on a Gallina "
                 "transcription of _count_resources, CircuitGraph._depth, tape.wires/num_params, estimator "
                 "Resources arithmetic and Expression +/*; vm_compute correspondence against tape.specs, "
                 "qp.specs(level=...) and the real arithmetic",
    "design_ref": "DESIGN.md §3 C46",
    "text": "Kernel-checked theorems (Props/C46.v) for ALL circuits: every reported gate count is the number of "
            "operations with that (name, control-prefix) key, keys are distinct, counts by type (and by size) sum to "
            "the number of operations = total_quantum_operations; num_wires is the number of distinct wire labels of "
            "operations and measurements; the reported depth (per-wire frontier recursion that replaces "
            "rx.dag_longest_path_length on the graph built by _construct_graph_from_queue, incl. the initial "
            "identity, wire-less operations acting on all wires and MidMeasure->Conditional edges) equals the length "
            "of the longest chain of operations in which consecutive operations share an effective wire or are "
            "linked by a mid-circuit measurement (both inequalities), 0 <= depth <= number of gates, appending a gate "
            "that brings no new wire changes depth by 0 or 1 (two tidy clauses are REFUTED by vm_compute witnesses: a "
            "non-empty tape without wires has depth 0; appending a gate on a new wire can raise depth by 2 because "
            "wire-less operations start acting on it); estimator Resources: series/parallel addition adds gate counts pointwise, "
            "max/sum wire rules as coded, commutative/associative, multiply_* = repeated add_*; Expression "
            "+int/+Expression/*int are homomorphic for evaluation (substitution) and the symbolic total of a "
            "SpecsResources evaluates to the sum of the evaluated counts.  The executable model is evaluated inside "
            "Coq on the descriptions of the same tapes the implementation summarises (random tapes; QNodes with "
            "transform pipelines at levels 0/1/2/top/user/gradient/device/None where the tape is obtained "
            "independently through qp.workflow.construct_batch) and every reported field is compared.",
    "note": "Trusted: Coq kernel; the hand transcription (coq/Disc/ResourceCountModel.v) is tied to /repo by the "
            "correspondence run only. At the pinned commit SpecsResources has no gate-size and no trainable-parameter "
            "field: sizes are a derived summary of the model (theorem only, no tie), trainable parameters are "
            "observed through tape.num_params (tape mode only). pennylane/resource has no series/parallel "
            "Resources arithmetic any more; the laws are proved/tied for pennylane.estimator.resources_base.Resources "
            "(wires combine by max/sum, there is no depth field) and for resource.Expression (+, * by int, full "
            "substitution; Expression*Expression and partial substitution are not modelled). The op descriptions "
            "(op.name, wires, len(data), exact-type Controlled test, MidMeasure dict identity, _obs_to_str) are "
            "read from the real objects by the driver and are inputs of the model. Depth theorems assume pairwise "
            "distinct mid-measure keys; the longest-chain lower bound assumes the tape has at least one wire "
            "(without wires the code returns depth 0 for a non-empty circuit, shown as an Example). qjit/MLIR "
            "specs paths, PBC depths and pretty printing are not covered. A Conditional whose MidMeasure is absent "
            "from the tape makes the real depth computation raise KeyError (undo_swaps produces such tapes: reported as "
            "violation key specs_raised:KeyError-MidMeasure:...); the model draws no edge for it.",
    "assumptions": ["mid-measure dictionary keys are pairwise distinct (depth = longest chain theorems)",
                    "gate_types / Expression dictionaries have pairwise distinct keys (association-list model)",
                    "catalyst/qjit paths of qp.specs are outside the model"],
    "trusted": ["hand-written model coq/Disc/ResourceCountModel.v tied to /repo by correspondence only",
                "driver-side description of tapes (names, wires, data length, control count) taken from the real operator objects"],
}

G1 = ["RX", "RY", "RZ", "PhaseShift", "Rot", "U2", "Hadamard", "PauliX", "PauliZ", "S", "T", "SX"]
G2 = ["CNOT", "CZ", "SWAP", "CRX", "CRot", "IsingXX"]
G3 = ["Toffoli", "CSWAP"]
NPAR = {"RX": 1, "RY": 1, "RZ": 1, "PhaseShift": 1, "Rot": 3, "U2": 2, "CRX": 1, "CRot": 3, "IsingXX": 1}


def gen_ops(rng, n_ops, pool, qnode=False):
    ops, mids, nid = [], [], 0
    for _ in range(n_ops):
        r = rng.random()
        if ops and r < 0.12 and ops[-1]["k"] in ("g",):           # repeat previous op (inverses / mergeable rotations)
            ops.append(dict(ops[-1])); continue
        r = rng.random()
        if r < 0.52:
            ar = rng.choice([1, 1, 1, 2, 2, 3, 4])
            ar = min(ar, len(pool))
            if ar == 1:
                nm = rng.choice(G1)
            elif ar == 2:
                nm = rng.choice(G2)
            elif ar == 3:
                nm = rng.choice(G3 + ["MultiControlledX"])
            else:
                nm = "MultiControlledX"
            ops.append({"k": "g", "name": nm, "w": rng.sample(pool, ar)})
        elif r < 0.62 and len(pool) >= 2:
            nc = rng.choice([1, 2, 2, 3])
            nc = min(nc, len(pool) - 1)
            ws = rng.sample(pool, nc + 1)
            ops.append({"k": "ctrl" if (qnode or rng.random() < 0.75) else "qctrl",
                        "name": rng.choice(["RX", "Rot", "RY", "U2"]), "w": ws[:1], "c": ws[1:]})
        elif r < 0.70:
            ops.append({"k": "gphase", "w": [] if rng.random() < 0.6 else [rng.choice(pool)]})
        elif r < 0.75:
            k = rng.randint(0, len(pool))
            ops.append({"k": "barrier", "w": rng.sample(pool, k) if rng.random() < 0.6 else []})
        elif r < 0.78:
            ops.append({"k": "snapshot"} if not qnode or rng.random() < 0.5 else {"k": "gphase", "w": []})
        elif r < 0.80 and not qnode:
            ops.append({"k": "ident0"})
        elif r < 0.90:
            if mids and not qnode and rng.random() < 0.08:       # equal MidMeasure object again: same dict key
                ops.append(dict(rng.choice(mids)))
            else:
                m = {"k": "mid", "w": [rng.choice(pool)], "id": nid}
                nid += 1
                mids.append(m); ops.append(m)
        elif mids:
            ids = sorted(set(rng.choice(mids)["id"] for _ in range(rng.choice([1, 1, 2]))))
            ops.append({"k": "cond", "ids": ids, "name": rng.choice(["RX", "PauliX", "RY", "Hadamard"]),
                        "w": [rng.choice(pool)]})
        else:
            ops.append({"k": "g", "name": rng.choice(G1), "w": [rng.choice(pool)]})
    return ops, mids


def gen_meas(rng, pool, extra, mids, qnode=False):
    ms = []
    allw = pool + extra
    for _ in range(rng.choice([0, 1, 1, 2, 3]) if not qnode else rng.choice([1, 1, 2])):
        r = rng.random()
        if qnode:
            w = rng.choice(pool)
            ms.append(rng.choice([{"k": "expval", "obs": "Z", "w": [w]}, {"k": "expval", "obs": "X", "w": [w]},
                                  {"k": "var", "obs": "Z", "w": [w]},
                                  {"k": "probs", "w": rng.sample(pool, rng.randint(1, len(pool)))},
                                  {"k": "expval", "obs": "prod", "w": rng.sample(pool, min(2, len(pool)))},
                                  {"k": "expval", "obs": "ham", "w": rng.sample(pool, min(2, len(pool)))}]))
            continue
        if r < 0.25:
            k = rng.choice(["probs", "sample", "counts"])
            ch = rng.random()
            w = [] if ch < 0.3 else (list(allw) if ch < 0.5 else rng.sample(allw, rng.randint(1, len(allw))))
            ms.append({"k": k, "w": w})
        elif r < 0.75:
            o = rng.choice(["Z", "X", "prod", "sum", "sprod", "herm", "ham"])
            n = 1 if o in ("Z", "X", "sprod", "herm") else min(len(allw), rng.choice([2, 2, 3]))
            ms.append({"k": rng.choice(["expval", "var"]), "obs": o, "w": rng.sample(allw, n)})
        elif r < 0.85 and mids:
            ms.append({"k": rng.choice(["expval", "sample", "probs"]), "ids": [rng.choice(mids)["id"]]})
        elif r < 0.9:
            ms.append({"k": "state"})
        else:
            ms.append({"k": "probs", "w": rng.sample(allw, rng.randint(1, len(allw)))})
    return ms


def gen_tape(rng, big=False):
    npool = rng.choice([1, 2, 2, 3, 3, 4, 5, 6])
    pool = rng.sample(list(range(-3, 8)), npool)
    extra = [w for w in rng.sample(list(range(8, 11)), rng.choice([0, 0, 0, 1, 2]))]
    n_ops = rng.choice([0, 1, 2, 3, 5, 8, 12, 16, 24]) if not big else rng.randint(20, 60)
    ops, mids = gen_ops(rng, n_ops, pool)
    ms = gen_meas(rng, pool, extra, mids)
    tr = None
    npg = sum(NPAR.get(o.get("name"), 0) for o in ops if o["k"] == "g")
    if npg and rng.random() < 0.4:
        tr = [rng.randrange(npg) for _ in range(rng.randint(0, npg + 1))]
    return {"mode": "tape", "ops": ops, "meas": ms, "trainable": tr}


TRS = ["cancel_inverses", "merge_rotations", "undo_swaps", "commute_controlled", "split_non_commuting",
       "remove_barrier", "defer_measurements"]


def gen_qnode(rng):
    npool = rng.choice([1, 2, 3, 3, 4])
    pool = list(range(npool))
    ops, mids = gen_ops(rng, rng.choice([1, 3, 5, 8, 12]), pool, qnode=True)
    if rng.random() < 0.7:   # most QNodes without mid-circuit measurements
        ops = [o for o in ops if o["k"] not in ("mid", "cond")] or [{"k": "g", "name": "Hadamard", "w": [0]}]
    ms = gen_meas(rng, pool, [], [], qnode=True)
    trs = [rng.choice(TRS) for _ in range(rng.choice([0, 1, 2, 2, 3]))]
    if rng.random() < 0.25:   # tape-splitting pipelines: several non-commuting observables on one wire
        w = rng.choice(pool)
        ms = [{"k": "expval", "obs": o, "w": [w]} for o in rng.sample(["X", "Y", "Z"], rng.choice([2, 3]))]
        trs.insert(rng.randint(0, len(trs)), "split_non_commuting")
        trs = trs[:3]
        if "split_non_commuting" not in trs:
            trs[-1] = "split_non_commuting"
    lv = rng.choice([0, 1, 2, 3, "top", "user", "gradient", "device", "device", None])
    if isinstance(lv, int) and lv > len(trs):
        lv = len(trs)
    return {"mode": "qnode", "ops": ops, "meas": ms, "transforms": trs, "level": lv,
            "dev_wires": rng.choice([None, None, npool, npool + 2]),
            "diff": rng.choice(["best", "parameter-shift", "backprop"]),
            "compute_depth": rng.choice([None, None, None, True, False])}


def gen_eres(rng):
    ks = rng.sample(range(8), rng.randint(0, 6))
    return {"z": rng.randint(0, 5), "a": rng.randint(0, 4), "l": rng.randint(0, 6),
            "gt": [[k, 0 if rng.random() < 0.1 else rng.randint(1, 9)] for k in ks]}


def gen_res(rng):
    op = rng.choice(["adds", "addp", "muls", "mulp", "reps", "repp"])
    c = {"mode": "res", "op": op, "x": gen_eres(rng)}
    if op in ("adds", "addp"):
        c["y"] = gen_eres(rng)
        if rng.random() < 0.3 and c["x"]["gt"]:          # force shared keys
            c["y"]["gt"] = [[k, rng.randint(0, 5)] for k, _ in c["x"]["gt"][:rng.randint(1, len(c["x"]["gt"]))]]
    elif op in ("muls", "mulp"):
        c["n"] = rng.choice([0, 1, 2, 3, 7, -1, 2, 5])
    else:
        c["n"] = rng.randint(0, 4)
    return c


def gen_expr(rng, allow_const=True):
    monos = set()
    for _ in range(rng.randint(1, 4)):
        d = rng.choice([0, 1, 1, 2, 2, 3]) if allow_const else rng.choice([1, 1, 2, 3])
        monos.add(tuple(sorted(rng.choice(range(4)) for _ in range(d))))
    if not allow_const and all(len(m) == 0 for m in monos):
        monos.add((0,))
    return [[list(m), rng.choice([-3, -2, -1, 1, 1, 2, 3, 5])] for m in sorted(monos, key=lambda t: (-len(t), t))]


def gen_x(rng):
    op = rng.choice(["addi", "add", "muli", "subs", "total"])
    rho = [[i, rng.randint(-2, 4)] for i in range(4)]
    if op == "addi":
        e = gen_expr(rng)
        z = rng.randint(-3, 3)
        for m, cf in e:
            if not m and rng.random() < 0.5:
                z = -cf
        return {"mode": "x", "op": op, "e": {"expr": e}, "z": z}
    if op == "add":
        a, b = gen_expr(rng), gen_expr(rng)
        if rng.random() < 0.4:                             # cancellations
            b = [[m, -cf] for m, cf in a[:rng.randint(1, len(a))]] + [t for t in b if t[0] not in [m for m, _ in a]]
        return {"mode": "x", "op": op, "a": {"expr": a}, "b": {"expr": b}}
    if op == "muli":
        return {"mode": "x", "op": op, "e": {"expr": gen_expr(rng)}, "z": rng.choice([0, 1, 2, -1, 3, 4])}
    if op == "subs":
        return {"mode": "x", "op": op, "e": {"expr": gen_expr(rng)}, "rho": rho}
    l = []
    for _ in range(rng.randint(1, 4)):
        l.append({"int": rng.randint(0, 6)} if rng.random() < 0.4 else {"expr": gen_expr(rng, allow_const=False)})
    return {"mode": "x", "op": op, "l": l, "rho": rho}


# ------------------------------------------------------------------ Gallina printers
class Codes:
    def __init__(self):
        self.d = {}

    def __call__(self, s):
        return self.d.setdefault(s, len(self.d) + 1)


def g_ckl(items):
    return glist(items, lambda kv: f"(({gz(kv[0][0])}, {gz(kv[0][1])}, {gz(kv[0][2])}), {gz(kv[1])})")


def g_circuit(d, code):
    gs = glist(d["ops"], lambda o: f"mkGate {gz(code('op:' + o['name']))} {glist(o['w'], gz)} {gz(o['np'])} "
                                   f"{gz(o['ctrl'])} {glist(o['mid'], gz)} {glist(o['cond'], gz)}")
    ms = glist(d["meas"], lambda m: f"mkMeas {gz(code('mp:' + m['short']))} {gbool(m['mv'])} "
                                    f"{gopt(None if m['obs'] is None else code('obs:' + m['obs']), gz)} "
                                    f"{glist(m['w'], gz)} {gz(m['np'])}")
    return f"mkCirc {gs} {ms} {gopt(d.get('trainable'), lambda l: glist(l, gz))}"


def parse_counts(cd, code):
    out = []
    for k, v in cd.items():
        m = re.match(r"^(\d*)(.*)$", k, flags=re.S)
        out.append(((code("op:" + m.group(2)), int(m.group(1) or 0), 0), v))
    return out


def parse_meas(md, code):
    out = []
    for k, v in md.items():
        m = re.match(r"^([^(]*)\((.*)\)$", k, flags=re.S)
        short, inner = code("mp:" + m.group(1)), m.group(2)
        mw = re.match(r"^(\d+) wires$", inner)
        if inner == "mcm":
            key = (short, 0, 0)
        elif inner == "all wires":
            key = (short, 1, 0)
        elif mw:
            key = (short, 2, int(mw.group(1)))
        else:
            key = (short, 3, code("obs:" + inner))
        out.append((key, v))
    return out


def g_summary(s, code):
    return (f"({g_ckl(parse_counts(s['counts'], code))}, {g_ckl(parse_meas(s['meas'], code))}, {gz(s['nw'])}, "
            f"{gz(s['depth'])}, {gz(s['total'])}, {gz(s['np'])})")


def g_eres(x):
    return f"(mkERes {gz(x['z'])} {gz(x['a'])} {gz(x['l'])} {glist(x['gt'], lambda kv: f'({gz(kv[0])}, {gz(kv[1])})')})"


def g_rcase(c):
    op = c["op"]
    if op in ("adds", "addp"):
        return f"{'RAddS' if op == 'adds' else 'RAddP'} {g_eres(c['x'])} {g_eres(c['y'])}"
    if op in ("muls", "mulp"):
        return f"{'RMulS' if op == 'muls' else 'RMulP'} {g_eres(c['x'])} {gz(c['n'])}"
    return f"{'RRepS' if op == 'reps' else 'RRepP'} {g_eres(c['x'])} {gnat(c['n'])}"


def g_robs(o):
    gt = glist(o["gt"], lambda kv: f"({gz(kv[0])}, {gz(kv[1])})")
    return f"({gz(o['z'])}, {gz(o['a'])}, {gz(o['l'])}, {gt}, {gz(o['tw'])}, {gz(o['tg'])})"


def g_expr(e):
    return glist(e, lambda mc: f"({glist(mc[0], gz)}, {gz(mc[1])})")


def g_xres(v):
    return f"(XInt {gz(v['int'])})" if "int" in v else f"(XExpr {g_expr(v['expr'])})"


def g_env(rho):
    return glist(rho, lambda kv: f"({gz(kv[0])}, {gz(kv[1])})")


def g_xcase(c):
    op = c["op"]
    if op == "addi":
        return f"XAddI {g_expr(c['e']['expr'])} {gz(c['z'])}"
    if op == "add":
        return f"XAdd {g_expr(c['a']['expr'])} {g_expr(c['b']['expr'])}"
    if op == "muli":
        return f"XMulI {g_expr(c['e']['expr'])} {gz(c['z'])}"
    if op == "subs":
        return f"XSubs {g_expr(c['e']['expr'])} {g_env(c['rho'])}"
    return f"XTotal {glist(c['l'], g_xres)} {g_env(c['rho'])}"


# ------------------------------------------------------------------ direct oracles (the property on the outputs)
def longest_chain(d):
    """length of the longest chain of operations, by the definition (quadratic DP, no frontier)"""
    aw = []
    for o in d["ops"]:
        aw += [w for w in o["w"] if w not in aw]
    for m in d["meas"]:
        aw += [w for w in m["w"] if w not in aw]
    eff = [set(o["w"]) if o["w"] else set(aw) for o in d["ops"]]
    best = []
    for i, o in enumerate(d["ops"]):
        b = 1
        for j in range(i):
            if (eff[j] & eff[i]) or (set(d["ops"][j]["mid"]) & set(o["cond"])):
                b = max(b, best[j] + 1)
        best.append(b)
    return max(best, default=0), len(aw)


def direct_circ(d, s):
    n = len(d["ops"])
    probs = []
    if sum(s["counts"].values()) != n or s["total"] != n:
        probs.append("gate counts do not sum to the number of operations")
    if sum(s["meas"].values()) != len(d["meas"]):
        probs.append("measurement counts do not sum to the number of measurements")
    lc, nw = longest_chain(d)
    if s["nw"] != nw:
        probs.append("num_wires differs from the number of distinct wires")
    mids = [m for o in d["ops"] for m in o["mid"]]
    if s["depth"] >= 0:
        if s["depth"] > n:
            probs.append("depth exceeds the number of gates")
        if nw > 0 and len(set(mids)) == len(mids) and all(c >= 0 for o in d["ops"] for c in o["cond"]) and s["depth"] != lc:
            probs.append(f"depth {s['depth']} differs from the longest dependency chain {lc}")
    return probs


def run(ctx):
    ctx.coq_props()
    rng = ctx.rng
    quick = ctx.tier == "quick"
    n_tape, n_qnode, n_res, n_x = (900, 160, 500, 500) if quick else (6000, 1200, 3000, 3000)
    H = lambda o: {"k": "g", "name": "Hadamard", "w": [o]}
    cases = [  # corpus first
        {"mode": "tape", "ops": [{"k": "gphase", "w": []}], "meas": [], "trainable": None},
        {"mode": "tape", "ops": [{"k": "gphase", "w": []}, {"k": "g", "name": "RX", "w": [0]}], "meas": [], "trainable": None},
        {"mode": "tape", "ops": [], "meas": [{"k": "probs", "w": [0, 1]}], "trainable": None},
        {"mode": "tape", "ops": [H(0), H(1), {"k": "barrier", "w": []}, H(0), {"k": "snapshot"}, {"k": "ident0"},
                                 {"k": "ctrl", "name": "RX", "w": [0], "c": [1, 2]}, {"k": "ctrl", "name": "RX", "w": [0], "c": [1]},
                                 {"k": "qctrl", "name": "Rot", "w": [0], "c": [3, 4]}, {"k": "g", "name": "Toffoli", "w": [0, 1, 2]},
                                 {"k": "g", "name": "MultiControlledX", "w": [0, 1, 2, 3]}],
         "meas": [{"k": "probs", "w": [5]}], "trainable": None},
        {"mode": "tape", "ops": [H(0), {"k": "mid", "w": [0], "id": 0}, H(1), {"k": "mid", "w": [1], "id": 1},
                                 {"k": "cond", "ids": [0, 1], "name": "RX", "w": [2]}, {"k": "cond", "ids": [0], "name": "PauliX", "w": [3]}],
         "meas": [{"k": "expval", "obs": "Z", "w": [2]}, {"k": "expval", "ids": [0]}], "trainable": [0, 0]},
        {"mode": "tape", "ops": [{"k": "mid", "w": [0], "id": 0}, H(1), H(1), H(1), {"k": "mid", "w": [0], "id": 0},
                                 {"k": "cond", "ids": [0], "name": "RX", "w": [2]}], "meas": [], "trainable": None},
        {"mode": "qnode", "ops": [{"k": "g", "name": "RX", "w": [0]}, {"k": "g", "name": "RX", "w": [0]}, {"k": "g", "name": "PauliX", "w": [1]},
                                  {"k": "g", "name": "PauliX", "w": [1]}, {"k": "g", "name": "CNOT", "w": [0, 1]}],
         "meas": [{"k": "expval", "obs": "Z", "w": [0]}, {"k": "expval", "obs": "X", "w": [0]}],
         "transforms": ["cancel_inverses", "merge_rotations", "split_non_commuting"], "level": 3, "dev_wires": None,
         "diff": "best", "compute_depth": None},
        {"mode": "res", "op": "adds", "x": {"z": 1, "a": 2, "l": 3, "gt": [[0, 2], [1, 0]]}, "y": {"z": 4, "a": 1, "l": 2, "gt": [[1, 0], [2, 5]]}},
        {"mode": "res", "op": "muls", "x": {"z": 1, "a": 2, "l": 3, "gt": [[0, 2], [5, 1]]}, "n": 0},
        {"mode": "x", "op": "addi", "e": {"expr": [[[0, 1], 2], [[], 3]]}, "z": -3},
        {"mode": "x", "op": "add", "a": {"expr": [[[0], 1], [[], 3]]}, "b": {"expr": [[[0], -1]]}},
        {"mode": "x", "op": "total", "l": [{"expr": [[[0, 1], 2], [[], 3]]}, {"int": 2}, {"expr": [[[0], 1]]}],
         "rho": [[0, 1], [1, 2], [2, 0], [3, 0]]},
    ]
    # regression (found by the thorough tier): undo_swaps re-creates the MidMeasure on the swapped wire but the
    # Conditional keeps the old MeasurementValue -> CircuitGraph raises KeyError, qp.specs(level="user") fails
    cases.append({"mode": "qnode", "ops": [{"k": "mid", "w": [1], "id": 0}, {"k": "g", "name": "SWAP", "w": [0, 1]},
                                           {"k": "cond", "ids": [0], "name": "PauliX", "w": [1]}],
                  "meas": [{"k": "expval", "obs": "Z", "w": [0]}], "transforms": ["undo_swaps"], "level": "user",
                  "dev_wires": None, "diff": "best", "compute_depth": None})
    for lv in [0, 1, 2, "top", "user", "gradient", "device", None]:
        c = json.loads(json.dumps(cases[6])); c["level"] = lv; c["transforms"] = c["transforms"][:2]; cases.append(c)
    for _ in range(n_tape):
        cases.append(gen_tape(rng, big=(not quick and rng.random() < 0.1)))
    for _ in range(n_qnode):
        cases.append(gen_qnode(rng))
    for _ in range(n_res):
        cases.append(gen_res(rng))
    for _ in range(n_x):
        cases.append(gen_x(rng))

    # the QNode cases dominate the run time: split the payload over parallel driver processes
    from concurrent.futures import ThreadPoolExecutor
    nproc = 6
    chunks = [cases[i::nproc] for i in range(nproc)]
    with ThreadPoolExecutor(max_workers=nproc) as ex:
        parts = list(ex.map(lambda ch: ctx.run_impl("c46_impl.py", {"cases": ch}), chunks))
    obs = [None] * len(cases)
    for i, p in enumerate(parts):
        obs[i::nproc] = p

    code = Codes()
    cterms, cref = [], []          # circuit terms, (case index, tape index)
    rterms, rref, xterms, xref = [], [], [], []
    hist = {"tape": 0, "qnode": 0, "res": 0, "x": 0, "gen_err": 0, "qnode_skipped": 0, "tapes_compared": 0,
            "depth_gt_1": 0, "wireless_ops": 0, "mcm_edges": 0, "ctrl_prefix": 0, "dup_mid_key": 0, "batch_gt_1": 0,
            "no_wires_nonempty": 0, "depth_not_computed": 0, "trainable_set": 0, "expr_to_int": 0,
            "counter_dropped": 0}
    levels = {}
    distinct = set()
    for i, (c, o) in enumerate(zip(cases, obs)):
        m = c["mode"]
        hist[m] += 1
        ck = json.dumps(c, sort_keys=True)
        if "build_err" in o:
            hist["gen_err"] += 1
            ctx.notes.append(f"generated case could not be built: {o['build_err'][:120]}") if len(ctx.notes) < 5 else None
            continue
        if m in ("tape", "qnode"):
            if "skip" in o:
                hist["qnode_skipped"] += 1
                continue
            if "specs_err" in o:
                ecls = "KeyError-MidMeasure" if o["specs_err"].startswith("KeyError: MidMeasure") else o["specs_err"].split(":")[0]
                ctx.violation(f"specs_raised:{ecls}:" + ck, {"case": c, "observed": o},
                              what="specs raised on a tape that construct_batch / QuantumScript built: " + o["specs_err"][:100])
                continue
            if len(o["sums"]) != len(o["tapes"]):
                ctx.violation("batch_size:" + ck, {"case": c, "observed": o},
                              what="qp.specs reports a different number of tapes than construct_batch at that level")
                continue
            if m == "qnode":
                levels[str(c["level"])] = levels.get(str(c["level"]), 0) + 1
                if len(o["tapes"]) > 1:
                    hist["batch_gt_1"] += 1
            else:
                if o["g_depth"] != o["sums"][0]["depth"] or o["t_nw"] != o["sums"][0]["nw"]:
                    ctx.violation("direct:" + ck, {"case": c, "observed": o},
                                  what="tape.specs disagrees with tape.graph.get_depth()/tape.num_wires")
                if c.get("trainable") is not None:
                    hist["trainable_set"] += 1
            for j, (d, s) in enumerate(zip(o["tapes"], o["sums"])):
                cterms.append(f"({g_circuit(d, code)}, {g_summary(s, code)})")
                cref.append((i, j))
                hist["tapes_compared"] += 1
                if s["depth"] > 1:
                    hist["depth_gt_1"] += 1
                    distinct.add(json.dumps(d, sort_keys=True))
                if s["depth"] < 0:
                    hist["depth_not_computed"] += 1
                if any(not g["w"] for g in d["ops"]):
                    hist["wireless_ops"] += 1
                if any(g["cond"] for g in d["ops"]):
                    hist["mcm_edges"] += 1
                if any(g["ctrl"] > 1 for g in d["ops"]):
                    hist["ctrl_prefix"] += 1
                mids = [x for g in d["ops"] for x in g["mid"]]
                if len(mids) != len(set(mids)):
                    hist["dup_mid_key"] += 1
                if d["ops"] and s["nw"] == 0:
                    hist["no_wires_nonempty"] += 1
                for p in direct_circ(d, s):
                    ctx.violation("direct:" + ck, {"case": c, "tape": d, "reported": s}, what=p)
        elif m == "res":
            rterms.append(f"({g_rcase(c)}, {g_robs(o)})")
            rref.append(i)
            if c["op"] in ("adds", "addp") and len(o["gt"]) < len({k for k, _ in c["x"]["gt"] + c["y"]["gt"]}):
                hist["counter_dropped"] += 1
            if c["op"] in ("reps", "repp") and "mul" in o:
                pos = lambda gt: sorted(kv for kv in map(tuple, gt) if kv[1] != 0)
                if (o["z"], o["a"], o["l"]) != (o["mul"]["z"], o["mul"]["a"], o["mul"]["l"]) or pos(o["gt"]) != pos(o["mul"]["gt"]):
                    ctx.violation("direct:" + ck, {"case": c, "observed": o},
                                  what="multiply_* differs from repeated add_*")
            distinct.add(ck)
        else:
            exp = {"int": o["int"]} if "int" in o else o
            xterms.append(f"({g_xcase(c)}, {g_xres(exp)})")
            xref.append(i)
            if "int" in o and c["op"] in ("addi", "add"):
                hist["expr_to_int"] += 1
            if c["op"] == "total" and not (o["int"] == o["total_then_subs"] == o["sum_sub_counts"]):
                ctx.violation("direct:" + ck, {"case": c, "observed": o},
                              what="substituting into the symbolic total differs from the sum of the substituted counts")
            distinct.add(ck)

    hdr = "From PLV Require Import Disc.ResourceCountModel."
    for name, terms, ref, fn in (("circ", cterms, cref, "check_circ"), ("res", rterms, rref, "check_res"),
                                 ("expr", xterms, xref, "check_x")):
        if not terms:
            continue
        for b in ctx.coq_eval_cases(name, hdr, terms, fn, chunk=250):
            i = ref[b][0] if name == "circ" else ref[b]
            rep = {"case": cases[i], "implementation": obs[i], "model": f"see coq/Gen/C46/{name}_*.v"}
            if name == "circ":
                rep["tape_index"] = ref[b][1]
            ctx.violation(f"corr:{name}:" + json.dumps(cases[i], sort_keys=True), rep, found_input=True,
                          what=f"implementation differs from the proved model ({fn})")
    hist["qnode_levels"] = levels
    ctx.coverage.update({
        "evaluations": len(cases), "distinct_nontrivial": len(distinct),
        "rule": "seeded generator: random tapes (1-6 wires incl. string labels, 0-24 ops [thorough: up to 60]; named gates, "
                "bare Controlled with 1-3 controls, qp.ctrl, wire-less GlobalPhase/Barrier/Snapshot/Identity, MidMeasure + "
                "Conditional, repeated MidMeasure keys; measurements incl. measurement-only wires, mcm measurements; "
                "explicit trainable sets), QNodes with 0-3 transforms at levels 0..3/top/user/gradient/device/None, "
                "estimator Resources pairs/scalars (zero counts 10%), Expressions over 4 variables with forced "
                "cancellations; non-trivial = tape of depth > 1 or an arithmetic case",
        "input_distribution": hist})
    k = 0
    for c, o in zip(cases, obs):
        if c["mode"] in ("tape", "qnode") and "sums" in o and len(c["ops"]) > 2 and k < 3:
            ctx.sample({"case": c, "observed": o}); k += 1
    for c, o in zip(cases, obs):
        if c["mode"] in ("res", "x") and k < 6:
            ctx.sample({"case": c, "observed": o}); k += 1
