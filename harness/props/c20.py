"""C20 Measurement splitting and diagonalisation preserve results."""
import sys
from fractions import Fraction as Fr
from vlib import *

sys.path.insert(0, str(VERIF / "harness" / "impl"))
from c20_impl import gen_ms, expected_fake, ast_lin, KINDS  # pure-python helpers (no pennylane import)

PID = "C20"
META = {
    "level": "proof",
    "technique": "Coq proofs (induction, permutation invariance of the coefficient bookkeeping) over a Gallina transcription of the splitting/reassembly code + vm_compute correspondence with an exact fake executor + end-to-end differential on default.qubit",
    "design_ref": "DESIGN.md §3 C20, §5 item 6",
    "text": "Theorems (Props/C20.v, all lists, all executors E : measurement-key -> Q): split_reassemble_linear - splitting a measurement list into single-term measurements (dedup across measurements, identity/offset handling), executing them with ANY E and reassembling with the transcription of _processing_fn_no_grouping/_sum_terms gives, position by position, E extended linearly (E(I)=1) to the original measurements; grouped_same - for ANY partition of the distinct single-term measurements into tapes the transcription of _split_using_qwc_grouping + _processing_fn_with_grouping (incl. squeeze of singleton groups) succeeds and gives the same values; rejects_nonlinear - the split raises exactly when some non-expval measurement has an observable that simplifies to a sum, everything else non-expval is passed through whole with coefficient 1; broadcast_roundtrip - _split_operations yields, in order, the b-th slice of every batched parameter and the processing function re-stacks results[b][m] as [m][b]. Tie K: generated measurement lists (sums with identity terms, offsets, nested scalar multiples, duplicates across measurements, Hermitian/Projector factors, var/probs/sample/counts, rejected inputs) are transformed by the REAL split_to_single_terms / split_non_commuting (default, qwc, wires, None); the produced tapes are executed by a dyadic table E, the REAL post-processing is applied, and the exact result must equal (i) E applied to the original AST (independent python oracle), (ii) the Coq model's tapes, recorded grouping (checked to be a partition; commutation of every group validated) and values. End-to-end: pyth_angle circuits on default.qubit, results after transform+postprocessing vs direct execution (1e-9; sample shapes, counts totals) for every transform of the property; rejected inputs must raise.",
    "note": "Modelled, not verified: obs.terms() / simplify() are oracles recorded from the run (operator arithmetic is covered by other properties); MeasurementProcess dictionary identity is modelled by equality of (kind, scalar, word in the operator's wire order) (the real __hash__ contains the wire tuple, so expval(Y(0)@X(1)) and expval(X(1)@Y(0)) are measured separately: harmless, reproduced by the model). The single-Sum path _split_ham_with_grouping is covered by the same model with its grouping recorded (its group_idx bookkeeping is not transcribed: a user-set grouping_indices containing an identity-only group makes the real post-processing raise IndexError; compute_grouping never produces that). diagonalize_measurements, sign_expand and sample/counts under splitting are covered by the end-to-end differential only (no theorem about basis-change gates here). Partitioned shots (shot_vector_support), shot_dist and autograd/jax interfaces are not exercised. sign_expand var mode is documented as the variance of the estimator and is not compared; sign_expand expval is compared to 1e-6 (it builds projectors in complex64). For a batch of size 1 default.qubit's direct result drops the batch axis of some measurements, so batch_params/batch_input with B=1 are compared on values only. Known findings reported under stable keys: sign_expand analytic mode returns wrong expectation values (drops (lmin+lmax)/2, conjugated projectors); diagonalize_measurements(to_eigvals=True) on composite observables whose operands share wires.",
    "assumptions": ["obs.terms()/simplify()/MeasurementProcess.__eq__ behave as recorded (oracles)",
                    "fake executor values are dyadic so float post-processing is exact"],
    "trusted": ["hand-written model coq/Disc/SplitModel.v tied to /repo by correspondence only",
                "harness/impl/c20_impl.py op->word conversion (own recursion over the operator tree)"],
}

MODES = {"single": 0, "none": 1, "default": 2, "qwc": 2, "wires": 2}


def g_word(w):
    return glist(w, lambda p: f"({gz(p[0])}, {gz(p[1])})")


def g_key(k):
    if k is None:
        return "(9%Z, 0%Z, 1%Z, [])"
    return f"({gz(k[0])}, {gz(k[1][0])}, {gz(k[1][1])}, {g_word(k[2])})"


def g_meas(m):
    if m["cls"] == "comp":
        ts = glist(m["terms"], lambda t: f"({gq(Fr(*t[0]))}, {gbool(t[1])}, {g_word(t[2])})")
        return f"MComp {gz(m['kind'])} {ts} {gbool(m['simp_sum'])} {g_key(m['key'])}"
    if m["cls"] == "ident":
        return f"MIdent {gz(m['kind'])} {g_key(m['key'])}"
    return f"MOther {gz(m['kind'])} {g_key(m['key'])}"


def modelable(c, o):
    if o.get("meas") is None:
        return False
    for m in o["meas"]:
        if m["cls"] == "comp" and m["kind"] == 0 and m["terms"] is None:
            return False
        if not (m["cls"] == "comp" and (m["kind"] == 0 or m["simp_sum"])) and m["key"] is None:
            return False
    if o["status"] == "ok" and any(k is None for t in o["tapes"] for k in t):
        return False
    # un-modelled shortcut of the real code: a tape without any multi-term observable is returned untouched, so a single-term
    # product keeps its identity factors (key differs from the term's word); such cases are left to the direct oracle
    if o["status"] == "ok" and not any(m["cls"] == "comp" and m["kind"] == 0 and len(m["terms"] or []) != 1 for m in o["meas"]):
        for m in o["meas"]:
            if m["cls"] == "comp" and m["kind"] == 0 and m["key"] is not None and any(l == 4 for _, l in m["key"][2]) and any(l != 4 for _, l in m["key"][2]):
                return False
    return True


def g_case(c, o):
    ms = glist(o["meas"], g_meas)
    if o["status"] == "raise":
        return f"({ms}, {gz(MODES[c['strategy']])}, [], None)"
    tab = glist(o["table"], lambda kv: f"({g_key(kv[0])}, {gq(Fr(*kv[1]))})")
    tapes = glist(o["tapes"], lambda t: glist(t, g_key))
    res = glist(o["result"], lambda r: gq(Fr(*r)))
    return f"({ms}, {gz(MODES[c['strategy']])}, {tab}, Some ({tapes}, {res}))"


def compatible(a, b, nw):
    """two single-term measurements may share a tape: on every shared wire the same Pauli letter
    (wires-only = Z; identity letter 4 is free; opaque letters never share a wire)"""
    def letters(k):
        if not k[2] and k[0] != 0:
            return {w: 3 for w in range(nw)}          # measurement on all wires
        return {w: (3 if l == 0 else l) for w, l in k[2]}
    la, lb = letters(a), letters(b)
    for w in set(la) & set(lb):
        if la[w] == 4 or lb[w] == 4:
            continue
        if la[w] != lb[w] or la[w] >= 10:
            return False
    return True


CORPUS_FAKE = [
    # regression: DESIGN §5.6 (b) (repaired in /repo): var/sample/counts of the identity are not an offset
    {"nw": 2, "strategy": "default", "ms": [{"kind": "var", "obs": ["I", 0]}, {"kind": "expval", "obs": ["P", "X", 0]}]},
    {"nw": 2, "strategy": "single", "ms": [{"kind": "var", "obs": ["I", 0]}, {"kind": "expval", "obs": ["P", "X", 0]}]},
    {"nw": 2, "strategy": "wires", "ms": [{"kind": "sample", "obs": ["I", 0]}, {"kind": "counts", "obs": ["I", 1]}, {"kind": "expval", "obs": ["sum", [["P", "Z", 0], ["sprod", [2, 1], ["I", 1]]]]}]},
    {"nw": 1, "strategy": "none", "ms": [{"kind": "var", "obs": ["I", 0]}]},
    {"nw": 2, "strategy": "qwc", "ms": [{"kind": "expval", "obs": ["I", 0]}, {"kind": "expval", "obs": ["sum", [["sprod", [1, 2], ["P", "Y", 0]], ["sprod", [-1, 2], ["I", 0]]]]}]},
    # documentation example of split_to_single_terms
    {"nw": 2, "strategy": "single", "ms": [{"kind": "expval", "obs": ["sum", [["P", "Z", 0], ["P", "Z", 1]]]},
                                          {"kind": "expval", "obs": ["sum", [["P", "X", 0], ["sprod", [1, 4], ["P", "X", 1]], ["sprod", [2, 1], ["I", 0]]]]},
                                          {"kind": "expval", "obs": ["sum", [["P", "X", 1], ["P", "Z", 1]]]}]},
    {"nw": 2, "strategy": "default", "ms": [{"kind": "expval", "obs": ["prod", [["P", "Z", 0], ["P", "Z", 1]]]}, {"kind": "expval", "obs": ["prod", [["P", "X", 0], ["P", "X", 1]]]},
                                           {"kind": "expval", "obs": ["P", "Z", 0]}, {"kind": "expval", "obs": ["P", "X", 0]}]},
    {"nw": 2, "strategy": "default", "ms": [{"kind": "expval", "obs": ["P", "X", 0]}, {"kind": "probs", "wires": [1]}, {"kind": "probs", "wires": [0, 1]}]},
    # single Sum (the _split_ham_with_grouping path) with offset and a repeated word
    {"nw": 2, "strategy": "default", "ms": [{"kind": "expval", "obs": ["sum", [["sprod", [2, 1], ["I", 0]], ["P", "X", 0], ["P", "Y", 0], ["sprod", [1, 2], ["P", "X", 0]]]]}]},
    {"nw": 2, "strategy": "qwc", "ms": [{"kind": "expval", "obs": ["sum", [["sprod", [2, 1], ["I", 0]], ["sprod", [3, 1], ["I", 1]]]]}]},
    {"nw": 2, "strategy": "default", "ms": [{"kind": "var", "obs": ["sum", [["P", "X", 0], ["P", "Z", 1]]]}]},
]
for _c in CORPUS_FAKE:
    _c["profile"] = "corpus"

CORPUS_E2E = [
    # regression: DESIGN §5.6 (a) (repaired in /repo): coefficient of identity terms under diagonalize_measurements
    {"transform": "diag", "nw": 1, "ms": [{"kind": "expval", "obs": ["sum", [["sprod", [1, 2], ["P", "Y", 0]], ["sprod", [-13, 8], ["I", 0]]]]}]},
    {"transform": "diag", "nw": 2, "ms": [{"kind": "expval", "obs": ["sum", [["P", "X", 0], ["sprod", [-3, 4], ["prod", [["I", 0], ["I", 1]]]]]]}]},
    {"transform": "diag", "nw": 2, "to_eigvals": True, "ms": [{"kind": "expval", "obs": ["sum", [["P", "Y", 1], ["sprod", [1, 2], ["P", "Z", 0]], ["sprod", [3, 2], ["I", 0]]]]}]},
    # coefficient exactly -1 (a sign, not a magnitude): X(0) - Y(1), (-1*X(0)) @ Z(1), 2 X0 Y1 - Z2 + 0.3 I
    {"transform": "diag", "nw": 2, "ms": [{"kind": "expval", "obs": ["sum", [["P", "X", 0], ["sprod", [-1, 1], ["P", "Y", 1]]]]}]},
    {"transform": "diag", "nw": 3, "ms": [{"kind": "expval", "obs": ["prod", [["sprod", [-1, 1], ["P", "X", 0]], ["P", "Z", 1]]]}, {"kind": "var", "obs": ["P", "Y", 2]}]},
    {"transform": "diag", "nw": 3, "ms": [{"kind": "expval", "obs": ["sum", [["sprod", [2, 1], ["prod", [["P", "X", 0], ["P", "Y", 1]]]], ["sprod", [-1, 1], ["P", "Z", 2]], ["sprod", [1, 4], ["I", 0]]]]}]},
    {"transform": "snc:default", "nw": 2, "ms": [{"kind": "var", "obs": ["I", 0]}, {"kind": "expval", "obs": ["P", "X", 0]}]},
    {"transform": "single", "nw": 2, "ms": [{"kind": "var", "obs": ["I", 0]}, {"kind": "expval", "obs": ["sum", [["P", "X", 0], ["sprod", [2, 1], ["I", 1]]]]}]},
    # rejection: two different Pauli letters requested on one wire (in any order, bare or inside Prod/Sum/SProd, with a bare Z,
    # against probs, with supported_base_obs) must raise ValueError, never return a tape
    {"transform": "diag_reject", "nw": 3, "ms": [{"kind": "expval", "obs": ["P", "X", 0]}, {"kind": "expval", "obs": ["P", "Z", 0]}]},
    {"transform": "diag_reject", "nw": 3, "ms": [{"kind": "expval", "obs": ["P", "Z", 0]}, {"kind": "expval", "obs": ["P", "Y", 0]}]},
    {"transform": "diag_reject", "nw": 2, "ms": [{"kind": "expval", "obs": ["P", "X", 1]}, {"kind": "var", "obs": ["P", "Y", 1]}]},
    {"transform": "diag_reject", "nw": 3, "ms": [{"kind": "expval", "obs": ["P", "Z", 0]}, {"kind": "expval", "obs": ["sum", [["P", "X", 0], ["P", "Y", 1]]]}]},
    {"transform": "diag_reject", "nw": 3, "ms": [{"kind": "expval", "obs": ["prod", [["P", "X", 0], ["P", "Z", 1]]]}, {"kind": "var", "obs": ["P", "Y", 1]}]},
    {"transform": "diag_reject", "nw": 3, "ms": [{"kind": "expval", "obs": ["prod", [["P", "Y", 0], ["P", "X", 2]]]}, {"kind": "expval", "obs": ["sprod", [-3, 4], ["P", "Z", 2]]}]},
    {"transform": "diag_reject", "nw": 2, "supported": ["X"], "ms": [{"kind": "expval", "obs": ["P", "Y", 0]}, {"kind": "expval", "obs": ["P", "Z", 0]}]},
    {"transform": "diag_reject", "nw": 2, "supported": ["X", "Y"], "ms": [{"kind": "expval", "obs": ["P", "Z", 1]}, {"kind": "expval", "obs": ["prod", [["P", "X", 0], ["P", "X", 1]]]}]},
    {"transform": "diag_reject", "nw": 2, "ms": [{"kind": "expval", "obs": ["sum", [["P", "X", 0], ["sprod", [1, 2], ["P", "Z", 0]]]]}]},
    {"transform": "diag_reject", "nw": 2, "ms": [{"kind": "expval", "obs": ["P", "X", 0]}, {"kind": "probs", "wires": [0, 1]}]},
    # accepted neighbours of the above (a bare Z next to X/Y on OTHER wires, Z repeated): values must match direct execution
    {"transform": "diag", "nw": 3, "ms": [{"kind": "expval", "obs": ["prod", [["P", "X", 0], ["P", "Z", 1]]]}, {"kind": "var", "obs": ["P", "Z", 1]}, {"kind": "expval", "obs": ["P", "Y", 2]}]},
    {"transform": "diag", "nw": 3, "ms": [{"kind": "expval", "obs": ["sum", [["P", "Z", 0], ["sprod", [1, 2], ["P", "X", 1]]]]}, {"kind": "expval", "obs": ["P", "Z", 0]}, {"kind": "var", "obs": ["prod", [["P", "X", 1], ["P", "Y", 2]]]}]},
]


def qwc_letters(ms, nw):
    """independent of pennylane: {wire: set of Pauli letters requested on it} over all terms of all measurements
    (wires-only measurements = Z on their wires, all wires if none given; identity factors are free)"""
    req = {}
    for m in ms:
        if m.get("obs") is None:
            for w in (m["wires"] or range(nw)):
                req.setdefault(w, set()).add(3)
            continue
        for word, c in ast_lin(m["obs"]).items():
            for w, l in word:
                req.setdefault(w, set()).add(l)
    return req


def run(ctx):
    ctx.coq_props()
    rng = ctx.rng
    quick = ctx.tier == "quick"
    nfake = 220 if quick else 2400
    ne2e = 38 if quick else 380
    cases = [dict(c) for c in CORPUS_FAKE]
    while len(cases) < nfake:
        nw = rng.choice([1, 2, 2, 3, 3, 4])
        prof = rng.choice(["expval", "expval", "expval", "mixed", "mixed", "reject"])
        cases.append({"nw": nw, "ms": gen_ms(rng, nw, prof), "profile": prof,
                      "strategy": rng.choice(["single", "default", "qwc", "wires", "none"])})
    out = ctx.run_impl("c20_impl.py", {"fake": cases, "e2e": {"seed": ctx.seed * 7919 + 20, "n": ne2e, "tier": ctx.tier, "corpus": CORPUS_E2E}}, timeout=3000)
    obs = out["fake"]

    # ------------------------------------------------------------------ fake executor: direct oracle + model
    hist = {"ok": 0, "raise": 0, "dedup_across": 0, "offset": 0, "multi_tape": 0, "opaque": 0, "nonexpval": 0,
            "model_skipped": 0, "strategy": {}, "profile": {}}
    terms, tidx = [], []
    distinct = set()
    for i, (c, o) in enumerate(zip(cases, obs)):
        ckey = json.dumps({k: c[k] for k in ("nw", "ms", "strategy")}, sort_keys=True)
        hist["strategy"][c["strategy"]] = hist["strategy"].get(c["strategy"], 0) + 1
        hist["profile"][c["profile"]] = hist["profile"].get(c["profile"], 0) + 1
        st = o["status"]
        if st == "driver_error":
            raise RuntimeError("c20_impl driver error: " + o["exc"] + " CASE " + json.dumps(c))
        should_reject = any(m["kind"] != "expval" and m.get("obs") is not None and len([1 for v in ast_lin(m["obs"]).values() if v != 0]) > 1 for m in c["ms"])
        if st == "post_raise":
            ctx.violation("fake-post-raise:" + ckey, {"case": c, "observed": o}, what="post-processing function raised on the results of its own tapes")
            continue
        if st == "raise":
            hist["raise"] += 1
            if not should_reject:
                ctx.violation("fake-raise:" + ckey, {"case": c, "observed": o}, what=f"transform raised {o.get('exc')} on a valid measurement list")
                continue
        else:
            hist["ok"] += 1
            if should_reject:
                ctx.violation("fake-accepted:" + ckey, {"case": c, "observed": o}, what="var/probs/sample/counts of a multi-term sum was split instead of rejected")
                continue
            exp = [expected_fake(m) for m in c["ms"]]
            got = [Fr(*r) if isinstance(r, list) else None for r in o["result"]]
            if exp != got:
                ctx.violation("fake-value:" + ckey, {"case": c, "expected": [str(x) for x in exp], "post_processed": [str(x) for x in got], "tapes": o["tapes"]},
                              what="post-processing of exactly executed split tapes differs from E applied to the original measurements (value, order or offset)")
            if not o.get("ops_kept", True):
                ctx.violation("fake-ops:" + ckey, {"case": c}, what="split tape does not carry the original operations")
            if MODES[c["strategy"]] == 2:
                for t in o["tapes"]:
                    ks = [k for k in t if k is not None]
                    for a in range(len(ks)):
                        for b in range(a + 1, len(ks)):
                            if not compatible(ks[a], ks[b], c["nw"]):
                                ctx.violation("fake-group:" + ckey, {"case": c, "tapes": o["tapes"], "pair": [ks[a], ks[b]]},
                                              what="a produced tape contains two measurements that are not qubit-wise commuting")
            flat = [json.dumps(k) for t in o["tapes"] for k in t]
            nterm = sum(len(ast_lin(m["obs"])) if m.get("obs") is not None else 1 for m in c["ms"])
            if len(flat) < nterm - sum(1 for m in c["ms"] if m.get("obs") is not None and () in ast_lin(m["obs"])):
                hist["dedup_across"] += 1
            if any(m.get("obs") is not None and m["kind"] == "expval" and ast_lin(m["obs"]).get((), 0) != 0 for m in c["ms"]):
                hist["offset"] += 1
            if len(o["tapes"]) > 1:
                hist["multi_tape"] += 1
            if any(l >= 10 for t in o["tapes"] for k in t if k for _, l in k[2]):
                hist["opaque"] += 1
            if any(m["kind"] != "expval" for m in c["ms"]):
                hist["nonexpval"] += 1
            if len(flat) > 1:
                distinct.add(ckey)
        if modelable(c, o):
            terms.append(g_case(c, o))
            tidx.append(i)
        else:
            hist["model_skipped"] += 1
    bad = ctx.coq_eval_cases("cases", "From PLV Require Import Disc.SplitModel.\nFrom Coq Require Import QArith.", terms, "check_case", chunk=150)
    for b in bad:
        c, o = cases[tidx[b]], obs[tidx[b]]
        ctx.violation("corr:" + json.dumps({k: c[k] for k in ("nw", "ms", "strategy")}, sort_keys=True),
                      {"case": c, "implementation": o, "model": "coq/Gen/C20/cases_*.v: check_case false"},
                      what="real transform (tapes / grouping / reassembled values / rejection) differs from the proved model")

    # ------------------------------------------------------------------ end-to-end
    e2e = out["e2e"]
    eh = {}
    bterms, bidx = [], []
    for r in e2e:
        tn = r.get("transform", "?")
        st = r["status"]
        eh.setdefault(tn, {})
        eh[tn][st] = eh[tn].get(st, 0) + 1
        rid = json.dumps({k: r.get(k) for k in ("transform", "ops", "ms", "grouping", "supported", "to_eigvals", "shots")}, sort_keys=True)[:1500]
        if st == "driver_error":
            raise RuntimeError("c20_impl e2e driver error: " + r["exc"])
        if tn in ("bexp", "bparams", "binput"):
            if not r.get("order_ok", True) or not r.get("names_ok", True):
                ctx.violation("e2e-order:" + rid, r, what=f"{tn}: tape b does not carry the b-th slice of the batched parameters")
            def gp(p):
                return f"(PB {glist(p, lambda v: gq(Fr(*v)))})" if p and isinstance(p[0], list) else f"(PS {gq(Fr(*p))})"
            bo = glist(r["bops"], lambda o: f"({gz(o[0])}, {glist(o[1], gp)})")
            bt = glist(r["btapes"], lambda t: glist(t, lambda o: f"({gz(o[0])}, {glist(o[1], lambda v: gq(Fr(*v)))})"))
            bterms.append(f"({bo}, {gnat(r['B'])}, {bt})")
            bidx.append(r)
        if tn == "diag_reject":
            clash = sorted(w for w, ls in qwc_letters(r["ms"], r["nw"]).items() if len(ls) > 1)
            if not clash:
                raise RuntimeError("c20 diag_reject case is qubit-wise commuting (generator fault): " + rid)
            if st == "accepted_noncommuting":
                ctx.violation("e2e-diag-accepted:" + rid, r, what=f"diagonalize_measurements returned a tape although different Pauli letters are measured on wire(s) {clash} "
                              f"(must raise ValueError); values of the returned tape vs direct execution: {r.get('accepted_values')} {r.get('detail', '')}")
                continue
            if st == "raised" and r.get("exc") != "ValueError":
                ctx.violation("e2e-diag-exc:" + rid, r, what=f"diagonalize_measurements rejected a non-commuting measurement set with {r.get('exc')} instead of the documented ValueError")
                continue
        if tn in ("diag", "diag_sub") and r.get("ms") is not None:
            if any(len(ls) > 1 for ls in qwc_letters(r["ms"], r["nw"]).values()):
                raise RuntimeError("c20 diag case is not qubit-wise commuting (generator fault): " + rid)
        if st in ("ok", "raised"):
            if st == "raised" and tn not in ("snc_reject", "diag_reject"):
                ctx.violation("e2e-raise:" + rid, r, what=f"{tn} raised on an input it should accept")
            continue
        if st in ("accepted_unsplit", "accepted_split"):
            continue
        if st == "mismatch" and tn == "sign" and (r.get("has_Y") or abs(r.get("spectrum_midpoint", 0.0)) > 1e-9):
            ctx.violation("finding:sign_expand_analytic_wrong_expval", r, what="sign_expand(circuit=False) changes the expectation value (constant (lmin+lmax)/2 dropped / conjugated projectors)")
            continue
        if st == "mismatch" and tn in ("diag", "diag_sub") and r.get("to_eigvals") and r.get("overlap"):
            ctx.violation("finding:diag_to_eigvals_overlapping_terms", r, what="diagonalize_measurements(to_eigvals=True) uses sorted eigenvalues for composite observables whose operands share wires")
            continue
        ctx.violation(f"e2e-{st}:" + rid, r, what=f"{tn}: result after transform + post-processing differs from direct execution ({r.get('detail') or r.get('exc')})")
    if bterms:
        badb = ctx.coq_eval_cases("bcast", "From PLV Require Import Disc.SplitModel.\nFrom Coq Require Import QArith.", bterms, "bcheck", chunk=150)
        for b in badb:
            ctx.violation("corr-bcast:" + json.dumps(bidx[b].get("ops"))[:600], bidx[b], what="tapes of broadcast_expand/batch_params/batch_input differ from the proved slicing model")
    ctx.coverage.update({
        "evaluations": len(cases) + len(e2e), "distinct_nontrivial": len(distinct),
        "rule": "fake stream: seeded measurement lists (profiles expval/mixed/reject; words re-used across measurements 35%, identity terms 20%, nested scalar multiples, LinearCombination 10%, Hermitian/Projector factors in 25% of lists) x strategy single/default/qwc/wires/none, corpus first; non-trivial = more than one single-term measurement produced. e2e stream: transform chosen round-robin",
        "input_distribution": hist, "e2e_status_by_transform": eh, "model_cases": len(terms), "broadcast_model_cases": len(bterms)})
    for c, o in list(zip(cases, obs))[:2]:
        ctx.sample({"case": c, "tapes": o.get("tapes"), "result": o.get("result")})
    for r in e2e[:2]:
        ctx.sample({k: r.get(k) for k in ("transform", "ops", "ms", "status")})
