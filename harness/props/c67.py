"""C67 OpenQASM export preserves the circuit (to_openqasm), from_qasm3 import matches the source program."""
from vlib import *
import math, cmath
from decimal import Decimal, ROUND_HALF_EVEN
import numpy as np

PID = "C67"
META = {
    "level": "proof",
    "engine": "qsym-translator",
    "technique": "Coq reflection (exact Laurent-polynomial matrices, vm_compute + meqb soundness): every entry of the repo's "
                 "OPENQASM_GATES table, extracted symbolically from /repo, equals up to a unit-monomial global phase a hand-written "
                 "table of the qelib1.inc gates, itself proved equal to the product of each gate's qelib1.inc body over U and CX; plus an "
                 "independent OpenQASM-2 interpreter (harness) run on to_openqasm output and an independent OpenQASM-3 evaluator for "
                 "from_qasm3 (numeric comparison of unitaries, exact comparison of register maps and printed decimals)",
    "design_ref": "DESIGN.md §3 C67",
    "text": "Part A (proof, for all real angles): coq/Tab/QasmTable.v holds the qelib1.inc gates (U, CX, u3,u2,u1,p,cx,id,x,y,z,h,s,sdg,t,tdg,"
            "rx,ry,rz,sx,sxdg,cz,cy,swap,ch,ccx,cswap,crx,cry,crz,cu1,cp,cu3,rxx,rzz, and OpenQASM-3 gphase) as matrices over the symbols of "
            "Tab/TrigSyms.v, written by hand from the spec with the global phase the definitions imply (rz = u1, ch = e^{i pi/4} CH, "
            "rxx = e^{-i theta/2} RXX); coq/Disc/QasmModel.v transcribes the 34 gate BODIES of qelib1.inc and Props/C67.v proves "
            "qelib_bodies_ok / qelib_body_sound (every body, expanded over earlier gates down to U and CX with half/quarter-angle "
            "substitution, acts like the table's matrix, for every real parameter), program_denotation_compositional, "
            "measured_register_compositional, program_sequence_denotation for the QASM-2 AST, phase_is_unit and export_equiv_means. On every "
            "run each pair K->g of the repo's OPENQASM_GATES is re-extracted (compute_matrix of K run on formal angles) and Coq proves "
            "export_equiv: M_K = phase * qelib(g) with the SAME argument order, the phase being the one documented in export_phase_table "
            "(RZ->rz: e^{-i theta/2}; GlobalPhase->gphase: e^{-2 i phi}, i.e. PennyLane's sign convention is opposite to gphase's) or 1 / "
            "e^{-+i theta_0/2}; plus arity agreement. Part B (tie, every run): random circuits over all table gates and 13 decomposable "
            "extras, 1-5 wires with random int/str labels, angles (pi/4 multiples, pythagorean, tiny/huge, uniform) -> to_openqasm with "
            "random measure_all/rotations/precision/wires options -> parsed by an independent recursive-descent OpenQASM-2 parser and "
            "interpreted with qelib1.inc written as OpenQASM gate definitions over U/CX only (cross-checked against the openqasm3 "
            "package's parser on a sample, and against textbook matrices) -> unitary vs qp.matrix of the tape up to global phase "
            "(1e-9, or the sum of the rounding errors of the printed literals at precision p), qreg/creg sizes and the measured-register "
            "map (qubit i <-> wire i of `wires`/tape.wires, c-bit k <-> k-th measured wire), diagonalising rotations map every observable "
            "to the computational Z word and touch no other wire, every printed literal is the correctly rounded p-significant-digit "
            "decimal. from_qasm3: generated OpenQASM-3 programs (registers and single qubits, float/int/const variables, arithmetic, pi, "
            "all 31 mapped gates, inv/pow/ctrl/negctrl modifier stacks, gphase and ctrl@gphase, custom gates, for over ranges/sets, if/else) "
            "evaluated by an independent evaluator following the OpenQASM-3 spec/stdgates.inc and compared as unitaries up to global phase.",
    "note": "Trusted: Coq kernel + stdlib real axioms; translator qsym/qx (spot-checked); U, CX and the qelib1.inc bodies as transcribed "
            "from memory of the spec (twice, independently: Coq bodies and OpenQASM text for the harness interpreter); Part B is a numeric "
            "(float, tolerance) comparison, the reference unitary of the circuit is qp.matrix (tied to the documentation by C02). "
            "The check reports, on the unchanged tree, seven deviation classes under stable keys (export:gphase_not_openqasm2, "
            "export:custom_wires_measure, import:loop_range, import:loop_range_step, import:ctrl_gphase, import:custom_gate_indexed, "
            "import:custom_gate_inv); everything else passes. Not covered: mid-circuit measurement / Conditional export "
            "('if(mcms[k]==1)' is not OpenQASM-2 syntax either), QNode input, from_qasm (qiskit plugin), OpenQASM-3 subroutines/while/"
            "arrays/classical bits/include (include is rejected by the importer), builtin U, ctrl(n) and ctrl on custom gates (rejected by "
            "the importer), ctrl @ u2/u3/cu (global-phase convention of stdgates.inc), fractional pow. 'precision' is checked as "
            "SIGNIFICANT digits (what the code does); the docstring says decimal digits.",
    "assumptions": ["OpenQASM 2 semantics = U/CX of the OpenQASM 2 paper + qelib1.inc as transcribed in coq/Disc/QasmModel.v (bodies) and in QELIB1 (harness)",
                    "OpenQASM 3: ranges [a:b] and [a:s:b] are inclusive, gphase(g) multiplies by e^{+ig}, ctrl @ gphase(g) = p(g), modifiers apply to custom gates"],
    "trusted": ["coq/Tab/QasmTable.v + bodies in coq/Disc/QasmModel.v (qelib1.inc, hand-written)", "translator harness/qsym.py, qx.py",
                "independent OpenQASM interpreter/evaluator inside harness/props/c67.py (float arithmetic)"],
}
HEADER = """From Coq Require Import List ZArith QArith Bool String.
From PLV Require Import Alg.Poly Lin.Vec Lin.PVec Tab.TrigSyms Tab.GateTable Tab.QasmTable.
Import ListNotations.
Open Scope Q_scope.
Open Scope string_scope.
Open Scope list_scope.
"""

# =====================================================================================================================
# Independent OpenQASM 2 implementation (tokenizer, recursive-descent parser, interpreter over the built-ins U and CX)
# =====================================================================================================================
QELIB1 = """
gate u3(theta,phi,lambda) q { U(theta,phi,lambda) q; }
gate u2(phi,lambda) q { U(pi/2,phi,lambda) q; }
gate u1(lambda) q { U(0,0,lambda) q; }
gate cx c,t { CX c,t; }
gate id a { U(0,0,0) a; }
gate u0(gamma) q { U(0,0,0) q; }
gate u(theta,phi,lambda) q { U(theta,phi,lambda) q; }
gate p(lambda) q { U(0,0,lambda) q; }
gate x a { u3(pi,0,pi) a; }
gate y a { u3(pi,pi/2,pi/2) a; }
gate z a { u1(pi) a; }
gate h a { u2(0,pi) a; }
gate s a { u1(pi/2) a; }
gate sdg a { u1(-pi/2) a; }
gate t a { u1(pi/4) a; }
gate tdg a { u1(-pi/4) a; }
gate rx(theta) a { u3(theta,-pi/2,pi/2) a; }
gate ry(theta) a { u3(theta,0,0) a; }
gate rz(phi) a { u1(phi) a; }
gate sx a { sdg a; h a; sdg a; }
gate sxdg a { s a; h a; s a; }
gate cz a,b { h b; cx a,b; h b; }
gate cy a,b { sdg b; cx a,b; s b; }
gate swap a,b { cx a,b; cx b,a; cx a,b; }
gate ch a,b { h b; sdg b; cx a,b; h b; t b; cx a,b; t b; h b; s b; x b; s a; }
gate ccx a,b,c { h c; cx b,c; tdg c; cx a,c; t c; cx b,c; tdg c; cx a,c; t b; t c; h c; cx a,b; t a; tdg b; cx a,b; }
gate cswap a,b,c { cx c,b; ccx a,b,c; cx c,b; }
gate crx(lambda) a,b { u1(pi/2) b; cx a,b; u3(-lambda/2,0,0) b; cx a,b; u3(lambda/2,-pi/2,0) b; }
gate cry(lambda) a,b { ry(lambda/2) b; cx a,b; ry(-lambda/2) b; cx a,b; }
gate crz(lambda) a,b { rz(lambda/2) b; cx a,b; rz(-lambda/2) b; cx a,b; }
gate cu1(lambda) a,b { u1(lambda/2) a; cx a,b; u1(-lambda/2) b; cx a,b; u1(lambda/2) b; }
gate cp(lambda) a,b { p(lambda/2) a; cx a,b; p(-lambda/2) b; cx a,b; p(lambda/2) b; }
gate cu3(theta,phi,lambda) c,t { u1((lambda+phi)/2) c; u1((lambda-phi)/2) t; cx c,t; u3(-theta/2,0,-(phi+lambda)/2) t; cx c,t; u3(theta/2,phi,0) t; }
gate rxx(theta) a,b { u3(pi/2,theta,0) a; h b; cx a,b; u1(-theta) b; cx a,b; h b; u2(-pi,pi-theta) a; }
gate rzz(theta) a,b { cx a,b; u1(theta) b; cx a,b; }
"""

_TOK = re.compile(r'\s*(?:(//[^\n]*)|("(?:[^"]*)")|((?:\d+\.\d*|\.\d+|\d+)(?:[eE][+-]?\d+)?)|([A-Za-z_][A-Za-z0-9_]*)|(->|==|[\[\](){};,+\-*/^]))')


class QasmError(Exception):
    pass


def q_tokens(text):
    pos, out = 0, []
    text = text.rstrip()
    while pos < len(text):
        m = _TOK.match(text, pos)
        if not m:
            raise QasmError(f"cannot tokenize at {text[pos:pos + 20]!r}")
        pos = m.end()
        if m.group(1):
            continue
        if m.group(2):
            out.append(("str", m.group(2)[1:-1]))
        elif m.group(3):
            out.append(("num", m.group(3)))
        elif m.group(4):
            out.append(("id", m.group(4)))
        else:
            out.append(("sym", m.group(5)))
    return out


_FUNCS = {"sin": math.sin, "cos": math.cos, "tan": math.tan, "exp": math.exp, "ln": math.log, "sqrt": math.sqrt}


def e_eval(e, env):
    k = e[0]
    if k == "num":
        return e[1]
    if k == "pi":
        return math.pi
    if k == "var":
        if e[1] not in env:
            raise QasmError(f"unknown identifier {e[1]} in expression")
        return env[e[1]]
    if k == "neg":
        return -e_eval(e[1], env)
    if k == "fn":
        return _FUNCS[e[1]](e_eval(e[2], env))
    a, b = e_eval(e[2], env), e_eval(e[3], env)
    return {"+": a + b, "-": a - b, "*": a * b, "/": a / b if e[1] == "/" else 0, "^": a ** b if e[1] == "^" else 0}[e[1]]


class Qasm2:
    """OpenQASM 2.0 program: parse, then `unitary()` / `measures` / `flat`."""

    def __init__(self, text, lib=None):
        self.t = q_tokens(text)
        self.i = 0
        self.gates = dict(lib.gates) if lib else {}
        self.qregs, self.cregs = {}, {}      # name -> (offset, size)
        self.nq = 0
        self.version, self.includes = None, []
        self.flat = []                       # ("gate", name, [floats], [qubit idx], [literal strings]) | ("measure", q, creg, bit) | ("gphase", x)
        self.literals = []                   # every numeric literal of every gate application, in order
        self.notes = []
        self.parse()

    # -- token helpers
    def peek(self, k=0):
        return self.t[self.i + k] if self.i + k < len(self.t) else ("eof", "")

    def eat(self, kind=None, val=None):
        tk = self.peek()
        if (kind and tk[0] != kind) or (val is not None and tk[1] != val):
            raise QasmError(f"expected {val or kind}, got {tk[1]!r} (token {self.i})")
        self.i += 1
        return tk[1]

    def at(self, val):
        return self.peek()[1] == val and self.peek()[0] in ("sym", "id")

    # -- expressions
    def expr(self):
        a = self.term()
        while self.peek() in (("sym", "+"), ("sym", "-")):
            op = self.eat()
            a = ("bin", op, a, self.term())
        return a

    def term(self):
        a = self.unary()
        while self.peek() in (("sym", "*"), ("sym", "/")):
            op = self.eat()
            a = ("bin", op, a, self.unary())
        return a

    def unary(self):
        if self.peek() == ("sym", "-"):
            self.eat()
            return ("neg", self.unary())
        if self.peek() == ("sym", "+"):
            self.eat()
            return self.unary()
        return self.power()

    def power(self):
        a = self.atom()
        if self.peek() == ("sym", "^"):
            self.eat()
            return ("bin", "^", a, self.unary())
        return a

    def atom(self):
        k, v = self.peek()
        if k == "num":
            self.eat()
            self._lits.append(v)
            return ("num", float(v))
        if k == "id":
            self.eat()
            if v == "pi":
                return ("pi",)
            if v in _FUNCS and self.peek() == ("sym", "("):
                self.eat(); a = self.expr(); self.eat("sym", ")")
                return ("fn", v, a)
            return ("var", v)
        if (k, v) == ("sym", "("):
            self.eat(); a = self.expr(); self.eat("sym", ")")
            return a
        raise QasmError(f"bad expression token {v!r}")

    def explist(self):
        self._lits = []
        out = []
        if self.peek() == ("sym", "("):
            self.eat()
            if self.peek() != ("sym", ")"):
                out.append(self.expr())
                while self.peek() == ("sym", ","):
                    self.eat(); out.append(self.expr())
            self.eat("sym", ")")
        return out

    # -- arguments
    def qarg(self, regs):
        name = self.eat("id")
        if name not in regs:
            raise QasmError(f"undeclared register {name}")
        off, size = regs[name]
        if self.peek() == ("sym", "["):
            self.eat(); idx = int(self.eat("num")); self.eat("sym", "]")
            if idx >= size:
                raise QasmError(f"index {idx} out of range for {name}[{size}]")
            return name, idx, off + idx
        return name, None, None

    # -- statements
    def parse(self):
        if self.peek() == ("id", "OPENQASM"):
            self.eat(); self.version = self.eat("num"); self.eat("sym", ";")
        while self.peek()[0] != "eof":
            self.statement()

    def statement(self):
        k, v = self.peek()
        if k != "id":
            raise QasmError(f"unexpected token {v!r}")
        if v == "include":
            self.eat(); self.includes.append(self.eat("str")); self.eat("sym", ";"); return
        if v in ("qreg", "creg"):
            self.eat(); name = self.eat("id"); self.eat("sym", "["); n = int(self.eat("num")); self.eat("sym", "]"); self.eat("sym", ";")
            if name in self.qregs or name in self.cregs:
                raise QasmError(f"register {name} redeclared")
            if v == "qreg":
                self.qregs[name] = (self.nq, n); self.nq += n
            else:
                self.cregs[name] = (0, n)
            return
        if v == "gate":
            self.gatedef(); return
        if v == "measure":
            self.eat(); _, qi, q = self.qarg(self.qregs); self.eat("sym", "->"); cn, ci, _ = self.qarg(self.cregs); self.eat("sym", ";")
            if qi is None or ci is None:
                raise QasmError("register-wide measure not supported by this interpreter")
            self.flat.append(("measure", q, cn, ci)); return
        if v == "barrier":
            while self.peek() != ("sym", ";"):
                self.eat()
            self.eat(); return
        if v in ("if", "reset", "opaque"):
            raise QasmError(f"statement {v!r} outside the supported subset")
        # gate application
        name = self.eat("id")
        exprs = self.explist()
        lits = list(self._lits)
        vals = [e_eval(e, {}) for e in exprs]
        qs = []
        while self.peek() != ("sym", ";"):
            _, qi, q = self.qarg(self.qregs)
            if qi is None:
                raise QasmError("register broadcast not supported by this interpreter")
            qs.append(q)
            if self.peek() == ("sym", ","):
                self.eat()
        self.eat("sym", ";")
        if name == "gphase" and not qs:
            # NOT OpenQASM 2 (no such gate in the language or in qelib1.inc, and a gate application needs a qubit argument).
            # Interpreted with its OpenQASM 3 meaning (a global scalar e^{+i g}) so that the rest of the program can be checked.
            self.notes.append("gphase")
            self.literals.extend(lits)
            self.flat.append(("gphase", vals[0] if vals else 0.0)); return
        if name not in self.gates and name not in ("U", "CX"):
            raise QasmError(f"undefined gate {name}")
        self.flat.append(("gate", name, vals, qs, lits))
        self.literals.extend(lits)

    def gatedef(self):
        self.eat("id", "gate"); name = self.eat("id")
        params = []
        if self.peek() == ("sym", "("):
            self.eat()
            while self.peek() != ("sym", ")"):
                params.append(self.eat("id"))
                if self.peek() == ("sym", ","):
                    self.eat()
            self.eat()
        qargs = [self.eat("id")]
        while self.peek() == ("sym", ","):
            self.eat(); qargs.append(self.eat("id"))
        self.eat("sym", "{")
        body = []
        while self.peek() != ("sym", "}"):
            g = self.eat("id")
            if g == "barrier":
                while self.peek() != ("sym", ";"):
                    self.eat()
                self.eat(); continue
            ex = self.explist()
            qa = [self.eat("id")]
            while self.peek() == ("sym", ","):
                self.eat(); qa.append(self.eat("id"))
            self.eat("sym", ";")
            if g not in self.gates and g not in ("U", "CX"):
                raise QasmError(f"gate {name}: body uses undefined gate {g}")
            for a in qa:
                if a not in qargs:
                    raise QasmError(f"gate {name}: unknown qubit argument {a}")
            body.append((g, ex, qa))
        self.eat("sym", "}")
        self.gates[name] = (params, qargs, body)

    # -- semantics
    def prims(self, name, vals, qs, out, depth=0):
        """expand a gate application into the built-ins U(theta,phi,lambda) q and CX c,t"""
        if len(set(qs)) != len(qs):
            raise QasmError(f"gate {name} applied to duplicate qubits {qs}")
        if name == "U":
            if len(vals) != 3 or len(qs) != 1:
                raise QasmError("U arity")
            out.append(("U", vals, qs)); return
        if name == "CX":
            if vals or len(qs) != 2:
                raise QasmError("CX arity")
            out.append(("CX", [], qs)); return
        params, qargs, body = self.gates[name]
        if len(params) != len(vals) or len(qargs) != len(qs):
            raise QasmError(f"gate {name} expects {len(params)} parameters / {len(qargs)} qubits, got {len(vals)} / {len(qs)}")
        env, qm = dict(zip(params, vals)), dict(zip(qargs, qs))
        for g, ex, qa in body:
            self.prims(g, [e_eval(e, env) for e in ex], [qm[a] for a in qa], out, depth + 1)

    def unitary(self):
        n = self.nq
        M = np.eye(2 ** n, dtype=complex)
        for st in self.flat:
            if st[0] == "gate":
                pr = []
                self.prims(st[1], st[2], st[3], pr)
                for nm, v, qs in pr:
                    M = apply_gate(M, U_builtin(*v) if nm == "U" else CX_BUILTIN, qs, n)
            elif st[0] == "gphase":
                M = cmath.exp(1j * st[1]) * M
        return M

    def gate_matrix(self, name, vals):
        """matrix of a defined gate on its own qubits (first argument = most significant)"""
        k = len(self.gates[name][1])
        pr = []
        self.prims(name, vals, list(range(k)), pr)
        M = np.eye(2 ** k, dtype=complex)
        for nm, v, qs in pr:
            M = apply_gate(M, U_builtin(*v) if nm == "U" else CX_BUILTIN, qs, k)
        return M


def U_builtin(th, ph, la):
    """OpenQASM 2 paper: U(theta,phi,lambda) = Rz(phi) Ry(theta) Rz(lambda) up to phase, in the qelib1/u3 normal form"""
    c, s = math.cos(th / 2), math.sin(th / 2)
    return np.array([[c, -cmath.exp(1j * la) * s], [cmath.exp(1j * ph) * s, cmath.exp(1j * (ph + la)) * c]], dtype=complex)


CX_BUILTIN = np.array([[1, 0, 0, 0], [0, 1, 0, 0], [0, 0, 0, 1], [0, 0, 1, 0]], dtype=complex)


def apply_gate(M, G, qs, n):
    """G on qubits qs (first listed = most significant of G) applied from the left to the 2^n x D matrix M; qubit 0 = MSB"""
    k, D = len(qs), M.shape[1]
    T = M.reshape([2] * n + [D])
    T = np.tensordot(G.reshape([2] * (2 * k)), T, axes=(list(range(k, 2 * k)), list(qs)))
    T = np.moveaxis(T, list(range(k)), list(qs))
    return T.reshape(2 ** n, D)


_LIB = None


def qelib():
    global _LIB
    if _LIB is None:
        _LIB = Qasm2(QELIB1)
    return _LIB


def phase_dist(A, B):
    """spectral norm of A - e^{ia} B at the Frobenius-optimal phase a"""
    A, B = np.asarray(A), np.asarray(B)
    if A.shape != B.shape:
        return float("inf")
    t = np.trace(B.conj().T @ A)
    ph = t / abs(t) if abs(t) > 1e-12 else 1.0
    return float(np.linalg.norm(A - ph * B, 2))


def from_json_mat(m):
    a = np.asarray(m, dtype=float)
    return a[..., 0] + 1j * a[..., 1]


# ---- sanity of my own qelib1 transcription against textbook matrices (exact equalities, incl. phase)
def _self_test():
    L = qelib()
    r2 = 1 / math.sqrt(2)
    a, b, c_ = 0.37, -1.21, 2.05
    ca, sa = math.cos(a / 2), math.sin(a / 2)

    def ctrl(m):
        z = np.eye(2 * len(m), dtype=complex); z[len(m):, len(m):] = m; return z
    X = np.array([[0, 1], [1, 0]], dtype=complex); Y = np.array([[0, -1j], [1j, 0]]); Z = np.diag([1, -1]).astype(complex)
    H = r2 * np.array([[1, 1], [1, -1]], dtype=complex)
    RX = np.array([[ca, -1j * sa], [-1j * sa, ca]]); RY = np.array([[ca, -sa], [sa, ca]], dtype=complex)
    RZ = np.diag([cmath.exp(-1j * a / 2), cmath.exp(1j * a / 2)])
    SW = np.eye(4, dtype=complex)[[0, 2, 1, 3]]
    exp = {("x",): X, ("y",): Y, ("z",): Z, ("h",): H, ("s",): np.diag([1, 1j]), ("sdg",): np.diag([1, -1j]),
           ("t",): np.diag([1, cmath.exp(1j * math.pi / 4)]), ("tdg",): np.diag([1, cmath.exp(-1j * math.pi / 4)]),
           ("id",): np.eye(2), ("rx", a): RX, ("ry", a): RY, ("rz", a): cmath.exp(1j * a / 2) * RZ, ("u1", a): np.diag([1, cmath.exp(1j * a)]),
           ("cx",): ctrl(X), ("cy",): ctrl(Y), ("cz",): ctrl(Z), ("ch",): cmath.exp(1j * math.pi / 4) * ctrl(H), ("swap",): SW, ("ccx",): ctrl(ctrl(X)), ("cswap",): ctrl(SW),
           ("crx", a): ctrl(RX), ("cry", a): ctrl(RY), ("crz", a): ctrl(RZ), ("cu1", a): np.diag([1, 1, 1, cmath.exp(1j * a)]),
           ("cp", a): np.diag([1, 1, 1, cmath.exp(1j * a)]), ("cu3", a, b, c_): ctrl(U_builtin(a, b, c_)),
           ("sx",): cmath.exp(-1j * math.pi / 4) * 0.5 * np.array([[1 + 1j, 1 - 1j], [1 - 1j, 1 + 1j]]),
           ("rzz", a): cmath.exp(1j * a / 2) * np.diag([cmath.exp(-1j * a / 2), cmath.exp(1j * a / 2), cmath.exp(1j * a / 2), cmath.exp(-1j * a / 2)]),
           ("rxx", a): cmath.exp(-1j * a / 2) * np.array([[ca, 0, 0, -1j * sa], [0, ca, -1j * sa, 0], [0, -1j * sa, ca, 0], [-1j * sa, 0, 0, ca]])}
    bad = []
    for k, m in exp.items():
        got = L.gate_matrix(k[0], list(k[1:]))
        if np.abs(got - m).max() > 1e-12:
            bad.append(k[0])
    return bad


# =====================================================================================================================
# Export cases
# =====================================================================================================================
NATIVE = [("CNOT", 0, 2), ("CZ", 0, 2), ("U3", 3, 1), ("U2", 2, 1), ("U1", 1, 1), ("Identity", 0, 1), ("PauliX", 0, 1), ("PauliY", 0, 1),
          ("PauliZ", 0, 1), ("Hadamard", 0, 1), ("S", 0, 1), ("Adjoint(S)", 0, 1), ("T", 0, 1), ("Adjoint(T)", 0, 1), ("RX", 1, 1), ("RY", 1, 1),
          ("RZ", 1, 1), ("CRX", 1, 2), ("CRY", 1, 2), ("CRZ", 1, 2), ("SWAP", 0, 2), ("Toffoli", 0, 3), ("CSWAP", 0, 3), ("PhaseShift", 1, 1),
          ("GlobalPhase", 1, 0)]
EXTRA = [("Rot", 3, 1), ("CRot", 3, 2), ("CY", 0, 2), ("CH", 0, 2), ("SX", 0, 1), ("IsingXX", 1, 2), ("IsingZZ", 1, 2), ("IsingYY", 1, 2),
         ("ControlledPhaseShift", 1, 2), ("CCZ", 0, 3), ("ISWAP", 0, 2), ("MultiRZ", 1, 3), ("SingleExcitation", 1, 2)]
LABELS = [0, 1, 2, 3, 4, 5, 7, 10, -1, "a", "b", "c", "q0", "q1", "aux", "w", "0", "x1"]
PYTH = [(3, 4), (4, 3), (5, 12), (12, 5), (8, 15), (15, 8), (7, 24), (24, 7), (20, 21)]


def gen_angle(rng):
    r = rng.random()
    if r < 0.15:
        return rng.choice([0.0, math.pi / 2, math.pi, -math.pi / 2, 3 * math.pi / 2, 2 * math.pi, -math.pi, math.pi / 4])
    if r < 0.45:
        p, q = rng.choice(PYTH)
        return 2 * math.atan2(rng.choice([1, -1]) * q, p)
    if r < 0.55:
        return rng.choice([1, -1]) * rng.choice([1.5e-05, 3.25e-07, 12.566370614359172, 31.4, 123.456789, 0.1, 0.30000000000000004, 1e-3])
    return rng.uniform(-2 * math.pi, 2 * math.pi)


def first_appearance(seqs):
    out = []
    for ws in seqs:
        for w in ws:
            if w not in out:
                out.append(w)
    return out


def gen_export(rng, big=False):
    nw = rng.choice([1, 2, 2, 3, 3, 3, 4, 4, 5] if big else [1, 2, 2, 3, 3, 3, 4])
    labels = rng.sample(LABELS, nw)
    if rng.random() < 0.15:
        labels = sorted(rng.sample(range(8), nw), reverse=rng.random() < 0.5)
    nops = rng.randint(0 if rng.random() < 0.05 else 1, 14 if big else 9)
    ops = []
    for _ in range(nops):
        pool = [g for g in (NATIVE if rng.random() < 0.85 else EXTRA) if g[2] <= nw]
        name, npar, k = rng.choice(pool)
        ws = rng.sample(labels, k)
        ops.append([name, [gen_angle(rng) for _ in range(npar)], ws])
    # measurements on disjoint wire groups (may introduce wires that no gate touches)
    meas, free = [], list(labels) + ([rng.choice([l for l in LABELS if l not in labels])] if rng.random() < 0.15 else [])
    rng.shuffle(free)
    for _ in range(rng.choice([0, 1, 1, 1, 2, 2, 3])):
        if not free:
            break
        k = rng.randint(1, min(len(free), 3))
        ws, free = free[:k], free[k:]
        r = rng.random()
        if r < 0.55:
            meas.append([rng.choice(["expval", "expval", "var", "sample_obs"]), [[rng.choice(["PauliX", "PauliY", "PauliZ", "Hadamard"]), w] for w in ws]])
        else:
            meas.append([rng.choice(["sample", "probs", "counts"]), ws])
    tw = first_appearance([o[2] for o in ops] + [[w for w in (m[1] if m[0] in ("sample", "probs", "counts") else [x[1] for x in m[1]])] for m in meas])
    opts = {"measure_all": rng.random() < 0.5, "rotations": rng.random() < 0.6,
            "precision": None if rng.random() < 0.45 else rng.choice([2, 3, 5, 8, 12]), "wires": None}
    if tw and rng.random() < 0.2:
        w = list(tw)
        rng.shuffle(w)
        if rng.random() < 0.4:
            w.insert(rng.randint(0, len(w)), "spare")
        opts["wires"] = w
    return {"ops": ops, "meas": meas, "opts": opts, "tape_wires": tw}


def meas_wires(m):
    return list(m[1]) if m[0] in ("sample", "probs", "counts") else [x[1] for x in m[1]]


def z_word(order, ws):
    n = len(order)
    pos = [order.index(w) for w in ws]
    return np.array([(-1) ** sum((b >> (n - 1 - p)) & 1 for p in pos) for b in range(2 ** n)], dtype=float)


def round_sig(x_repr, p):
    """correctly rounded (half-even on the exact binary value) p-significant-digit decimal of the double printed as x_repr"""
    d = Decimal(float(x_repr))
    if d == 0 or not d.is_finite():
        return d
    e = d.adjusted()
    return d.quantize(Decimal(1).scaleb(e - p + 1), rounding=ROUND_HALF_EVEN)


def check_export(case, res):
    """returns list of (class_key, message).  class_key None = generic (keyed by the case)."""
    out = []
    opts = case["opts"]
    if res.get("tape_wires") != case["tape_wires"]:
        out.append((None, f"tape.wires {res.get('tape_wires')} is not the order of first appearance {case['tape_wires']}"))
        return out
    if "error" in res:
        out.append((None, "to_openqasm raised on a circuit of exportable gates: " + res["error"]))
        return out
    order = opts["wires"] if opts["wires"] is not None else case["tape_wires"]
    text = res["qasm"]
    if not order:
        if text.strip().splitlines() != ["OPENQASM 2.0;", 'include "qelib1.inc";']:
            out.append((None, "empty circuit does not export to the bare header"))
        return out
    try:
        prog = Qasm2(text, qelib())
        full = Qasm2(res["qasm_full"], qelib()) if opts["precision"] is not None else prog
    except QasmError as ex:
        out.append((None, f"exported text rejected by the independent OpenQASM 2 parser: {ex}"))
        return out
    if "gphase" in prog.notes:
        out.append(("export:gphase_not_openqasm2", "program declared OPENQASM 2.0 uses 'gphase(x) ;' which is neither OpenQASM 2 syntax nor defined in qelib1.inc"))
    if prog.version != "2.0" or prog.includes != ["qelib1.inc"]:
        out.append((None, f"header: version {prog.version}, includes {prog.includes}"))
    if list(prog.qregs.items()) != [("q", (0, len(order)))]:
        out.append((None, f"qreg declaration {prog.qregs} != q[{len(order)}]"))
        return out
    # ---- measured register
    term = list(order) if opts["measure_all"] else first_appearance([meas_wires(m) for m in case["meas"]])
    exp_meas = [("measure", order.index(w), "c", k) for k, w in enumerate(term)] if all(w in order for w in term) else None
    got_meas = [s for s in prog.flat if s[0] == "measure"]
    exp_creg = {"c": (0, len(term))} if term else {}
    if prog.cregs != exp_creg:
        out.append((None, f"creg declaration {prog.cregs} != {exp_creg}"))
    if exp_meas is not None and got_meas != exp_meas:
        cls = "export:custom_wires_measure" if (opts["wires"] is not None and not opts["measure_all"]) else None
        out.append((cls, f"measured register: got {[(s[1], s[3]) for s in got_meas]} (qubit, c-bit) expected {[(s[1], s[3]) for s in exp_meas]}; "
                         f"qubit i = wire {order}[i], c-bit k = k-th measured wire {term}"))
    k_first = next((i for i, s in enumerate(prog.flat) if s[0] == "measure"), len(prog.flat))
    if any(s[0] != "measure" for s in prog.flat[k_first:]):
        out.append((None, "gate after terminal measurement"))
    # ---- precision: every literal is the correctly rounded p-significant-digit value of the full-precision literal
    tol = 1e-9
    if opts["precision"] is not None:
        p = opts["precision"]
        if len(prog.literals) != len(full.literals) or [s[:2 if s[0] == "gate" else 1] for s in prog.flat] != [s[:2 if s[0] == "gate" else 1] for s in full.flat]:
            out.append((None, "precision changes the program structure"))
        else:
            for a, b in zip(prog.literals, full.literals):
                want = round_sig(b, p)
                if Decimal(a) != want:
                    out.append((None, f"precision={p}: printed {a} for {b}, correctly rounded {p}-significant-digit value is {want}"))
                    break
                tol += abs(float(want) - float(b))
            tol *= math.sqrt(2 ** len(order))
    # ---- unitary
    try:
        U = prog.unitary()
    except QasmError as ex:
        out.append((None, f"exported program is ill-formed for the independent OpenQASM 2 interpreter: {ex}"))
        return out
    R = from_json_mat(res["U"])
    W = U @ R.conj().T
    d = len(U)
    obs = res.get("obs", []) if opts["rotations"] else []
    if not obs:
        dist = phase_dist(U, R)
        if dist > tol:
            out.append((None, f"unitary of the exported program differs from the circuit's: distance {dist:.3e} > {tol:.1e} (up to global phase)"))
    else:
        for o, m in zip(obs, [m for m in case["meas"] if m[0] in ("expval", "var", "sample_obs")]):
            O = from_json_mat(o["mat"])
            Dg = W @ O @ W.conj().T
            want = np.diag(z_word(order, meas_wires(m)))
            if np.abs(Dg - want).max() > max(tol, 1e-9) * 4:
                out.append((None, f"rotations=True: exported program does not rotate observable {o['label']} to the computational Z word "
                                  f"(deviation {np.abs(Dg - want).max():.2e})"))
                break
        # the rotation part must act only on observable wires: W commutes with Z on every other wire
        ow = [w for m in case["meas"] if m[0] in ("expval", "var", "sample_obs") for w in meas_wires(m)]
        for w in order:
            if w not in ow:
                for P in ("X", "Z"):
                    pm = np.array([[0, 1], [1, 0]], dtype=complex) if P == "X" else np.diag([1.0 + 0j, -1.0])
                    E = apply_gate(np.eye(d, dtype=complex), pm, [order.index(w)], len(order))
                    if np.abs(W @ E - E @ W).max() > max(tol, 1e-9) * 4:
                        out.append((None, f"rotations=True: program differs from the circuit on wire {w!r} that carries no observable"))
                        break
    return out


def openqasm3_crosscheck(text):
    """parse with the openqasm3 package (accepts OpenQASM 2 text) and compare the flat gate list with my parser's"""
    import openqasm3.parser as P
    import openqasm3.ast as A

    def ev(e):
        if isinstance(e, (A.FloatLiteral, A.IntegerLiteral)):
            return float(e.value)
        if isinstance(e, A.Identifier):
            return {"pi": math.pi}[e.name]
        if isinstance(e, A.UnaryExpression):
            return -ev(e.expression)
        if isinstance(e, A.BinaryExpression):
            a, b = ev(e.lhs), ev(e.rhs)
            return {"+": a + b, "-": a - b, "*": a * b, "/": a / b}[e.op.name]
        raise ValueError(type(e).__name__)
    tree = P.parse(text)
    flat = []
    for st in tree.statements:
        if isinstance(st, A.QuantumGate):
            flat.append(("gate", st.name.name, [ev(a) for a in st.arguments], [int(q.indices[0][0].value) for q in st.qubits]))
        elif isinstance(st, A.QuantumPhase):
            flat.append(("gphase", ev(st.argument)))
        elif isinstance(st, A.QuantumMeasurementStatement):
            flat.append(("measure", int(st.measure.qubit.indices[0][0].value), st.target.name.name, int(st.target.indices[0][0].value)))
    return flat


# =====================================================================================================================
# Import cases: OpenQASM 3 programs as structures; printer + independent evaluator
# =====================================================================================================================
def _c(m):
    z = np.eye(2 * len(m), dtype=complex); z[len(m):, len(m):] = m; return z


def g3_matrix(name, p):
    """OpenQASM 3 stdgates.inc (spec), first qubit = most significant"""
    r2 = 1 / math.sqrt(2)
    X = np.array([[0, 1], [1, 0]], dtype=complex); Y = np.array([[0, -1j], [1j, 0]]); Z = np.diag([1.0 + 0j, -1])
    H = r2 * np.array([[1, 1], [1, -1]], dtype=complex)
    SW = np.eye(4, dtype=complex)[[0, 2, 1, 3]]

    def rx(a): return np.array([[math.cos(a / 2), -1j * math.sin(a / 2)], [-1j * math.sin(a / 2), math.cos(a / 2)]])
    def ry(a): return np.array([[math.cos(a / 2), -math.sin(a / 2)], [math.sin(a / 2), math.cos(a / 2)]], dtype=complex)
    def rz(a): return np.diag([cmath.exp(-1j * a / 2), cmath.exp(1j * a / 2)])
    def ph(a): return np.diag([1, cmath.exp(1j * a)])
    t = {"id": lambda: np.eye(2, dtype=complex), "x": lambda: X, "y": lambda: Y, "z": lambda: Z, "h": lambda: H, "s": lambda: ph(math.pi / 2), "sdg": lambda: ph(-math.pi / 2),
         "t": lambda: ph(math.pi / 4), "tdg": lambda: ph(-math.pi / 4), "sx": lambda: 0.5 * np.array([[1 + 1j, 1 - 1j], [1 - 1j, 1 + 1j]]),
         "rx": rx, "ry": ry, "rz": rz, "p": ph, "phase": ph, "u1": ph,
         "u2": lambda a, b: cmath.exp(-0.5j * (a + b)) * U_builtin(math.pi / 2, a, b), "u3": lambda a, b, c: cmath.exp(-0.5j * (b + c)) * U_builtin(a, b, c),
         "cx": lambda: _c(X), "cy": lambda: _c(Y), "cz": lambda: _c(Z), "ch": lambda: _c(H), "swap": lambda: SW, "ccx": lambda: _c(_c(X)), "cswap": lambda: _c(SW),
         "cp": lambda a: _c(ph(a)), "cphase": lambda a: _c(ph(a)), "crx": lambda a: _c(rx(a)), "cry": lambda a: _c(ry(a)), "crz": lambda a: _c(rz(a)),
         "cu": lambda a, b, c, g: np.kron(ph(g), np.eye(2)) @ _c(U_builtin(a, b, c))}
    return np.asarray(t[name](*p), dtype=complex)


G3 = {"id": (0, 1), "x": (0, 1), "y": (0, 1), "z": (0, 1), "h": (0, 1), "s": (0, 1), "sdg": (0, 1), "t": (0, 1), "tdg": (0, 1), "sx": (0, 1),
      "rx": (1, 1), "ry": (1, 1), "rz": (1, 1), "p": (1, 1), "phase": (1, 1), "u1": (1, 1), "u2": (2, 1), "u3": (3, 1),
      "cx": (0, 2), "cy": (0, 2), "cz": (0, 2), "ch": (0, 2), "swap": (0, 2), "ccx": (0, 3), "cswap": (0, 3),
      "cp": (1, 2), "cphase": (1, 2), "crx": (1, 2), "cry": (1, 2), "crz": (1, 2), "cu": (4, 2)}
PHASE_AMBIGUOUS = {"u2", "u3", "cu"}     # not generated under ctrl/negctrl


def x_print(e):
    k = e[0]
    if k == "num":
        return repr(e[1])
    if k == "int":
        return str(e[1])
    if k == "pi":
        return "pi"
    if k == "var":
        return e[1]
    if k == "neg":
        return f"-({x_print(e[1])})"
    return f"({x_print(e[2])} {e[1]} {x_print(e[3])})"


def x_eval(e, env):
    k = e[0]
    if k in ("num", "int"):
        return e[1]
    if k == "pi":
        return math.pi
    if k == "var":
        return env[e[1]]
    if k == "neg":
        return -x_eval(e[1], env)
    a, b = x_eval(e[2], env), x_eval(e[3], env)
    return {"+": a + b, "-": a - b, "*": a * b, "/": a / b if e[1] == "/" else None}[e[1]]


def gen_expr(rng, fvars, ivars, depth=0):
    r = rng.random()
    if depth >= 2 or r < 0.35:
        r2 = rng.random()
        if r2 < 0.45:
            return ("num", round(rng.uniform(-3, 3), rng.choice([1, 2, 4])) or 0.5)
        if r2 < 0.6:
            return ("pi",)
        if r2 < 0.85 and fvars:
            return ("var", rng.choice(fvars))
        if ivars:
            return ("var", rng.choice(ivars))
        return ("num", gen_angle(rng))
    if r < 0.45:
        return ("neg", gen_expr(rng, fvars, ivars, depth + 1))
    op = rng.choice("+-*/")
    a = gen_expr(rng, fvars, ivars, depth + 1)
    b = ("num", rng.choice([2.0, 4.0, 3.0, 0.5])) if op == "/" else gen_expr(rng, fvars, ivars, depth + 1)
    return ("bin", op, a, b)


def gen_gate_stmt(rng, qubits, fvars, ivars, allow_mods=True):
    nq = len(qubits)
    mods = []
    if allow_mods and rng.random() < 0.4:
        for _ in range(rng.choice([1, 1, 2, 3])):
            mods.append(rng.choice([("inv",), ("inv",), ("pow", rng.choice([-2, -1, 0, 2, 3])), ("ctrl",), ("ctrl",), ("negctrl",)]))
    nctrl = sum(1 for m in mods if m[0] in ("ctrl", "negctrl"))
    pool = [g for g, (np_, k) in G3.items() if k + nctrl <= nq and not (nctrl and g in PHASE_AMBIGUOUS)]
    if not pool:
        mods, nctrl = [m for m in mods if m[0] not in ("ctrl", "negctrl")], 0
        pool = [g for g, (np_, k) in G3.items() if k <= nq]
    g = rng.choice(pool)
    np_, k = G3[g]
    return ("gate", g, [gen_expr(rng, fvars, ivars) for _ in range(np_)], rng.sample(qubits, k + nctrl), mods)


def gen_import(rng, feature):
    regs = []                      # (kind, name, size)
    names = rng.sample(["q", "r", "anc", "a", "b", "data"], rng.choice([1, 1, 2, 2, 3]))
    for nm in names:
        regs.append(("reg", nm, rng.randint(1, 3)) if rng.random() < 0.6 else ("qubit", nm, 1))
    while sum(r[2] for r in regs) > 5:
        regs.pop()
    if feature == "custom_gate_indexed" and not any(r[0] == "reg" and r[2] >= 2 for r in regs):
        regs = [("reg", "q", 3)]
    if feature in ("custom_gate_plain", "custom_gate_inv") :
        regs = [("qubit", nm, 1) for nm in rng.sample(["a", "b", "r", "d"], rng.choice([2, 3]))]
    if feature in ("loop_range", "loop_range_step", "loop_set") and not any(r[0] == "reg" for r in regs):
        regs = [("reg", "q", 3)] + regs[:1]
        if regs[-1][1] == "q":
            regs.pop()
    if sum(r[2] for r in regs) < 2 and feature in ("custom_gate_indexed",):
        regs = [("reg", "q", 3)]
    qubits = []                    # (text in program, pennylane label)
    for kind, nm, size in regs:
        if kind == "reg":
            qubits += [(f"{nm}[{i}]", f"{nm}[{i}]") for i in range(size)]
        else:
            qubits.append((nm, nm))
    fvars, ivars, decl = [], [], []
    for i in range(rng.choice([0, 1, 2, 3])):
        if rng.random() < 0.75:
            v = f"th{i}"
            decl.append(("float", v, gen_expr(rng, fvars, ivars), rng.random() < 0.3)); fvars.append(v)
        else:
            v = f"k{i}"
            decl.append(("int", v, ("int", rng.randint(-2, 3)), rng.random() < 0.3)); ivars.append(v)
    body = []
    n = rng.randint(1, 8)
    for _ in range(n):
        if rng.random() < 0.06:
            body.append(("gphase", gen_expr(rng, fvars, ivars), None))
        else:
            body.append(gen_gate_stmt(rng, qubits, fvars, ivars))
    ins = rng.randint(0, len(body))
    gatedefs = []
    if feature == "ctrl_gphase":
        body.insert(ins, ("gphase", gen_expr(rng, fvars, ivars), rng.choice(qubits)))
    elif feature in ("loop_range", "loop_range_step", "loop_set"):
        reg = rng.choice([r for r in regs if r[0] == "reg"])
        size = reg[2]
        if feature == "loop_range":
            a = rng.randint(0, size - 1); b = rng.randint(a, size - 1)
            it = ("range", a, 1, b)
        elif feature == "loop_range_step":
            it = rng.choice([("range", size - 1, -1, 0), ("range", 0, 2, size - 1)])
        else:
            it = ("set", rng.sample(range(size), rng.randint(1, size)))
        lb = []
        for _ in range(rng.randint(1, 2)):
            g = rng.choice(["rx", "ry", "rz", "p", "h", "x"])
            lb.append(("gate", g, [("bin", "*", ("var", "i"), gen_expr(rng, fvars, [], 1))] * G3[g][0], [(f"{reg[1]}[i]", None, reg[1])], []))
        body.insert(ins, ("for", "i", it, lb))
    elif feature == "if_else":
        cond_true = rng.random() < 0.5
        v = gen_expr(rng, fvars, ivars)
        body.insert(ins, ("if", v, cond_true, [gen_gate_stmt(rng, qubits, fvars, ivars) for _ in range(rng.randint(1, 2))],
                          [gen_gate_stmt(rng, qubits, fvars, ivars) for _ in range(rng.randint(0, 2))]))
    elif feature in ("custom_gate_plain", "custom_gate_indexed", "custom_gate_inv"):
        k = 2 if len(qubits) >= 2 else 1
        fq = [("x", "x"), ("y", "y")][:k]
        gb = [gen_gate_stmt(rng, fq, ["t0"], [], allow_mods=False) for _ in range(rng.randint(1, 3))]
        if not any(s[2] for s in gb):
            gb.append(("gate", "rx", [("bin", "/", ("var", "t0"), ("num", 2.0))], [fq[0]], []))
        gatedefs.append(("mygate", ["t0"], [q[0] for q in fq], gb))
        cand = [q for q in qubits if ("[" in q[0]) == (feature == "custom_gate_indexed")] or qubits
        if len(cand) < k:
            cand = qubits
        body.insert(ins, ("call", "mygate", [gen_expr(rng, fvars, ivars)], rng.sample(cand, k), [("inv",)] if feature == "custom_gate_inv" else []))
    return {"feature": feature, "regs": regs, "decl": decl, "gatedefs": gatedefs, "body": body, "order": [q[1] for q in qubits]}


def p3_stmt(s, ind="", in_def=False):
    if s[0] == "gate" or s[0] == "call":
        mods = "".join({"inv": "inv @ ", "ctrl": "ctrl @ ", "negctrl": "negctrl @ "}.get(m[0]) or f"pow({m[1]}) @ " for m in s[4])
        par = "(" + ", ".join(x_print(e) for e in s[2]) + ")" if s[2] else ""
        return f"{ind}{mods}{s[1]}{par} {', '.join(q[0] for q in s[3])};"
    if s[0] == "gphase":
        return f"{ind}ctrl @ gphase({x_print(s[1])}) {s[2][0]};" if s[2] else f"{ind}gphase({x_print(s[1])});"
    if s[0] == "for":
        it = s[2]
        rng_txt = (f"[{it[1]}:{it[3]}]" if it[2] == 1 else f"[{it[1]}:{it[2]}:{it[3]}]") if it[0] == "range" else "{" + ", ".join(map(str, it[1])) + "}"
        return f"{ind}for int {s[1]} in {rng_txt} {{\n" + "\n".join(p3_stmt(b, ind + "  ") for b in s[3]) + f"\n{ind}}}"
    if s[0] == "if":
        v = x_print(s[1])
        cond = f"({v}) == ({v})" if s[2] else f"({v}) != ({v})"
        t = f"{ind}if ({cond}) {{\n" + "\n".join(p3_stmt(b, ind + "  ") for b in s[3]) + f"\n{ind}}}"
        if s[4]:
            t += " else {\n" + "\n".join(p3_stmt(b, ind + "  ") for b in s[4]) + f"\n{ind}}}"
        return t
    raise ValueError(s[0])


def p3_program(c):
    L = ["OPENQASM 3.0;"]
    for kind, nm, size in c["regs"]:
        L.append(f"qubit[{size}] {nm};" if kind == "reg" else f"qubit {nm};")
    for ty, v, e, const in c["decl"]:
        L.append(f"{'const ' if const else ''}{ty} {v} = {x_print(e)};")
    for nm, params, qa, gb in c["gatedefs"]:
        L.append(f"gate {nm}({', '.join(params)}) {', '.join(qa)} {{\n" + "\n".join(p3_stmt(b, "  ") for b in gb) + "\n}")
    for s in c["body"]:
        L.append(p3_stmt(s))
    return "\n".join(L) + "\n"


def modded(M, mods):
    """matrix on [controls (in modifier order)..., targets...]"""
    for m in reversed(mods):
        if m[0] == "inv":
            M = M.conj().T
        elif m[0] == "pow":
            M = np.linalg.matrix_power(M if m[1] >= 0 else M.conj().T, abs(m[1]))
        elif m[0] == "ctrl":
            M = _c(M)
        else:
            z = np.eye(2 * len(M), dtype=complex); z[:len(M), :len(M)] = M; M = z
    return M


def eval3(c):
    order = c["order"]
    n = len(order)
    env = {}
    for ty, v, e, _ in c["decl"]:
        env[v] = x_eval(e, env)
    defs = {g[0]: g for g in c["gatedefs"]}
    M = np.eye(2 ** n, dtype=complex)

    def qidx(q, env, qmap):
        if qmap is not None:
            return qmap[q[0]]
        if len(q) == 3:                       # register indexed by the loop variable
            return order.index(f"{q[2]}[{env['i']}]")
        return order.index(q[1])

    def gate_mat_on(stmts, env, qmap, k):
        G = np.eye(2 ** k, dtype=complex)
        for s in stmts:
            G = apply_gate(G, modded(g3_matrix(s[1], [x_eval(e, env) for e in s[2]]), s[4]), [qmap[q[0]] for q in s[3]], k)
        return G

    def run(stmts, env):
        nonlocal M
        for s in stmts:
            if s[0] == "gate":
                M = apply_gate(M, modded(g3_matrix(s[1], [x_eval(e, env) for e in s[2]]), s[4]), [qidx(q, env, None) for q in s[3]], n)
            elif s[0] == "gphase":
                g = x_eval(s[1], env)
                if s[2]:
                    M = apply_gate(M, np.diag([1, cmath.exp(1j * g)]), [order.index(s[2][1])], n)
                else:
                    M = cmath.exp(1j * g) * M
            elif s[0] == "for":
                it = s[2]
                vals = it[1] if it[0] == "set" else list(range(it[1], it[3] + (1 if it[2] > 0 else -1), it[2]))   # inclusive range
                for v in vals:
                    run(s[3], {**env, s[1]: v})
            elif s[0] == "if":
                run(s[3] if s[2] else s[4], env)
            elif s[0] == "call":
                nm, params, qa, gb = defs[s[1]]
                G = gate_mat_on(gb, dict(zip(params, [x_eval(e, env) for e in s[2]])), {a: i for i, a in enumerate(qa)}, len(qa))
                M = apply_gate(M, modded(G, s[4]), [qidx(q, env, None) for q in s[3]], n)
    run(c["body"], env)
    return M


IMPORT_FEATURES = ["base", "base", "base", "base", "ctrl_gphase", "loop_range", "loop_range_step", "loop_set", "if_else",
                   "custom_gate_plain", "custom_gate_indexed", "custom_gate_inv"]


# =====================================================================================================================
def run(ctx):
    ctx.coq_props()
    rng = ctx.rng
    quick = ctx.tier == "quick"
    bad_lib = _self_test()
    if bad_lib:
        raise RuntimeError(f"harness self-test: qelib1 transcription disagrees with textbook matrices for {bad_lib}")
    # ---------------- cases
    n_exp, n_imp = (200, 108) if quick else (1500, 600)
    corpus = [
        {"ops": [["RX", [1.2], [0]], ["CNOT", [], [0, 1]], ["RZ", [0.9], [1]]], "meas": [["sample", [0, 1]]],
         "opts": {"measure_all": True, "rotations": True, "precision": None, "wires": None}, "tape_wires": [0, 1]},
        {"ops": [["Hadamard", [], [0]], ["CNOT", [], [0, 1]]], "meas": [["expval", [["PauliX", 0], ["PauliY", 1]]]],
         "opts": {"measure_all": True, "rotations": True, "precision": None, "wires": None}, "tape_wires": [0, 1]},
        {"ops": [["Hadamard", [], ["b"]], ["CNOT", [], ["b", "a"]], ["U3", [0.1, 0.2, 0.3], ["a"]]], "meas": [["sample", ["a"]]],
         "opts": {"measure_all": False, "rotations": False, "precision": 3, "wires": None}, "tape_wires": ["b", "a"]},
        {"ops": [["CRX", [2.5], [2, 0]], ["U2", [0.4, -0.7], [1]], ["CSWAP", [], [1, 2, 0]], ["Toffoli", [], [0, 2, 1]]], "meas": [],
         "opts": {"measure_all": True, "rotations": True, "precision": 5, "wires": None}, "tape_wires": [2, 0, 1]},
        {"ops": [["RY", [0.25], [1]], ["PhaseShift", [0.125], [0]]], "meas": [["probs", [0]]],
         "opts": {"measure_all": False, "rotations": True, "precision": None, "wires": [0, 1]}, "tape_wires": [1, 0]},
    ]
    exp_cases = corpus + [gen_export(rng, big=not quick) for _ in range(n_exp)]
    imp_cases = []
    for i in range(n_imp):
        c = gen_import(rng, IMPORT_FEATURES[i % len(IMPORT_FEATURES)])
        c["text"] = p3_program(c)
        imp_cases.append(c)
    out = ctx.run_impl("c67_impl.py", {"table": True, "seed": ctx.seed, "outdir": str(ctx.gen_dir), "export": exp_cases,
                                       "import": [{"text": c["text"], "order": c["order"]} for c in imp_cases]}, timeout=1800)
    # ---------------- Part A: table obligations
    obl = json.loads((ctx.gen_dir / "obligations.json").read_text())
    failed = ctx.coq_obligations("table", HEADER, [(o["name"], o["stmt"], "vm_compute. reflexivity.") for o in obl], chunk=28)
    by = {o["name"]: o for o in obl}
    for name, detail in failed:
        o = by.get(name)
        if o is None:
            ctx.broken_obligation("coq", name, detail); continue
        if o["kind"] == "doc":
            if name[:-4] not in [f[0] for f in failed]:
                ctx.notes.append(f"{o['key']}->{o['qasm']}: same unitary up to a global phase, but not the phase documented in export_phase_table")
            continue
        ctx.violation(f"table:{o['key']}->{o['qasm']}:{o['kind']}", {"pennylane_gate": o["key"], "qasm_gate": o["qasm"], "claim": o["kind"], "obligation": name,
                      "witness": "for generic real angles the two matrices differ (Laurent-polynomial identity fails)", "detail": detail[-600:]},
                      found_input=True, what=f"OPENQASM_GATES maps {o['key']} to {o['qasm']}, whose qelib1.inc definition is not the same unitary "
                                             f"(with the same argument order) up to the recorded global phase [{o['kind']}]")
    for it in out["table"]:
        if it["status"] != "ok":
            ctx.violation(f"tie:{it['key']}", {"gate": it["key"], "detail": it["detail"], "no_longer_checks": "symbolic extraction of this table entry"},
                          found_input=False, what=f"matrix of {it['key']} can no longer be extracted ({it['status']}: {it['detail'][:80]})")
    ctx.coverage["table_entries"] = len(out["table"])
    # ---------------- Part B: export
    hist = {"native_ops": 0, "extra_ops": 0, "custom_wires": 0, "precision": 0, "measure_all": 0, "rotations_with_obs": 0, "str_labels": 0,
            "gphase_programs": 0, "errors": 0, "lines": 0}
    nontriv = set()
    xchk = 0
    native_names = {g[0] for g in NATIVE}
    gates_seen = set()
    for idx, (c, r) in enumerate(zip(exp_cases, out["export"])):
        for o in c["ops"]:
            hist["native_ops" if o[0] in native_names else "extra_ops"] += 1
            gates_seen.add(o[0])
        hist["custom_wires"] += c["opts"]["wires"] is not None
        hist["precision"] += c["opts"]["precision"] is not None
        hist["measure_all"] += c["opts"]["measure_all"]
        hist["rotations_with_obs"] += bool(c["opts"]["rotations"] and r.get("obs"))
        hist["str_labels"] += any(isinstance(w, str) for w in c["tape_wires"])
        hist["errors"] += "error" in r
        if "qasm" in r:
            hist["lines"] += r["qasm"].count("\n")
            hist["gphase_programs"] += "gphase" in r["qasm"]
            if len(c["ops"]) >= 2 and len(c["tape_wires"]) >= 2:
                nontriv.add(idx)
        try:
            probs = check_export(c, r)
        except Exception as ex:
            probs = [(None, f"independent interpreter failed on the exported text: {type(ex).__name__}: {ex}")]
        for cls, msg in probs:
            key = cls or ("export:" + json.dumps({k: c[k] for k in ("ops", "meas", "opts")}, sort_keys=True))
            ctx.violation(key, {"case": {k: c[k] for k in ("ops", "meas", "opts")}, "tape_wires": c["tape_wires"], "qasm": r.get("qasm"),
                                "problem": msg, "python": "qp.to_openqasm(qp.tape.QuantumScript(ops, measurements), **opts)"}, what="to_openqasm: " + msg)
        if "qasm" in r and xchk < (12 if quick else 60) and c["tape_wires"]:
            try:
                theirs = openqasm3_crosscheck(r["qasm"])
            except ImportError:
                theirs = None
            except Exception as ex:
                theirs = None
                ctx.notes.append(f"openqasm3 cross-check parser failed: {type(ex).__name__}: {str(ex)[:100]}")
            if theirs is not None:
                xchk += 1
                try:
                    mine = [s[:4] for s in Qasm2(r["qasm"], qelib()).flat]
                    mine = [(s[0], s[1], list(s[2]), list(s[3])) if s[0] == "gate" else tuple(s) for s in mine]
                    theirs = [(s[0], s[1], list(s[2]), list(s[3])) if s[0] == "gate" else tuple(s) for s in theirs]
                    if mine != theirs:
                        raise RuntimeError(f"harness parser and openqasm3 parser disagree on an exported program:\n{r['qasm']}\n{mine}\n{theirs}")
                except QasmError:
                    pass
    # ---------------- Part B: import
    ihist = {f: 0 for f in set(IMPORT_FEATURES)}
    ierr = 0
    for c, r in zip(imp_cases, out["import"]):
        ihist[c["feature"]] += 1
        msg = None
        if "error" in r:
            ierr += 1
            msg = "from_qasm3 rejects a program of the supported subset: " + r["error"]
        else:
            if r.get("foreign_wires"):
                msg = f"imported circuit acts on wires {r['foreign_wires']} that are not qubits of the program"
            else:
                dist = phase_dist(from_json_mat(r["U"]), eval3(c))
                if dist > 1e-8:
                    msg = f"imported circuit's unitary differs from the source program's (distance {dist:.2e}, up to global phase)"
        if msg:
            key = f"import:{c['feature']}" if c["feature"] != "base" else "import:base:" + hashlib.sha1(c["text"].encode()).hexdigest()[:12]
            ctx.violation(key, {"program": c["text"], "qubit_order": c["order"], "problem": msg, "imported_ops": r.get("ops"),
                                "python": "qp.tape.make_qscript(qp.from_qasm3(program))().operations"}, what="from_qasm3: " + msg)
    ctx.coverage.update({
        "evaluations": len(exp_cases) + len(imp_cases) + len(out["table"]),
        "distinct_nontrivial": len(nontriv) + len(imp_cases) - ierr,
        "rule": "export: seeded random circuits (85% table gates, 15% decomposable extras), 1-5 wires with random int/str labels, angles: pi/4 multiples, "
                "pythagorean, tiny/huge, uniform; measurements on disjoint wire groups; options measure_all/rotations/precision/wires random. "
                "non-trivial = >=2 ops on >=2 wires exported without error. import: 12 feature classes round-robin.",
        "input_distribution": {"export": hist, "import_features": ihist, "import_errors": ierr, "gates_seen": len(gates_seen),
                               "openqasm3_crosschecked_programs": xchk},
        "table_obligations": {k: sum(1 for o in obl if o["kind"] == k) for k in ("gate", "doc", "phase", "arity")},
    })
    for c, r in list(zip(exp_cases, out["export"]))[5:7]:
        ctx.sample({"case": {k: c[k] for k in ("ops", "meas", "opts")}, "qasm": r.get("qasm")})
    ctx.sample({"import_program": imp_cases[0]["text"], "imported": out["import"][0].get("ops")})
