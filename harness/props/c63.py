"""C63 Pulse evolution matches the Schroedinger equation."""
from vlib import *
import math, hashlib, cmath
from fractions import Fraction as Fr
from concurrent.futures import ThreadPoolExecutor
import numpy as np

PID = "C63"
META = {
    "level": "proof",
    "engine": "qsym-algebra + numeric tie",
    "technique": "Coq: reflective checker solves_schrodinger (formal time derivative of a Laurent-polynomial propagator equals -i H U as normal forms, U(0)=U0) with soundness theorem into Coquelicot derivatives for ALL times; per-run vm_compute obligations certify closed-form propagators of random commuting / Pythagorean Pauli Hamiltonians and piecewise-constant schedules; list model of parameter routing with theorems; numeric tie of qp.evolve / ParametrizedEvolution / default.qubit / pulse gradients against the certified closed forms and an independent integrator",
    "design_ref": "DESIGN.md §3 C63",
    "text": "Static theorems (Num/PulseProofs.v, restated in Props/C63.v): solves_schrodinger_sound - if the checker accepts (H, U, U0) with time variable j then for every real valuation of the other variables and every real time x each entry of U has derivative (Cderive, Alg/Deriv.v) equal to the entry of -i*H*U at x, and U at time 0 is U0 (entrywise equality of complex matrices); piecewise_compose - an accepted schedule [(H_1,U_1);...;(H_n,U_n)] (window k has its own duration variable theta_k) gives for every k that V_k = U_k V_{k-1} solves window k's equation in theta_k with initial value V_{k-1}, V_0 = I, for all durations; param_routing_spec (add / scale / reorder over concatenated drive blocks, for all lists). Per run (tie X): random Hamiltonians sum c_k P_k on 1-3 wires, c_k rational, (i) mutually commuting words, U = prod (cos(c_k t) - i sin(c_k t) P_k), (ii) mutually anticommuting words with sum c_k^2 = r^2, U = cos(rt) - i sin(rt) H/r, and piecewise-constant schedules of those: obligations `solves_schrodinger ... = true` / `sched_ok ... = true` closed by vm_compute. Tie B (numeric, 1e-6): the real qp.evolve(H)(params,t) / ParametrizedEvolution matrices (atol=rtol=1e-12) are compared with the certified closed forms evaluated in floating point (constant, qp.pulse.constant, qp.pulse.pwc coefficients, full and partial windows), with an independent integrator (scipy DOP853 rtol 1e-12 on the matrix ODE, restarted at every discontinuity) for random non-commuting Hamiltonians with smooth / pwc / pwc_from_function / rect coefficients, windows [t0,t1], scalar t, time lists with return_intermediate and complementary, dense and sparse paths, wire orders, all construction routes (qp.dot, operator arithmetic, H1+H2, scalar*H, constructor), hardware Hamiltonians (drive, rydberg_drive, transmon_drive, sums) against their documented formulas; constant Hamiltonians vs scipy.linalg.expm; qp.evolve(op, x) = exp(-i x op); H(params,t) operator matrices; default.qubit execution through apply_operation (matrix path and state-evolution path, return_intermediate, jit) against the reference applied to an independently simulated state. Gradients: jax.jacobian through the evolution (backprop), pulse_odegen and stoch_pulse_grad (fixed sampler seed, broadcasting and non-broadcasting path) vs 5-point central finite differences of the independent integrator; stoch_pulse_grad within 6 sigma of its Monte-Carlo error, sigma computed independently from the integrand on a time grid. Parameter routing (tie K, exact integers): the Gallina model of ParametrizedHamiltonian arithmetic and of the two reorder functions is compared inside Coq with the real objects called with integer-coded parameters and recording coefficient functions (H(params,t) path and the ParametrizedHamiltonianPytree path used by the ODE right-hand side).",
    "note": "WEAK tie: the comparison between PennyLane's propagator and the reference is numeric, limited by the jax odeint tolerance (requested 1e-12, observed agreement ~1e-9, compared at 1e-6; genuine defects - sign, window, routing, bin index - are O(1e-2..1)). Uniqueness of solutions of the linear ODE (Picard-Lindeloef) is NOT proved in Coq: the theorems say the closed form solves the equation with the right initial value. Closed forms are certified only for the Hamiltonians sampled in a run (each obligation is universal in time, not in the Hamiltonian); smooth time-dependent coefficients have no exact model (independent integrator only). Gradient comparisons are numeric; stoch_pulse_grad is statistical (6 sigma, fixed sampler seed). jax odeint, jax autodiff, scipy integrate/expm and the float evaluation of the certified polynomials are trusted oracles. HardwareHamiltonian * scalar (which silently returns a plain ParametrizedHamiltonian without reorder function) is outside the routing model.",
    "assumptions": ["uniqueness of solutions of dU/dt = -i H(t) U (standard, not formalised)",
                    "Hamiltonians are Hermitian and coefficient functions are real-valued (documented requirement)"],
    "trusted": ["scipy.integrate.solve_ivp / scipy.linalg.expm (reference integrator)", "floating-point evaluation of certified Laurent polynomials in harness/props/c63.py",
                "jax (odeint, autodiff) as the numerical engine of the implementation"],
}

# =========================================================================== exact Laurent polynomials (hz = 2: zeta = i)
HZ = 2


class LP:
    """Laurent polynomial over Q in (zeta=i, z_1, ..., z_k); keys are exponent tuples (e0, e1, ...) stripped of trailing zeros, e0 in {0,1}"""
    __slots__ = ("t",)

    def __init__(self, t=None):
        self.t = t or {}

    @staticmethod
    def mono(c, e):
        p = LP()
        p._acc(tuple(e), Fr(c))
        return p

    def _acc(self, e, c):
        e = list(e) if e else [0]
        q, m = divmod(e[0], HZ)
        if q % 2:
            c = -c
        e[0] = m
        while e and e[-1] == 0:
            e.pop()
        e = tuple(e)
        v = self.t.get(e, 0) + c
        if v == 0:
            self.t.pop(e, None)
        else:
            self.t[e] = v

    def __add__(self, o):
        r = LP(dict(self.t))
        for e, c in o.t.items():
            r._acc(e, c)
        return r

    def scale(self, c):
        return LP({e: v * c for e, v in self.t.items()}) if c != 0 else LP()

    def __mul__(self, o):
        r = LP()
        for e1, c1 in self.t.items():
            for e2, c2 in o.t.items():
                n = max(len(e1), len(e2))
                e = [(e1[i] if i < len(e1) else 0) + (e2[i] if i < len(e2) else 0) for i in range(n)]
                r._acc(e, c1 * c2)
        return r

    def gallina(self):
        if not self.t:
            return "[]"
        return "[" + "; ".join(f"({gq(c)}, {glist(e, gz)})" for e, c in sorted(self.t.items())) + "]"

    def evalf(self, zs):
        """zs[j] = value of variable j (zs[0] = i)"""
        s = 0j
        for e, c in self.t.items():
            v = complex(float(c))
            for j, x in enumerate(e):
                if x:
                    v *= zs[j] ** x
            s += v
        return s


def lp_const(re, im=0):
    p = LP()
    if re:
        p._acc((0,), Fr(re))
    if im:
        p._acc((1,), Fr(im))
    return p


def lp_cos(n, var):
    """cos(n*theta_var/D) ; variable index var >= 1"""
    e = [0] * (var + 1)
    e[var] = n
    f = [0] * (var + 1)
    f[var] = -n
    return LP.mono(Fr(1, 2), e) + LP.mono(Fr(1, 2), f)


def lp_msin_i(n, var):
    """-i sin(n*theta/D) = -(z^n - z^-n)/2"""
    e = [0] * (var + 1)
    e[var] = n
    f = [0] * (var + 1)
    f[var] = -n
    return LP.mono(Fr(-1, 2), e) + LP.mono(Fr(1, 2), f)


PAULI_Q = {"I": [[(1, 0), (0, 0)], [(0, 0), (1, 0)]], "X": [[(0, 0), (1, 0)], [(1, 0), (0, 0)]],
           "Y": [[(0, 0), (0, -1)], [(0, 1), (0, 0)]], "Z": [[(1, 0), (0, 0)], [(0, 0), (-1, 0)]]}


def word_mat_lp(word):
    """full matrix of a Pauli string (one letter per wire, wire 0 most significant) with LP entries"""
    M = [[(1, 0)]]
    for ch in word:
        P = PAULI_Q[ch]
        n = len(M)
        N = [[None] * (2 * n) for _ in range(2 * n)]
        for r in range(n):
            for c in range(n):
                a = M[r][c]
                for i in range(2):
                    for j in range(2):
                        b = P[i][j]
                        N[2 * r + i][2 * c + j] = (a[0] * b[0] - a[1] * b[1], a[0] * b[1] + a[1] * b[0])
        M = N
    return [[lp_const(*x) for x in row] for row in M]


def m_mul(A, B):
    n, k, m = len(A), len(B), len(B[0])
    out = []
    for r in range(n):
        row = []
        for c in range(m):
            acc = LP()
            for j in range(k):
                if A[r][j].t and B[j][c].t:
                    acc = acc + A[r][j] * B[j][c]
            row.append(acc)
        out.append(row)
    return out


def m_add(A, B):
    return [[a + b for a, b in zip(r, s)] for r, s in zip(A, B)]


def m_scale(p, A):
    return [[p * a for a in r] for r in A]


def m_ident(d):
    return [[lp_const(1 if r == c else 0) for c in range(d)] for r in range(d)]


def m_gallina(M):
    return "[" + ";\n   ".join("[" + "; ".join(x.gallina() for x in row) + "]" for row in M) + "]"


def m_evalf(M, zs):
    return np.array([[x.evalf(zs) for x in row] for row in M], dtype=complex)


def commute_words(a, b):
    return sum(1 for x, y in zip(a, b) if x != "I" and y != "I" and x != y) % 2 == 0


PYTH = [(3, 4), (4, 3), (5, 12), (-3, 4), (8, 6), (4, -3), (1, 2, 2), (2, 3, 6), (2, -1, 2), (6, 2, 3), (1, 4, 8), (4, 4, 7), (12, 5), (8, 15)]


def rand_word(rng, n):
    while True:
        w = "".join(rng.choice("IXYZ") for _ in range(n))
        if w != "I" * n:
            return w


def gen_exact_ham(rng, n, kind, nterms=None):
    """returns {"n", "words", "num" (integer numerators), "kind"}; coefficient c_k = num_k / D"""
    if kind == "comm":
        m = nterms or rng.randint(1, 3)
        words = []
        for _ in range(200):
            w = rand_word(rng, n)
            if w not in words and all(commute_words(w, v) for v in words):
                words.append(w)
            if len(words) == m:
                break
        nums = [rng.choice([-5, -4, -3, -2, -1, 1, 2, 3, 4, 5, 6]) for _ in words]
        return {"n": n, "words": words, "num": nums, "kind": "comm"}
    m = nterms or rng.choice([2, 2, 3])
    words = []
    for _ in range(2000):
        w = rand_word(rng, n)
        if w not in words and all(not commute_words(w, v) for v in words):
            words.append(w)
        if len(words) == m:
            break
    m = len(words)
    if m < 2:
        return gen_exact_ham(rng, n, "comm")
    trip = rng.choice([p for p in PYTH if len(p) == m])
    return {"n": n, "words": words, "num": list(trip), "kind": "pyth"}


def exact_HU(h, D, var):
    """H (entries rational multiples, c_k = num_k/D) and the closed-form U in variable `var` (theta_var = elapsed time)"""
    d = 1 << h["n"]
    Hm = [[LP() for _ in range(d)] for _ in range(d)]
    for w, c in zip(h["words"], h["num"]):
        Hm = m_add(Hm, m_scale(lp_const(Fr(c, D)), word_mat_lp(w)))
    if h["kind"] == "comm":
        U = m_ident(d)
        for w, c in zip(h["words"], h["num"]):
            P = word_mat_lp(w)
            E = m_add(m_scale(lp_cos(c, var), m_ident(d)), m_scale(lp_msin_i(c, var), P))
            U = m_mul(E, U)
    else:
        r2 = sum(c * c for c in h["num"])
        r = math.isqrt(r2)
        assert r * r == r2
        Hn = [[LP() for _ in range(d)] for _ in range(d)]           # H / (r/D) = sum (c_k/r) P_k
        for w, c in zip(h["words"], h["num"]):
            Hn = m_add(Hn, m_scale(lp_const(Fr(c, r)), word_mat_lp(w)))
        U = m_add(m_scale(lp_cos(r, var), m_ident(d)), m_scale(lp_msin_i(r, var), Hn))
    return Hm, U


PULSE_HEADER = """From Coq Require Import List ZArith QArith Bool.
From PLV Require Import Alg.Poly Alg.DerivDef Lin.Vec Lin.PVec Num.PulseModel.
Import ListNotations.
Open Scope Q_scope.
"""

# =========================================================================== numeric reference
P2 = {"I": np.eye(2, dtype=complex), "X": np.array([[0, 1], [1, 0]], dtype=complex),
      "Y": np.array([[0, -1j], [1j, 0]], dtype=complex), "Z": np.array([[1, 0], [0, -1]], dtype=complex),
      "Hadamard": np.array([[1, 1], [1, -1]], dtype=complex) / math.sqrt(2)}


def kron_wires(by_wire, order):
    M = np.eye(1, dtype=complex)
    for w in order:
        M = np.kron(M, by_wire.get(w, P2["I"]))
    return M


def op_mat(o, order):
    if "word" in o:
        return kron_wires({w: P2[c] for c, w in zip(o["word"], o["wires"])}, order)
    if "name" in o:
        return kron_wires({o["wires"][0]: P2[o["name"]]}, order)
    if "sum" in o:
        return sum(op_mat(x, order) for x in o["sum"])
    if "sprod" in o:
        return o["sprod"] * op_mat(o["op"], order)
    raise ValueError(str(o))


def op_wires(o):
    if "sum" in o:
        out = []
        for x in o["sum"]:
            for w in op_wires(x):
                if w not in out:
                    out.append(w)
        return out
    if "sprod" in o:
        return op_wires(o["op"])
    return list(o["wires"])


def np_smooth(spec):
    k = spec["k"]
    if k == "const":
        return lambda p, t: float(p)
    if k == "sin":
        return lambda p, t: p[0] * math.sin(p[1] * t)
    if k == "lin":
        return lambda p, t: p * t
    if k == "gauss":
        s = spec["s"]
        return lambda p, t: p[0] * math.exp(-((t - p[1]) ** 2) / (2 * s * s))
    if k == "poly":
        return lambda p, t: p[0] + p[1] * t + p[2] * t * t
    if k == "cos1":
        w = spec["w"]
        return lambda p, t: p * math.cos(w * t)
    raise ValueError(k)


def span_of(span):
    return (float(span[0]), float(span[1])) if isinstance(span, (list, tuple)) else (0.0, float(span))


def np_coef(spec):
    """(f(p, t, tm), breaks(p)) : tm (an interior point of the current smooth segment) selects the piece, t is the time"""
    k = spec["k"]
    if k == "pwc":
        a, b = span_of(spec["span"])

        def f(p, t, tm):
            nb = len(p)
            if not (a <= tm < b):
                return 0.0
            return float(p[min(nb - 1, int(nb * (tm - a) / (b - a)))])
        return f, (lambda p: [a + i * (b - a) / len(p) for i in range(len(p) + 1)])
    if k == "pwcf":
        a, b = span_of(spec["span"])
        nb = spec["nb"]
        inner = np_smooth(spec["inner"])
        grid = [a + i * (b - a) / (nb - 1) for i in range(nb)]

        def f(p, t, tm):
            if not (a <= tm < b):
                return 0.0
            return float(inner(p, grid[min(nb - 1, int(nb * (tm - a) / (b - a)))]))
        return f, (lambda p: [a + i * (b - a) / nb for i in range(nb + 1)])
    if k == "rect":
        x = spec["x"]
        g = np_smooth(x) if isinstance(x, dict) else (lambda p, t, _x=x: float(_x))
        w = spec["windows"]
        w = [tuple(u) for u in w] if isinstance(w[0], (list, tuple)) else [tuple(w)]

        def f(p, t, tm):
            return float(g(p, t)) if any(u <= tm <= v for u, v in w) else 0.0
        return f, (lambda p: [e for u in w for e in u])
    g = np_smooth(spec)
    return (lambda p, t, tm: float(g(p, t))), (lambda p: [])


def ref_ham(terms, order):
    """list of (g(P, t, tm), matrix) and break function; parametrized terms consume params in order of appearance"""
    out, brs = [], []
    j = 0
    for tm_ in terms:
        c = tm_["coef"]
        M = op_mat(tm_["op"], order)
        if c["k"] == "fixed":
            out.append((lambda P, t, tm, _v=c["v"]: _v, M))
        else:
            f, br = np_coef(c)
            out.append((lambda P, t, tm, _f=f, _j=j: _f(P[_j], t, tm), M))
            brs.append(lambda P, _br=br, _j=j: _br(P[_j]))
            j += 1
    return out, brs


def default_order(terms):
    order = []
    for want_fixed in (True, False):
        for tm_ in terms:
            if (tm_["coef"]["k"] == "fixed") == want_fixed:
                for w in op_wires(tm_["op"]):
                    if w not in order:
                        order.append(w)
    return order


def propagate(ham, P, a, b, breaks):
    """U(a -> b), a <= b, for dU/dt = -i H(t) U; restart at every break point inside (a, b)"""
    from scipy.integrate import solve_ivp
    d = ham[0][1].shape[0]
    U = np.eye(d, dtype=complex)
    if b <= a:
        return U
    pts = sorted({a, b} | {x for x in breaks if a < x < b})
    for lo, hi in zip(pts[:-1], pts[1:]):
        mid = 0.5 * (lo + hi)

        def rhs(t, y, _mid=mid):
            H = sum(g(P, t, _mid) * M for g, M in ham)
            return (-1j * (H @ y.reshape(d, d))).reshape(-1)
        sol = solve_ivp(rhs, (lo, hi), U.reshape(-1), method="DOP853", rtol=1e-12, atol=1e-13)
        U = sol.y[:, -1].reshape(d, d)
    return U


def prop_list(ham, brs, P, ts):
    breaks = [x for br in brs for x in br(P)]
    out = [np.eye(ham[0][1].shape[0], dtype=complex)]
    for a, b in zip(ts[:-1], ts[1:]):
        out.append(propagate(ham, P, a, b, breaks) @ out[-1])
    return out


def times_of(t):
    return [0.0, float(t)] if not isinstance(t, (list, tuple)) else [float(x) for x in t]


def expected_from_props(Us, ri, comp):
    if ri and comp:
        return np.stack([Us[-1] @ U.conj().T for U in Us])
    if ri:
        return np.stack(Us)
    return Us[-1]


def expand(M, wires, order):
    """matrix on `wires` (in that order) -> matrix on `order` (superset), identity elsewhere"""
    n = len(order)
    k = len(wires)
    full = np.kron(M, np.eye(1 << (n - k), dtype=complex)) if n > k else M
    cur = list(wires) + [w for w in order if w not in wires]
    perm = [cur.index(w) for w in order]
    T = full.reshape([2] * (2 * n))
    T = T.transpose(perm + [n + p for p in perm])
    return T.reshape(1 << n, 1 << n)


def obs_arr(o):
    if o is None or "err" in o:
        return None
    a = np.array([complex(x, y) for x, y in o["m"]], dtype=complex)
    return a.reshape(o["shape"])


def maxdiff(a, b):
    if a is None or b is None or a.shape != b.shape:
        return float("inf")
    return float(np.max(np.abs(a - b))) if a.size else 0.0


def rnd(rng, lo, hi, nd=3):
    return round(rng.uniform(lo, hi), nd)


# =========================================================================== generators
TOLS = {"atol": 1e-12, "rtol": 1e-12}
LABELS = [[0, 1, 2], ["a", "b", "c"], [2, 0, 1], [0, "q", 5]]


def gen_op(rng, wires):
    r = rng.random()
    k = rng.randint(1, min(2, len(wires)))
    ws = rng.sample(wires, k)
    if r < 0.75:
        return {"word": "".join(rng.choice("XYZ") for _ in ws), "wires": ws}
    if r < 0.85:
        return {"name": "Hadamard", "wires": [ws[0]]}
    if r < 0.93 and len(wires) >= 2:
        a, b = rng.sample(wires, 2)
        return {"sum": [{"word": rng.choice("XYZ"), "wires": [a]}, {"word": rng.choice("XYZ") + rng.choice("XYZ"), "wires": [a, b]}]}
    return {"sprod": rnd(rng, -1.5, 1.5), "op": {"word": "".join(rng.choice("XYZ") for _ in ws), "wires": ws}}


def gen_coef(rng, lo, hi, smooth_only=False, allow_fixed=True):
    """returns (spec, param)"""
    kinds = ["const", "sin", "lin", "gauss", "poly", "cos1"] + ([] if smooth_only else ["pwc", "pwc", "pwcf", "rect", "rect"]) + (["fixed"] if allow_fixed else [])
    k = rng.choice(kinds)
    T = hi - lo
    if k == "fixed":
        return {"k": "fixed", "v": rnd(rng, -1.2, 1.2)}, None
    if k == "const":
        return {"k": "const"}, rnd(rng, -1.5, 1.5)
    if k == "sin":
        return {"k": "sin"}, [rnd(rng, -1.5, 1.5), rnd(rng, 0.3, 3.0)]
    if k == "lin":
        return {"k": "lin"}, rnd(rng, -0.8, 0.8)
    if k == "gauss":
        return {"k": "gauss", "s": rnd(rng, 0.3, 1.0)}, [rnd(rng, -2, 2), rnd(rng, lo, hi)]
    if k == "poly":
        return {"k": "poly"}, [rnd(rng, -1, 1), rnd(rng, -0.7, 0.7), rnd(rng, -0.3, 0.3)]
    if k == "cos1":
        return {"k": "cos1", "w": rnd(rng, 0.5, 3.0)}, rnd(rng, -1.5, 1.5)
    if k == "pwc":
        nb = rng.randint(2, 5)
        span = pwc_span(rng, lo, hi)
        return {"k": "pwc", "span": span}, [rnd(rng, -1.5, 1.5) for _ in range(nb)]
    if k == "pwcf":
        nb = rng.randint(2, 5)
        span = pwc_span(rng, lo, hi)
        if not isinstance(span, list):
            span = [0.0, span]
        while True:     # pwc_from_function evaluates fn on an array of times: the function must depend on t
            inner, p = gen_coef(rng, lo, hi, smooth_only=True, allow_fixed=False)
            if inner["k"] != "const":
                break
        return {"k": "pwcf", "span": span, "nb": nb, "inner": inner}, p
    if k == "rect":
        a = rnd(rng, lo - 0.2 * T, lo + 0.5 * T)
        b = rnd(rng, a + 0.2 * T, hi + 0.2 * T)
        wins = [a, b]
        if rng.random() < 0.4:
            c = rnd(rng, b + 0.05 * T, b + 0.3 * T)
            wins = [[a, b], [c, rnd(rng, c + 0.1 * T, c + 0.5 * T)]]
        if rng.random() < 0.3:
            return {"k": "rect", "x": rnd(rng, -1.5, 1.5), "windows": wins}, rnd(rng, -1, 1)
        inner, p = gen_coef(rng, lo, hi, smooth_only=True, allow_fixed=False)
        return {"k": "rect", "x": inner, "windows": wins}, p
    raise ValueError(k)


def pwc_span(rng, lo, hi):
    T = hi - lo
    r = rng.random()
    if r < 0.35:
        return [lo, hi]
    if r < 0.5 and lo >= 0:
        return hi                                    # scalar timespan = (0, hi)
    return [rnd(rng, lo - 0.3 * T, lo + 0.3 * T), rnd(rng, hi - 0.3 * T, hi + 0.4 * T)]


def gen_window(rng):
    r = rng.random()
    if r < 0.25:
        return rnd(rng, 0.4, 2.5)
    a = rnd(rng, -1.0, 2.0)
    if r < 0.35:
        a = 0.0
    return [a, rnd(rng, a + 0.3, a + 2.5)]


def gen_general(rng, nw=None, ri=None):
    labels = rng.choice(LABELS)
    nw = nw or rng.choice([1, 2, 2, 3])
    wires = labels[:nw]
    t = gen_window(rng)
    ts = times_of(t)
    if ri is None:
        ri = rng.random() < 0.3
    comp = ri and rng.random() < 0.5
    if ri:
        k = rng.randint(1, 3)
        mids = sorted(rnd(rng, ts[0], ts[1]) for _ in range(k))
        ts = [ts[0]] + [m for m in mids if ts[0] < m < ts[1]] + [ts[1]]
        t = ts
    nterms = rng.randint(2, 4)
    terms, params = [], []
    for i in range(nterms):
        spec, p = gen_coef(rng, ts[0], ts[-1], allow_fixed=(i < nterms - 1 or bool(params)))
        terms.append({"coef": spec, "op": gen_op(rng, wires)})
        if p is not None:
            params.append(p)
    if not params:
        terms[-1]["coef"], p = {"k": "const"}, rnd(rng, -1, 1)
        params.append(p)
    build = rng.choice(["dot", "dot", "arith", "sum2", "scaled", "ctor"])
    case = {"kind": "evolve", "terms": terms, "params": params, "t": t, "ri": ri, "comp": comp, "build": build,
            "tol": TOLS, "style": rng.choice(["call", "call", "ctor", "callkw"])}
    if build == "sum2":
        case["split"] = rng.randint(1, nterms - 1)
    if build == "scaled":
        case["scale"] = rnd(rng, 0.4, 1.6) * rng.choice([1, -1])
    used = default_order(terms)
    r = rng.random()
    if r < 0.5:
        wo = list(used)
        rng.shuffle(wo)
        case["wire_order"] = wo
    elif r < 0.65:
        extra = [w for w in labels if w not in used][:1]
        wo = used + extra
        rng.shuffle(wo)
        case["wire_order"] = wo
    else:
        case["wire_order"] = None
    if rng.random() < 0.4:
        case["dense"] = rng.random() < 0.5
    return case


def expected_general(case):
    terms = case["terms"]
    used = default_order(terms)
    ham, brs = ref_ham(terms, used)
    if case.get("build") == "scaled":
        s = case["scale"]
        ham = [((lambda P, t, tm, _g=g: s * _g(P, t, tm)), M) for g, M in ham]
    Us = prop_list(ham, brs, case["params"], times_of(case["t"]))
    E = expected_from_props(Us, case.get("ri", False), case.get("comp", False))
    wo = case.get("wire_order") or used
    if list(wo) != list(used):
        E = np.stack([expand(x, used, wo) for x in E]) if E.ndim == 3 else expand(E, used, wo)
    return E


# ---- exact sub-class ties -------------------------------------------------------------------------------------
def word_op(word, wires):
    ws = [w for c, w in zip(word, wires) if c != "I"]
    return {"word": "".join(c for c in word if c != "I"), "wires": ws}


def gen_exact_case(rng, D, hams, mode):
    """mode 'const': one Hamiltonian, constant / fixed coefficients;  'pwc': the list `hams` (same words) is a schedule"""
    n = hams[0]["n"]
    labels = rng.choice(LABELS)[:n]
    words = hams[0]["words"]
    if mode == "const":
        t = gen_window(rng)
        terms, params = [], []
        for i, (w, c) in enumerate(zip(words, hams[0]["num"])):
            if rng.random() < 0.4 and i < len(words) - 1:
                terms.append({"coef": {"k": "fixed", "v": c / D}, "op": word_op(w, labels)})
            else:
                terms.append({"coef": {"k": "const"}, "op": word_op(w, labels)})
                params.append(c / D)
        return {"kind": "evolve", "terms": terms, "params": params, "t": t, "build": rng.choice(["dot", "arith", "ctor"]),
                "tol": TOLS, "wire_order": list(labels), "exact": {"D": D, "hams": hams, "durs": None}}
    nb = len(hams)
    a = rnd(rng, -0.5, 1.0, 2)
    b = round(a + rnd(rng, 0.8, 2.4, 2), 2)
    span = [a, b] if (a != 0 or rng.random() < 0.5) else b
    r = rng.random()
    if r < 0.5:
        t = [a, b]
    elif r < 0.75:
        t = [round(a + 0.37 * (b - a), 3), round(a + 0.81 * (b - a), 3)]     # partial bins
    else:
        t = [round(a - 0.3, 3), round(b + 0.25, 3)]                          # outside the span the coefficient is zero
    terms, params = [], []
    for k, w in enumerate(words):
        terms.append({"coef": {"k": "pwc", "span": span}, "op": word_op(w, labels)})
        params.append([h["num"][k] / D for h in hams])
    return {"kind": "evolve", "terms": terms, "params": params, "t": t, "build": "dot", "tol": TOLS,
            "wire_order": list(labels), "exact": {"D": D, "hams": hams, "span": [a, b]}}


def expected_exact(case, certU):
    """evaluate the certified closed forms (LP matrices in variable 1) numerically"""
    ex = case["exact"]
    D = ex["D"]
    ts = times_of(case["t"])
    d = 1 << ex["hams"][0]["n"]
    V = np.eye(d, dtype=complex)
    if "span" not in ex:
        return m_evalf(certU[0], [1j, cmath.exp(1j * (ts[1] - ts[0]) / D)])
    a, b = ex["span"]
    nb = len(ex["hams"])
    for k in range(nb):
        lo, hi = a + k * (b - a) / nb, a + (k + 1) * (b - a) / nb
        dur = max(0.0, min(hi, ts[1]) - max(lo, ts[0]))
        V = m_evalf(certU[k], [1j, cmath.exp(1j * dur / D)]) @ V
    return V


# ---- Evolution of a plain operator / H(params, t) ---------------------------------------------------------------
def gen_evolution_op(rng):
    labels = rng.choice(LABELS)
    nw = rng.choice([1, 2])
    wires = labels[:nw]
    ops = [gen_op(rng, wires) for _ in range(rng.randint(1, 2))]
    op = ops[0] if len(ops) == 1 else {"sum": ops}
    wo = op_wires(op)
    rng.shuffle(wo)
    return {"kind": "evolution_op", "op": op, "x": rnd(rng, -2, 2), "style": rng.choice(["evolve", "evolve", "one"]), "wire_order": wo}


def gen_hcall(rng):
    c = gen_general(rng, ri=False)
    ts = times_of(c["t"])
    wo = c["wire_order"] or default_order(c["terms"])
    return {"kind": "hcall", "terms": c["terms"], "params": c["params"], "build": c["build"], "split": c.get("split"), "scale": c.get("scale"),
            "time": rnd(rng, ts[0], ts[1]), "wire_order": wo}


def expected_hcall(case):
    order = case["wire_order"]
    terms = case["terms"]
    P = case["params"]
    t = case["time"]
    s = case["scale"] if case.get("build") == "scaled" else 1.0
    H = 0
    j = 0
    for tm_ in terms:
        c = tm_["coef"]
        if c["k"] == "fixed":
            v = c["v"]
        else:
            f, _ = np_coef(c)
            v = f(P[j], t, t)
            j += 1
        H = H + s * v * op_mat(tm_["op"], order)
    return H


# ---- device --------------------------------------------------------------------------------------------------------
GATES1 = {"Hadamard": P2["Hadamard"], "PauliX": P2["X"], "S": np.array([[1, 0], [0, 1j]], dtype=complex)}


def gate_mat(g, nw):
    order = list(range(nw))
    if g["name"] == "CNOT":
        c, t = g["wires"]
        P0, P1 = np.diag([1, 0]).astype(complex), np.diag([0, 1]).astype(complex)
        return kron_wires({c: P0}, order) + kron_wires({c: P1, t: P2["X"]}, order)
    if g["name"] in ("RX", "RY", "RZ"):
        th = g["params"][0]
        Pm = P2[g["name"][1]]
        return kron_wires({g["wires"][0]: math.cos(th / 2) * P2["I"] - 1j * math.sin(th / 2) * Pm}, order)
    return kron_wires({g["wires"][0]: GATES1[g["name"]]}, order)


def gen_prep(rng, nw):
    out = []
    for w in range(nw):
        out.append({"name": rng.choice(["RX", "RY"]), "params": [rnd(rng, -2, 2)], "wires": [w]})
    if nw >= 2:
        a, b = rng.sample(range(nw), 2)
        out.append({"name": "CNOT", "wires": [a, b]})
        out.append({"name": rng.choice(["Hadamard", "S", "RZ"]), "params": [], "wires": [rng.randrange(nw)]})
        if out[-1]["name"] == "RZ":
            out[-1]["params"] = [rnd(rng, -2, 2)]
    return out


def gen_device(rng, nw, nev, ri=False):
    wires = rng.sample(range(nw), nev)
    t = gen_window(rng)
    ts = times_of(t)
    if ri:
        ts = [ts[0], rnd(rng, ts[0], ts[1]), ts[1]]
        ts = sorted(set(ts))
        t = ts
    terms, params = [], []
    for i in range(rng.randint(2, 3)):
        spec, p = gen_coef(rng, ts[0], ts[-1], allow_fixed=(i == 0))
        terms.append({"coef": spec, "op": gen_op(rng, wires)})
        if p is not None:
            params.append(p)
    if not params:
        terms.append({"coef": {"k": "sin"}, "op": gen_op(rng, wires)})
        params.append([0.8, 1.3])
    return {"kind": "device", "nw": nw, "terms": terms, "params": params, "t": t, "ri": ri, "build": "dot", "prep": gen_prep(rng, nw),
            "post": gen_prep(rng, nw)[:1], "tol": TOLS, "jit": rng.random() < 0.3}


def state_after(gs, nw, psi=None):
    if psi is None:
        psi = np.zeros(1 << nw, dtype=complex)
        psi[0] = 1
    for g in gs:
        psi = gate_mat(g, nw) @ psi
    return psi


def expected_device(case):
    nw = case["nw"]
    order = list(range(nw))
    ham, brs = ref_ham(case["terms"], order)
    Us = prop_list(ham, brs, case["params"], times_of(case["t"]))
    psi = state_after(case["prep"], nw)
    post = np.eye(1 << nw, dtype=complex)
    for g in case.get("post", []):
        post = gate_mat(g, nw) @ post
    if case.get("ri"):
        return np.stack([post @ U @ psi for U in Us])
    return post @ Us[-1] @ psi


# ---- hardware Hamiltonians ------------------------------------------------------------------------------------------
def gen_hw(rng):
    """sum of one or two drives (same family) plus optionally a plain parametrized term and an interaction-free fixed term"""
    fam = rng.choice(["ryd", "trans", "drive"])
    t = gen_window(rng)
    ts = times_of(t)
    nw = 2
    parts, params = [], []

    def argspec(prob_callable, lo=-0.3, hi=0.3):
        if rng.random() < prob_callable:
            spec, p = gen_coef(rng, ts[0], ts[1], smooth_only=True, allow_fixed=False)
            return spec, p
        return rnd(rng, lo, hi), None
    for _ in range(rng.randint(1, 2)):
        ws = rng.choice([[0], [1], [0, 1]])
        node = {"k": fam, "wires": ws}
        names = {"ryd": ["amp", "phase", "det"], "trans": ["amp", "phase", "freq"], "drive": ["amp", "phase"]}[fam]
        for nm in names:
            a, p = argspec(0.6)
            if nm == "amp" and not isinstance(a, dict) and abs(a) < 0.05:
                a = 0.21
            if nm == "det" and not isinstance(a, dict) and abs(a) < 0.05:
                a = 0.17
            node[nm] = a
            if p is not None:
                params.append(p)
        parts.append(node)
    if rng.random() < 0.5:
        spec, p = gen_coef(rng, ts[0], ts[1], smooth_only=True, allow_fixed=False)
        parts.append({"k": "terms", "terms": [{"coef": spec, "op": {"word": "ZZ", "wires": [0, 1]}}]})
        params.append(p)
    if not params:
        parts.append({"k": "terms", "terms": [{"coef": {"k": "const"}, "op": {"word": "X", "wires": [1]}}]})
        params.append(0.4)
    e = parts[0]
    for q in parts[1:]:
        e = {"k": "add", "a": e, "b": q}
    return {"kind": "hw_evolve", "e": e, "parts": parts, "params": params, "t": t, "wire_order": [0, 1], "tol": TOLS}


def expected_hw(case):
    """documented formulas: drive: 2pi*amp*(cos(phase) * 1/2 sum X - sin(phase) * 1/2 sum Y); rydberg adds -2pi*det*sum n, n = (1-Z)/2;
    transmon: 2pi*amp*sin(phase + 2pi*freq*t) * sum Y.  Parameter order: per drive (amplitude, phase, detuning|frequency), drives in order of addition."""
    order = case["wire_order"]
    ham = []
    j = 0
    tw = 2 * math.pi

    def mk(a, j):
        if isinstance(a, dict):
            f, _ = np_coef(a)
            return (lambda P, t, tm, _f=f, _j=j: _f(P[_j], t, tm)), j + 1
        return (lambda P, t, tm, _a=a: _a), j
    for node in case["parts"]:
        k = node["k"]
        if k == "terms":
            for tm_ in node["terms"]:
                g, j = mk(tm_["coef"], j)
                ham.append((g, op_mat(tm_["op"], order)))
            continue
        ws = node["wires"]
        SX = sum(kron_wires({w: P2["X"]}, order) for w in ws)
        SY = sum(kron_wires({w: P2["Y"]}, order) for w in ws)
        SN = sum(kron_wires({w: (P2["I"] - P2["Z"]) / 2}, order) for w in ws)
        amp, j = mk(node["amp"], j)
        ph, j = mk(node["phase"], j)
        if k in ("ryd", "drive"):
            ham.append((lambda P, t, tm, _a=amp, _p=ph: tw * _a(P, t, tm) * math.cos(_p(P, t, tm)), 0.5 * SX))
            ham.append((lambda P, t, tm, _a=amp, _p=ph: tw * _a(P, t, tm) * math.sin(_p(P, t, tm)), -0.5 * SY))
            if k == "ryd":
                det, j = mk(node["det"], j)
                ham.append((lambda P, t, tm, _d=det: -tw * _d(P, t, tm), SN))
        else:
            fr, j = mk(node["freq"], j)
            ham.append((lambda P, t, tm, _a=amp, _p=ph, _f=fr: tw * _a(P, t, tm) * math.sin(_p(P, t, tm) + tw * _f(P, t, tm) * t), SY))
    Us = prop_list(ham, [], case["params"], times_of(case["t"]))
    return Us[-1]


# ---- gradients ----------------------------------------------------------------------------------------------------------
def gen_grad(rng, nsplit, bcast):
    nw = 2
    nev = rng.choice([1, 2, 2])
    wires = rng.sample(range(nw), nev)
    a = rnd(rng, 0.0, 0.6, 2)
    t = [a, round(a + rnd(rng, 0.6, 1.6, 2), 2)]
    terms, params = [], []
    if rng.random() < 0.6:
        terms.append({"coef": {"k": "fixed", "v": rnd(rng, -0.8, 0.8)}, "op": {"word": rng.choice("XZ"), "wires": [wires[0]]}})
    for i in range(rng.randint(1, 2)):
        k = rng.choice(["const", "sin", "lin", "poly", "pwc", "cos1"])
        if k == "pwc":
            spec, p = {"k": "pwc", "span": list(t)}, [rnd(rng, -1.2, 1.2) for _ in range(rng.randint(2, 3))]
        else:
            while True:
                spec, p = gen_coef(rng, t[0], t[1], smooth_only=True, allow_fixed=False)
                if spec["k"] == k:
                    break
        ws = rng.sample(wires, rng.randint(1, len(wires)))
        op = {"word": "".join(rng.choice("XYZ") for _ in ws), "wires": ws}
        if rng.random() < 0.3:
            op = {"sprod": rnd(rng, 0.4, 1.4), "op": op}
        terms.append({"coef": spec, "op": op})
        params.append(p)
    obs = rng.choice([{"word": "Z", "wires": [0]}, {"word": "ZX", "wires": [0, 1]}, {"lin": [0.7, -0.4], "ops": [{"word": "Z", "wires": [0]}, {"word": "Y", "wires": [1]}]}])
    return {"kind": "grad", "nw": nw, "terms": terms, "params": params, "t": t, "build": "dot", "prep": gen_prep(rng, nw), "post": gen_prep(rng, nw)[:1],
            "obs": obs, "tol": TOLS, "nsplit": nsplit, "sseed": rng.randint(1, 18000), "bcast": bcast}


def obs_mat(o, order):
    if "lin" in o:
        return sum(c * op_mat(x, order) for c, x in zip(o["lin"], o["ops"]))
    return op_mat(o, order)


def flat_params(P):
    out = []
    for i, p in enumerate(P):
        if isinstance(p, list):
            out += [(i, j) for j in range(len(p))]
        else:
            out.append((i, None))
    return out


def with_param(P, ij, v):
    Q = [list(p) if isinstance(p, list) else p for p in P]
    i, j = ij
    if j is None:
        Q[i] = v
    else:
        Q[i][j] = v
    return Q


def get_param(P, ij):
    i, j = ij
    return P[i] if j is None else P[i][j]


def reference_grad(case, grid=48):
    nw = case["nw"]
    order = list(range(nw))
    terms = case["terms"]
    ham, brs = ref_ham(terms, order)
    ts = times_of(case["t"])
    psi = state_after(case["prep"], nw)
    post = np.eye(1 << nw, dtype=complex)
    for g in case.get("post", []):
        post = gate_mat(g, nw) @ post
    O = post.conj().T @ obs_mat(case["obs"], order) @ post

    def E(P):
        U = prop_list(ham, brs, P, ts)[-1]
        v = U @ psi
        return float(np.real(v.conj() @ O @ v))
    P0 = case["params"]
    h = 1e-3
    fd = []
    for ij in flat_params(P0):
        x = get_param(P0, ij)
        e = [E(with_param(P0, ij, x + k * h)) for k in (-2, -1, 1, 2)]
        fd.append((e[0] - 8 * e[1] + 8 * e[2] - e[3]) / (12 * h))
    # Monte-Carlo integrand g(tau) of the stochastic parameter-shift rule on a grid -> sigma of one sample
    T = ts[1] - ts[0]
    taus = [ts[0] + (k + 0.5) * T / grid for k in range(grid)]
    Us = prop_list(ham, brs, P0, [ts[0]] + taus + [ts[1]])
    Uf = Us[-1]
    sig, integ = [], []
    par_terms = [tm_ for tm_ in terms if tm_["coef"]["k"] != "fixed"]
    for ij in flat_params(P0):
        i, j = ij
        tm_ = par_terms[i]
        o = tm_["op"]
        pref = 1.0
        if "sprod" in o:
            pref, o = o["sprod"], o["op"]
        Pm = op_mat(o, order)
        f, _ = np_coef(tm_["coef"])
        vals = []
        for k, tau in enumerate(taus):
            x = get_param(P0, ij)
            hh = 1e-6
            pp, pm = with_param(P0, ij, x + hh)[i], with_param(P0, ij, x - hh)[i]
            df = (f(pp, tau, tau) - f(pm, tau, tau)) / (2 * hh)
            Ua = Us[k + 1]
            Ub = Uf @ Ua.conj().T
            es = []
            for sgn in (1, -1):
                R = math.cos(math.pi / 4) * np.eye(1 << nw) - 1j * sgn * math.sin(math.pi / 4) * Pm
                v = Ub @ R @ Ua @ psi
                es.append(float(np.real(v.conj() @ O @ v)))
            vals.append(pref * df * (es[0] - es[1]))
        vals = np.array(vals)
        integ.append(float(T * vals.mean()))
        sig.append(float(T * vals.std()))
    return {"value": E(P0), "fd": fd, "mc_integral": integ, "mc_sigma1": sig}


# ---- routing cases (exact) ---------------------------------------------------------------------------------------------------
def gen_route(rng, fid):
    """hardware-Hamiltonian expression; returns (expression for the driver, Gallina hexp, number of parameters expected by the model or None)"""
    fam0 = rng.choice(["ryd", "trans", "drive", "ryd", "trans"])

    def a():
        if rng.random() < 0.6:
            fid[0] += 1
            return {"f": fid[0]}
        return round(rng.uniform(0.1, 0.9), 2)

    def node():
        r = rng.random()
        if r < 0.62:
            ws = rng.choice([[0], [1], [0, 1]])
            fam = fam0 if rng.random() < 0.93 else rng.choice(["ryd", "trans", "drive"])      # rarely mix families (must raise)
            if fam == "ryd":
                return {"k": "ryd", "amp": a(), "phase": a(), "det": a(), "wires": ws}
            if fam == "trans":
                return {"k": "trans", "amp": a(), "phase": a(), "freq": a(), "wires": ws}
            return {"k": "drive", "amp": a(), "phase": a(), "wires": ws}
        if r < 0.8:
            fid[0] += 1
            return {"k": "fun", "f": fid[0], "op": rng.randrange(2)}
        if r < 0.9:
            return {"k": "fix", "c": rng.randint(1, 5), "op": rng.randrange(2)}
        return {"k": "rydint"} if fam0 != "trans" else {"k": "transint"}
    e = node()
    for _ in range(rng.randint(0, 3)):
        n2 = node()
        e = {"k": "add", "a": e, "b": n2} if rng.random() < 0.7 else {"k": "add", "a": n2, "b": e}
    return e


def g_arg(x):
    return f"(ACall {gz(x['f'])})" if isinstance(x, dict) else "AConst"


def g_hexp(e):
    k = e["k"]
    if k == "fix":
        return "(HFix 1)"
    if k == "fun":
        return f"(HFun {gz(e['f'])})"
    if k == "add":
        return f"(HAdd {g_hexp(e['a'])} {g_hexp(e['b'])})"
    if k == "drive":
        return f"(HDrive {g_arg(e['amp'])} {g_arg(e['phase'])})"
    if k == "ryd":
        return f"(HRyd {g_arg(e['amp'])} {g_arg(e['phase'])} {g_arg(e['det'])} {gbool(isinstance(e['amp'], dict) or abs(e['amp']) > 1e-9)} {gbool(isinstance(e['det'], dict) or abs(e['det']) > 1e-9)})"
    if k == "trans":
        return f"(HTrans {g_arg(e['amp'])} {g_arg(e['phase'])} {g_arg(e['freq'])})"
    if k == "rydint":
        return "(HFixHw false 1)"
    if k == "transint":
        return "(HFixHw true 3)"
    raise ValueError(k)


def count_calls(e):
    k = e["k"]
    if k == "add":
        return count_calls(e["a"]) + count_calls(e["b"])
    if k == "fun":
        return 1
    return sum(1 for nm in ("amp", "phase", "det", "freq") if isinstance(e.get(nm), dict))


def g_calls(calls):
    """[[fid, value], ...] -> Gallina list (Z * pval)"""
    def pv(v):
        return f"(PMany {glist(v, gz)})" if isinstance(v, list) else f"(POne {gz(v)})"
    return glist(calls, lambda c: f"({gz(c[0])}, {pv(c[1])})")


def g_groups(gs):
    def pv(v):
        return f"(PMany {glist(v, gz)})" if isinstance(v, list) else f"(POne {gz(v)})"
    return glist(gs, pv)


def gen_plain(rng):
    ctr = [0]

    def newop():            # distinct operators: Operator.terms() would merge equal ones
        ctr[0] += 1
        return ctr[0]

    def leaf():
        r = rng.random()
        if r < 0.3:
            return {"k": "fix", "c": rng.randint(1, 6), "op": newop()}
        if r < 0.6:
            return {"k": "fun", "op": newop()}
        n = rng.randint(1, 4)
        return {"k": "dot", "cs": [None if rng.random() < 0.6 else rng.randint(1, 6) for _ in range(n)], "ops": [newop() for _ in range(n)]}

    def tree(d):
        r = rng.random()
        if d == 0 or r < 0.25:
            return leaf()
        if r < 0.6:
            return {"k": "add", "a": tree(d - 1), "b": tree(d - 1)}
        if r < 0.7:
            return {"k": "opadd", "c": rng.randint(1, 6), "op": newop(), "b": tree(d - 1)}
        if r < 0.8:
            return {"k": "addop", "a": tree(d - 1), "c": rng.randint(1, 6), "op": newop()}
        return {"k": "scale", "c": rng.randint(2, 4), "a": tree(d - 1), "left": rng.random() < 0.5}
    return tree(rng.randint(1, 3))


def g_pexp(e):
    k = e["k"]
    if k == "fix":
        return f"(PLeaf [(CFixed {gz(e['c'])}, {gz(e['op'])})])"
    if k == "fun":
        return f"(PLeaf [(CCall 1, {gz(e['op'])})])"
    if k == "dot":
        return "(PLeaf " + glist(list(zip(e["cs"], e["ops"])), lambda co: f"({'CCall 1' if co[0] is None else 'CFixed ' + gz(co[0])}, {gz(co[1])})") + ")"
    if k == "add":
        return f"(PAdd {g_pexp(e['a'])} {g_pexp(e['b'])})"
    if k == "opadd":
        return f"(POpAdd {gz(e['c'])} {gz(e['op'])} {g_pexp(e['b'])})"
    if k == "addop":
        return f"(PAddOp {g_pexp(e['a'])} {gz(e['c'])} {gz(e['op'])})"
    if k == "scale":
        return f"(PScale {gz(e['c'])} {g_pexp(e['a'])})"
    raise ValueError(k)


def g_zz(l):
    return glist(l, lambda p: f"({gz(p[0])}, {gz(p[1])})")


# =========================================================================== run
def sha(obj):
    return hashlib.sha1(json.dumps(obj, sort_keys=True, default=str).encode()).hexdigest()[:10]


CORPUS_GENERAL = [
    # documentation example: f1 = p[0] sin(p[1] t), f2 = p t ; H = 2 X0 + f1 Y0 + f2 Z0
    {"kind": "evolve", "terms": [{"coef": {"k": "fixed", "v": 2.0}, "op": {"word": "X", "wires": [0]}},
                                 {"coef": {"k": "sin"}, "op": {"word": "Y", "wires": [0]}},
                                 {"coef": {"k": "lin"}, "op": {"word": "Z", "wires": [0]}}],
     "params": [[4.6, 2.3], 1.2], "t": 0.5, "build": "arith", "tol": TOLS, "wire_order": None},
    # window that does not start at zero, time-dependent non-commuting terms on two wires: U(t0,t1) != U(0,t1-t0)
    {"kind": "evolve", "terms": [{"coef": {"k": "lin"}, "op": {"word": "XX", "wires": [0, 1]}},
                                 {"coef": {"k": "cos1", "w": 1.7}, "op": {"word": "Z", "wires": [1]}}],
     "params": [0.9, 1.4], "t": [1.1, 2.6], "build": "dot", "tol": TOLS, "wire_order": [1, 0]},
    # pwc with 4 bins and a non-commuting drift, intermediate + complementary
    {"kind": "evolve", "terms": [{"coef": {"k": "fixed", "v": 0.7}, "op": {"word": "Z", "wires": ["a"]}},
                                 {"coef": {"k": "pwc", "span": [0.2, 2.2]}, "op": {"word": "X", "wires": ["a"]}}],
     "params": [[0.9, -1.3, 0.4, 1.1]], "t": [0.2, 0.9, 1.6, 2.2], "ri": True, "comp": True, "build": "dot", "tol": TOLS, "wire_order": ["a"]},
    # two parametrized terms of different kinds in swapped positions (parameter routing): gauss then const
    {"kind": "evolve", "terms": [{"coef": {"k": "gauss", "s": 0.5}, "op": {"word": "X", "wires": [0]}},
                                 {"coef": {"k": "const"}, "op": {"word": "ZZ", "wires": [0, 1]}},
                                 {"coef": {"k": "pwcf", "span": [0.0, 2.0], "nb": 4, "inner": {"k": "sin"}}, "op": {"word": "Y", "wires": [1]}}],
     "params": [[1.3, 0.8], -0.6, [0.9, 2.1]], "t": [0.0, 2.0], "build": "sum2", "split": 1, "tol": TOLS, "wire_order": [0, 1]},
]


def run(ctx):
    ctx.coq_props()
    rng = ctx.rng
    quick = ctx.tier == "quick"
    N = dict(exact=4, general=6, evop=4, hcall=4, device=3, hw=3, grad=1, route=40, plain=60, nsplit=24) if quick else \
        dict(exact=16, general=40, evop=20, hcall=30, device=12, hw=12, grad=4, route=300, plain=400, nsplit=48)

    # ------------------------------------------------------------------ Part A: certified closed forms (tie X)
    lemmas, exact_cases, cert = [], [], {}
    kinds_seen = {"comm": 0, "pyth": 0, "sched": 0}
    for i in range(N["exact"]):
        n = rng.choice([1, 2, 2, 3]) if i else 2
        kind = ["pyth", "comm"][i % 2]
        if n == 1 and kind == "pyth" and False:
            kind = "comm"
        D = rng.choice([1, 2, 3, 4, 5])
        mode = "const" if i % 4 < 2 else "pwc"
        h0 = gen_exact_ham(rng, n, kind)
        hams = [h0]
        if mode == "pwc":
            nb = rng.randint(2, 3)
            for _ in range(nb - 1):
                if h0["kind"] == "comm":
                    hams.append(dict(h0, num=[rng.choice([-4, -3, -2, -1, 1, 2, 3, 5]) for _ in h0["words"]]))
                else:
                    hams.append(dict(h0, num=list(rng.choice([p for p in PYTH if len(p) == len(h0["words"])]))))
        case = gen_exact_case(rng, D, hams, mode)
        dim = 1 << n
        Us1 = []
        for k, h in enumerate(hams):
            Hm, U1 = exact_HU(h, D, 1)
            Us1.append(U1)
            kinds_seen[h["kind"]] += 1
            lemmas.append((f"closed_form_{i}_{k}_{h['kind']}", f"solves_schrodinger {HZ} {D} 0 \n  {m_gallina(Hm)}\n  {m_gallina(U1)}\n  (p_mident {dim}) = true", "vm_compute. reflexivity."))
        if mode == "pwc":
            sched = []
            for k, h in enumerate(hams):
                Hm, Uk = exact_HU(h, D, k + 1)
                sched.append(f"({m_gallina(Hm)},\n  {m_gallina(Uk)})")
            kinds_seen["sched"] += 1
            lemmas.append((f"schedule_{i}", f"sched_ok {HZ} {D} 0 (p_mident {dim}) [{'; '.join(sched)}] = true", "vm_compute. reflexivity."))
        cert[len(exact_cases)] = Us1
        exact_cases.append(case)
    # negative controls: the checker must reject a wrong sign / wrong rate (guards against a vacuous checker)
    hneg = {"n": 1, "words": ["X"], "num": [3], "kind": "comm"}
    Hm, U1 = exact_HU(hneg, 2, 1)
    _, Uwrong = exact_HU(dict(hneg, num=[-3]), 2, 1)
    lemmas.append(("negative_control_sign", f"solves_schrodinger {HZ} 2 0 {m_gallina(Hm)} {m_gallina(Uwrong)} (p_mident 2) = false", "vm_compute. reflexivity."))
    _, Uwrong2 = exact_HU(dict(hneg, num=[2]), 2, 1)
    lemmas.append(("negative_control_rate", f"solves_schrodinger {HZ} 2 0 {m_gallina(Hm)} {m_gallina(Uwrong2)} (p_mident 2) = false", "vm_compute. reflexivity."))

    # ------------------------------------------------------------------ Part B cases
    cases = list(exact_cases) + [dict(c) for c in CORPUS_GENERAL]
    for i in range(N["general"]):
        cases.append(gen_general(rng, ri=(True if i % 3 == 1 else None)))
    # constant Hamiltonians vs matrix exponential
    for i in range(2 if quick else 10):
        c = gen_general(rng, ri=False)
        ps = []
        for tm_ in c["terms"]:
            if tm_["coef"]["k"] != "fixed":
                tm_["coef"] = {"k": "const"}
                ps.append(rnd(rng, -1.5, 1.5))
        c["params"] = ps
        c["expm"] = True
        cases.append(c)
    for i in range(N["evop"]):
        cases.append(gen_evolution_op(rng))
    for i in range(N["hcall"]):
        cases.append(gen_hcall(rng))
    dev_shapes = [(3, 2, False), (3, 1, False), (2, 2, True), (2, 1, False), (3, 3, False), (3, 2, True)]
    for i in range(N["device"]):
        nw, nev, ri = dev_shapes[i % len(dev_shapes)]
        cases.append(gen_device(rng, nw, nev, ri))
    for i in range(N["hw"]):
        cases.append(gen_hw(rng))
    for i in range(N["grad"]):
        g = gen_grad(rng, N["nsplit"] if (quick or i % 2 == 0) else 8, bcast=(quick or i % 2 == 0))
        for which in (["backprop"], ["odegen"], ["stoch"]):      # separate processes: jax compile times dominate
            cases.append(dict(g, which=which))
    fid = [0]
    route_cases = []
    for i in range(N["route"]):
        e = gen_route(rng, fid)
        route_cases.append({"kind": "route", "e": e, "n": count_calls(e)})
    plain_cases = [{"kind": "plain_route", "e": gen_plain(rng)} for _ in range(N["plain"])]

    # ------------------------------------------------------------------ run the implementation (sharded) and Coq obligations concurrently
    cost = {"grad": 40, "device": 3, "evolve": 1.5, "hw_evolve": 2, "hcall": 0.1, "evolution_op": 0.1}
    NW = 8
    shards = [[] for _ in range(NW)]
    load = [0.0] * NW
    for idx in sorted(range(len(cases)), key=lambda i: -cost.get(cases[i]["kind"], 1)):
        k = load.index(min(load))
        shards[k].append(idx)
        load[k] += cost.get(cases[idx]["kind"], 1)
    strip = lambda c: {k: v for k, v in c.items() if k not in ("exact", "expm")}
    jobs = [("impl", [strip(cases[i]) for i in sh_], sh_) for sh_ in shards if sh_]
    jobs.append(("impl", route_cases + plain_cases, None))

    def do(job):
        if job[0] == "impl":
            return ctx.run_impl("c63_impl.py", {"cases": job[1]}, timeout=3000)["obs"]
        return ctx.coq_obligations("pulse", PULSE_HEADER, lemmas, chunk=3, par=6)
    obs = [None] * len(cases)
    t_start = time.time()
    with ThreadPoolExecutor(max_workers=NW + 2) as ex:
        fut_coq = ex.submit(do, ("coq",))
        futs = [ex.submit(do, j) for j in jobs]
        # reference computations overlap with the implementation runs
        expected = [expected_of(c, cert.get(i)) for i, c in enumerate(cases)]
        res = [f.result() for f in futs]
        failed = fut_coq.result()
    ctx.coverage["phase_seconds"] = {"setup_and_generation": round(t_start - ctx.t0, 1), "impl_reference_coq_parallel": round(time.time() - t_start, 1)}
    for (kind, cs, idxs), r in zip(jobs[:-1], res[:-1]):
        for i, o in zip(idxs, r):
            obs[i] = o
    r_obs = res[-1]
    for name, detail in failed:
        ctx.broken_obligation("coq", name, detail)

    # ------------------------------------------------------------------ compare
    TOL = 1e-6
    stats = {}
    worst = 0.0
    for i, (c, o, e) in enumerate(zip(cases, obs, expected)):
        kind = c["kind"] + (":exact" if "exact" in c else ":expm" if c.get("expm") else "")
        st = stats.setdefault(kind, {"n": 0, "bad": 0, "impl_secs": 0.0})
        st["n"] += 1
        st["impl_secs"] = round(st["impl_secs"] + o.get("secs", 0.0), 1)
        key = f"tie:{kind}:{sha(strip(c))}"
        if c["kind"] == "grad":
            bad = compare_grad(ctx, c, o, e, key, st)
            continue
        if "err" in o:
            st["bad"] += 1
            ctx.violation(key, {"case": strip(c), "error": o}, what=f"{kind}: the implementation raised {o['err'][:120]}")
            continue
        got = obs_arr(o)
        d = maxdiff(got, e)
        if d > TOL:
            st["bad"] += 1
            ctx.violation(key, {"case": strip(c), "max_abs_diff": d, "got": o, "expected_real": np.real(e).tolist(), "expected_imag": np.imag(e).tolist()},
                          what=f"{kind}: result differs from the reference propagator by {d:.3g}")
        else:
            worst = max(worst, d)
    compare_routes(ctx, route_cases, plain_cases, r_obs, stats)

    n_eval = len(cases) + len(route_cases) + len(plain_cases)
    ctx.coverage.update({"evaluations": n_eval + len(lemmas), "distinct_nontrivial": len(cases) + len(lemmas),
                         "rule": "obligations: closed-form propagators universal in time; numeric ties at 1e-6; routing exact",
                         "input_distribution": {k: v["n"] for k, v in stats.items()}, "outcomes": stats,
                         "closed_forms": kinds_seen, "obligations_failed": len(failed), "max_abs_deviation_accepted": worst,
                         "tolerance": TOL})
    for c in cases[len(exact_cases) + len(CORPUS_GENERAL):][:2]:
        ctx.sample({"case": strip(c)})
    ctx.sample({"route_case": route_cases[0]})


_GRAD_CACHE = {}


def expected_of(c, certU):
    k = c["kind"]
    try:
        if k == "grad":
            key = sha({a: b for a, b in c.items() if a != "which"})
            if key not in _GRAD_CACHE:
                _GRAD_CACHE[key] = reference_grad(c)
            return _GRAD_CACHE[key]
        if k == "evolve":
            if "exact" in c:
                return expected_exact(c, certU)
            if c.get("expm"):
                from scipy.linalg import expm
                used = default_order(c["terms"])
                P = iter(c["params"])
                H = sum((tm_["coef"]["v"] if tm_["coef"]["k"] == "fixed" else next(P)) * op_mat(tm_["op"], used) for tm_ in c["terms"])
                if c.get("build") == "scaled":
                    H = c["scale"] * H
                ts = times_of(c["t"])
                E = expm(-1j * (ts[-1] - ts[0]) * H)
                wo = c.get("wire_order") or used
                return expand(E, used, wo) if list(wo) != list(used) else E
            return expected_general(c)
        if k == "hcall":
            return expected_hcall(c)
        if k == "evolution_op":
            from scipy.linalg import expm
            x = c["x"] if c.get("style", "evolve") == "evolve" else 1.0
            return expm(-1j * x * op_mat(c["op"], c["wire_order"]))
        if k == "device":
            return expected_device(c)
        if k == "hw_evolve":
            return expected_hw(c)
        if k == "grad":
            return reference_grad(c)
    except Exception as ex:  # a harness-side failure must be visible, not masked
        raise RuntimeError(f"reference computation failed for {json.dumps(c, default=str)[:400]}: {ex!r}")


def compare_grad(ctx, c, o, e, key, st):
    strip = {k: v for k, v in c.items()}
    if "err" in o:
        st["bad"] += 1
        ctx.violation(key, {"case": strip, "error": o}, what=f"gradient case: the implementation raised {o['err'][:120]}")
        return
    fd = np.array(e["fd"])
    T = times_of(c["t"])
    rep = {"fd": e["fd"], "mc_sigma1": e["mc_sigma1"]}
    bad = []
    if "value" in o and abs(o["value"] - e["value"]) > 1e-6:
        bad.append(("value", abs(o["value"] - e["value"])))
    for m in ("backprop", "odegen"):
        if m not in o:
            continue
        g = np.array([x for p in o[m] for x in p])
        rep[m] = g.tolist()
        if g.shape != fd.shape or np.max(np.abs(g - fd)) > 1e-5:
            bad.append((m, float(np.max(np.abs(g - fd))) if g.shape == fd.shape else "shape"))
    if "stoch" in o:
        g = np.array([x for p in o["stoch"] for x in p])
        rep["stoch"] = g.tolist()
        bound = 6.0 * 1.15 * np.array(e["mc_sigma1"]) / math.sqrt(c["nsplit"]) + 1e-5
        rep["stoch_bound"] = bound.tolist()
        if g.shape != fd.shape or np.any(np.abs(g - fd) > bound):
            bad.append(("stoch", (np.abs(g - fd) / bound).max() if g.shape == fd.shape else "shape"))
        st.setdefault("stoch_dev_over_bound", []).append(round(float((np.abs(g - fd) / bound).max()), 3) if g.shape == fd.shape else None)
    # harness self-check: the integrand used for sigma integrates to the finite-difference gradient (midpoint rule, loose)
    if np.max(np.abs(np.array(e["mc_integral"]) - fd)) > 0.05 * (1 + np.max(np.abs(fd))):
        ctx.notes.append(f"sigma model self-check deviates for {key}")
    if bad:
        st["bad"] += 1
        ctx.violation(key, {"case": strip, "report": rep, "failed": [[a, str(b)] for a, b in bad]},
                      what="pulse gradient differs from finite differences of the independent integrator: " + ", ".join(a for a, _ in bad))


def compare_routes(ctx, route_cases, plain_cases, r_obs, stats):
    header = "From Coq Require Import List ZArith Bool.\nFrom PLV Require Import Num.PulseModel.\nImport ListNotations."
    terms = []
    meta = []
    st = stats.setdefault("route", {"n": 0, "bad": 0, "hw": 0, "call_errors": 0})
    for c, o in zip(route_cases, r_obs[:len(route_cases)]):
        st["n"] += 1
        if "err" in o:
            # construction raised: different reorder functions / two interaction terms / drive + transmon_interaction (model: hden = None)
            if "TransmonSettings" in o["err"]:
                st["none_plus_transmonsettings_typeerror"] = st.get("none_plus_transmonsettings_typeerror", 0) + 1
            terms.append(f"(RouteErr {g_hexp(c['e'])})")
            meta.append(c)
            continue
        st["hw"] += int(o["hw"])
        desc = glist(o["desc"], lambda d: {"F": "DF", "AP": "(DAP %s %s)", "APF": "(DAPF %s %s %s)"}[d[0]] % tuple(gbool(x) for x in d[1:]) if d[0] != "F" else "DF")
        reorder = g_groups(o.get("reorder", [])) if o["hw"] else "[]"
        calls = "None" if o["calls"] is None else f"(Some {g_calls(o['calls'])})"
        calls2 = "None" if o["calls_pytree"] is None else f"(Some {g_calls(o['calls_pytree'])})"
        if o["calls"] is None:
            st["call_errors"] += 1
        terms.append(f"(RouteObs {g_hexp(c['e'])} {gnat(c['n'])} {gbool(o['hw'])} {desc} {gz(o['nfixed'])} {reorder} {calls} {calls2})")
        meta.append(c)
    if st.get("none_plus_transmonsettings_typeerror"):
        ctx.notes.append("side observation (outside the property): transmon_drive(...) + transmon_interaction(...) raises TypeError (None + TransmonSettings has no __radd__) "
                         "while transmon_interaction(...) + transmon_drive(...) works; modelled as a construction error")
    bad = ctx.coq_eval_cases("route", header, terms, "check_route") if terms else []
    for i in bad:
        st["bad"] += 1
        ctx.violation("route:" + sha(meta[i]), {"case": meta[i], "observed": r_obs[i]},
                      what="parameter routing of a hardware Hamiltonian differs from the list model (which parameter reaches which amplitude/phase/frequency function)")
    sp = stats.setdefault("plain_route", {"n": 0, "bad": 0})
    pterms, pmeta = [], []
    for c, o in zip(plain_cases, r_obs[len(route_cases):]):
        sp["n"] += 1
        if "err" in o:
            sp["bad"] += 1
            ctx.violation("plain:" + sha(c), {"case": c, "error": o}, what="ParametrizedHamiltonian arithmetic raised: " + o["err"][:100])
            continue
        pterms.append(f"({g_pexp(c['e'])}, ({g_zz(o['fixed'])}, {g_zz(o['par'])}, {g_zz(o['called'])}))")
        pmeta.append((c, o))
    badp = ctx.coq_eval_cases("plain", header, pterms, "check_plain") if pterms else []
    for i in badp:
        sp["bad"] += 1
        ctx.violation("plain:" + sha(pmeta[i][0]), {"case": pmeta[i][0], "observed": pmeta[i][1]},
                      what="ParametrizedHamiltonian sum/scale: coefficient routing differs from the list model")
    return len(bad) + len(badp)
