"""C45 Wires behave as an ordered set of labels."""
from vlib import *

PID = "C45"
META = {
    "level": "proof",
    "technique": "Coq proofs by induction over a hand-written Gallina model of _process/Wires + vm_compute correspondence against pennylane.wires.Wires",
    "design_ref": "DESIGN.md §3 C45",
    "text": "Kernel-checked theorems (Props/C45.v) state, for ALL label lists (labels = integer codes with decidable equality): "
            "Wires(...) accepts a sequence iff it has no repeated label and then keeps it unchanged; all_wires is duplicate-free, contains "
            "exactly the labels of the inputs and keeps first-occurrence order (+ is the left operand followed by the new labels of the right); "
            "shared_wires is the first operand filtered to the labels present in every operand; unique_wires (the seen_once/seen_ever loop) "
            "is the concatenation filtered to labels contained in exactly one operand; union/intersection/difference/symmetric_difference "
            "succeed, are duplicate-free and have exactly the set-theoretic members; index returns the first position holding the label and "
            "fails iff absent; indices is index pointwise; map succeeds iff every wire has a key and the images are distinct (non-injective maps "
            "are rejected) and is the pointwise image in order; subset returns the labels at the given positions in the given order "
            "(Python negative indexing, i mod n under periodic_boundary, rejection outside [-n, n)); == holds iff the label tuples are equal in "
            "order. The model's executable definitions are evaluated inside Coq on the same generated calls as the implementation and every "
            "result is compared (order-valued results as lists, set-valued results as sorted sets); the property clauses are additionally "
            "evaluated directly on the implementation's outputs, including hash(w) == hash(tuple(labels)) and a == b => hash(a) == hash(b).",
    "note": "Trusted: Coq kernel; the hand transcription of wires.py is tied to /repo only by the correspondence run. Python's set/dict/tuple "
            "semantics (hash-and-== identification of labels, first-occurrence insertion) are modelled by integer codes assigned by the harness "
            "so that ==-equal labels (1, 1.0, True) share a code; hash values themselves are not modelled (hashing is checked directly on the "
            "implementation only). All exception types are one error value (so subset's `i > len` bound check, which lets i == len through to an "
            "IndexError instead of WireError, is not flagged). Not modelled: all_wires(sort=True), select_random, slicing, numpy/jax array "
            "inputs and tracers, unhashable labels, set-typed inputs, Wires == non-Wires.",
    "assumptions": ["labels are hashable Python ints/strings/tuples/floats/bools with consistent ==/hash",
                    "numpy/jax array inputs, tracers and unhashable labels are outside the model",
                    "all_wires(sort=True) and select_random are outside the model"],
    "trusted": ["hand-written model coq/Disc/WiresModel.v tied to /repo by correspondence only",
                "harness label codec (distinct code per ==-class of labels, via a Python dict)"],
}

# ------------------------------------------------------------------ labels
POOL = [0, 1, 2, 3, 4, 5, 6, 7, -1, "a", "b", "c", "ab", "ba", "aux", "q0", "0",
        ("t", 0, 1), ("t", 1, 0), ("t", "a", 0), ("t", 2), ("t",)]
ALIAS = [("f", 1.0), ("f", 0.0), ("f", 2.5), ("b", True), ("b", False), ("t", 1.0, 0)]   # ==-aliases of ints / new labels


def jl(p):
    """pool entry -> JSON label"""
    if isinstance(p, tuple):
        if p[0] == "t":
            return {"t": [jl(x) if not isinstance(x, float) else {"f": x} for x in p[1:]]}
        return {p[0]: p[1]}
    return p


def pyl(j):
    """JSON label -> Python label (same decoding as the driver)"""
    if isinstance(j, dict):
        if "t" in j:
            return tuple(pyl(x) for x in j["t"])
        if "f" in j:
            return float(j["f"])
        if "b" in j:
            return bool(j["b"])
        return ("unknown", j.get("unknown"))
    return j


CODES = {}


def code(j):
    """JSON label -> integer code; ==-equal Python labels share a code (dict semantics)"""
    return CODES.setdefault(pyl(j), 10 + len(CODES))


def gen_universe(rng):
    u = rng.sample(POOL, rng.randint(3, 8))
    if rng.random() < 0.25:
        u += rng.sample(ALIAS, rng.randint(1, 2))
        if rng.random() < 0.6 and 1 not in u:
            u.append(1)
    return [jl(p) for p in u]


def gen_labels(rng, U, dup_p=0.12, maxn=6):
    n = min(rng.choice([0, 1, 1, 2, 2, 3, 3, 4, 5, maxn]), len(U))
    if rng.random() < dup_p:
        return [rng.choice(U) for _ in range(rng.randint(2, maxn))]
    return rng.sample(U, n)


def gen_raw(rng, U, dup_p=0.12):
    r = rng.random()
    if r < 0.85:
        return {"k": "list", "v": gen_labels(rng, U, dup_p), "tup": rng.random() < 0.4}
    singles = [x for x in U if not (isinstance(x, dict) and "t" in x)] or [0]
    return {"k": "lbl", "v": rng.choice(singles)}


def gen_idx(rng, n):
    if rng.random() < 0.2:
        return rng.randint(-n - 1, n + 1)
    k = rng.choice([0, 1, 2, 2, 3, 4])
    r = rng.random()
    if n > 0 and r < 0.7:
        lo, hi = (0, n - 1) if rng.random() < 0.7 else (-n, n - 1)
    else:
        lo, hi = -n - 2, n + 2
    return [rng.randint(lo, hi) for _ in range(k)]


def gen_src(rng, U, sub_p=0.12, dup_p=0.06):
    a = gen_raw(rng, U, dup_p)
    s = {"a": a, "sub": None}
    if rng.random() < sub_p:
        n = len(a["v"]) if a["k"] == "list" else 1
        per = rng.random() < 0.4
        ix = gen_idx(rng, n)
        if per and not isinstance(ix, int):
            ix = [i + rng.choice([0, 0, n, -n, 2 * n]) for i in ix]
        s["sub"] = {"ix": ix, "per": per}
    return s


def gen_carg(rng, U, w_p=0.6):
    if rng.random() < w_p:
        return {"k": "w", "src": gen_src(rng, U)}
    return gen_raw(rng, U)


def src_labels(s):
    return s["a"]["v"] if s["a"]["k"] == "list" else [s["a"]["v"]]


FRESH = [100, 101, 102, 103, "x", "y", "z", {"t": [9, 9]}, {"t": ["x", 1]}, 0, 1, "a"]


def gen_case(rng):
    U = gen_universe(rng)
    op = rng.choice(["mk", "add", "radd", "all", "all", "shared", "shared", "unique", "unique", "set", "set", "set",
                     "index", "index", "indices", "indices", "map", "map", "subset", "subset", "eq", "containsw", "contains"])
    if op == "mk":
        return {"op": op, "a": gen_carg(rng, U, 0.2) if rng.random() < 0.8 else gen_raw(rng, U, 0.5)}
    if op in ("add", "radd"):
        return {"op": op, "s": gen_src(rng, U), "a": gen_carg(rng, U, 0.5), "via": rng.choice(["method", "op"])}
    if op in ("all", "shared", "unique"):
        k = rng.choice([0, 1, 2, 2, 3, 3, 4, 5]) if rng.random() < 0.95 else 0
        wp = 0.85 if op == "all" else 0.97
        return {"op": op, "ls": [gen_carg(rng, U, wp) for _ in range(k)]}
    if op == "set":
        return {"op": op, "kind": rng.choice(["union", "inter", "diff", "xor", "rsub", "rxor"]),
                "via": rng.choice(["method", "op", "rop"]), "s": gen_src(rng, U), "a": gen_carg(rng, U, 0.5)}
    if op == "index":
        s = gen_src(rng, U)
        r = rng.random()
        if r < 0.5:
            ls = src_labels(s)
            v = rng.choice(ls) if ls and rng.random() < 0.8 else rng.choice(U)
            return {"op": op, "s": s, "a": {"k": "lbl", "v": v}}
        ls = src_labels(s)
        k = rng.choice([1, 1, 1, 0, 2])
        v = [rng.choice(ls) if ls and rng.random() < 0.8 else rng.choice(U) for _ in range(k)]
        if k == 2 and v[0] == v[1]:
            v = v[:1]
        return {"op": op, "s": s, "a": {"k": "w", "src": {"a": {"k": "list", "v": v, "tup": False}, "sub": None}}}
    if op == "indices":
        s = gen_src(rng, U)
        ls = src_labels(s)
        r = rng.random()
        if r < 0.12:
            strs = [x for x in U if isinstance(x, str)]
            if strs:
                return {"op": op, "s": s, "a": {"k": "lbl", "v": rng.choice(strs)}}
        if r < 0.25:
            singles = [x for x in (ls or U) if not (isinstance(x, dict) and "t" in x)] or [0]
            return {"op": op, "s": s, "a": {"k": "lbl", "v": rng.choice(singles)}}
        k = rng.choice([0, 1, 2, 3, 4])
        v = [rng.choice(ls) if ls and rng.random() < 0.92 else rng.choice(U) for _ in range(k)]
        if rng.random() < 0.5:
            v = list({json.dumps(x, sort_keys=True): x for x in v}.values())
            return {"op": op, "s": s, "a": {"k": "w", "src": {"a": {"k": "list", "v": v, "tup": False}, "sub": None}}}
        return {"op": op, "s": s, "a": {"k": "list", "v": v, "tup": rng.random() < 0.4}}
    if op == "map":
        s = gen_src(rng, U)
        keys = list(src_labels(s))
        if keys and rng.random() < 0.12:
            keys.pop(rng.randrange(len(keys)))
        keys += [x for x in U if rng.random() < 0.3]
        rng.shuffle(keys)
        vals = rng.sample(FRESH + U, min(len(keys), len(FRESH) + len(U))) if rng.random() < 0.75 else None
        m = []
        for i, k in enumerate(keys):
            v = vals[i] if vals is not None and i < len(vals) else rng.choice(FRESH[:6])
            m.append([k, v])
        return {"op": op, "s": s, "m": m}
    if op == "subset":
        s = gen_src(rng, U, sub_p=0.05)
        n = len(src_labels(s))
        per = rng.random() < 0.4
        ix = gen_idx(rng, n)
        if per and not isinstance(ix, int):
            ix = [i + rng.choice([0, 0, n, -n, 3 * n]) for i in ix]
        return {"op": op, "s": s, "ix": ix, "per": per}
    if op == "eq":
        s = gen_src(rng, U)
        r = rng.random()
        if r < 0.35:
            s2 = json.loads(json.dumps(s))
            if s2["a"]["k"] == "list":
                s2["a"]["tup"] = not s2["a"]["tup"]
        elif r < 0.7 and s["a"]["k"] == "list" and len(s["a"]["v"]) > 1:
            s2 = json.loads(json.dumps(s))
            rng.shuffle(s2["a"]["v"])
        else:
            s2 = gen_src(rng, U)
        return {"op": op, "s": s, "s2": s2}
    if op == "containsw":
        return {"op": op, "s": gen_src(rng, U), "a": gen_carg(rng, U, 0.85)}
    return {"op": op, "s": gen_src(rng, U), "x": rng.choice(U)}


# ------------------------------------------------------------------ Gallina printers
def g_codes(ls):
    return glist([code(x) for x in ls], gz)


def g_raw(a):
    if a["k"] == "list":
        return f"(AList {g_codes(a['v'])})"
    v = a["v"]
    if isinstance(v, str):
        return f"(AStr {gz(code(v))} {g_codes(list(v))})"
    return f"(AInt {gz(code(v))})"


def g_ix(ix):
    return f"(XInt {gz(ix)})" if isinstance(ix, int) else f"(XList {glist(ix, gz)})"


def g_src(s):
    if s.get("sub") is None:
        return f"(SMk {g_raw(s['a'])})"
    return f"(SSub {g_raw(s['a'])} {g_ix(s['sub']['ix'])} {gbool(s['sub']['per'])})"


def g_carg(a):
    return f"(CW {g_src(a['src'])})" if a["k"] == "w" else f"(CRaw {g_raw(a)})"


KIND = {"union": "KUnion", "inter": "KInter", "diff": "KDiff", "xor": "KXor", "rsub": "KRsub", "rxor": "KRxor"}


def map_items(c):
    d = {}
    for k, v in c["m"]:
        d[pyl(k)] = v           # same insertion semantics as the driver's dict
    return [(CODES.setdefault(k, 10 + len(CODES)), code(v)) for k, v in d.items()]


def g_case(c):
    op = c["op"]
    if op == "mk":
        return f"OMk {g_carg(c['a'])}"
    if op == "add":
        return f"OAdd {g_src(c['s'])} {g_carg(c['a'])}"
    if op == "radd":
        return f"ORadd {g_src(c['s'])} {g_carg(c['a'])}"
    if op in ("all", "shared", "unique"):
        return {"all": "OAll", "shared": "OShared", "unique": "OUnique"}[op] + " " + glist(c["ls"], g_carg)
    if op == "set":
        return f"OSet {KIND[c['kind']]} {g_src(c['s'])} {g_carg(c['a'])}"
    if op == "index":
        a = f"(ICW {g_src(c['a']['src'])})" if c["a"]["k"] == "w" else f"(ICLabel {gz(code(c['a']['v']))})"
        return f"OIndex {g_src(c['s'])} {a}"
    if op == "indices":
        return f"OIndices {g_src(c['s'])} {g_carg(c['a'])}"
    if op == "map":
        return f"OMap {g_src(c['s'])} {glist(map_items(c), lambda p: f'({gz(p[0])}, {gz(p[1])})')}"
    if op == "subset":
        return f"OSubset {g_src(c['s'])} {g_ix(c['ix'])} {gbool(c['per'])}"
    if op == "eq":
        return f"OEq {g_src(c['s'])} {g_src(c['s2'])}"
    if op == "containsw":
        return f"OContainsW {g_src(c['s'])} {g_carg(c['a'])}"
    return f"OContains {g_src(c['s'])} {gz(code(c['x']))}"


SET_VALUED = ("set",)


def result_codes(c, o):
    """canonical list of ints for the observed result"""
    r = o["r"]
    op = c["op"]
    if op in ("index",):
        return [r]
    if op == "indices":
        return list(r)
    if op == "eq":
        return [1 if r["eq"] else 0]
    if op in ("containsw", "contains"):
        return [1 if r else 0]
    cs = [code(x) for x in r]
    return sorted(cs) if op in SET_VALUED else cs


def g_obs(c, o):
    if o == "ERR":
        return "None"
    return f"(Some {glist(result_codes(c, o), gz)})"


# ------------------------------------------------------------------ the property evaluated directly
def labels_of(a, ops_iter):
    """codes of the labels a carg contributes (Wires operands as observed)"""
    if a["k"] == "w":
        return [code(x) for x in next(ops_iter)], True
    if a["k"] == "list":
        return [code(x) for x in a["v"]], False
    return [code(a["v"])], False


def direct_oracle(c, o):
    """returns None if fine, else a text saying which clause fails.  Only accepted calls are judged here
    (acceptance/rejection itself is judged by the model), except for the duplicate rejection of Wires(...)."""
    op = c["op"]
    if o == "ERR":
        if op == "mk" and c["a"]["k"] == "list":
            cs = [code(x) for x in c["a"]["v"]]
            if len(set(cs)) == len(cs):
                return "duplicate-free label sequence rejected"
        return None
    if not o["h"]:
        return "hash/len/iteration observers disagree with the labels tuple"
    it = iter(o["ops"])
    res = result_codes(c, o)
    nodup = lambda l: len(set(l)) == len(l)
    if op == "mk":
        a, isw = labels_of(c["a"], it)
        return None if (res == a and nodup(res)) else "Wires(...) accepted duplicates or changed the labels"
    if op in ("add", "radd"):
        w = [code(x) for x in next(it)]
        a, _ = labels_of(c["a"], it)
        seq = w + a if op == "add" else a + w
        return None if res == list(dict.fromkeys(seq)) else "+ is not first-occurrence concatenation"
    if op in ("all", "shared", "unique"):
        ls = [labels_of(a, it)[0] for a in c["ls"]]
        cat = [w for l in ls for w in l]
        if op == "all":
            exp = list(dict.fromkeys(cat))
        elif op == "shared":
            exp = [w for w in ls[0] if all(w in l for l in ls)]
        else:
            exp = [w for w in cat if sum(1 for l in ls if w in l) == 1]
        return None if res == exp else f"{op}_wires disagrees with set semantics / order"
    if op == "set":
        w = set(code(x) for x in next(it))
        a = set(labels_of(c["a"], it)[0])
        exp = {"union": w | a, "inter": w & a, "diff": w - a, "xor": w ^ a, "rsub": a - w, "rxor": a ^ w}[c["kind"]]
        return None if (nodup(res) and set(res) == exp) else f"{c['kind']} disagrees with set semantics"
    if op == "index":
        w = [code(x) for x in next(it)]
        x = code(c["a"]["v"]) if c["a"]["k"] == "lbl" else [code(y) for y in next(it)][0]
        i = res[0]
        return None if (0 <= i < len(w) and w[i] == x and x not in w[:i]) else "index is not the position of the label"
    if op == "indices":
        w = [code(x) for x in next(it)]
        a = c["a"]
        if a["k"] == "lbl" and isinstance(a["v"], str):
            xs = [code(ch) for ch in a["v"]]
        else:
            xs = labels_of(a, it)[0]
        ok = len(res) == len(xs) and all(0 <= i < len(w) and w[i] == x and x not in w[:i] for i, x in zip(res, xs))
        return None if ok else "indices are not the positions of the labels"
    if op == "map":
        w = [code(x) for x in next(it)]
        m = dict(map_items(c))
        ok = all(x in m for x in w) and res == [m[x] for x in w] and nodup(res)
        return None if ok else "map is not the pointwise image / accepted a non-injective map"
    if op == "subset":
        w = [code(x) for x in next(it)]
        ix = [c["ix"]] if isinstance(c["ix"], int) else c["ix"]
        n = len(w)
        try:
            exp = [w[i % n] if c["per"] else w[i] for i in ix]
        except (IndexError, ZeroDivisionError):
            return "subset accepted an out-of-range index"
        return None if res == exp else "subset is not the labels at the given positions"
    if op == "eq":
        a = [code(x) for x in next(it)]
        b = [code(x) for x in next(it)]
        r = o["r"]
        if r["eq"] != (a == b):
            return "== does not respect label order"
        if r["eq"] and not r["heq"]:
            return "equal Wires have different hashes"
        return None
    if op == "containsw":
        w = [code(x) for x in next(it)]
        a, isw = labels_of(c["a"], it)
        return None if (res[0] == 1) == (isw and set(a) <= set(w)) else "contains_wires disagrees with subset test"
    if op == "contains":
        w = [code(x) for x in next(it)]
        return None if (res[0] == 1) == (code(c["x"]) in w) else "in disagrees with membership"
    return None


def W(v, tup=False):
    return {"k": "w", "src": {"a": {"k": "list", "v": v, "tup": tup}, "sub": None}}


def S(v, sub=None):
    return {"a": {"k": "list", "v": v, "tup": False}, "sub": sub}


def L(v):
    return {"k": "list", "v": v, "tup": False}


CORPUS = [
    {"op": "mk", "a": L([4, 0, 1])}, {"op": "mk", "a": L([0, 1, 0])}, {"op": "mk", "a": L([1, {"f": 1.0}])},
    {"op": "mk", "a": L([1, {"b": True}])}, {"op": "mk", "a": {"k": "lbl", "v": "aux"}}, {"op": "mk", "a": L([])},
    {"op": "mk", "a": W([0, 1], True)}, {"op": "mk", "a": L([{"t": [0, 1]}, {"t": [1, 0]}, 0, 1])},
    {"op": "mk", "a": {"k": "w", "src": S([0, 1], {"ix": [0, 0], "per": False})}},
    {"op": "add", "s": S([4, 0, 1]), "a": W([1, 2]), "via": "op"}, {"op": "add", "s": S([4, 0, 1]), "a": {"k": "lbl", "v": 0}, "via": "op"},
    {"op": "radd", "s": S([4, 0, 1]), "a": L([1, 2]), "via": "op"}, {"op": "radd", "s": S(["a"]), "a": {"k": "lbl", "v": "b"}, "via": "op"},
    {"op": "all", "ls": [W([4, 0, 1]), W([3, 0, 4]), W([5, 3])]}, {"op": "all", "ls": []}, {"op": "all", "ls": [W([0]), L([0, 0])]},
    {"op": "shared", "ls": [W([4, 0, 1]), W([3, 0, 4]), W([4, 0])]}, {"op": "shared", "ls": [W([3, 0, 4]), W([4, 0, 1]), W([4, 0])]},
    {"op": "shared", "ls": []}, {"op": "shared", "ls": [W([1, 2]), L([1])]},
    {"op": "unique", "ls": [W([4, 0, 1]), W([0, 2, 3]), W([5, 3])]}, {"op": "unique", "ls": [W([1]), W([1]), W([1])]},
    {"op": "unique", "ls": [W([1, 2]), W([1]), W([1, 3]), W([2, 4])]}, {"op": "unique", "ls": []},
    {"op": "unique", "ls": [{"k": "w", "src": S([0, 1], {"ix": [0, 0, 1], "per": False})}, W([1])]},
    {"op": "set", "kind": "union", "via": "op", "s": S([1, 2, 3]), "a": W([3, 4, 5])},
    {"op": "set", "kind": "inter", "via": "op", "s": S([1, 2, 3]), "a": L([2, 3, 4])},
    {"op": "set", "kind": "diff", "via": "op", "s": S([1, 2, 3]), "a": W([2, 3, 4])},
    {"op": "set", "kind": "xor", "via": "method", "s": S([1, 2, 3]), "a": W([3, 4, 5])},
    {"op": "set", "kind": "rsub", "via": "op", "s": S([1, 2, 3]), "a": L([3, 4, 5])},
    {"op": "set", "kind": "rxor", "via": "op", "s": S([1, 2, 3]), "a": L([3, 4, 5])},
    {"op": "set", "kind": "union", "via": "method", "s": S([1, 2]), "a": L([3, 3])},
    {"op": "set", "kind": "union", "via": "method", "s": S([0, 1], {"ix": [0, 0], "per": False}), "a": L([3])},
    {"op": "index", "s": S([4, 0, 1]), "a": {"k": "lbl", "v": 1}}, {"op": "index", "s": S([4, 0, 1]), "a": {"k": "lbl", "v": 7}},
    {"op": "index", "s": S([4, 0, 1]), "a": W([0])}, {"op": "index", "s": S([4, 0, 1]), "a": W([0, 1])},
    {"op": "index", "s": S([{"t": [0, 1]}, 0]), "a": {"k": "lbl", "v": {"t": [0, 1]}}},
    {"op": "indices", "s": S([4, 0, 1]), "a": W([1, 4])}, {"op": "indices", "s": S([4, 0, 1]), "a": L([1, 4, 1])},
    {"op": "indices", "s": S(["a", "b", "ab"]), "a": {"k": "lbl", "v": "ab"}}, {"op": "indices", "s": S([4, 0, 1]), "a": {"k": "lbl", "v": 0}},
    {"op": "map", "s": S(["a", "b", "c"]), "m": [["a", 4], ["b", 2], ["c", 3]]}, {"op": "map", "s": S(["a", "b"]), "m": [["a", 4], ["b", 4]]},
    {"op": "map", "s": S(["a", "b"]), "m": [["a", 4]]}, {"op": "map", "s": S([1, 2]), "m": [[1, 2], [2, 1], [{"f": 1.0}, 5]]},
    {"op": "subset", "s": S([4, 0, 1, 5, 6]), "ix": [2, 3, 0], "per": False}, {"op": "subset", "s": S([4, 0, 1, 5, 6]), "ix": 1, "per": False},
    {"op": "subset", "s": S([4, 0, 1, 5, 6]), "ix": [5, 1, 7], "per": True}, {"op": "subset", "s": S([4, 0, 1]), "ix": [3], "per": False},
    {"op": "subset", "s": S([4, 0, 1]), "ix": [4], "per": False}, {"op": "subset", "s": S([4, 0, 1]), "ix": [-1, -3], "per": False},
    {"op": "subset", "s": S([4, 0, 1]), "ix": [-4], "per": False}, {"op": "subset", "s": S([]), "ix": [0], "per": True},
    {"op": "subset", "s": S([]), "ix": [], "per": True}, {"op": "subset", "s": S([4, 0, 1]), "ix": [-1, -5], "per": True},
    {"op": "eq", "s": S([0, 1]), "s2": S([1, 0])}, {"op": "eq", "s": S([0, 1]), "s2": S([0, 1])},
    {"op": "eq", "s": S([1, 2]), "s2": S([{"f": 1.0}, 2])}, {"op": "eq", "s": S([0, 1]), "s2": S([0, 1, 2])},
    {"op": "containsw", "s": S([0, 1, 2]), "a": W([2, 0])}, {"op": "containsw", "s": S([0, 1, 2]), "a": L([2, 0])},
    {"op": "contains", "s": S([0, "a"]), "x": "a"}, {"op": "contains", "s": S([0, "a"]), "x": {"f": 0.0}},
]


def run(ctx):
    ctx.coq_props()
    n = 3000 if ctx.tier == "quick" else 30000
    rng = ctx.rng
    cases = [json.loads(json.dumps(c)) for c in CORPUS]
    rp = getattr(ctx, "replay", None)
    if rp and isinstance(rp.get("replay"), dict) and "case" in rp["replay"]:
        cases.insert(0, rp["replay"]["case"])          # ./check C45 --replay <file>: re-run the recorded case first
    while len(cases) < n:
        cases.append(gen_case(rng))
    obs = ctx.run_impl("c45_impl.py", {"cases": cases})
    terms = [f"({g_case(c)}, {g_obs(c, o)})" for c, o in zip(cases, obs)]
    bad = ctx.coq_eval_cases("cases", "From PLV Require Import Disc.WiresModel.", terms, "check_case")
    hist = {"errors": 0, "dup_operand": 0, "alias_labels": 0, "tuple_labels": 0, "str_iterated": 0, "nonempty_result": 0}
    per_op = {}
    distinct = set()
    for c, o in zip(cases, obs):
        k = c["op"] + (":" + c["kind"] if c["op"] == "set" else "")
        e = per_op.setdefault(k, [0, 0])
        e[0] += 1
        js = json.dumps(c, sort_keys=True)
        if '"f"' in js or '"b"' in js:
            hist["alias_labels"] += 1
        if '"t"' in js:
            hist["tuple_labels"] += 1
        if o == "ERR":
            hist["errors"] += 1
            e[1] += 1
        else:
            if any(len(set(json.dumps(x, sort_keys=True) for x in l)) < len(l) for l in o["ops"]):
                hist["dup_operand"] += 1
            if c["op"] == "indices" and c["a"]["k"] == "lbl" and isinstance(c["a"]["v"], str):
                hist["str_iterated"] += 1
            rc = result_codes(c, o)
            if len(rc) > 1 or (c["op"] in ("index", "eq", "containsw", "contains") and rc):
                hist["nonempty_result"] += 1
                distinct.add(js)
        why = direct_oracle(c, o)
        if why is not None:
            ctx.violation("direct:" + js, {"case": c, "observed": o, "clause": why}, what="Wires: " + why)
    for i in bad:
        c, o = cases[i], obs[i]
        ctx.violation("corr:" + json.dumps(c, sort_keys=True),
                      {"case": c, "implementation": o, "gallina_case": g_case(c), "implementation_as_codes": g_obs(c, o),
                       "model": "Eval vm_compute in (WiresModel.run (<gallina_case>)) gives the model's answer"},
                      found_input=True, what="implementation differs from the proved model of Wires")
    hist["per_op_calls_errors"] = per_op
    ctx.coverage.update({"evaluations": len(cases), "distinct_nontrivial": len(distinct),
                         "rule": "corpus (docstring examples, boundary indices, aliases 1/1.0/True, repeated-label Wires from subset) then seeded generator: "
                                 "per case a universe of 3-10 labels (ints, strings, tuples; 25% with ==-aliases), operands Wires/list/tuple/single label, "
                                 "12% duplicate-bearing sequences, 12% operands built through subset; ops mk/+/radd/all/shared/unique/6 set ops/index/indices/"
                                 "map/subset/==/contains; non-trivial = accepted call with a result of >1 element (or an index/bool)",
                         "input_distribution": hist})
    for c, o in list(zip(cases, obs))[9:13]:
        ctx.sample({"case": c, "observed": o})
