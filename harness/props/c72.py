"""C72 QAOA cost Hamiltonians encode their objectives."""
from fractions import Fraction
from itertools import product as iproduct

from vlib import *

PID = "C72"
META = {
    "level": "proof",
    "technique": "Coq proofs by induction over edge/node lists on a term-by-term Gallina transcription of the qaoa builders (Pauli sentences over Q) + vm_compute correspondence of the sentences against the real builders' pauli_rep + exhaustive-bitstring matrix-diagonal oracle",
    "design_ref": "DESIGN.md §3 C72",
    "text": "15 kernel-checked theorems (Props/C72.v) state, for ALL graphs (node list, edge list, parallel edges included) and ALL bit assignments, that the diagonal value of the sentence built by the model of bit_driver, edge_driver (every duplicate-free reward list: rewarded colouring -(4-r)/4, other r/4; constant |V| for the empty/full list), maxcut (= -#cut edges), max_independent_set, min_vertex_cover, max_clique (constrained: +-(|V|-2|S|); unconstrained: + 3 per violated edge / uncovered edge / chosen non-adjacent pair, up to the constant -3/4|E|), out_flow_constraint (sum 4 s(s-1)), net_flow_constraint (sum 4 (s_out-s_in)^2) and the max_weight_cycle cost (loss, loss + 3(net+out)) equals an objective written from the documentation; plus the Z-word eigenvalue lemma, linearity of the sentence arithmetic and totality of the builders. The model's sentences are evaluated inside Coq on the same generated graphs (networkx and rustworkx, empty/complete/path/star/random, parallel edges, arbitrary integer node labels, malformed inputs) as the real qp.qaoa builders and compared as word->coefficient maps with the builders' pauli_rep (exact dyadic coefficients), cost AND returned mixer; for <=5 nodes (<=6 edge-wires) every bitstring's entry of diag(qp.matrix(H)) is additionally compared with the documented objective computed independently in Python.",
    "note": "Correspondence only (no universally quantified theorem): the mixers x_mixer, xy_mixer, bit_flip_mixer, cycle_mixer (model sentence = documented operator expanded = returned pauli_rep) and the wire->edge mapping. numpy.log is an oracle recorded from the run; the unconstrained max_weight_cycle cost is compared up to 2^-30 and its matrix diagonal up to 1e-9 (float rounding of log + integer); everything else exactly. Documentation discrepancy (not reported as a violation): the docstrings of the unconstrained max_independent_set / min_vertex_cover / max_clique print the edge part with coefficient 3 where the code (3 * edge_driver) yields 3/4 - theorem unconstrained_doc_formula_literal_refuted; the proved objective uses the code's normalisation (a violated edge costs 3 more than a satisfied one, as edge_driver documents). Not modelled: reward lists whose de-duplicated set minus '01' has three entries (hash-order dependent reward[0]); self-loops (except the ValueError of loss_hamiltonian); rustworkx graphs with removed nodes or duplicate node payloads; rustworkx digraphs whose payloads differ from their indices; edges without weight data; string wire labels.",
    "assumptions": ["graphs are simple up to parallel edges (no self-loops); node labels are distinct integers",
                    "edge_driver theorems assume a duplicate-free reward list (with duplicates len(reward)==4 takes the constant branch; the model transcribes that, the theorem excludes it)",
                    "pauli_rep of the returned LinearCombination is taken as the operator's meaning (and cross-checked with qp.matrix for <=5 nodes / <=6 edges)"],
    "trusted": ["hand-written model coq/Disc/QaoaModel.v tied to /repo by correspondence only",
                "PennyLane's pauli_rep / qp.matrix used as observation functions"],
}

CODE = {"00": 0, "01": 1, "10": 2, "11": 3}
EPS = Fraction(1, 2 ** 30)


# ------------------------------------------------------------------ generators
def gen_vals(rng, n, lib):
    r = rng.random()
    if r < 0.5:
        return list(range(n))
    vals = rng.sample(range(0, 24), n)
    return vals


def gen_edges(rng, n, kind):
    allp = [(i, j) for i in range(n) for j in range(i + 1, n)]
    if kind == "empty":
        es = []
    elif kind == "complete":
        es = list(allp)
    elif kind == "path":
        es = [(i, i + 1) for i in range(n - 1)]
    elif kind == "star":
        es = [(0, j) for j in range(1, n)]
    else:
        p = rng.choice([0.25, 0.5, 0.75])
        es = [e for e in allp if rng.random() < p]
    es = [(a, b) if rng.random() < 0.7 else (b, a) for a, b in es]
    rng.shuffle(es)
    return es


def gen_graph(rng, nmax, lib):
    n = rng.choice([0, 1, 2, 2, 3, 3, 3, 4, 4, 4, 4, 5, 5, 5] + ([6, 7] if nmax > 5 else []))
    n = min(n, nmax)
    kind = rng.choice(["empty", "complete", "path", "star", "random", "random", "random", "random"])
    es = gen_edges(rng, n, kind)
    multi = False
    if lib == "rx" and es and rng.random() < 0.2:
        a, b = rng.choice(es)
        es.append((a, b) if rng.random() < 0.5 else (b, a))
        multi = True
    return {"lib": lib, "nodes": gen_vals(rng, n, lib), "edges": [list(e) for e in es], "kind": kind, "multi": multi}


def gen_reward(rng):
    r = rng.random()
    base = ["00", "01", "10", "11"]
    if r < 0.7:  # valid: 01 and 10 together
        s = [x for x in ["00", "11"] if rng.random() < 0.5]
        if rng.random() < 0.5:
            s += ["01", "10"]
        rng.shuffle(s)
        return s
    if r < 0.8:  # only one of 01/10
        s = [rng.choice(["01", "10"])] + [x for x in ["00", "11"] if rng.random() < 0.5]
        rng.shuffle(s)
        return s
    if r < 0.88:  # invalid entry
        s = [rng.choice(base), rng.choice(["2", "111", "0", ""])]
        rng.shuffle(s)
        return s
    # duplicates
    s = [rng.choice(["00", "11"]) for _ in range(rng.choice([2, 3, 4, 4, 5]))]
    if rng.random() < 0.4:
        s += ["01", "10"]
    return s


def reward_unspecified(reward):
    if any(x not in CODE for x in reward):
        return False
    s = set(reward) - {"01"}
    return len(reward) not in (0, 4) and len(s) == 3


def gen_digraph(rng, lib, directed=True):
    n = rng.choice([1, 2, 3, 3, 3, 4, 4])
    allp = [(i, j) for i in range(n) for j in range(n) if i != j]
    if not directed:
        allp = [(i, j) for i, j in allp if i < j]
    kind = rng.choice(["complete", "random", "random", "random", "empty"])
    if kind == "complete":
        es = allp
    elif kind == "empty":
        es = []
    else:
        p = rng.choice([0.3, 0.5, 0.7])
        es = [e for e in allp if rng.random() < p]
    if len(es) > 6 and kind != "complete":
        es = sorted(rng.sample(es, 6))
    es = sorted(es)
    ws = [rng.choice([0.5, 1.0, 1.0, 2.0, 3.0, 1.5, 0.25, 0.7]) for _ in es]
    return {"lib": lib, "nodes": list(range(n)), "edges": [list(e) for e in es], "weights": ws,
            "directed": directed, "kind": kind}


def gen_cases(rng, n, nmax):
    cases = []
    P5 = {"lib": "nx", "nodes": [0, 1, 2], "edges": [[0, 1], [1, 2]], "kind": "path", "multi": False}
    R5 = dict(P5, lib="rx")
    # corpus: the docstring examples and the corner cases first
    for G in (P5, R5):
        cases.append(dict(G, fn="maxcut", diag=True))
        cases.append(dict(G, fn="edge_driver", reward=["11", "10", "01"], diag=True))
        cases.append(dict(G, fn="edge_driver", reward=["00", "00", "11", "11"], diag=True))
        cases.append(dict(G, fn="bit_flip_mixer", b=0))
        cases.append(dict(G, fn="xy_mixer"))
        for c in (True, False):
            for fn in ("max_independent_set", "min_vertex_cover", "max_clique"):
                cases.append(dict(G, fn=fn, constrained=c, diag=True))
    cases.append({"fn": "bit_driver", "wires": [0, 1, 2], "b": 1, "diag": True})
    cases.append({"fn": "bit_driver", "wires": [], "b": 0, "diag": True})
    cases.append({"fn": "bit_driver", "wires": [4, 2], "b": 2, "diag": True})
    cases.append({"fn": "x_mixer", "wires": [0, 1, 2]})
    for lib in ("nx", "rx"):
        E0 = {"lib": lib, "nodes": [], "edges": [], "kind": "empty", "multi": False}
        cases.append(dict(E0, fn="maxcut", diag=True))
        cases.append(dict(E0, fn="max_clique", constrained=False, diag=True))
        K3 = {"lib": lib, "nodes": [0, 1, 2], "edges": [[0, 1], [0, 2], [1, 0], [1, 2], [2, 0], [2, 1]],
              "weights": [0.5, 1.0, 1.5, 2.0, 2.5, 3.0], "directed": True, "kind": "complete"}
        for fn in ("loss_hamiltonian", "net_flow_constraint", "out_flow_constraint", "cycle_mixer"):
            cases.append(dict(K3, fn=fn, diag=True))
        for c in (True, False):
            cases.append(dict(K3, fn="max_weight_cycle", constrained=c, diag=True))
    while len(cases) < n:
        lib = rng.choice(["nx", "rx"])
        r = rng.random()
        if r < 0.05:
            k = rng.choice([0, 1, 2, 3, 4, 5])
            cases.append({"fn": "bit_driver", "wires": rng.sample(range(12), k),
                          "b": rng.choice([0, 1, 0, 1, 0, 1, 2, -1]), "diag": True})
        elif r < 0.08:
            cases.append({"fn": "x_mixer", "wires": rng.sample(range(12), rng.choice([0, 1, 3, 5]))})
        elif r < 0.28:
            rw = gen_reward(rng)
            if reward_unspecified(rw):
                continue
            cases.append(dict(gen_graph(rng, nmax, lib), fn="edge_driver", reward=rw, diag=True))
        elif r < 0.40:
            cases.append(dict(gen_graph(rng, nmax, lib), fn="maxcut", diag=True))
        elif r < 0.70:
            fn = rng.choice(["max_independent_set", "min_vertex_cover", "max_clique"])
            g = gen_graph(rng, nmax, lib)
            cases.append(dict(g, fn=fn, constrained=rng.random() < 0.4, diag=True))
        elif r < 0.75:
            cases.append(dict(gen_graph(rng, nmax, lib), fn="xy_mixer"))
        elif r < 0.82:
            cases.append(dict(gen_graph(rng, nmax, lib), fn="bit_flip_mixer", b=rng.choice([0, 1, 0, 1, 0, 1, 2])))
        else:
            fn = rng.choice(["loss_hamiltonian", "net_flow_constraint", "out_flow_constraint", "cycle_mixer",
                             "max_weight_cycle", "max_weight_cycle"])
            directed = rng.random() < 0.88
            d = gen_digraph(rng, lib, directed)
            c = dict(d, fn=fn, diag=True)
            if fn == "max_weight_cycle":
                c["constrained"] = rng.random() < 0.5
            if fn == "loss_hamiltonian" and rng.random() < 0.1 and d["nodes"]:
                c["edges"] = c["edges"] + [[0, 0]]          # self-loop -> ValueError
                c["weights"] = c["weights"] + [1.0]
            cases.append(c)
    return cases


# ------------------------------------------------------------------ Gallina printers
def g_zs(xs):
    return glist(xs, gz)


def model_edges(c):
    """the edge list the builders iterate over, endpoints as node VALUES; networkx.Graph keeps one copy of an
    undirected edge, rustworkx keeps parallel edges"""
    vals = c["nodes"]
    es = [(vals[i], vals[j]) for i, j in c["edges"]]
    if c["lib"] == "nx" and not c.get("directed"):
        seen, out = set(), []
        for u, v in es:
            k = frozenset((u, v))
            if k not in seen:
                seen.add(k)
                out.append((u, v))
        es = out
    return es


def g_graph(c):
    return f"(mkG {g_zs(c['nodes'])} {glist(model_edges(c), lambda e: f'({gz(e[0])}, {gz(e[1])})')})"


def g_digraph(c, logs):
    es = model_edges(c)
    if logs is None:
        logs = [[0, 1]] * len(es)
    body = glist(list(zip(es, logs)), lambda t: f"({gz(t[0][0])}, {gz(t[0][1])}, {gq(Fraction(t[1][0], t[1][1]))})")
    return f"(mkD {g_zs(c['nodes'])} {body} {gbool(c.get('directed', False))})"


def g_case(c, o):
    fn = c["fn"]
    if fn == "bit_driver":
        return f"KBit {g_zs(c['wires'])} {gz(c['b'])}"
    if fn == "x_mixer":
        return f"KXmix {g_zs(c['wires'])}"
    if fn == "edge_driver":
        return f"KEdge {g_graph(c)} {g_zs([CODE.get(x, 9) for x in c['reward']])}"
    if fn == "maxcut":
        return f"KMaxcut {g_graph(c)}"
    if fn in ("max_independent_set", "min_vertex_cover", "max_clique"):
        k = {"max_independent_set": "KMis", "min_vertex_cover": "KMvc", "max_clique": "KClique"}[fn]
        return f"{k} {g_graph(c)} {gbool(c['constrained'])}"
    if fn == "xy_mixer":
        return f"KXYmix {g_graph(c)}"
    if fn == "bit_flip_mixer":
        return f"KBitflip {g_graph(c)} {gz(c['b'])}"
    logs = None if "err" in o else o.get("logs")
    d = g_digraph(c, logs)
    k = {"loss_hamiltonian": "KLoss", "net_flow_constraint": "KNetflow", "out_flow_constraint": "KOutflow",
         "cycle_mixer": "KCycleMixer"}.get(fn)
    if k:
        return f"{k} {d}"
    return f"KMwc {d} {gbool(c['constrained'])}"


def g_terms(ts):
    if ts is None:
        ts = []
    return glist(ts, lambda t: f"({gq(Fraction(t[0], t[1]))}, {glist(t[2], lambda p: f'({gz(p[0])}, {gz(p[1])})')})")


def g_obs(o):
    if "err" in o:
        return "None"
    return f"(Some ({g_terms(o['cost'])}, {g_terms(o['mixer'])}))"


def eps_of(c):
    return EPS if (c["fn"] == "max_weight_cycle" and not c["constrained"]) else Fraction(0)


# ------------------------------------------------------------------ direct oracle (documented objectives)
def F(p):
    return Fraction(p[0], p[1])


def objective(c, o, bits):
    """documented objective of the bit assignment `bits` (dict wire -> 0/1), written from the docstrings;
    None = nothing documented for this call"""
    fn = c["fn"]
    if fn == "bit_driver":
        n, k = len(c["wires"]), sum(bits[w] for w in c["wires"])
        return Fraction(n - 2 * k) if c["b"] == 1 else Fraction(2 * k - n)
    if fn in ("loss_hamiltonian", "net_flow_constraint", "out_flow_constraint", "max_weight_cycle"):
        es = [tuple(e) for e in c["edges"]]
        x = [bits[k] for k in range(len(es))]
        loss = sum((F(l) * (1 - 2 * x[k]) for k, l in enumerate(o["logs"])), Fraction(0))
        net = out = 0
        for n in c["nodes"]:
            so = sum(x[k] for k, e in enumerate(es) if e[0] == n)
            si = sum(x[k] for k, e in enumerate(es) if e[1] == n)
            net += 4 * (so - si) ** 2
            out += 4 * so * (so - 1)
        return {"loss_hamiltonian": loss, "net_flow_constraint": Fraction(net), "out_flow_constraint": Fraction(out),
                "max_weight_cycle": loss if c.get("constrained") else loss + 3 * (net + out)}[fn]
    vals = c["nodes"]
    es = model_edges(c)
    n, k = len(vals), sum(bits[v] for v in vals)
    if fn == "edge_driver":
        rw = c["reward"]
        if len(set(rw)) != len(rw):
            return None                       # duplicates: outside the documented use
        if len(rw) in (0, 4):
            return Fraction(n)                # constant: no colouring preferred (one identity per node)
        r = len(rw)
        tot = Fraction(0)
        for u, v in es:
            col = f"{bits[u]}{bits[v]}"
            tot += Fraction(-(4 - r), 4) if col in rw else Fraction(r, 4)
        return tot
    if fn == "maxcut":
        return Fraction(-sum(1 for u, v in es if bits[u] != bits[v]))
    if fn == "max_independent_set":
        base = Fraction(n - 2 * k)
        if c["constrained"]:
            return base
        return base + 3 * sum(1 for u, v in es if bits[u] and bits[v]) - Fraction(3 * len(es), 4)
    if fn == "min_vertex_cover":
        base = Fraction(2 * k - n)
        if c["constrained"]:
            return base
        return base + 3 * sum(1 for u, v in es if not bits[u] and not bits[v]) - Fraction(3 * len(es), 4)
    if fn == "max_clique":
        base = Fraction(n - 2 * k)
        if c["constrained"]:
            return base
        adj = {frozenset(e) for e in es}
        non = [(vals[i], vals[j]) for i in range(n) for j in range(i + 1, n) if frozenset((vals[i], vals[j])) not in adj]
        return base + 3 * sum(1 for u, v in non if bits[u] and bits[v]) - Fraction(3 * len(non), 4)
    return None


def direct_oracle(c, o):
    """returns (number of bitstrings compared, witness-or-None)"""
    if "err" in o or o.get("diag") is None:
        return 0, None
    if o["isdiag"] is not True:
        return 0, {"reason": "cost Hamiltonian is not diagonal"}
    fn = c["fn"]
    if fn == "bit_driver":
        order = c["wires"]
    elif fn in ("loss_hamiltonian", "net_flow_constraint", "out_flow_constraint", "max_weight_cycle"):
        order = list(range(len(c["edges"])))
    else:
        order = c["nodes"]
    # sums of log(weight) floats are rounded by the matrix evaluation: tolerance only where logs occur
    tol = Fraction(1, 10 ** 9) if fn in ("loss_hamiltonian", "max_weight_cycle") else Fraction(0)
    cnt = 0
    for idx, bs in enumerate(iproduct([0, 1], repeat=len(order))):
        bits = dict(zip(order, bs))
        want = objective(c, o, bits)
        if want is None:
            return cnt, None
        got = F(o["diag"][idx])
        cnt += 1
        if abs(got - want) > tol:
            return cnt, {"bits": {str(k): v for k, v in bits.items()}, "diagonal_entry": str(got),
                         "documented_objective": str(want)}
    if fn == "max_weight_cycle":
        mp = [[k, list(e)] for k, e in enumerate(c["edges"])]
        if o["mapping"] != mp:
            return cnt, {"reason": "wire->edge mapping differs", "got": o["mapping"], "want": mp}
    return cnt, None


def ckey(c):
    return json.dumps({k: v for k, v in c.items() if k not in ("kind", "multi", "diag")}, sort_keys=True)


def run(ctx):
    ctx.coq_props()
    n = 500 if ctx.tier == "quick" else 6000
    nmax = 5 if ctx.tier == "quick" else 6
    cases = gen_cases(ctx.rng, n, nmax)
    obs = ctx.run_impl("c72_impl.py", {"cases": cases})
    terms = [f"mkcase ({g_case(c, o)}) {gq(eps_of(c))} {g_obs(o)}" for c, o in zip(cases, obs)]
    bad = ctx.coq_eval_cases("cases", "From Coq Require Import QArith.\nFrom PLV Require Import Disc.QaoaModel.",
                             terms, "check_case", chunk=100)
    hist, libs, kinds = {}, {"nx": 0, "rx": 0, "-": 0}, {}
    errors = merged = multi = bitstrings = diag_cases = 0
    distinct = set()
    for c, o in zip(cases, obs):
        hist[c["fn"]] = hist.get(c["fn"], 0) + 1
        libs[c.get("lib", "-")] += 1
        kinds[c.get("kind", "-")] = kinds.get(c.get("kind", "-"), 0) + 1
        multi += bool(c.get("multi"))
        if "err" in o:
            errors += 1
        else:
            if any(len(t[2]) >= 2 for t in o["cost"]):
                distinct.add(ckey(c))
            # pauli_rep merged several generated terms into one word (node of degree >= 2 / parallel edge)
            if "edges" in c and len(o["cost"]) < len(c["edges"]) * 3 and c["fn"] in ("edge_driver", "max_independent_set", "min_vertex_cover"):
                merged += 1
        k, w = direct_oracle(c, o)
        bitstrings += k
        diag_cases += bool(k)
        if w is not None:
            ctx.violation("direct:" + ckey(c), {"case": c, "witness": w, "observed_cost_terms": o.get("cost")},
                          what=f"diagonal of qp.qaoa.{c['fn']} differs from the documented objective")
    for i in bad:
        c, o = cases[i], obs[i]
        ctx.violation("corr:" + ckey(c), {"case": c, "implementation": o, "gallina_case": terms[i]},
                      found_input=True, what=f"qp.qaoa.{c['fn']} returns a different Pauli sentence than the proved model")
    ctx.coverage.update({
        "evaluations": len(cases), "distinct_nontrivial": len(distinct),
        "rule": "corpus (docstring examples, empty graphs, K3 digraph) + seeded generator over builders x {networkx, rustworkx} x {empty, complete, path, star, G(n,p)} with arbitrary distinct integer node labels, parallel edges for rustworkx (20%), reward lists valid/invalid/duplicated, malformed b, undirected inputs and self-loops for the cycle functions; non-trivial = returned cost has a word on >= 2 wires",
        "input_distribution": {"by_function": hist, "by_library": libs, "by_graph_kind": kinds, "raised": errors,
                               "parallel_edge_graphs": multi, "cases_with_merged_words": merged,
                               "cases_with_full_diagonal_check": diag_cases, "bitstrings_enumerated": bitstrings}})
    for c, o in list(zip(cases, obs))[:3]:
        ctx.sample({"case": c, "observed": {k: o.get(k) for k in ("cost", "mixer", "err") if o.get(k) is not None}})
