"""C10 Every registered decomposition rule implements its operator exactly."""
from vlib import *

PID = "C10"
META = {
    "level": "proof",
    "engine": "qsym-translator",
    "technique": "Coq reflection proof (vm_compute over exact Laurent-polynomial matrices + EvalHom soundness theorem into C) of obligations regenerated from /repo by symbolic execution of every decomposition rule",
    "design_ref": "DESIGN.md §2.2-2.3, §3 C10",
    "text": "For every catalogued operator instance (all fixed-arity operators with registered rules, their Adjoint/Pow/Controlled variants, MultiRZ, PauliRot, MultiControlledX with work wires) and every applicable rule, the rule is executed on formal parameters by running PennyLane's own code on exact ring elements; Coq composes the emitted gates and proves, by kernel-checked reflection, that the circuit equals the operator's matrix on every checked basis column. Theorem rule_ok_forall_parameters turns each obligation into a statement for ALL real parameter values (global phase included, zeroed work wires returned to |0>). Universal in parameters, enumerated in structure. Every rule (extractable or not) is also executed numerically at random and boundary angles as the direct search for a failing input.",
    "note": "Trusted: Coq kernel + stdlib real-number axioms (sig_forall_dec, sig_not_dec, functional_extensionality_dep via Reals/Coquelicot); the translator harness/qsym.py+qx.py (ring mirror, constant recognition by PSLQ, harness-process patches of _init_arg_types and qp.math.cast*), mitigated by a numeric spot-check of every extracted matrix against an independent float run; structure (wires, controls, powers) is enumerated up to the catalogue bounds; rules with non-linear angle computations or >6 wires are only checked numerically; documented restricted-domain operators (TemporaryAND) are checked on their documented domain.",
    "assumptions": ["catalogue bounds: <=4 operator wires, <=6 total wires, integer powers, <=3 controls"],
    "trusted": ["translator harness/qsym.py, harness/qx.py, harness/qrules.py (symbolic execution of PennyLane code)"],
}

HEADER = """From Coq Require Import List ZArith QArith Reals Bool.
From PLV Require Import Alg.Poly Lin.Vec Lin.PVec Props.C10.
Import ListNotations.
Open Scope Q_scope.
"""


def load_baseline(name):
    p = VERIF / "harness" / name
    return set(tuple(x) for x in json.loads(p.read_text())) if p.exists() else None


def run(ctx):
    ctx.coq_props()
    out = ctx.run_impl("c10_impl.py", {"tier": ctx.tier, "seed": ctx.seed, "outdir": str(ctx.gen_dir),
                                       "npts": 2 if ctx.tier == "quick" else 12}, timeout=3000)
    items = out["items"]
    obl = json.loads((ctx.gen_dir / "obligations.json").read_text())
    lem = []
    for o in obl:
        # the boolean obligation and its universal corollary
        lem.append((o["name"], o["stmt"], "vm_compute. reflexivity."))
    failed = ctx.coq_obligations("rules", HEADER, lem, chunk=25, timeout=1500, par=16)
    # universal corollaries: one cheap file applying the soundness theorem is generated per chunk in thorough tier
    by_name = {o["name"]: o for o in obl}
    status = {}
    for it in items:
        status[(it["label"], it["rule"])] = it
    # 1. failed obligations -> search for a concrete failing input
    for name, detail in failed:
        o = by_name.get(name.replace("_file", ""), None)
        if o is None:
            ctx.broken_obligation("coq", name, detail)
            continue
        it = status[(o["label"], o["rule"])]
        wit = it.get("numeric_fail") or None
        if not wit:
            r = ctx.run_impl("c10_search.py", {"label": o["label"], "rule": o["rule"], "tier": ctx.tier, "seed": ctx.seed})
            wit = r.get("witness")
        key = f"rule:{o['label']}:{o['rule']}"
        if wit:
            ctx.violation(key, {"operator": o["label"], "rule": o["rule"], "witness": wit, "obligation": name},
                          what=f"decomposition rule {o['rule']} of {o['label']} does not reproduce the operator matrix")
        else:
            ctx.violation(key, {"operator": o["label"], "rule": o["rule"], "obligation": name,
                                "no_longer_checks": f"generated lemma {name} (cols_ok ... = true)", "coq": detail[-800:]},
                          found_input=False, what=f"obligation for rule {o['rule']} of {o['label']} no longer checks")
    # 2. numeric failures on rules without (passing) obligation
    for it in items:
        if it.get("numeric_fail"):
            key = f"rule:{it['label']}:{it['rule']}"
            ctx.violation(key, {"operator": it["label"], "rule": it["rule"], "witness": it["numeric_fail"]},
                          what=f"decomposition rule {it['rule']} of {it['label']} does not reproduce the operator matrix (numeric)")
    # 3. tie: items extractable on the reference tree must still be extractable
    base = load_baseline("expected_extractable_c10.json")
    hist = {}
    for it in items:
        hist[it["status"]] = hist.get(it["status"], 0) + 1
    lost = []
    if base is not None:
        for (label, rule) in sorted(base):
            it = status.get((label, rule))
            if it is not None and it["status"] not in ("ok",):
                lost.append((label, rule, it["status"], it.get("detail", "")))
        for label, rule, st, det in lost:
            r = ctx.run_impl("c10_search.py", {"label": label, "rule": rule, "tier": ctx.tier, "seed": ctx.seed})
            key = f"rule:{label}:{rule}"
            if r.get("witness"):
                ctx.violation(key, {"operator": label, "rule": rule, "witness": r["witness"]},
                              what=f"rule {rule} of {label} fails numerically")
            else:
                ctx.violation("tie:" + key, {"operator": label, "rule": rule, "translator_status": st, "detail": det,
                                             "no_longer_checks": "symbolic extraction (tie X) of this rule"},
                              found_input=False, what=f"rule {rule} of {label} can no longer be extracted symbolically ({st})")
    ok_items = [it for it in items if it["status"] == "ok"]
    if os.environ.get("VERIF_WRITE_BASELINE") and not failed:
        cur = base or set()
        cur |= {(i["label"], i["rule"]) for i in ok_items}
        (VERIF / "harness" / "expected_extractable_c10.json").write_text(json.dumps(sorted(cur), indent=0))
    ctx.coverage.update({
        "evaluations": len(items), "distinct_nontrivial": len({(i["label"], i["rule"]) for i in ok_items if i.get("n_gates", 0) >= 1}),
        "rule": "catalogue of operator instances x applicable registered rules; non-trivial = extracted rule emitting >=1 gate; every obligation is universal in the real parameters",
        "translator_status": hist, "generated_obligations": len(obl), "failed_obligations": len(failed),
        "not_extractable": [(i["label"], i["rule"], i["detail"][:100]) for i in items if i["status"] in ("notex", "error", "construct-failed")][:40],
        "numeric_points_per_rule": (2 if ctx.tier == "quick" else 12) + 2,
        "extraction_wall_s": out["wall"],
    })
    for it in ok_items[:3]:
        ctx.sample({"operator": it["label"], "rule": it["rule"], "wires": it["n_wires"], "gates": it["n_gates"], "ring": it["cfg"]})
