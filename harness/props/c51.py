"""C51 Pauli algebra agrees with matrix algebra."""
from fractions import Fraction

from vlib import *

PID = "C51"
META = {
    "level": "proof",
    "technique": "Coq proofs (induction over words / sentences / wire orders, Kronecker mixed-product lemma) about a Gallina "
                 "model of PauliWord/PauliSentence with exact Gaussian-integer matrix semantics + vm_compute correspondence "
                 "against the real classes, with the multiplication table exported from the running module",
    "design_ref": "DESIGN.md §3 C51",
    "text": "17 kernel-checked theorems (Props/C51.v), all universally quantified: the 16 single-qubit products agree with "
            "2x2 matrix products (table_ok, exhaustive); the Kronecker mixed-product lemma for full words of any length "
            "(full_word_mul_hom); PauliWord._matmul (dict merge incl. the base/iterator swap and the dropped-identity quirk) is "
            "the wire-wise product with phases multiplied and mat(w1@w2) = mat(w1) mat(w2) for all words, all n and every "
            "duplicate-free wire order containing the wires (word_mul_algebraic, word_mul_hom); +, -, scalar * and @ of "
            "sentences at the coefficient level (add_coeff, add_comm_assoc, scalar_laws, sentence_mul_is_bilinear_extension, "
            "sentence_mul_distributes) and as matrix homomorphisms (sentence_add_scalar_mat_hom, sentence_mul_mat_hom, all n); "
            "commutes_with = parity of the wires where both words act with different letters, and that parity decides whether "
            "b@a = +a@b or -a@b (commutes_iff_even_overlap, commutes_decides_products, word_commutator_is_ab_minus_ba); matrix "
            "trace = 2^n * identity coefficient = 2^n * trace() (trace_is_identity_coeff, trace_method_is_identity_coeff); "
            "constructed words are canonical.  Tie: the multiplication/anticommutation tables, mat_map and the cached sparse "
            "letter data are exported from the running module each run and compared with the model inside Coq; the model's "
            "executable definitions are evaluated by vm_compute on the same random sentences as the real PauliWord/"
            "PauliSentence (@, +, +=, -, scalar *, commutator with word/sentence/operator operands, trace, commutes_with, "
            "to_mat dense/csr with 6 buffer sizes/coo, default wire order, operation() matrices, PauliWord.to_mat, "
            "pauli_decompose dense and scipy-sparse on random matrices, pauli_sentence/_pauli_sentence round trips) and compared "
            "exactly; numpy identities mat(a op b) = mat(a) op mat(b), trace, dot and all round trips are also evaluated "
            "directly on the implementation's output.",
    "note": "Coefficients are Gaussian DYADIC rationals represented as Gaussian integers over a power-of-two denominator "
            "tracked by the harness (floats are exact on that domain), not arbitrary Gaussian rationals / floats with "
            "rounding; the theorems are stated over the ring Z[i].  Sentences are compared as finite maps word -> "
            "coefficient: a key with coefficient 0 equals an absent key and dict insertion order is not compared.  Not "
            "proved (tied by correspondence and round trips only): the lifting of PauliSentence.commutator to a@b - b@a "
            "(only the word-level statement is proved), decompose_roundtrip / wire_order_perm of DESIGN, pauli_decompose "
            "(no Coq model of the Walsh-Hadamard routines), operation(), and the CSR internals (_get_csr_data/_get_csr_indices, "
            "same-structure batching, buffer flushing): the model's to_mat is the mathematical definition (sum of Kronecker "
            "products).  Observation (DESIGN §5 item 14, reproduced): qp.pauli_decompose(np.zeros((2,2)), pauli=True) raises "
            "ValueError('need at least one array to stack') while the scipy-sparse path returns the empty sentence; the "
            "all-zero matrix is therefore not generated for the decomposition round trip.  Wire labels are mapped to integer "
            "codes by the harness; interface tensors (torch/jax/autograd coefficients), batched coefficients and "
            "PauliSentence.dot beyond one exact vector per case are outside the model.",
    "assumptions": ["coefficients are exact dyadic Gaussian rationals (no floating-point rounding in the operations exercised)",
                    "wire orders are duplicate free",
                    "ML-interface coefficients (torch/jax/tf, batched) are outside the model"],
    "trusted": ["hand-written model coq/Disc/PauliAlgModel.v tied to /repo by correspondence (table exported each run)",
                "numpy/scipy dense-sparse conversions used to read matrices back"],
}

LABELS = [0, 1, 2, 3, "a", "b", "aux", -1, 7, "q0"]
D = 8
P1 = {"I": "PI", "X": "PX", "Y": "PY", "Z": "PZ"}


# ------------------------------------------------------------------ Gallina printers
def g_c(c):
    return f"({gz(c[0])}, {gz(c[1])})"


def g_word(w):
    return glist(w, lambda e: f"({gz(e[0])}, {P1[e[1]]})")


def g_sent(s):
    return glist(s, lambda e: f"({g_word(e[0])}, {g_c(e[1])})")


def g_mat(m):
    return glist(m, lambda row: glist(row, g_c))


# ------------------------------------------------------------------ exact conversions
class Inexact(Exception):
    pass


def to_int(x, scale):
    f = Fraction(x) * scale
    if f.denominator != 1:
        raise Inexact(f"{x!r} * {scale}")
    return int(f)


def sent_ints(s, scale):
    return [[w, [to_int(c[0], scale), to_int(c[1], scale)]] for w, c in s]


def mat_ints(m, scale):
    n = m["n"]
    return [[[to_int(m["re"][r * n + c], scale), to_int(m["im"][r * n + c], scale)] for c in range(n)] for r in range(n)]


def canon_word(w):
    return tuple(sorted((i, p) for i, p in w if p != "I"))


def smap(s):
    """finite map word -> coefficient, zero coefficients dropped"""
    d = {}
    for w, c in s:
        k = canon_word(w)
        v = d.get(k, (0, 0))
        d[k] = (v[0] + c[0], v[1] + c[1])
    return {k: v for k, v in d.items() if v != (0, 0)}


# ------------------------------------------------------------------ generators
def gen_word(rng, wires, p_id=0.12, dense=False):
    w = []
    ws = list(wires)
    rng.shuffle(ws)
    for i in ws:
        r = rng.random()
        if not dense and r < 0.35:
            continue
        w.append([i, "I" if rng.random() < p_id else rng.choice("XYZ")])
    return w


def variant(rng, w, wires):
    """same sparsity structure (I<->Z, X<->Y) with high probability: exercises the CSR batching"""
    d = dict((i, p) for i, p in w)
    out = []
    for i in wires:
        p = d.get(i, "I")
        if rng.random() < 0.6:
            p = {"I": "Z", "Z": "I", "X": "Y", "Y": "X"}[p]
        if p != "I" or rng.random() < 0.1:
            out.append([i, p])
    rng.shuffle(out)
    return out


def gen_coef(rng, real=False):
    r = rng.random()
    if r < 0.05:
        return [0, 0]
    if r < 0.15:
        return [D, 0]
    p = rng.choice([-16, -12, -8, -5, -4, -3, -2, -1, 1, 2, 3, 4, 5, 8, 12, 16, rng.randint(-24, 24)])
    if real or rng.random() < 0.4:
        return [p, 0]
    return [p, rng.choice([-8, -4, -3, -1, 1, 2, 4, 6, 8, rng.randint(-16, 16)])]


def gen_sent(rng, wires, maxterms=5, real=False, allow_empty=True):
    n = rng.choice([0, 1, 1, 2, 2, 3, 3, 4, maxterms]) if allow_empty else rng.choice([1, 1, 2, 3, 4, maxterms])
    s, seen = [], set()
    for _ in range(n):
        r = rng.random()
        if s and r < 0.45:
            w = variant(rng, rng.choice(s)[0], wires)
        elif r < 0.55:
            w = []
        else:
            w = gen_word(rng, wires)
        k = canon_word(w)
        if k in seen:
            continue
        seen.add(k)
        s.append([w, gen_coef(rng, real)])
    return s


def word_as_sent(w):
    return [[w, [D, 0]]]


def pick_wires(rng, lo=1, hi=5):
    k = rng.randint(lo, hi)
    return sorted(rng.sample(range(len(LABELS)), k))


def gen_sent_case(rng):
    wires = pick_wires(rng)
    op = rng.choice(["add", "add", "iadd", "sub", "matmul", "matmul", "matmul", "smul", "comm", "comm", "commws",
                     "commww", "commop"])
    c = {"kind": "sent", "op": op, "worder": wires}
    if op == "commww":
        c["a"] = word_as_sent(gen_word(rng, wires, dense=rng.random() < 0.6))
        c["b"] = word_as_sent(gen_word(rng, wires, dense=rng.random() < 0.6))
        return c
    if op == "smul":
        c["a"] = gen_sent(rng, wires)
        c["c"] = gen_coef(rng)
        c["style"] = rng.randint(0, 5)
        c["left"] = rng.random() < 0.5
        if rng.random() < 0.2:
            c["a"] = word_as_sent(gen_word(rng, wires)); c["a_word"] = True
        return c
    c["a"] = gen_sent(rng, wires)
    c["b"] = gen_sent(rng, wires)
    if op == "commws" or (op != "iadd" and rng.random() < 0.25):
        c["a"] = word_as_sent(gen_word(rng, wires, dense=rng.random() < 0.5)); c["a_word"] = True
    if op not in ("commws",) and rng.random() < 0.25:
        c["b"] = word_as_sent(gen_word(rng, wires, dense=rng.random() < 0.5)); c["b_word"] = True
    if op == "commws" and rng.random() < 0.1:
        c["b"] = gen_sent(rng, wires, maxterms=6)
    return c


def gen_mat_case(rng, maxn):
    n = rng.choice([1, 2, 2, 3, 3, maxn])
    order = rng.sample(range(len(LABELS)), n)
    used = order if rng.random() < 0.5 else order[: max(1, n - rng.randint(0, 1))]
    herm = rng.random() < 0.35
    c = {"kind": "mat", "order": order, "a": gen_sent(rng, used, maxterms=7, real=herm), "herm": herm,
         "style": rng.choice([0, 0, 1, 4]) if True else 0}
    size = 2 ** n
    c["buffers"] = [None, 1, 24 * size, 24 * size * 2, 24 * size * 3 + 5, rng.randint(1, 24 * size * 5)]
    if rng.random() < 0.08 and n >= 2 and c["a"]:
        # malformed: drop from the order a wire that some word really uses
        usedw = sorted({i for w, _ in c["a"] for i, p in w if p != "I"})
        if usedw:
            drop = rng.choice(usedw)
            c["order"] = [i for i in order if i != drop]
            c["bad_order"] = True
    return c


def gen_decomp_case(rng, maxn):
    n = rng.choice([1, 1, 2, 2, maxn])
    size = 2 ** n
    order = rng.sample(range(len(LABELS)), n)
    sparse = rng.random() < 0.5
    re, im = [], []
    for _ in range(size * size):
        if sparse and rng.random() < 0.7:
            re.append(0); im.append(0)
        else:
            re.append(rng.randint(-16, 16)); im.append(rng.choice([0, 0, rng.randint(-16, 16)]))
    if not any(re) and not any(im):
        re[rng.randrange(size * size)] = 3
    return {"kind": "decomp", "order": order, "re": re, "im": im}


CORPUS = [
    {"kind": "table"},
    {"kind": "sent", "op": "matmul", "worder": [0, 1, 2], "a": word_as_sent([[0, "X"], [1, "Y"]]), "a_word": True,
     "b": word_as_sent([[1, "X"], [2, "Z"]]), "b_word": True},
    {"kind": "sent", "op": "matmul", "worder": [0, 4], "a": [[[[0, "X"]], [4, 4]], [[], [8, 0]]], "b": [[[[0, "Y"], [4, "Z"]], [-4, 0]], [[[0, "X"]], [0, 8]]]},
    {"kind": "sent", "op": "add", "worder": [0], "a": [[[[0, "X"]], [8, 0]]], "b": [[[[0, "X"]], [-8, 0]]]},
    {"kind": "sent", "op": "comm", "worder": [0, 1], "a": [[[[0, "X"], [1, "X"]], [8, 0]]], "b": [[[[0, "Y"]], [8, 0]], [[[1, "Y"]], [8, 0]]]},
    {"kind": "sent", "op": "commww", "worder": [0], "a": word_as_sent([[0, "X"]]), "b": word_as_sent([[0, "Y"]])},
    {"kind": "sent", "op": "commww", "worder": [0, 1], "a": word_as_sent([[0, "X"], [1, "Z"]]), "b": word_as_sent([[0, "Y"], [1, "X"]])},
    {"kind": "commutes", "a": [[0, "X"], [1, "Z"]], "b": [[0, "Y"], [1, "X"]]},
    {"kind": "commutes", "a": [], "b": [[0, "Y"]]},
    {"kind": "trace", "worder": [0, 1], "a": [[[[0, "I"], [1, "I"]], [4, 0]], [[[0, "Z"]], [3, 1]]]},
    {"kind": "mat", "order": [2, 4, 0], "a": [[[[0, "X"], [4, "Y"]], [4, 2]], [[[4, "X"], [2, "Z"]], [-12, 0]], [[], [8, 0]]],
     "buffers": [None, 1, 192, 384, 500], "herm": False, "style": 0},
    {"kind": "mat", "order": [0, 1], "a": [], "buffers": [None, 1], "herm": False, "style": 0},
    {"kind": "mat", "order": [0, 1], "a": [[[], [8, 0]]], "buffers": [None, 1], "herm": True, "style": 1},
    {"kind": "mat", "order": [1], "a": [[[[0, "X"]], [8, 0]]], "buffers": [None], "herm": True, "style": 0, "bad_order": True},
    {"kind": "decomp", "order": [0, 1], "re": [-16, -16, -16, -16, -16, 0, 0, -8, -16, 0, -16, -8, -16, -8, -8, 0],
     "im": [0, 8, 0, 0, -8, 0, 0, 0, 0, 0, 0, 0, 0, 0, 0, 8]},
]

SCALE = {"add": D, "iadd": D, "sub": D, "matmul": D * D, "smul": D * D, "comm": D * D, "commws": D * D,
         "commop": D * D, "commww": 1}
GOP = {"add": "OAdd", "iadd": "OAdd", "sub": "OSub", "matmul": "OMatmul", "comm": "OComm", "commop": "OComm",
       "commws": "OCommWS"}


def run(ctx):
    ctx.coq_props()
    rng = ctx.rng
    quick = ctx.tier == "quick"
    n_sent, n_comm, n_tr, n_mat, n_dec = (260, 80, 40, 70, 40) if quick else (2500, 600, 300, 600, 300)
    maxn = 4 if quick else 5
    cases = []
    if getattr(ctx, "replay", None) and isinstance(ctx.replay.get("replay", {}).get("case"), dict):
        cases.append(ctx.replay["replay"]["case"])
    cases += [dict(c) for c in CORPUS]
    for _ in range(n_sent):
        cases.append(gen_sent_case(rng))
    for _ in range(n_comm):
        wires = pick_wires(rng, 1, 6)
        dense = rng.random() < 0.6
        cases.append({"kind": "commutes", "a": gen_word(rng, wires, dense=dense), "b": gen_word(rng, wires, dense=dense)})
    for _ in range(n_tr):
        wires = pick_wires(rng, 1, 4)
        cases.append({"kind": "trace", "worder": wires, "a": gen_sent(rng, wires)})
    for _ in range(n_mat):
        cases.append(gen_mat_case(rng, maxn))
    for _ in range(n_dec):
        cases.append(gen_decomp_case(rng, 3))

    obs = ctx.run_impl("c51_impl.py", {"labels": LABELS, "D": D, "cases": cases})

    terms, owner = [], []      # Gallina cases and the index of the harness case they belong to
    hist = {"table": 0, "sent": 0, "commutes": 0, "trace": 0, "mat": 0, "decomp": 0, "errors": 0,
            "ops": {}, "mat_variants_compared": 0, "roundtrips_compared": 0, "same_structure_batches": 0,
            "zero_coeff_results": 0, "bad_order": 0, "anticommuting_pairs": 0, "n_qubits": {}}
    distinct = set()

    def viol(kind, c, o, what):
        ctx.violation(f"{kind}:" + json.dumps(c, sort_keys=True), {"case": c, "observed": o, "labels": LABELS, "D": D}, what=what)

    def add(term, i):
        terms.append(term); owner.append(i)

    for i, (c, o) in enumerate(zip(cases, obs)):
        k = c["kind"]
        hist[k] += 1
        try:
            if k == "table":
                if not o["same"]:
                    viol("direct", c, o, "mul_map differs from _map_I/_map_X/_map_Y/_map_Z")
                t = glist(o["t"], lambda e: f"({P1[e[0]]}, {P1[e[1]]}, {gz(e[2])}, {P1[e[3]]})")
                ac = glist(o["ac"], lambda e: f"({P1[e[0]]}, {P1[e[1]]}, {gz(e[2])})")
                add(f"KTable {t} {ac}", i)
                # mat_map and the cached sparse data of each letter are compared with the model's 2x2 matrices
                for nm, src in (("mat_map", o["mats"]), ("_cached_sparse_data", o["sparse1"])):
                    for p in "IXYZ":
                        m = mat_ints(src[p], 1)
                        add(f"KMat [0%Z] [([(0%Z, {P1[p]})], (1%Z, 0%Z))] (Some {g_mat(m)})", i)
            elif k == "sent":
                hist["ops"][c["op"]] = hist["ops"].get(c["op"], 0) + 1
                if isinstance(o, str):
                    hist["errors"] += 1
                    viol("direct", c, o, "Pauli arithmetic raised on valid operands")
                    continue
                if not o["mat_ok"]:
                    viol("direct", c, o, f"matrix of {c['op']} result differs from the same operation on the matrices")
                sc = SCALE[c["op"]]
                e = sent_ints(o["s"], sc)
                if any(x[1] == [0, 0] for x in e):
                    hist["zero_coeff_results"] += 1
                if c["op"] == "commww":
                    g = f"OCommWW {g_word(c['a'][0][0])} {g_word(c['b'][0][0])}"
                    if e:
                        hist["anticommuting_pairs"] += 1
                elif c["op"] == "smul":
                    g = f"OSmul {g_c(c['c'])} {g_sent(c['a'])}"
                else:
                    g = f"{GOP[c['op']]} {g_sent(c['a'])} {g_sent(c['b'])}"
                add(f"KSent ({g}) {g_sent(e)}", i)
                if len(smap(e)) > 1:
                    distinct.add(json.dumps(c, sort_keys=True))
            elif k == "commutes":
                if isinstance(o, str):
                    hist["errors"] += 1
                    viol("direct", c, o, "commutes_with raised"); continue
                add(f"KCommutes {g_word(c['a'])} {g_word(c['b'])} {gbool(o)}", i)
                if not o:
                    hist["anticommuting_pairs"] += 1
                distinct.add(json.dumps(c, sort_keys=True))
            elif k == "trace":
                if isinstance(o, str):
                    hist["errors"] += 1
                    viol("direct", c, o, "trace raised"); continue
                if not o["mat_ok"]:
                    viol("direct", c, o, "trace() * 2^n differs from the trace of the matrix")
                add(f"KTrace {g_sent(c['a'])} {g_c([to_int(o['t'][0], D), to_int(o['t'][1], D)])}", i)
            elif k == "mat":
                n = len(c["order"])
                hist["n_qubits"][str(n)] = hist["n_qubits"].get(str(n), 0) + 1
                if isinstance(o, str):
                    hist["errors"] += 1
                    viol("direct", c, o, "matrix case raised"); continue
                order_g = glist(c["order"], gz)
                mats = {kk: v for kk, v in o.items() if kk == "dense" or kk.startswith("csr_") or kk in
                        ("coo", "op", "op_sparse", "word_dense", "word_csr")}
                if c.get("bad_order"):
                    hist["bad_order"] += 1; hist["errors"] += 1
                    if not all(isinstance(v, str) for v in mats.values()):
                        viol("direct", c, {kk: (v if isinstance(v, str) else "matrix") for kk, v in mats.items()},
                             "a wire order that misses a wire was accepted")
                    add(f"KMat {order_g} {g_sent(c['a'])} None", i)
                    continue
                dense = o["dense"]
                if isinstance(dense, str):
                    viol("direct", c, dense, "dense to_mat raised on a valid wire order"); continue
                for kk, v in mats.items():
                    hist["mat_variants_compared"] += 1
                    if v != dense:
                        viol("direct", c, {"variant": kk, "value": v, "dense": dense},
                             f"matrix form {kk} differs from the dense matrix")
                        if not isinstance(v, str):
                            add(f"KMat {order_g} {g_sent(c['a'])} (Some {g_mat(mat_ints(v, D))})", i)
                if o["dot_ok"] is not True:
                    viol("direct", c, o["dot_ok"], "PauliSentence.dot differs from matrix @ vector")
                add(f"KMat {order_g} {g_sent(c['a'])} (Some {g_mat(mat_ints(dense, D))})", i)
                # default wire order
                dd = o["dense_default"]
                if isinstance(dd, str):
                    viol("direct", c, dd, "to_mat() with the default wire order raised")
                else:
                    add(f"KMat {glist(o['default_order'], gz)} {g_sent(c['a'])} (Some {g_mat(mat_ints(dd, D))})", i)
                # round trips: operator forms and matrix decompositions give back the sentence
                want = smap(c["a"])
                structs = {}
                for w, _ in c["a"]:
                    d = dict((a, p) for a, p in w)
                    key = tuple(1 if d.get(q, "I") in "XY" else 0 for q in c["order"])
                    structs[key] = structs.get(key, 0) + 1
                if any(v > 1 for v in structs.values()) and len(structs) > 1:
                    hist["same_structure_batches"] += 1
                seen_rt = set()
                for kk in ("ps_op", "ps_rec", "ps_fresh", "dec_dense", "dec_sparse", "dec_hide", "dec_herm", "dec_herm_sparse"):
                    if kk not in o:
                        continue
                    v = o[kk]
                    hist["roundtrips_compared"] += 1
                    if isinstance(v, str):
                        viol("direct", c, {kk: v}, f"round trip {kk} raised"); continue
                    e = sent_ints(v, D)
                    if smap(e) != want:
                        viol("direct", c, {kk: v}, f"round trip {kk} does not give back the sentence")
                    key = json.dumps(e, sort_keys=True)
                    if key not in seen_rt:
                        seen_rt.add(key)
                        add(f"KSent (OId {g_sent(c['a'])}) {g_sent(e)}", i)
                if len(want) > 1:
                    distinct.add(json.dumps(c, sort_keys=True))
            elif k == "decomp":
                if isinstance(o, str) or isinstance(o["dense"], str) or isinstance(o["sparse"], str):
                    hist["errors"] += 1
                    viol("direct", c, o, "pauli_decompose raised on a non-zero 2^n x 2^n matrix"); continue
                n = len(c["order"]); size = 2 ** n
                M = [[[c["re"][r * size + q] * size, c["im"][r * size + q] * size] for q in range(size)] for r in range(size)]
                if o["back_ok"] is not True:
                    viol("direct", c, o, "to_mat(pauli_decompose(M)) differs from M")
                ed, es = sent_ints(o["dense"], D * size), sent_ints(o["sparse"], D * size)
                if smap(ed) != smap(es):
                    viol("direct", c, o, "dense and sparse pauli_decompose disagree")
                add(f"KMat {glist(c['order'], gz)} {g_sent(ed)} (Some {g_mat(M)})", i)
                if smap(ed) != smap(es):
                    add(f"KMat {glist(c['order'], gz)} {g_sent(es)} (Some {g_mat(M)})", i)
                distinct.add(json.dumps(c, sort_keys=True))
        except Inexact as ex:
            viol("direct", c, str(ex), "result is not the exact dyadic value (rounding or wrong coefficient)")

    bad = ctx.coq_eval_cases("cases", "From PLV Require Import Disc.PauliAlgModel.", terms, "check_case", chunk=120)
    for j in bad:
        i = owner[j]
        viol("corr", cases[i], {"implementation": obs[i], "gallina_case": terms[j][:4000]},
             "implementation differs from the proved model of the Pauli algebra")
    ctx.coverage.update({
        "evaluations": len(terms), "distinct_nontrivial": len(distinct),
        "rule": "seeded generator over 10 mixed int/str wire labels: random words (explicit I entries, shuffled dict order), "
                "sentences of 0-7 terms with Gaussian dyadic coefficients k/8 (zero and unit coefficients included; 45% of "
                "terms are same-sparsity variants of an earlier term), all scalar types; ops add/iadd/sub/matmul/smul/"
                "commutator (sentence/word/operator operands); matrices on 1-4 (thorough 5) wires in random wire orders "
                "(superset of the wires), dense/csr (6 buffer sizes)/coo/operator/word forms, default order, 8% malformed "
                "orders; random non-zero matrices for pauli_decompose (dense and scipy sparse); non-trivial = result with "
                ">1 non-zero term / any commutes pair / any decomposed matrix",
        "input_distribution": hist})
    for c, o in list(zip(cases, obs))[1:4]:
        ctx.sample({"case": c, "observed": o if not isinstance(o, dict) else {kk: o[kk] for kk in list(o)[:2]}})
