"""C43 Tape-mode control flow equals plain Python control flow."""
from vlib import *

PID = "C43"
META = {
    "level": "proof",
    "technique": "Coq proofs (induction over range lists / fuel / mutual induction over programs) on a Gallina transcription of ForLoopCallable/WhileLoopCallable/CondCallable tape-mode paths + vm_compute correspondence of recorded operation lists against the real qp.for_loop/qp.while_loop/qp.cond and against plain Python loops",
    "design_ref": "DESIGN.md §3 C43",
    "text": "Kernel-checked theorems (Props/C43.v): Python range is characterised for positive and negative steps (length = max(0, ceil((stop-start)/step)), k-th element start+k*step, exactly the indices before stop); for every body function of the right shape the modelled qp.for_loop records the same operations and returns the same carried values as the plain `for i in range(...)` fold (all call signatures, 0/1/many carried values), qp.while_loop equals the plain while for every fuel and its result does not depend on the fuel once it suffices, qp.cond runs exactly the first branch whose predicate is true (else the otherwise branch, else nothing); lifted by mutual induction to ALL well-shaped nested programs of a small language (for/while/cond/op, arbitrary nesting): model execution = plain-Python reference execution. Tie: seeded random programs (random bounds/steps incl. negative, empty ranges, step 0, random predicates, for-in-for, cond-in-for, while) are executed with the real qp.for_loop/qp.while_loop/qp.cond inside an AnnotatedQueue; the queued ops (integer-valued parameters) and returned carried values are compared with the model evaluated inside Coq (vm_compute) and, for well-shaped programs, with a plain Python for/while/if interpretation (direct oracle).",
    "note": "Trusted: Coq kernel; hand transcription of the three _call_capture_disabled paths and of CPython's range (compute_range_length + counter) tied to /repo only by the correspondence run. Only capture-disabled, no active qjit compiler. Values are Python ints (carried values, bounds, op parameters); body functions are those expressible in the small program language (arithmetic on ints, ops with one integer-valued parameter). Predicates of qp.cond are plain bools evaluated eagerly (pure, so eager = lazy). A single carried value that is not an int, kwargs of cond branches, and operator-valued arguments of qp.cond (dequeuing) are not modelled. The clause 'qp.cond on measurement values = deferring the measurement' is NOT proved here (it belongs to the deferred-measurement machinery of C21); it is covered only by a small direct differential test: analytic probs (default.qubit) of a qnode using qp.cond on a mid-circuit measurement -- executed both with the default mid-circuit-measurement treatment and with mcm_method='tree-traversal' (real branching on the outcome) -- vs the hand-deferred circuit built from controlled operations agree to 1e-9 on random angles (3 circuit shapes: true+false qfuncs, m==0 predicate, operator types as branches).",
    "assumptions": ["program capture disabled and no active compiler (tape mode)",
                    "loop bounds, steps, carried values are Python ints; body functions record ops and return ints/tuples of ints/None",
                    "while-loop model is fuelled; the driver enforces the same iteration cap",
                    "MCM clause only differential-tested (default.qubit analytic, 1e-9), not proved"],
    "trusted": ["hand-written model coq/Disc/ControlFlowModel.v tied to /repo by correspondence only",
                "CPython builtin range modelled by its length formula + counter iteration (checked against the real range through the correspondence and the direct oracle)",
                "driver harness/impl/c43_impl.py (interpreter of the small program language on top of the real qp.* calls; markers for returned values)"],
}

CAP = 40          # while-loop iteration cap (= model fuel)
MAXTRACE = 350    # programs recording more ops than this are dropped (size control for Coq)


# ------------------------------------------------------------------ generator
class G:
    def __init__(self, rng, mal):
        self.rng = rng
        self.mal = mal            # inject one malformation somewhere
        self.used_mal = False

    def const(self):
        return self.rng.choice([0, 1, 1, 2, 2, 3, 4, 5, -1, -2, -3])

    def var(self, nv):
        return ["v", self.rng.randrange(nv)]

    def expr(self, nv, depth=2):
        """small integer expression; multiplication only by constants (bounded growth)"""
        rng = self.rng
        r = rng.random()
        if depth == 0 or r < 0.25:
            return self.var(nv) if nv and rng.random() < 0.7 else self.const()
        if r < 0.5:
            return [rng.choice("+-"), self.expr(nv, depth - 1), self.expr(nv, depth - 1)]
        if r < 0.65:
            return ["*", self.expr(nv, depth - 1), rng.choice([2, 3, -1, -2])]
        if r < 0.8:
            return ["%", self.expr(nv, depth - 1), rng.choice([2, 3, 5])]
        return self.var(nv) if nv else self.const()

    def bound(self, nv):
        """loop bound: small, never proportional to carried values"""
        rng = self.rng
        r = rng.random()
        if nv == 0 or r < 0.6:
            return rng.choice([0, 0, 1, 2, 3, 4, 5, 6, 7, 8, -1, -2, -3, -4, -6])
        if r < 0.85:
            return ["+", ["%", self.var(nv), rng.choice([3, 4, 5])], rng.choice([-2, 0, 1, 2])]
        return ["-", rng.choice([0, 1, 3]), ["%", self.var(nv), rng.choice([3, 4])]]

    def step(self, nv):
        rng = self.rng
        r = rng.random()
        if r < 0.04:
            return 0
        if r < 0.9 or nv == 0:
            return rng.choice([1, 1, 2, 2, 3, 4, -1, -1, -2, -2, -3, -5])
        return ["-", ["%", self.var(nv), 3], 1]          # in {-1, 0, 1}

    def pred(self, nv, depth=2):
        rng = self.rng
        r = rng.random()
        if depth == 0 or r < 0.5:
            k = rng.random()
            if k < 0.08:
                return ["T"]
            if k < 0.16:
                return ["F"]
            if k < 0.6:
                return ["<", self.expr(nv, 1), self.expr(nv, 1)]
            return ["==", ["%", self.expr(nv, 1), rng.choice([2, 3])], rng.choice([0, 1])]
        if r < 0.65:
            return ["not", self.pred(nv, depth - 1)]
        return [rng.choice(["and", "or"]), self.pred(nv, depth - 1), self.pred(nv, depth - 1)]

    def update(self, nv, idx, ivar):
        """new value of the carried variable at env index idx: additive / permuting / reduced mod m"""
        rng = self.rng
        r = rng.random()
        v = ["v", idx]
        if r < 0.3:
            return ["+", v, rng.choice([1, 2, 3, -1])]
        if r < 0.55 and ivar is not None:
            return [rng.choice("+-"), v, ["v", ivar]]
        if r < 0.7:
            return ["%", ["+", ["*", v, rng.choice([2, 3])], self.expr(nv, 1)], rng.choice([7, 11, 97])]
        if r < 0.8 and ivar is not None:
            return ["v", ivar]
        if r < 0.9:
            return v
        return ["+", v, ["%", self.expr(nv, 1), 3]]

    def ret_for(self, n, nv, pushed, first_carried, ivar):
        """return spec of a loop body: env index of carried k is pushed + first_carried + k"""
        rng = self.rng
        idxs = [pushed + first_carried + k for k in range(n)]
        if n > 1 and rng.random() < 0.3:
            rng.shuffle(idxs)                                # permute carried values
        ups = [self.update(nv, ix, ivar) for ix in idxs]
        if pushed and n and rng.random() < 0.5:              # feed an inner result back
            ups[rng.randrange(n)] = ["+", ["v", idxs[0]], ["%", ["v", rng.randrange(pushed)], 5]]
        if self.mal and not self.used_mal and rng.random() < 0.5 and n != 1:
            self.used_mal = True
            if n == 0:
                return rng.choice([["s", 0], ["s", rng.choice([1, -2, ["v", 0]]) if nv else 3], ["t", []],
                                   ["t", [1]], ["s", ["%", ["v", 0], 2]] if nv else ["s", 1]])
            k = rng.random()
            if k < 0.3:
                return ["t", ups[:-1]]
            if k < 0.55:
                return ["t", ups + [1]]
            if k < 0.7:
                return ["t", []]
            if k < 0.85:
                return ["s", ups[0]]
            return ["none"]
        if n == 0:
            return ["none"]
        if n == 1:
            return ["s", ups[0]]
        return ["t", ups]

    def block(self, nv, depth, in_for):
        """returns (block, number of variables pushed)"""
        rng = self.rng
        stmts, pushed = [], 0
        for _ in range(rng.choice([1, 1, 2, 2, 3])):
            s, k = self.stmt(nv + pushed, depth, in_for)
            stmts.append(s)
            pushed += k
        return stmts, pushed

    def stmt(self, nv, depth, in_for):
        rng = self.rng
        r = rng.random()
        p_loop = [0.7, 0.4, 0.12, 0.0][min(depth, 3)]
        if r < p_loop * 0.62:
            return self.for_stmt(nv, depth)
        if r < p_loop:
            return self.while_stmt(nv, depth)
        if r < p_loop + 0.25 and depth < 4:
            return self.cond_stmt(nv, depth)
        return ["op", rng.randrange(9), self.expr(nv, 2)], 0

    def for_stmt(self, nv, depth):
        rng = self.rng
        n = rng.choice([0, 0, 1, 1, 2, 2, 3])
        inits = [self.expr(nv, 1) for _ in range(n)]
        k = rng.random()
        if k < 0.25:
            b = self.bound(nv)
            sig = ["1", b if rng.random() < 0.85 else rng.choice([0, -2])]
        elif k < 0.35:
            sig = ["1s", self.bound(nv), self.step(nv)]
        elif k < 0.6:
            sig = ["2", self.bound(nv), self.bound(nv) if rng.random() < 0.8 else 0]
        else:
            sig = ["3", self.bound(nv), self.bound(nv), self.step(nv)]
        if self.mal and not self.used_mal and rng.random() < 0.3:
            self.used_mal = True
            sig = ["3", self.bound(nv), self.bound(nv), 0] if rng.random() < 0.7 else ["1s", self.bound(nv), 0]
        nvb = nv + n + 1
        body, pushed = self.block(nvb, depth + 1, True)
        body.insert(0, ["op", rng.randrange(9), ["v", 0]])      # records the loop index itself
        if rng.random() < 0.3:                                  # ... and index (+ first carried) at the end
            body.append(["op", rng.randrange(9), ["+", ["v", pushed], ["v", pushed + 1]] if n else ["v", pushed]])
        rt = self.ret_for(n, nvb + pushed, pushed, 1, pushed)
        return ["for", sig, inits, body, rt], n

    def while_stmt(self, nv, depth):
        rng = self.rng
        n = rng.choice([1, 1, 2, 3]) if rng.random() < 0.93 else 0
        if n == 0:
            c = ["F"] if rng.random() < 0.8 else self.pred(nv, 1)
            body, pushed = self.block(nv, depth + 1, False)
            rt = self.ret_for(0, nv + pushed, pushed, 0, None)
            return ["while", c, [], body, rt], 0
        up = rng.random() < 0.6
        init0 = rng.choice([0, 0, 1, -2, 3]) if rng.random() < 0.8 else ["%", self.expr(nv, 1), 4]
        lim = rng.choice([0, 2, 3, 4, 6]) if up else rng.choice([-5, -3, -1, 0, 2])
        if not up and isinstance(init0, int):
            init0 = init0 + rng.choice([0, 2, 4])
        inits = [init0] + [self.expr(nv, 1) for _ in range(n - 1)]
        c = ["<", ["v", 0], lim] if up else ["<", lim, ["v", 0]]
        if rng.random() < 0.3:
            c = ["and", c, self.pred(nv + n, 1)]
        nvb = nv + n
        body, pushed = self.block(nvb, depth + 1, False)
        if rng.random() < 0.7:
            body.insert(0, ["op", rng.randrange(9), ["v", 0]])
        rt = self.ret_for(n, nvb + pushed, pushed, 0, None)
        d = rng.choice([1, 1, 2, 3])
        prog0 = ["+", ["v", pushed], d] if up else ["-", ["v", pushed], d]
        if rt[0] == "s" and n == 1:
            rt = ["s", prog0]
        elif rt[0] == "t" and len(rt[1]) >= 1 and n > 1:
            rt[1][0] = prog0
        return ["while", c, inits, body, rt], n

    def cond_stmt(self, nv, depth):
        rng = self.rng
        nargs = rng.choice([0, 0, 1, 2])
        args = [self.expr(nv, 1) for _ in range(nargs)]
        nb = rng.choice([1, 1, 2, 2, 3, 4])
        brs = []
        for _ in range(nb):
            b, pushed = self.block(nv + nargs, depth + 1, False)
            rt = ["none"] if rng.random() < 0.4 else ["s", self.expr(nv + nargs + pushed, 1)]
            brs.append([self.pred(nv, 2), b, rt])
        els = None
        if rng.random() < 0.55:
            b, pushed = self.block(nv + nargs, depth + 1, False)
            els = [b, ["none"] if rng.random() < 0.4 else ["s", self.expr(nv + nargs + pushed, 1)]]
        return ["cond", rng.choice([0, 0, 1, 2]), args, brs, els], 1


def npush(s):
    return len(s[2]) if s[0] in ("for", "while") else 1 if s[0] == "cond" else 0


def gen_program(rng, mal):
    g = G(rng, mal)
    stmts, _ = g.block(0, 0, False)
    return stmts


# ------------------------------------------------------------------ structure helpers
def wf_ret(n, rt):
    return (n == 0 and rt[0] == "none") or (n == 1 and rt[0] == "s") or (n > 1 and rt[0] == "t" and len(rt[1]) == n)


def wf_block(b):
    return all(wf_stmt(s) for s in b)


def wf_stmt(s):
    if s[0] == "op":
        return True
    if s[0] in ("for", "while"):
        return wf_ret(len(s[2]), s[4]) and wf_block(s[3])
    return all(wf_block(b) for _, b, _ in s[3]) and (s[4] is None or wf_block(s[4][0]))


def features(b, depth=0, ctx=(), acc=None):
    acc = acc if acc is not None else set()
    for s in b:
        if s[0] in ("for", "while"):
            acc.add(s[0])
            if ctx and ctx[-1] == "for" and s[0] == "for":
                acc.add("for_in_for")
            if ctx:
                acc.add("loop_nested")
            features(s[3], depth + 1, ctx + (s[0],), acc)
        elif s[0] == "cond":
            acc.add("cond")
            if "for" in ctx:
                acc.add("cond_in_for")
            if "while" in ctx:
                acc.add("cond_in_while")
            if len(s[3]) > 1:
                acc.add("elif")
            for _, bb, _ in s[3]:
                features(bb, depth + 1, ctx + ("cond",), acc)
            if s[4] is not None:
                acc.add("else")
                features(s[4][0], depth + 1, ctx + ("cond",), acc)
            if ctx and ctx[-1] == "cond":
                acc.add("cond_in_cond")
        elif ctx and ctx[-1] == "cond" and ("for" in ctx or "while" in ctx):
            acc.add("op_in_cond_in_loop")
    return acc


# ------------------------------------------------------------------ Gallina printers
def g_expr(e):
    if isinstance(e, int):
        return f"(EConst {gz(e)})"
    t = e[0]
    if t == "v":
        return f"(EVar {gnat(e[1])})"
    if t == "%":
        return f"(EMod {g_expr(e[1])} {gz(e[2])})"
    return f"({ {'+': 'EAdd', '-': 'ESub', '*': 'EMul'}[t]} {g_expr(e[1])} {g_expr(e[2])})"


def g_pred(p):
    t = p[0]
    if t in ("T", "F"):
        return f"(PConst {gbool(t == 'T')})"
    if t == "<":
        return f"(PLt {g_expr(p[1])} {g_expr(p[2])})"
    if t == "==":
        return f"(PEq {g_expr(p[1])} {g_expr(p[2])})"
    if t == "not":
        return f"(PNot {g_pred(p[1])})"
    return f"({'PAnd' if t == 'and' else 'POr'} {g_pred(p[1])} {g_pred(p[2])})"


def g_ret(r):
    if r[0] == "none":
        return "RNone"
    if r[0] == "s":
        return f"(RScalar {g_expr(r[1])})"
    return f"(RTuple {glist(r[1], g_expr)})"


def g_sig(s):
    name = {"1": "Sig1", "1s": "Sig1s", "2": "Sig2", "3": "Sig3"}[s[0]]
    return f"({name} {' '.join(g_expr(e) for e in s[1:])})"


def g_block(b):
    out = "BNil"
    for s in reversed(b):
        out = f"(BCons {g_stmt(s)} {out})"
    return out


def g_stmt(s):
    if s[0] == "op":
        return f"(SOp {gz(s[1])} {g_expr(s[2])})"
    if s[0] == "for":
        return f"(SFor {g_sig(s[1])} {glist(s[2], g_expr)} {g_block(s[3])} {g_ret(s[4])})"
    if s[0] == "while":
        return f"(SWhile {g_pred(s[1])} {glist(s[2], g_expr)} {g_block(s[3])} {g_ret(s[4])})"
    brs = "CNil"
    for p, b, r in reversed(s[3]):
        brs = f"(CCons {g_pred(p)} {g_block(b)} {g_ret(r)} {brs})"
    if s[4] is None:
        return f"(SCond {glist(s[2], g_expr)} {brs} false BNil RNone)"
    return f"(SCond {glist(s[2], g_expr)} {brs} true {g_block(s[4][0])} {g_ret(s[4][1])})"


def g_obs(o):
    tr = glist(o[0], lambda p: f"({gz(p[0])}, {gz(p[1])})")
    return f"({tr}, {gz(o[1])})"


# ------------------------------------------------------------------ corpus
def corpus():
    op = lambda code, e: ["op", code, e]
    i0 = ["v", 0]
    P = []
    # every signature, carried 0 / 1 / many
    P.append([["for", ["1", 3], [], [op(0, i0)], ["none"]]])
    P.append([["for", ["2", 1, 4], [10], [op(2, i0)], ["s", ["+", ["v", 1], 1]]]])
    P.append([["for", ["3", 5, 0, -2], [1, 2], [op(0, i0)], ["t", [["+", ["v", 1], i0], ["*", ["v", 2], 2]]]]])
    P.append([["for", ["1s", 7, 3], [0], [op(1, i0)], ["s", ["+", ["v", 1], i0]]]])
    # stop = 0 / start = stop / empty and reversed ranges / negative strides that do not divide
    P.append([["for", ["2", 3, 0], [], [op(0, i0)], ["none"]]])
    P.append([["for", ["1", 0], [5], [op(0, i0)], ["s", 9]]])
    P.append([["for", ["3", 2, 2, 1], [5, 6], [op(0, i0)], ["t", [1, 2]]]])
    P.append([["for", ["3", 0, 5, -1], [], [op(0, i0)], ["none"]]])
    P.append([["for", ["3", 7, -6, -3], [], [op(0, i0)], ["none"]], ["for", ["3", -6, 7, 4], [], [op(1, i0)], ["none"]]])
    P.append([["for", ["3", 8, -1, -3], [0], [op(0, i0)], ["s", ["+", ["v", 1], i0]]]])
    P.append([["for", ["3", -5, 6, 5], [], [op(3, i0)], ["none"]], ["for", ["3", 6, -5, -5], [], [op(3, i0)], ["none"]]])
    # step 0
    P.append([op(4, 1), ["for", ["3", 0, 3, 0], [], [op(0, i0)], ["none"]]])
    # a body without carried values that returns something (falsy / truthy / empty tuple)
    P.append([["for", ["1", 3], [], [op(0, i0)], ["s", 0]]])
    P.append([["for", ["1", 3], [], [op(0, i0)], ["s", ["-", i0, 1]]]])
    P.append([["for", ["1", 3], [], [op(0, i0)], ["t", []]]])
    P.append([["for", ["1", 3], [], [op(0, i0)], ["t", [0]]]])
    # wrong arity for many carried values: only detected on a later iteration
    P.append([["for", ["1", 1], [1, 2], [op(0, i0)], ["t", [1]]]])
    P.append([["for", ["1", 2], [1, 2], [op(0, i0)], ["t", [1]]]])
    P.append([["for", ["1", 2], [1, 2], [op(0, i0)], ["s", 1]]])
    P.append([["for", ["1", 1], [1, 2], [op(0, i0)], ["t", []]]])
    P.append([["for", ["1", 2], [1, 2, 3], [op(0, i0)], ["none"]]])
    # for in for (triangular), carried through both
    P.append([["for", ["1", 4], [0], [["for", ["2", 0, ["v", 0]], [["v", 1]], [op(0, ["+", ["*", ["v", 2], 3], ["v", 0]])],
                                         ["s", ["+", ["v", 1], 1]]]], ["s", ["v", 0]]], op(5, ["v", 0])])
    # cond in for: parity, elif chain, no else
    P.append([["for", ["1", 6], [], [["cond", 0, [i0], [[["==", ["%", i0, 3], 0], [op(0, ["v", 0])], ["s", 1]],
                                                         [["==", ["%", i0, 3], 1], [op(1, ["v", 0])], ["none"]]], None],
                                    op(2, ["v", 0])], ["none"]]])
    for style in (0, 1, 2):
        P.append([["cond", style, [7], [[["F"], [op(0, 1)], ["s", 1]], [["T"], [op(0, 2)], ["s", 2]]], [[op(0, 3)], ["s", 3]]]])
        P.append([["cond", style, [], [[["F"], [op(0, 1)], ["s", 1]], [["F"], [op(0, 2)], ["s", 2]]], [[op(0, 3)], ["s", 3]]]])
        P.append([["cond", style, [], [[["F"], [op(0, 1)], ["s", 1]], [["F"], [op(0, 2)], ["s", 2]]], None]])
        P.append([["cond", style, [4], [[["T"], [op(0, ["v", 0])], ["none"]], [["T"], [op(0, 2)], ["s", 2]]], [[op(0, 3)], ["s", 3]]]])
        P.append([["cond", style, [], [[["F"], [op(0, 1)], ["s", 1]], [["F"], [op(0, 2)], ["s", 2]], [["T"], [op(0, 5)], ["s", 5]],
                                       [["T"], [op(0, 6)], ["s", 6]]], None]])
    # while loops: 1 / many carried, zero iterations, nested in for, no-carried false, non-terminating (fuel)
    P.append([["while", ["<", ["v", 0], 4], [0], [op(0, ["v", 0])], ["s", ["+", ["v", 0], 1]]]])
    P.append([["while", ["<", ["v", 0], 5], [0, 10], [op(0, ["v", 1])], ["t", [["+", ["v", 0], 2], ["-", ["v", 1], ["v", 0]]]]]])
    P.append([["while", ["<", ["v", 0], 0], [3], [op(0, ["v", 0])], ["s", ["+", ["v", 0], 1]]]])
    P.append([["while", ["F"], [], [op(0, 1)], ["none"]]])
    P.append([["while", ["T"], [], [op(0, 1)], ["none"]]])
    P.append([["while", ["T"], [], [op(0, 1)], ["s", 5]]])
    P.append([["while", ["<", ["v", 0], 3], [0, 1], [op(0, ["v", 0])], ["t", [["+", ["v", 0], 1]]]]])
    P.append([["for", ["1", 3], [0], [["while", ["<", ["v", 0], ["v", 1]], [0], [op(1, ["v", 0])], ["s", ["+", ["v", 0], 1]]]],
               ["s", ["+", ["v", 2], ["v", 0]]]]])
    return P


# ------------------------------------------------------------------ run
def run(ctx):
    ctx.coq_props()
    rng = ctx.rng
    n = 420 if ctx.tier == "quick" else 4000
    progs = [(p, False) for p in corpus()]
    while len(progs) < n:
        mal = rng.random() < 0.15
        progs.append((gen_program(rng, mal), mal))
    mcm = [{"th": rng.uniform(0, 6.28), "a": rng.uniform(-3, 3), "b": rng.uniform(-3, 3), "variant": k % 3}
           for k in range(6 if ctx.tier == "quick" else 45)]
    rp = (getattr(ctx, "replay", None) or {}).get("replay")
    if rp:                                   # ./check C43 --replay file : only the recorded case
        progs = [(rp["program"], False)] if "program" in rp else []
        mcm = [rp["case"]] if "case" in rp else []
    cases = [{"prog": p, "cap": CAP, "wf": wf_block(p)} for p, _ in progs]
    res = ctx.run_impl("c43_impl.py", {"cases": cases, "mcm": mcm})
    obs_all = res["cases"]

    # --- MCM differential test (not part of the model)
    worst = 0.0
    for m, d in zip(mcm, res["mcm"]):
        if isinstance(d, str) or d > 1e-9:
            ctx.violation("mcm:" + json.dumps(m, sort_keys=True), {"case": m, "max_abs_prob_diff": d},
                          what="qp.cond on a mid-circuit measurement differs from the hand-deferred circuit")
        else:
            worst = max(worst, d)

    # --- size control, direct oracle, model comparison
    keep = [i for i, o in enumerate(obs_all) if len(o["qp"][0]) <= MAXTRACE]
    dropped = len(cases) - len(keep)
    cases = [cases[i] for i in keep]
    obs = [obs_all[i] for i in keep]
    hist = {"programs": len(cases), "dropped_too_long": dropped, "well_shaped": 0, "malformed": 0,
            "status_ok": 0, "status_err": 0, "status_fuel": 0, "ops_recorded": 0}
    feat = {}
    distinct = set()
    for c, o in zip(cases, obs):
        hist["well_shaped" if c["wf"] else "malformed"] += 1
        hist[["status_ok", "status_err", "status_fuel"][o["qp"][1]]] += 1
        hist["ops_recorded"] += len(o["qp"][0])
        fs = features(c["prog"])
        for f in fs:
            feat[f] = feat.get(f, 0) + 1
        if len(o["qp"][0]) > 1 and (fs & {"for", "while", "cond"}):
            distinct.add(json.dumps(c["prog"]))
        if c["wf"] and o["py"] != o["qp"]:
            ctx.violation("direct:" + json.dumps(c["prog"]), {"program": c["prog"], "cap": c["cap"],
                          "qp_control_flow": o["qp"], "plain_python": o["py"]},
                          what="ops recorded / values returned by qp.for_loop/while_loop/cond differ from the plain Python loops")
    terms = [f"(({g_block(c['prog'])}, {gnat(c['cap'])}), {g_obs(o['qp'])})" for c, o in zip(cases, obs)]
    bad = ctx.coq_eval_cases("cases", "From PLV Require Import Disc.ControlFlowModel.", terms, "check_case", chunk=60)
    for i in bad:
        c, o = cases[i], obs[i]
        ctx.violation("corr:" + json.dumps(c["prog"]), {"program": c["prog"], "cap": c["cap"],
                      "implementation": o["qp"], "plain_python": o["py"],
                      "model": "evaluate `run` of Disc/ControlFlowModel.v on the Gallina term in coq/Gen/C43"},
                      found_input=True, what="implementation differs from the proved model of tape-mode control flow")
    hist.update(feat)
    hist.update({"impl_" + k: v for k, v in sorted(res["stats"].items())})
    ctx.coverage.update({"evaluations": len(cases) + len(mcm), "distinct_nontrivial": len(distinct),
                         "rule": "corpus (all signatures, empty/reversed/negative non-dividing strides, step 0, returning bodies, arity errors, elif chains in 3 construction styles, while incl. fuel exhaustion) + seeded random nested programs (15% with one injected malformation); non-trivial = program with a control-flow construct recording > 1 op; impl_* = dynamic counts measured inside the driver",
                         "input_distribution": hist,
                         "mcm_differential": {"cases": len(mcm), "max_abs_prob_diff": worst, "tolerance": 1e-9}})
    for c, o in list(zip(cases, obs))[21:25] or list(zip(cases, obs))[:1]:
        ctx.sample({"program": c["prog"], "observed": o["qp"]})
