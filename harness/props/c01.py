"""C01 Operator representations describe one and the same linear map."""
from vlib import *

PID = "C01"
META = {
    "level": "proof",
    "engine": "qsym-translator",
    "technique": "Coq reflection proofs (exact Laurent-polynomial matrices, vm_compute + EvalHom soundness) that each representation extracted from /repo by symbolic execution (decomposition, eigvals with diagonalizing gates, pauli_rep, generator spectral form, wire_order matrix, integer powers) denotes the operator's matrix for all parameter values; numeric check of every representation incl. sparse matrices and capability flags",
    "design_ref": "DESIGN.md §3 C01",
    "text": "For every fixed-arity operator class with registered rules plus MultiRZ, PauliRot, MultiControlledX, controlled / adjoint wrappers, the matrix M is extracted symbolically and Coq proves for ALL real parameters: the default decomposition acts as M on every basis column; D^dagger diag(eigvals) D = M for the diagonalizing gates D; the matrix of pauli_rep equals M; M(theta) = sum_k exp(i theta lambda_k) P_k with P_k the Lagrange spectral projectors of the generator matrix G (together with sum P_k = I and prod (G - lambda_k) = 0, so the right-hand side is exp(i theta G)); qp.matrix(op, wire_order=sigma) with string/int labels equals M on the permuted positions; matrix(op**k) = M^k for k = 2, 3, -1. Every representation (also sparse_matrix and the has_* flags vs produced / documented *UndefinedError) is additionally evaluated numerically at random and boundary angles (0, pi, 2pi) on the implementation.",
    "note": "Trusted: Coq kernel + stdlib real axioms; translator qsym/qx (spot-checked); that the spectral form equals the power-series exponential is standard mathematics, not mechanised; classes with matrix-valued parameters, templates and fractional powers are covered numerically at most; structure (sizes of variable-arity operators) enumerated.",
    "assumptions": [], "trusted": ["translator harness/qsym.py, qx.py, impl/c01_impl.py (spectral projectors and Pauli sums are assembled in the harness from exact constants)"],
}
HEADER = """From Coq Require Import List ZArith QArith Bool.
From PLV Require Import Alg.Poly Lin.Vec Lin.PVec.
Import ListNotations.
Open Scope Q_scope.
"""


def run(ctx):
    ctx.coq_props()
    out = ctx.run_impl("c01_impl.py", {"tier": ctx.tier, "seed": ctx.seed, "outdir": str(ctx.gen_dir)}, timeout=3000)
    items = out["items"]
    obl = json.loads((ctx.gen_dir / "obligations.json").read_text())
    failed = ctx.coq_obligations("reps", HEADER, [(o["name"], o["stmt"], "vm_compute. reflexivity.") for o in obl], chunk=16, par=16)
    by = {o["name"]: o for o in obl}
    st = {i["label"]: i for i in items}
    for name, detail in failed:
        o = by.get(name)
        if o is None:
            ctx.broken_obligation("coq", name, detail); continue
        base = o["label"].split("**")[0].split("(0,")[0].split("(1,")[0].split("(2,")[0]
        it = st.get(base) or st.get(o["label"]) or {}
        wit = it.get("numeric_fail")
        ctx.violation(f"rep:{base}:{o['kind']}", {"operator": o["label"], "representation": o["kind"], "numeric_witness": wit, "obligation": name},
                      found_input=bool(wit), what=f"{o['kind']} of {o['label']} does not denote the operator's matrix")
    for i in items:
        if i.get("numeric_fail"):
            for rep in i["numeric_fail"]["representations"]:
                ctx.violation(f"rep:{i['label']}:{rep.split(' raised')[0][:40]}", {"operator": i["label"], "witness": i["numeric_fail"]},
                              what=f"{i['label']}: {rep} disagrees with the matrix at parameters {i['numeric_fail']['thetas']}")
    base_p = VERIF / "harness" / "expected_c01.json"
    cur = sorted({(i["label"], k) for i in items for k in i["kinds"]})
    if os.environ.get("VERIF_WRITE_BASELINE") and not failed:
        old = set(tuple(x) for x in json.loads(base_p.read_text())) if base_p.exists() else set()
        base_p.write_text(json.dumps(sorted(old | set(cur)), indent=0))
    if base_p.exists():
        have = set(cur)
        labels = {i["label"] for i in items}
        for lab, kind in (tuple(x) for x in json.loads(base_p.read_text())):
            if lab in labels and (lab, kind) not in have and (kind != "integer_power" or ctx.tier != "quick"):
                ctx.violation(f"tie:{lab}:{kind}", {"operator": lab, "representation": kind, "skipped": st[lab].get("skipped"), "no_longer_checks": "symbolic extraction of this representation"},
                              found_input=False, what=f"{kind} of {lab} can no longer be extracted symbolically")
    kinds = {}
    for o in obl:
        kinds[o["kind"]] = kinds.get(o["kind"], 0) + 1
    ctx.coverage.update({"evaluations": len(items), "distinct_nontrivial": len(obl),
                         "rule": "operator instances x representations; each obligation universal in the parameters; numeric evaluation at 5 points per instance",
                         "obligations_by_representation": kinds, "not_extractable": [(i["label"], i["detail"][:60]) for i in items if i["status"] != "ok"]})
    for i in items[:50:20]:
        ctx.sample({"operator": i["label"], "proved": i["kinds"]})
