"""C59 Fourier analysis tools are sound (circuit_spectrum / qnode_spectrum / coefficients / reconstruct)."""
from fractions import Fraction
from math import gcd

from vlib import *

PID = "C59"
META = {
    "level": "proof",
    "technique": "Coq proofs over Q (sumset algebra of spectra, finite Fourier sums, DFT orthogonality in an abstract commutative ring + exact cyclotomic evaluation) and vm_compute correspondence of the transcribed spectrum bookkeeping / exact DFT against pennylane.fourier; sampled true spectra and reconstruct checked numerically",
    "design_ref": "DESIGN.md §3 C59",
    "text": "15 kernel-checked theorems in Props/C59.v: the transcription of utils.join_spectra on non-negative half spectra followed by the mirroring of circuit_spectrum/qnode_spectrum equals (as a set, for all lists of rationals) the sumset of the mirrored inputs; sumset membership characterisation, sortedness/no duplicates, commutativity and associativity; frequencies of a product of two finite Fourier sums lie in the sumset (with evaluation homomorphism for any multiplicative character); x -> a x scales every frequency; DFT: in every commutative ring with w^N = 1 and w^m - 1 regular for 0<m<N the N-point DFT of sum_r c_r w^(j r) returns N c_q (for ALL N), plus exact orthogonality in cyclotomic coordinates for odd N <= 17 by computation. Tie: random encoding circuits (RX/RY/RZ/PhaseShift/IsingZZ/IsingXX/MultiRZ/CRZ/ControlledPhaseShift, repeated 1-3 times, rational scalings and two-input linear combinations, random trainable layers) run through the real circuit_spectrum and qnode_spectrum and compared inside Coq with the model's prediction, AND with the true spectrum obtained by sampling the QNode on a full period and an FFT (every frequency with amplitude > 1e-8 must be reported); random real trigonometric polynomials (dyadic complex coefficients, 1-2 inputs, degree <= 4) through the real fourier.coefficients (per-input degrees, low-pass filter with default and explicit thresholds, broadcasting) compared to 1e-10 with the true coefficients and inside Coq with the exact DFT of the model; fourier.reconstruct (Dirichlet-kernel mode, spectra mode with default and user shifts, scalar and array arguments, f0 given or not) compared with the function at random points (1e-8).",
    "note": "Trusted: Coq kernel; hand transcription of the spectrum bookkeeping (tied by correspondence only); the table of generator eigenvalues per gate is part of the model (its agreement with np.linalg.eigvalsh of the real generators is what the correspondence and the sampled true spectrum test). NOT proved: that the eigenvalue differences of the generators bound the true spectrum of an expectation value (that is C09's freq_cover machinery; here it is tested by sampling + FFT only); the final ifftn/fftn round trip of the low-pass branch is taken as the identity in the model; reconstruct has no Coq model (numerical tie only: Dirichlet kernel / linear solve); floating-point rounding of the frequencies (np.round to 8 decimals) is outside the model, frequencies are compared after snapping to rationals with denominator <= 1000 (1e-6).  The aliasing case (degree/threshold below the true degree) is excluded as the property states.",
    "assumptions": ["frequencies/scalings are rationals with small denominators (floats snapped to 1e-6)",
                    "classical preprocessing is linear (qnode_spectrum rejects non-linear preprocessing itself)",
                    "true-spectrum test: amplitude threshold 1e-8 on a full-period FFT of the simulated expectation value"],
    "trusted": ["hand-written model coq/Num/FourierModel.v tied to /repo by correspondence only",
                "numpy FFT used for the sampled true spectrum (harness side)"],
}

ONEQ = ["RX", "RY", "RZ", "PhaseShift"]
TWOQ = ["IsingZZ", "IsingXX", "MultiRZ2", "CRZ", "CPhase"]
GAL = {"RX": "GRX", "RY": "GRY", "RZ": "GRZ", "PhaseShift": "GPhaseShift", "IsingZZ": "GIsingZZ", "IsingXX": "GIsingXX",
       "MultiRZ2": "GMultiRZ2", "MultiRZ3": "GMultiRZ3", "CRZ": "GCRZ", "CPhase": "GCPhase", "Rot": "GRot"}
SCALES = [(1, 1), (1, 1), (2, 1), (3, 1), (1, 2), (3, 2), (1, 4), (2, 3), (1, 3), (-1, 1), (-2, 1), (-1, 2), (5, 2)]


def lcm(a, b):
    return a * b // gcd(a, b)


def rnd_angle(rng):
    return round(rng.uniform(-3.0, 3.0), 6)


def gen_gate(rng, nw, allow_half=True):
    pool = list(ONEQ)
    if nw >= 2:
        pool += [g for g in TWOQ if allow_half or g not in ("CRZ", "CPhase")]
    if nw >= 3:
        pool += ["MultiRZ3"]
    g = rng.choice(pool)
    k = {"MultiRZ3": 3}.get(g, 2 if g in TWOQ else 1)
    return g, rng.sample(range(nw), k)


def trainable_layer(rng, nw):
    ops = []
    for w in range(nw):
        r = rng.random()
        if r < 0.45:
            ops.append({"g": "Rot", "w": [w], "theta": [rnd_angle(rng) for _ in range(3)]})
        elif r < 0.8:
            ops.append({"g": rng.choice(["RX", "RY"]), "w": [w], "theta": [rnd_angle(rng)]})
    if nw >= 2 and rng.random() < 0.8:
        a, b = rng.sample(range(nw), 2)
        ops.append({"g": "CNOT", "w": [a, b]})
    return ops


def gen_obs(rng, nw):
    while True:
        s = "".join(rng.choice("IXYZ") for _ in range(nw))
        if s != "I" * nw:
            return s


def gen_circ(rng, tier):
    nw = rng.choice([1, 2, 2, 3])
    P = rng.choice([1, 2, 2, 3])
    reps = rng.choice([1, 2, 2, 3])
    ops = [{"g": "H", "w": [w]} for w in range(nw) if rng.random() < 0.5]
    ops += trainable_layer(rng, nw)
    err = rng.random() < 0.08
    for _ in range(reps):
        for m in range(P):
            if rng.random() < 0.15:
                continue
            g, w = gen_gate(rng, nw)
            ops.append({"g": g, "w": w, "lin": [[m, 1, 1]], "mark": m})
        ops += trainable_layer(rng, nw)
    if err:
        m = rng.randrange(P)
        ops.insert(rng.randrange(len(ops) + 1), {"g": "Rot", "w": [rng.randrange(nw)], "lin": [[m, 1, 1]], "mark": m,
                                                 "theta": [0.0, rnd_angle(rng), rnd_angle(rng)]})
    enc = None
    if rng.random() < 0.4:
        enc = [m for m in range(P) if rng.random() < 0.7]
        if rng.random() < 0.4:
            enc.append(7)
        if rng.random() < 0.2 and enc:
            enc.append(enc[0])
    c = {"kind": "circ", "nw": nw, "npar": P, "ops": ops, "enc": enc, "obs": gen_obs(rng, nw),
         "x0": [rnd_angle(rng) for _ in range(P)], "fft": {}}
    for m in range(P):
        if enc is not None and m not in enc:
            continue
        B = sum(1 for o in ops if o.get("mark") == m)
        if B and not any(o["g"] == "Rot" and o.get("mark") is not None for o in ops):
            c["fft"][str(m)] = [2, B]
    return c


def gen_qnode(rng, tier):
    nw = rng.choice([1, 2, 2, 3])
    P = rng.choice([1, 2, 2, 3])
    reps = rng.choice([1, 2, 2, 3])
    ops = [{"g": "H", "w": [w]} for w in range(nw) if rng.random() < 0.5]
    ops += trainable_layer(rng, nw)
    for _ in range(reps):
        for m in range(P):
            if rng.random() < 0.15:
                continue
            if rng.random() < 0.1:
                g, w = "Rot", [rng.randrange(nw)]
            else:
                g, w = gen_gate(rng, nw, allow_half=False)
            lin = [[m, *rng.choice(SCALES)]]
            if P > 1 and rng.random() < 0.25:
                q = rng.choice([j for j in range(P) if j != m])
                lin.append([q, *rng.choice(SCALES)])
            o = {"g": g, "w": w, "lin": lin, "off": rng.choice([0.0, 0.0, rnd_angle(rng)])}
            if g == "Rot":
                o["theta"] = [0.0, rnd_angle(rng), rnd_angle(rng)]
            ops.append(o)
        ops += trainable_layer(rng, nw)
    if not any(o.get("lin") for o in ops):      # a circuit without any input dependence is rejected upstream
        ops.append({"g": "RX", "w": [0], "lin": [[0, *rng.choice(SCALES)]], "off": 0.0})
    c = {"kind": "qnode", "nw": nw, "npar": P, "ops": ops, "obs": gen_obs(rng, nw),
         "x0": [rnd_angle(rng) for _ in range(P)], "fft": {}}
    for m in range(P):
        L, B = 1, Fraction(0)
        for o in ops:
            for p, num, den in o.get("lin", []):
                if p == m:
                    L = lcm(L, den)
                    B += abs(Fraction(num, den))
        if B > 0 and L * B <= 90:
            c["fft"][str(m)] = [L, float(B)]
    return c


def gen_coef(rng, tier):
    n = rng.choice([1, 1, 2])
    maxd = 4 if n == 1 else rng.choice([1, 2, 2, 3, 4])
    fd = [rng.randint(0, maxd) for _ in range(n)]
    T = rng.randint(0, 5)
    terms = {}
    for _ in range(T):
        k = tuple(rng.randint(-d, d) for d in fd)
        if all(v == 0 for v in k):
            continue
        re_, im_ = rng.randint(-16, 16), rng.randint(-16, 16)
        terms[k] = (re_, im_)
        terms[tuple(-v for v in k)] = (re_, -im_)
    terms[tuple([0] * n)] = (rng.randint(-16, 16), 0)
    # make sure the top frequency of every input is present so that fd is the true degree
    tl = [[list(k), a, b] for k, (a, b) in sorted(terms.items())]
    fd = [max(abs(t[0][j]) for t in tl) for j in range(n)]
    lp = rng.random() < 0.4
    bc = rng.random() < 0.3
    c = {"kind": "coef", "n": n, "terms": tl, "den": 16, "lp": lp, "bc": bc, "thr": None, "deg_int": None, "bad": False}
    if not lp:
        deg = [min(8, d + rng.choice([0, 0, 1, 2])) for d in fd]
    else:
        mode = rng.choice(["default", "int", "list"])
        if mode == "default":
            deg = [min(4, max((d + 1) // 2, rng.randint(0, d + 1))) for d in fd]     # 2*deg >= fd
            thr_eff = [2 * d for d in deg]
        else:
            deg = [rng.randint(0, min(4, d + 1)) for d in fd]
            if mode == "int":
                t = min(8, max(max(fd), max(deg)) + rng.choice([0, 1]))
                c["thr"] = t
                thr_eff = [t] * n
            else:
                thr_eff = [min(8, max(f, d) + rng.choice([0, 1, 2])) for f, d in zip(fd, deg)]
                c["thr"] = list(thr_eff)
        c["thr_eff"] = thr_eff
    c["deg"] = deg
    if len(set(deg)) == 1 and rng.random() < 0.5:
        c["deg_int"] = deg[0]
    if rng.random() < 0.03:
        c["bad"] = True
        c["deg"] = deg + [1]
        c["deg_int"] = None
    return c


SPECTRA_POOL = [[1], [1, 2], [1, 2, 3], [1, 3], [2], [0.5, 1], [0.5, 1, 1.5], [1, 4, 5, 6], [1.5], [2, 3], [1, 2, 3, 4],
                [0.5, 1.5], [1, 2, 4], [3], [2.5, 5]]


def gen_recon(rng, tier):
    scalar = rng.random() < 0.2
    n = 1 if scalar else rng.choice([1, 2, 3])
    mode = rng.choice(["equ", "equ", "gen", "gen_shifts"])
    c = {"kind": "recon", "n": n, "scalar": scalar, "mode": mode, "nums": {}, "spectra": {}, "shifts": {},
         "x0": [rnd_angle(rng) for _ in range(n)], "give_f0": rng.random() < 0.4,
         "points": [round(rng.uniform(-5, 5), 6) for _ in range(3)], "const": rnd_angle(rng)}
    om = []
    for j in range(n):
        if mode == "equ":
            R = rng.choice([0, 1, 2, 3, 4, 5])
            c["nums"][str(j)] = R
            om.append([float(v) for v in range(1, R + 1)])
        else:
            sp = [float(v) for v in rng.choice(SPECTRA_POOL)]
            c["spectra"][str(j)] = [0.0] + sp
            om.append(sp)
            if mode == "gen_shifts":
                R = len(sp)
                g = min(sp) if all(abs(v / min(sp) - round(v / min(sp))) < 1e-9 for v in sp) else 0.5
                K = max(2 * R + 1, int(round(2 * max(sp) / g)) + 1)
                # distinct points of the equidistant K-grid of one period, slightly perturbed
                idx = sorted(rng.sample(range(K), 2 * R + 1)) if K > 2 * R + 1 else list(range(K))
                sh = [(i - K // 2) * 2 * 3.141592653589793 / (g * K) + rng.uniform(-0.02, 0.02) for i in idx]
                if rng.random() < 0.4:
                    sh[rng.randrange(len(sh))] = 0.0
                rng.shuffle(sh)
                c["shifts"][str(j)] = sh
    c["ids"] = sorted(rng.sample(range(n), rng.randint(1, n)))
    terms = []
    for _ in range(rng.randint(1, 4)):
        fac = [[rng.choice([0.0] + om[j]), rnd_angle(rng)] for j in range(n)]
        terms.append([rnd_angle(rng), fac])
    # make the top frequency of every coordinate present
    terms.append([rnd_angle(rng), [[(om[j][-1] if om[j] else 0.0), rnd_angle(rng)] for j in range(n)]])
    c["terms"] = terms
    return c


# ------------------------------------------------------------------ Gallina printers
def g_nat(n):
    return f"{int(n)}%nat"


def g_circ_input(c):
    ops = []
    for o in c["ops"]:
        if o["g"] in ("CNOT", "H"):
            continue
        mk = "None" if o.get("mark") is None else f"(Some {g_nat(o['mark'])})"
        ops.append(f"({mk}, {GAL[o['g']]})")
    enc = "None" if c["enc"] is None else "(Some " + glist(c["enc"], g_nat) + ")"
    return f"ICircuit {enc} {glist(ops)}"


def g_qnode_input(c):
    ops = []
    for o in c["ops"]:
        if not o.get("lin"):
            continue
        g = "GRZ" if o["g"] == "Rot" else GAL[o["g"]]
        row = glist([f"({g_nat(p)}, {gq(Fraction(num, den))})" for p, num, den in o["lin"]])
        ops.append(f"({g}, {row})")
    return f"IQnode {g_nat(c['npar'])} {glist(ops)}"


def snap(f):
    fr = Fraction(f).limit_denominator(1000)
    return fr if abs(float(fr) - f) <= 1e-6 else None


def canon_spec(spec):
    """implementation spectra {marker: [floats]} -> {int: sorted list of distinct Fractions} or None"""
    out = {}
    for k, fl in spec.items():
        frs = [snap(f) for f in fl]
        if any(fr is None for fr in frs):
            return None
        out[int(k)] = sorted(set(frs))
    return out


def g_spec_output(spec):
    if spec is None:
        return "OSpectra None"
    items = [f"({g_nat(k)}, {glist(v, gq)})" for k, v in sorted(spec.items())]
    return f"OSpectra (Some {glist(items)})"


def g_coef_input(c):
    ts = glist([f"({glist(k, gz)}, ({gq(Fraction(a, c['den']))}, {gq(Fraction(b, c['den']))}))" for k, a, b in c["terms"]])
    thr = "None" if not c["lp"] else "(Some " + glist(c["thr_eff"], gz) + ")"
    return f"ICoeff {glist(c['deg'], gz)} {thr} {ts}"


def expected_coeffs(c):
    """true coefficients in the layout of np.fft (position q <-> frequency q or q - N)"""
    import itertools
    tm = {tuple(k): complex(a, b) / c["den"] for k, a, b in c["terms"]}
    out = []
    for q in itertools.product(*[range(2 * d + 1) for d in c["deg"]]):
        k = tuple(qi if qi <= d else qi - (2 * d + 1) for qi, d in zip(q, c["deg"]))
        out.append(tm.get(k, 0j))
    return out


def run(ctx):
    ctx.coq_props()
    rng = ctx.rng
    quick = ctx.tier == "quick"
    n_circ, n_qn, n_coef, n_rec = (40, 40, 130, 80) if quick else (350, 350, 1400, 800)
    # corpus first
    cases = [
        {"kind": "circ", "nw": 2, "npar": 2, "enc": None, "obs": "ZI", "x0": [0.3, 0.7], "fft": {"0": [2, 2], "1": [2, 2]},
         "ops": [{"g": "RX", "w": [0], "lin": [[0, 1, 1]], "mark": 0}, {"g": "Rot", "w": [0], "theta": [0.1, 0.2, 0.3]},
                 {"g": "IsingZZ", "w": [0, 1], "lin": [[0, 1, 1]], "mark": 0}, {"g": "H", "w": [1]},
                 {"g": "CRZ", "w": [1, 0], "lin": [[1, 1, 1]], "mark": 1}, {"g": "PhaseShift", "w": [1], "lin": [[1, 1, 1]], "mark": 1}]},
        {"kind": "qnode", "nw": 2, "npar": 2, "obs": "ZI", "x0": [0.3, 0.7], "fft": {"0": [2, 3.5], "1": [1, 5.0]},
         "ops": [{"g": "RX", "w": [0], "lin": [[0, 2, 1]]}, {"g": "Rot", "w": [0], "theta": [0.1, 0.2, 0.3]},
                 {"g": "IsingZZ", "w": [0, 1], "lin": [[0, 1, 2]]}, {"g": "MultiRZ2", "w": [0, 1], "lin": [[1, 3, 1]]},
                 {"g": "PhaseShift", "w": [1], "lin": [[1, 1, 1]]}, {"g": "RY", "w": [1], "lin": [[0, 1, 1], [1, 1, 1]]}]},
        {"kind": "coef", "n": 1, "terms": [[[-2], 4, -4], [[0], 8, 0], [[2], 4, 4]], "den": 16, "lp": True, "bc": False,
         "thr": None, "thr_eff": [2], "deg": [1], "deg_int": 1, "bad": False},
        {"kind": "coef", "n": 2, "terms": [[[-1, 2], 3, 5], [[0, 0], -7, 0], [[1, -2], 3, -5]], "den": 16, "lp": False,
         "bc": False, "thr": None, "deg": [1, 2], "deg_int": None, "bad": False},
    ]
    for _ in range(n_circ):
        cases.append(gen_circ(rng, ctx.tier))
    for _ in range(n_qn):
        cases.append(gen_qnode(rng, ctx.tier))
    for _ in range(n_coef):
        cases.append(gen_coef(rng, ctx.tier))
    for _ in range(n_rec):
        cases.append(gen_recon(rng, ctx.tier))

    obs = ctx.run_impl("c59_impl.py", {"cases": cases})

    hist = {"circ": 0, "qnode": 0, "coef": 0, "recon": 0, "circ_err_path": 0, "circ_enc_subset": 0, "repeated_encoding": 0,
            "scaled_encoding": 0, "two_input_combination": 0, "true_freqs_checked": 0, "coef_lowpass": 0, "coef_2d": 0,
            "coef_broadcast": 0, "coef_bad_degree": 0, "recon_equ": 0, "recon_gen": 0, "recon_gen_shifts": 0,
            "recon_ill_conditioned_skipped": 0, "recon_points": 0, "max_spectrum_size": 0}
    terms, term_case = [], []
    nontrivial = set()
    for i, (c, o) in enumerate(zip(cases, obs)):
        k = c["kind"]
        hist[k] += 1
        key = json.dumps(c, sort_keys=True)
        if isinstance(o, dict) and "exc" in o:
            ctx.violation("direct:" + key, {"case": c, "exception": o}, what=f"{k}: unexpected exception {o['exc'][:120]}")
            continue
        if k in ("circ", "qnode"):
            if o["spec"] == "ERR":
                hist["circ_err_path"] += 1
                spec = None
            else:
                spec = canon_spec(o["spec"])
                if spec is None:
                    ctx.violation("direct:" + key, {"case": c, "observed": o}, what="reported frequency is not close to a small rational")
                    continue
                # soundness direction: every frequency really present must be reported
                for p, present in o["true"].items():
                    L = c["fft"][p][0]
                    rep = [float(f) for f in spec.get(int(p), [])]
                    for kk, amp in present:
                        hist["true_freqs_checked"] += 1
                        if not any(abs(kk / L - f) <= 1e-6 for f in rep):
                            ctx.violation("direct:" + key, {"case": c, "parameter": p, "missing_frequency": kk / L,
                                                            "amplitude": amp, "reported": rep},
                                          what=f"{'circuit' if k == 'circ' else 'qnode'}_spectrum misses frequency {kk / L} "
                                               f"(amplitude {amp:.3g}) of input {p}")
                for v in spec.values():
                    hist["max_spectrum_size"] = max(hist["max_spectrum_size"], len(v))
                    if len(v) > 3:
                        nontrivial.add(key)
            if k == "circ":
                if c["enc"] is not None:
                    hist["circ_enc_subset"] += 1
                marks = [o_["mark"] for o_ in c["ops"] if o_.get("mark") is not None]
                if len(marks) != len(set(marks)):
                    hist["repeated_encoding"] += 1
                terms.append(f"({g_circ_input(c)}, {g_spec_output(spec)})")
            else:
                lins = [o_["lin"] for o_ in c["ops"] if o_.get("lin")]
                if any(len(l) > 1 for l in lins):
                    hist["two_input_combination"] += 1
                if any((num, den) != (1, 1) for l in lins for _, num, den in l):
                    hist["scaled_encoding"] += 1
                ps = [p for l in lins for p, _, _ in l]
                if len(ps) != len(set(ps)):
                    hist["repeated_encoding"] += 1
                terms.append(f"({g_qnode_input(c)}, {g_spec_output(spec)})")
            term_case.append(i)
        elif k == "coef":
            if c["bad"]:
                hist["coef_bad_degree"] += 1
                if o != "ERR":
                    ctx.violation("direct:" + key, {"case": c, "observed": o}, what="coefficients accepted a degree tuple of the wrong length")
                continue
            hist["coef_lowpass"] += c["lp"]
            hist["coef_2d"] += c["n"] == 2
            hist["coef_broadcast"] += c["bc"]
            exp = expected_coeffs(c)
            if o == "ERR" or o["shape"] != [2 * d + 1 for d in c["deg"]] or len(o["re"]) != len(exp):
                ctx.violation("direct:" + key, {"case": c, "observed": o}, what="coefficients: wrong output shape / error")
                continue
            got = [complex(a, b) for a, b in zip(o["re"], o["im"])]
            worst = max(abs(g - e) for g, e in zip(got, exp))
            if worst > 1e-10:
                j = max(range(len(exp)), key=lambda j: abs(got[j] - exp[j]))
                ctx.violation("direct:" + key, {"case": c, "flat_index": j, "got": [o["re"][j], o["im"][j]],
                                                "expected": [exp[j].real, exp[j].imag]},
                              what=f"fourier.coefficients differs from the true coefficient by {worst:.3g}")
            if len(c["terms"]) > 1:
                nontrivial.add(key)
            # correspondence with the exact DFT of the model: snap to the dyadic grid 1/2^20
            sn = lambda v: Fraction(round(v * 2 ** 20), 2 ** 20)
            outl = glist([f"({gq(sn(a))}, {gq(sn(b))})" for a, b in zip(o["re"], o["im"])])
            terms.append(f"({g_coef_input(c)}, OCoeffs (Some {outl}))")
            term_case.append(i)
        else:
            hist["recon_" + c["mode"]] += 1
            if "err" in o:
                ctx.violation("direct:" + key, {"case": c, "observed": o}, what="reconstruct raised " + o["err"])
                continue
            if o["warn"]:
                hist["recon_ill_conditioned_skipped"] += 1
                continue
            for j, t, got, want in o["pts"]:
                hist["recon_points"] += 1
                if abs(got - want) > 1e-8 * max(1.0, abs(want)):
                    ctx.violation("direct:" + key, {"case": c, "coordinate": j, "point": t, "reconstruction": got, "function": want},
                                  what=f"fourier.reconstruct ({c['mode']}) differs from the function by {abs(got - want):.3g}")
                    break
            nontrivial.add(key)

    bad = ctx.coq_eval_cases("cases", "From PLV Require Import Num.FourierModel.\nRequire Import QArith.", terms,
                             "check_case", chunk=60)
    for b in bad:
        i = term_case[b]
        c, o = cases[i], obs[i]
        ctx.violation("corr:" + json.dumps(c, sort_keys=True), {"case": c, "implementation": o, "gallina": terms[b]},
                      found_input=True, what=f"{c['kind']}: implementation differs from the Coq model "
                                             f"({'sumset prediction of the spectrum' if c['kind'] != 'coef' else 'exact DFT'})")
    ctx.coverage.update({"evaluations": len(cases), "distinct_nontrivial": len(nontrivial),
                         "rule": "seeded generators: marked encoding circuits (1-3 wires, 1-3 inputs, 1-3 repetitions, trainable layers, "
                                 "encoding_gates subsets incl. absent/duplicate markers, 8% marked multi-parameter gate = error path); "
                                 "qnode circuits with rational scalings and two-input linear forms; real trigonometric polynomials "
                                 "(1-2 inputs, degree <= 4, dyadic coefficients; degree >= true degree, low-pass thresholds >= true degree; "
                                 "3% malformed degree tuple); band-limited functions for reconstruct. non-trivial = spectrum with > 3 "
                                 "frequencies / polynomial with > 1 term / reconstruct case actually compared",
                         "input_distribution": hist})
    for kind in ("circ", "qnode", "coef", "recon"):
        for c, o in zip(cases, obs):
            if c["kind"] == kind:
                ctx.sample({"case": c, "observed": o})
                break
