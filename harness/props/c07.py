"""C07 Operator class attribute claims are true."""
from vlib import *

PID = "C07"
META = {
    "level": "proof",
    "engine": "qsym-translator",
    "technique": "Coq reflection proofs (exact Laurent-polynomial matrices, vm_compute + EvalHom soundness) of one obligation per attribute claim, regenerated from /repo by symbolic execution of compute_matrix / generator / batched kernels",
    "design_ref": "DESIGN.md §3 C07",
    "text": "The seven attribute sets are read from /repo on every run. For each member with scalar parameters the exact symbolic matrix is extracted (PennyLane's own compute_matrix run on formal parameters) and Coq proves: self-inverse M*M=I; wire/control symmetry for every permutation (gate on permuted wires acts identically); diagonal (every off-diagonal entry is the zero polynomial); composable U(a)U(b)=U(a+b) with two formal variables; unitary generator G*G = lambda*I with lambda != 0 for the generator matrix returned by qp.generator (plus exp(i t G)=U(t) numerically); broadcasting: entry b of the batched kernel run on a batch of three formal variables equals the unbatched matrix at theta_b. Theorems in Props/C07.v lift each obligation to all real parameter values. Rot in composable_rotations is the documented exception. Members with array-valued parameters (QubitUnitary, embeddings ...) are only checked numerically.",
    "note": "Trusted: Coq kernel + stdlib real axioms; translator (qsym/qx) mitigated by numeric spot-checks; sizes of variable-arity members (MultiRZ, PauliRot, PCPhase, Identity) enumerated up to a bound; AmplitudeEmbedding/StatePrep broadcasting not covered.",
    "assumptions": [], "trusted": ["translator harness/qsym.py, qx.py, impl/c07_impl.py"],
}

HEADER = """From Coq Require Import List ZArith QArith Bool.
From PLV Require Import Alg.Poly Lin.Vec Lin.PVec.
Import ListNotations.
Open Scope Q_scope.
"""


def run(ctx):
    ctx.coq_props()
    out = ctx.run_impl("c07_impl.py", {"tier": ctx.tier, "seed": ctx.seed, "outdir": str(ctx.gen_dir)}, timeout=1800)
    items = out["items"]
    obl = json.loads((ctx.gen_dir / "obligations.json").read_text())
    failed = ctx.coq_obligations("claims", HEADER, [(o["name"], o["stmt"], "vm_compute. reflexivity.") for o in obl], chunk=25)
    by = {o["name"]: o for o in obl}
    owner = {n: i for i in items for n in i.get("oblig", [])}
    for name, detail in failed:
        o = by.get(name)
        if o is None:
            ctx.broken_obligation("coq", name, detail); continue
        it = owner.get(name, {})
        wit = it.get("numeric_fail")
        ctx.violation(f"claim:{o['claim']}:{o['tag'].split(':')[0]}", {"attribute": o["claim"], "member": o["tag"], "numeric_witness": wit,
                      "obligation": name}, found_input=bool(wit),
                      what=f"{o['tag']} is listed in {o['claim']} but the claim does not hold" + ("" if wit else " (obligation no longer checks)"))
    for it in items:
        if it.get("numeric_fail"):
            ctx.violation(f"claim:{it['claim']}:{it['name'].split('[numeric]')[0]}", {"attribute": it["claim"], "member": it["name"], "numeric_witness": it["numeric_fail"]},
                          what=f"{it['name']} is listed in {it['claim']} but the claim fails numerically")
    base_p = VERIF / "harness" / "expected_c07.json"
    okset = sorted({(i["claim"], i["name"]) for i in items if i["status"] in ("ok", "numeric-only")})
    if os.environ.get("VERIF_WRITE_BASELINE") and not failed:
        old = set(tuple(x) for x in json.loads(base_p.read_text())) if base_p.exists() else set()
        base_p.write_text(json.dumps(sorted(old | set(okset)), indent=0))
    if base_p.exists():
        st = {(i["claim"], i["name"]): i for i in items}
        for cl, nm in (tuple(x) for x in json.loads(base_p.read_text())):
            i = st.get((cl, nm))
            if i is not None and i["status"] not in ("ok", "numeric-only"):
                ctx.violation(f"tie:{cl}:{nm}", {"attribute": cl, "member": nm, "detail": i["detail"], "no_longer_checks": "extraction of this claim"},
                              found_input=False, what=f"claim {cl} of {nm} can no longer be extracted ({i['status']})")
    hist = {}
    for i in items:
        hist[f"{i['claim']}:{i['status']}"] = hist.get(f"{i['claim']}:{i['status']}", 0) + 1
    ctx.coverage.update({"evaluations": len(items), "distinct_nontrivial": len({(o["claim"], o["tag"]) for o in obl}),
                         "rule": "every member of every attribute set (sizes of variable-arity members bounded); one or more kernel-checked obligations per claim, universal in the parameters",
                         "status_histogram": hist,
                         "not_proved": [(i["claim"], i["name"], i["status"], i["detail"][:80]) for i in items if i["status"] not in ("ok",)]})
    for i in items[:3]:
        ctx.sample({k: i[k] for k in ("claim", "name", "status", "n_obl")})
