"""C65 Executor backends behave like map and starmap."""
import os
import tempfile

from vlib import *

PID = "C65"
META = {
    "level": "proof",
    "technique": "Coq proofs (induction, all argument lists / arities / completion orders) over a Gallina transcription of the native executors' dispatch code + vm_compute correspondence against the real executors run under injected delays",
    "design_ref": "DESIGN.md §3 C65",
    "text": "Props/C65.v: submit_spec, map_spec, starmap_spec state, for every backend (serial, thread pool, process pool, multiprocessing pool), every function signature shape, every argument list (any lengths, nested values), keyword arguments and EVERY completion order in which each task eventually completes, that the dispatch code returns exactly what the builtin call / map (zip truncated to the shortest) / itertools.starmap return - on the dispatch branches where that is true; for the branches where the pinned code is wrong the file proves the refutations (map_one_param_refuted, starmap_kwargs_refuted, submit_mp_kwargs_refuted), characterises the wrong result for all inputs (map_packed_applies_to_whole_iterables) and proves that the proposed repair satisfies map for all arities (map_spec_fixed). Tie: the real executors (all four native backends, worker counts 1-8 quick / 1-16 thorough, persistent and temporary pools) are run on generated module-level functions (term-building and arithmetic, with keyword defaults and *args) and argument lists (empty, single, many, uneven, ragged), with per-task sleeps that permute the completion order (observed order is recorded and fed to the model); every result is compared with the model (vm_compute), with the Python builtins (direct oracle) and the builtins with the Coq specification.",
    "note": "Modelled, not verified: the stdlib pools (ThreadPoolExecutor/ProcessPoolExecutor.map, multiprocessing.Pool.map/starmap/apply incl. its chunking) are an oracle 'run every task, return results by index'; OS scheduling, pickling, process start, worker count and pool persistence are runtime and do not appear in the model (they are exercised by the tie only). Exceptions are canonicalised to Err. Documented precondition kept: MPPoolExec.map raises on uneven lengths (zip strict; base.py says lengths must be consistent) - modelled, excluded from the direct oracle; likewise ragged / zero-width starmap rows on the concurrent.futures fallback (zip strict; [(),()] yields []). Calls on which the builtin itself raises are tied to the model only. Not generated: pure *args functions with several iterables on mp_pool (MPPoolExec.map routes by signature arity). The finding key finding:map_one_param_packing covers every case whose deviation is reproduced by the faithful model through the packed branch of PyNativeExec.map (signature arity <= 1), incl. the serial backend and starmap routed through map.",
    "assumptions": ["user functions are pure and picklable; arguments are ints or nested sequences of ints",
                    "every submitted task eventually completes (covers perm n)"],
    "trusted": ["hand-written model coq/Disc/ExecutorModel.v tied to /repo by correspondence only",
                "Python builtins map / itertools.starmap as the reference semantics (also tied to the Coq spec functions)"],
}

BE = {"serial": "Serial", "cf_threadpool": "Thread", "cf_procpool": "Proc", "mp_pool": "MPPool"}
FINDINGS = {1: ("finding:map_one_param_packing",
                "PyNativeExec.map packs by signature arity: a function with <=1 parameters is applied to whole iterables"),
            2: ("finding:starmap_kwargs_fallback",
                "starmap fallback of the concurrent.futures backends passes **kwargs to list() -> TypeError"),
            3: ("finding:mp_submit_kwargs",
                "MPPoolExec.submit passes **kwargs to Pool.apply -> TypeError")}


# ------------------------------------------------------------------ generator
def gint(rng, slot=None):
    return rng.randint(-3, 12) * 8 + (rng.randint(0, 7) if slot is None else slot)


def gval(rng, slot=None, nested=0.03):
    if rng.random() < nested:
        return {"s": [gint(rng, slot)] + [gint(rng) for _ in range(rng.randint(0, 2))]}
    return gint(rng, slot)


def slots(rng, n):
    r = rng.random()
    if r < 0.45:
        return [min(7, n - 1 - i) if n <= 8 else (7 - (i * 8) // n) for i in range(n)]   # later tasks finish first
    if r < 0.85:
        return [rng.randint(0, 7) for _ in range(n)]
    return [0] * n


def gen_fn(rng):
    return {"nreq": rng.choice([0, 1, 1, 1, 2, 2, 2, 3]), "ndef": rng.choice([0, 0, 0, 1, 1, 2]),
            "var": rng.random() < 0.2, "arith": rng.random() < 0.3}


def valid_widths(f):
    hi = f["nreq"] + f["ndef"] + (2 if f["var"] else 0)
    return list(range(f["nreq"], hi + 1))


def gen_kw(rng, f, width):
    kw = []
    if f["ndef"] and rng.random() < 0.4:
        free = [j for j in range(f["ndef"]) if j >= width - f["nreq"]]
        for j in free:
            if rng.random() < 0.7:
                kw.append([j, gint(rng)])
        if rng.random() < 0.06:
            kw.append([rng.choice([f["ndef"], 0]), 5])          # unknown or (possibly) duplicate keyword
            kw = [list(x) for x in {k: v for k, v in kw}.items()]
    elif rng.random() < 0.02:
        kw.append([0, 3])
    return kw


def gen_case(rng, be, workers, persist, big):
    lens = [0, 1, 1, 2, 3, 4, 5, 6, 8, 12] + ([20, 40] if big else [])
    while True:
        f = gen_fn(rng)
        op = rng.choice(["map"] * 5 + ["starmap"] * 3 + ["submit"] * 2)
        malformed = rng.random() < 0.08
        w = rng.choice([0, 1, 2, 3, 4]) if malformed else rng.choice(valid_widths(f))
        if op == "map" and w == 0 and not malformed:
            continue
        if op == "map" and be == "mp_pool" and f["nreq"] + f["ndef"] == 0 and f["var"] and w >= 2:
            continue
        if op == "starmap" and w == 0 and rng.random() < 0.8:
            continue
        break
    kw = gen_kw(rng, f, w)
    if op == "submit":
        data = [gval(rng) for _ in range(w)]
    else:
        n = rng.choice(lens)
        sl = slots(rng, n)
        if op == "map":
            ls = [n] * w
            if w >= 2 and rng.random() < 0.25:
                ls = [max(0, n - rng.randint(0, 2)) for _ in range(w)]
            data = [[gval(rng, sl[i] if j == 0 else None) for i in range(ls[j])] for j in range(w)]
        else:
            ws = [w] * n
            vw = valid_widths(f)
            if len(vw) > 1 and n >= 2 and rng.random() < 0.2:
                ws = [rng.choice(vw) for _ in range(n)]
            data = [[gval(rng, sl[i] if j == 0 else None) for j in range(ws[i])] for i in range(n)]
    return {"be": be, "workers": workers, "persist": persist, "op": op, "fn": f, "data": data, "kw": kw}


def F(nreq, ndef=0, var=False, arith=False):
    return {"nreq": nreq, "ndef": ndef, "var": var, "arith": arith}


def corpus():
    cs = []
    for be, w in (("serial", 1), ("cf_threadpool", 2), ("cf_threadpool", 7)):
        cs += [
            {"be": be, "workers": w, "persist": False, "op": "map", "fn": F(1), "data": [[1, 2, 3]], "kw": []},      # DESIGN §5.2
            {"be": be, "workers": w, "persist": False, "op": "map", "fn": F(1, arith=True), "data": [[1, -2, 3]], "kw": []},
            {"be": be, "workers": w, "persist": False, "op": "map", "fn": F(2), "data": [[7, 5, 3, 1], [10, 20, 30, 40]], "kw": []},
            {"be": be, "workers": w, "persist": False, "op": "map", "fn": F(2, arith=True), "data": [[7, 5, 3], [10, 20]], "kw": []},
            {"be": be, "workers": w, "persist": True, "op": "map", "fn": F(1, 1), "data": [[15, 6, 5]], "kw": [[0, 9]]},
            {"be": be, "workers": w, "persist": False, "op": "map", "fn": F(2), "data": [[], []], "kw": []},
            {"be": be, "workers": w, "persist": False, "op": "starmap", "fn": F(2), "data": [[7, 1], [5, 2], [3, 3], [0, 4]], "kw": []},
            {"be": be, "workers": w, "persist": False, "op": "starmap", "fn": F(3, arith=True), "data": [], "kw": []},
            {"be": be, "workers": w, "persist": False, "op": "starmap", "fn": F(1, 1), "data": [[7], [1]], "kw": [[0, 4]]},
            {"be": be, "workers": w, "persist": False, "op": "submit", "fn": F(2, 1), "data": [3, 4], "kw": [[0, 6]]},
            {"be": be, "workers": w, "persist": False, "op": "submit", "fn": F(0), "data": [], "kw": []},
        ]
    for be, w in (("mp_pool", 2), ("cf_procpool", 3)):
        cs += [
            {"be": be, "workers": w, "persist": True, "op": "map", "fn": F(1, arith=True), "data": [[1, -2, 3]], "kw": []},
            {"be": be, "workers": w, "persist": True, "op": "map", "fn": F(2), "data": [[7, 5, 3, 1], [10, 20, 30, 40]], "kw": []},
            {"be": be, "workers": w, "persist": True, "op": "map", "fn": F(2), "data": [[7, 5, 3], [10, 20]], "kw": []},
            {"be": be, "workers": w, "persist": True, "op": "map", "fn": F(1, 1), "data": [[15, 6, 5]], "kw": [[0, 9]]},
            {"be": be, "workers": w, "persist": True, "op": "starmap", "fn": F(2, 1), "data": [[7, 1], [5, 2], [3, 3]], "kw": [[0, 4]]},
            {"be": be, "workers": w, "persist": True, "op": "starmap", "fn": F(2), "data": [[7, 1], [5, 2], [3, 3]], "kw": []},
            {"be": be, "workers": w, "persist": True, "op": "submit", "fn": F(1, 1), "data": [7], "kw": [[0, 4]]},
            {"be": be, "workers": w, "persist": False, "op": "map", "fn": F(2, arith=True), "data": [[3, 2, 1], [1, 1, 1]], "kw": []},
        ]
    # signatures WITH DEFAULT-VALUED parameters (and the *args variant) mapped over SEVERAL iterables, so that the
    # iterables fill the defaulted parameters positionally; builtin map / itertools.starmap are the oracle.  Every backend
    # (the signature-arity routing of MPPoolExec.map must count defaulted parameters like required ones).
    xs, ys, zs = [1, 2, 3, 4, 5], [6, 7, 8, 9, 0], [11, 12, 13, 14, 15]
    for be, w in (("serial", 1), ("cf_threadpool", 3), ("mp_pool", 2), ("cf_procpool", 3)):
        p = be != "serial"
        cs += [
            {"be": be, "workers": w, "persist": p, "op": "map", "fn": F(1, 1), "data": [xs, ys], "kw": []},
            {"be": be, "workers": w, "persist": p, "op": "map", "fn": F(1, 1, arith=True), "data": [xs, ys], "kw": []},
            {"be": be, "workers": w, "persist": p, "op": "map", "fn": F(1, 2), "data": [xs, ys], "kw": [[1, 9]]},
            {"be": be, "workers": w, "persist": p, "op": "map", "fn": F(1, 2), "data": [xs, ys, zs], "kw": []},
            {"be": be, "workers": w, "persist": p, "op": "map", "fn": F(0, 2), "data": [xs, ys], "kw": []},
            {"be": be, "workers": w, "persist": p, "op": "map", "fn": F(2, 1), "data": [xs, ys, zs], "kw": []},
            {"be": be, "workers": w, "persist": p, "op": "map", "fn": F(1, 1, var=True), "data": [xs, ys, zs], "kw": []},
            {"be": be, "workers": w, "persist": p, "op": "map", "fn": F(1, 1, var=True), "data": [xs, ys], "kw": []},
            {"be": be, "workers": w, "persist": p, "op": "map", "fn": F(1, 1), "data": [[4]], "kw": []},
            {"be": be, "workers": w, "persist": p, "op": "starmap", "fn": F(1, 1),
             "data": [[a, b] for a, b in zip(xs, ys)], "kw": []},
            {"be": be, "workers": w, "persist": p, "op": "starmap", "fn": F(1, 2, var=True),
             "data": [[a, b, c, a] for a, b, c in zip(xs, ys, zs)], "kw": []},
            {"be": be, "workers": w, "persist": p, "op": "submit", "fn": F(1, 1), "data": [7, 4], "kw": []},
            # empty inputs: [] on every backend
            {"be": be, "workers": w, "persist": p, "op": "map", "fn": F(1), "data": [[]], "kw": []},
            {"be": be, "workers": w, "persist": p, "op": "map", "fn": F(2), "data": [[], []], "kw": []},
            {"be": be, "workers": w, "persist": p, "op": "map", "fn": F(1, 1), "data": [[], []], "kw": []},
            {"be": be, "workers": w, "persist": p, "op": "starmap", "fn": F(2), "data": [], "kw": []},
            {"be": be, "workers": w, "persist": p, "op": "starmap", "fn": F(2, 1), "data": [], "kw": [[0, 7]]},
        ]
    return cs


# ------------------------------------------------------------------ Gallina printers
def g_arg(v):
    if isinstance(v, dict):
        return f"(ASeq {glist(v['s'], g_arg)})"
    return f"(AInt {gz(v)})"


def g_res(r):
    if isinstance(r, int) and not isinstance(r, bool):
        return f"(RInt {gz(r)})"
    fid, pos, dfl, rest = r
    return f"(RApp {gz(fid)} {glist(pos, g_arg)} {glist(dfl, lambda d: gopt(d, g_arg))} {glist(rest, g_arg)})"


def g_out(o):
    if not isinstance(o, list):
        return "(@None (list res))"      # typed: a chunk whose outcomes are all Err must still elaborate
    if not o:
        return "(Some (@nil res))"
    return f"(Some {glist(o, g_res)})"


def fn_id(f):
    return 1000 * (1 if f["arith"] else 0) + 100 * f["nreq"] + 10 * f["ndef"] + (1 if f["var"] else 0)


def g_case(c, perm):
    f = c["fn"]
    gf = (f"{{| fid := {gz(fn_id(f))}; nreq := {gnat(f['nreq'])}; ndef := {gnat(f['ndef'])}; "
          f"fvar := {gbool(f['var'])}; farith := {gbool(f['arith'])} |}}")
    if c["op"] == "submit":
        op = f"OSubmit {glist(c['data'], g_arg)}"
    elif c["op"] == "map":
        op = f"OMap {glist(c['data'], lambda it: glist(it, g_arg))}"
    else:
        op = f"OStarmap {glist(c['data'], lambda it: glist(it, g_arg))}"
    kw = glist(c["kw"], lambda kv: f"({gnat(kv[0])}, {g_arg(kv[1])})")
    return (f"{{| c_be := {BE[c['be']]}; c_perm := {glist(perm, gnat)}; c_fn := {gf}; "
            f"c_kw := {kw}; c_op := {op} |}}")


def fallback_perm(c):
    k = len(c["data"]) + 1
    for x in c["data"]:
        if isinstance(x, list):
            k = max(k, len(x) + 1)
    return list(range(k))


def in_contract(c):
    d = c["data"]
    if c["op"] == "submit":
        return True
    if c["op"] == "map":
        return len(d) >= 1 and (c["be"] != "mp_pool" or len({len(x) for x in d}) == 1)
    if c["be"] in ("serial", "mp_pool") or not d:
        return True
    ws = {len(r) for r in d}
    return len(ws) == 1 and min(ws) >= 1


HEADER = "From PLV Require Import Disc.ExecutorModel."


def run(ctx):
    import time as _t
    ph, t0 = {}, _t.time()
    ctx.coq_props()
    ph["props"] = round(_t.time() - t0, 1)
    rng = ctx.rng
    quick = ctx.tier == "quick"
    maxw = 8 if quick else 16
    cases = corpus()
    n_fast = 330 if quick else 3000
    for _ in range(n_fast):
        be = "serial" if rng.random() < 0.22 else "cf_threadpool"
        w = 1 if be == "serial" else rng.randint(1, maxw)
        cases.append(gen_case(rng, be, w, rng.random() < 0.3, not quick))
    pools = ([("mp_pool", rng.randint(1, maxw)), ("cf_procpool", rng.randint(1, maxw))] if quick else
             [("mp_pool", w) for w in (1, 3, rng.randint(4, 12), 16)] +
             [("cf_procpool", w) for w in (1, 2, rng.randint(4, 12), 16)])
    per_pool = 10 if quick else 40
    for be, w in pools:
        for _ in range(per_pool):
            cases.append(gen_case(rng, be, w, True, False))
        cases.append(gen_case(rng, be, min(w, 4), False, False))

    fd, log = tempfile.mkstemp(prefix="c65log_")
    os.close(fd)
    os.environ["C65_LOG"] = log
    try:
        obs = ctx.run_impl("c65_impl.py", {"cases": cases}, timeout=1500)
    finally:
        try:
            os.unlink(log)
        except OSError:
            pass

    ph["executors"] = round(_t.time() - t0 - ph["props"], 1)
    perms = [o["perm"] if o["observed"] else fallback_perm(c) for c, o in zip(cases, obs)]
    gcs = [g_case(c, p) for c, p in zip(cases, perms)]
    # one vm_compute pass checks model-vs-executor and spec-vs-builtin; only on a failure are they told apart
    both = ctx.coq_eval_cases("cases", HEADER,
                              [f"({g}, {g_out(o['res'])}, {g_out(o['direct'])})" for g, o in zip(gcs, obs)],
                              "fun t => andb (check_case (fst (fst t), snd (fst t))) (check_spec (fst (fst t), snd t))",
                              chunk=120)
    bad, bad_spec = set(), set()
    if both:
        sub = ctx.coq_eval_cases("recheck", HEADER, [f"({gcs[i]}, {g_out(obs[i]['res'])})" for i in both], "check_case")
        bad = {both[j] for j in sub}
        sub = ctx.coq_eval_cases("respec", HEADER, [f"({gcs[i]}, {g_out(obs[i]['direct'])})" for i in both], "check_spec")
        bad_spec = {both[j] for j in sub}
        ctx.coverage["correspondence_cases"] -= 2 * len(both)
    ph["model_eval"] = round(_t.time() - t0 - ph["props"] - ph["executors"], 1)
    hist = {"map": 0, "starmap": 0, "submit": 0, "impl_err": 0, "builtin_err": 0, "kwargs": 0, "uneven_map": 0,
            "ragged_starmap": 0, "empty": 0, "single": 0, "nested_values": 0, "direct_oracle_applied": 0,
            "order_observed": 0, "order_permuted": 0, "persist": 0}
    by_be, workers_seen, distinct = {}, set(), set()
    deviating = []
    for i, (c, o) in enumerate(zip(cases, obs)):
        hist[c["op"]] += 1
        by_be[c["be"]] = by_be.get(c["be"], 0) + 1
        workers_seen.add(c["workers"])
        hist["impl_err"] += o["res"] == "ERR"
        hist["builtin_err"] += o["direct"] == "ERR"
        hist["kwargs"] += bool(c["kw"])
        hist["persist"] += bool(c["persist"])
        hist["nested_values"] += '"s"' in json.dumps(c["data"])
        if c["op"] != "submit":
            ls = [len(x) for x in c["data"]]
            if c["op"] == "map":
                hist["uneven_map"] += len(set(ls)) > 1
                ntask = min(ls) if ls else 0
            else:
                hist["ragged_starmap"] += len(set(ls)) > 1
                ntask = len(ls)
            hist["empty"] += ntask == 0
            hist["single"] += ntask == 1
        if o["observed"]:
            hist["order_observed"] += 1
            if o["perm"] != sorted(o["perm"]):
                hist["order_permuted"] += 1
                distinct.add(json.dumps(c, sort_keys=True))
        if isinstance(o["res"], dict):
            ctx.violation("type:" + json.dumps(c, sort_keys=True), {"case": c, "observed": o},
                          what="executor did not return a list")
        if i in bad_spec:
            ctx.violation("spec-tie:" + json.dumps(c, sort_keys=True), {"case": c, "builtin": o["direct"]},
                          what="Coq specification functions differ from the Python builtins (harness/model fault)")
        if i in bad:
            ctx.violation("corr:" + json.dumps(c, sort_keys=True),
                          {"case": c, "implementation": o["res"], "builtin": o["direct"], "perm": perms[i],
                           "model": "differs (see coq/Gen/C65)"},
                          what="executor result differs from the model of the dispatch code")
        if o["direct"] != "ERR" and in_contract(c):
            hist["direct_oracle_applied"] += 1
            if o["res"] != o["direct"]:
                deviating.append(i)
    # classify deviations from the builtins: reproduced by the faithful model through a known quirk?
    fcount = {k: 0 for k in FINDINGS}
    if deviating:
        dev_ok = [i for i in deviating if i not in bad]
        code = {}
        if dev_ok:
            raw = ctx.coq_eval_terms("cause", HEADER + "\nRequire Import List ZArith. Import ListNotations.",
                                     ["map cause_code " + glist([gcs[i] for i in dev_ok])])[0]
            ks = [int(x) for x in re.findall(r"-?\d+", raw.split(":")[0])]
            assert len(ks) == len(dev_ok), raw[:200]
            code = {i: k for i, k in zip(dev_ok, ks) if k in FINDINGS}
        for i in deviating:
            c, o = cases[i], obs[i]
            rep = {"case": c, "executor": o["res"], "exception": o["etype"], "builtin": o["direct"]}
            if i in code:
                key, what = FINDINGS[code[i]]
                fcount[code[i]] += 1
                ctx.violation(key, rep, what=what)
            else:
                ctx.violation("direct:" + json.dumps(c, sort_keys=True), rep,
                              what="executor result differs from the builtin call/map/starmap")
    src = (COQ / "Disc" / "ExecutorModel.v").read_text()
    m = re.search(r"Definition model_variant : variant := (\w+)\.", src)
    tt = sum(o["t"] for o in obs)
    ctx.coverage.update({
        "evaluations": len(cases), "distinct_nontrivial": len(distinct),
        "rule": "corpus (DESIGN §5.2 reproduction, kwargs, uneven, empty) then seeded generator: signature shapes nreq 0-3 / defaults 0-2 / *args / term or arithmetic; map, starmap, submit; lengths 0..12 (thorough ..40), uneven 25% of multi-iterable maps, ragged 20% of starmaps whose function accepts several widths, 8% arity-malformed, delay slots descending/random/zero; non-trivial = observed completion order differs from submission order",
        "input_distribution": {**hist, "backends": by_be, "worker_counts": sorted(workers_seen)},
        "model_variant": m.group(1) if m else "?",
        "findings": {FINDINGS[k][0]: v for k, v in fcount.items()},
        "deviations_from_builtins": len(deviating),
        "executor_seconds": round(tt, 2), "phase_seconds": ph})
    for i in (0, 2, len(corpus()) + 1, len(cases) - 2):
        ctx.sample({"case": cases[i], "observed": obs[i]["res"], "builtin": obs[i]["direct"], "perm": obs[i]["perm"]})
