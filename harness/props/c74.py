"""C74 MBQC conversion and Pauli tracking preserve the circuit."""
from vlib import *
import exactsim, itertools, math, cmath
import numpy as np

PID = "C74"
META = {
    "level": "proof",
    "technique": "Coq proof (induction over circuits and frames; per-gate tables by exhaustive kernel computation) that the Pauli tracker commutes every Pauli frame through every {H,S,CNOT} circuit, with vm_compute correspondence against pennylane.ftqc.pauli_tracker; MBQC conversion decided per measurement-outcome branch by an independent branch-enumerating state-vector reference (textbook matrices, documented measurement bases) and, for the one-qubit patterns, by exact simulation over Q(zeta_8) inside Coq",
    "design_ref": "DESIGN.md §3 C74",
    "text": "(A) Props/C74.v: commute_through_gate / commute_through_circuit state C P = u P' C (u in {1,i,-1,-i}) for every gate and every circuit over {H,S,CNOT} on any number of wires, every Pauli frame and every state, where P' is what the tracker records; semantics is built from the literal textbook matrices (semantics_is_matrix_semantics), and pauli_tracker_ok_{H,S,CNOT} restate the tables on literal 2x2/4x4 matrices with Hermitian labels (sign +-1); pauli_prod_is_product_up_to_phase for all lists; corrected_sample_undoes_frame: xor-ing a computational-basis sample with the x record undoes any frame. The transcription (pauli_to_xz, xz_to_pauli, pauli_prod, commute_clifford_op incl. its validation, _parse_mid_measurements, _get_xz_record, _correct_samples) is evaluated inside Coq on the inputs the real functions are run on: all frames of 1-2 wires, random Clifford circuits/frames, random tapes with mid-measurement records, malformed inputs. (B) convert_to_mbqc_formalism (online corrections, diagonalize_mcms False/True, and ftqc.diagonalize_mcms applied afterwards) is run on every gate of the supported set and on random 1-2 wire circuits; every outcome branch of each single gate pattern (16 branches; all 8192 of the CNOT pattern) and sampled branches of composite circuits are simulated by the harness from the serialised program (graph edges, measurement plane/angle, truth tables of the conditions) and the state on the output wires must equal the original unitary applied to one half of Bell pairs (i.e. the whole unitary up to a global phase) with every auxiliary wire back in |0>. The one-qubit patterns are additionally simulated exactly in Coq for all 16 branches on inputs |0> and |+>. get_byproduct_corrections is checked semantically: with the online corrections removed, X^x Z^z of the returned record repairs the branch state. GraphStatePrep: decomposition = H on every wire + CZ exactly on the graph edges under the sorted-node wire map. Parametric measurements: diagonalizing gates map the documented basis states to |0>,|1>.",
    "note": "Not a theorem: the full invariant of _get_xz_record with byproducts (ideal state = record applied to the actual MBQC state after every gate) - its ingredients are proved (gate commutation, Pauli products, sample correction) and the composition is tied by correspondence plus the per-branch semantic check of get_byproduct_corrections. The YZ-plane docstring of measure_arbitrary_basis was corrected in /repo (fix: commit) to the implemented cos(t/2)|0> - i sin(t/2)|1>. Trusted: Coq kernel; stdlib functional extensionality (states are functions); hand transcription of pauli_tracker.py tied by correspondence only; Hadamard is modelled as sqrt2*H (homogeneous statements). Part B is a differential/semantic check per branch, not a Gallina model of the transform: the branch simulator in this file (numpy, textbook matrices, 1e-9) is the reference; the exact Coq route covers the one-qubit gate patterns only (the 15-qubit CNOT pattern is too large for exact polynomial arithmetic) and takes its unitary gate matrices from PennyLane's matrix code via the translator, the measurement projectors from the documented formula. Branches of composite circuits are sampled. z of the xz record is read through the private _get_xz_record. Initial logical->physical wire map is read from converting an Identity-only tape. convert_to_mbqc_gateset is checked on a few circuits numerically only. Non-reset parametric measurements are outside the reference.",
    "assumptions": ["all wires start in |0>; a reset measurement returns its wire to |0>",
                    "outcome 0/1 of an XY-plane measurement with angle phi projects on (|0> +/- e^{i phi}|1>)/sqrt2 (documentation of measure_arbitrary_basis)"],
    "trusted": ["hand-written model coq/Disc/PauliTrackModel.v tied to /repo by correspondence only", "branch simulator in harness/props/c74.py", "harness/exactsim.py"],
}

# ------------------------------------------------------------------ textbook matrices (independent of PennyLane)
R2 = 1 / math.sqrt(2)
I2 = np.eye(2, dtype=complex)
MX = np.array([[0, 1], [1, 0]], dtype=complex)
MY = np.array([[0, -1j], [1j, 0]], dtype=complex)
MZ = np.array([[1, 0], [0, -1]], dtype=complex)
MH = np.array([[1, 1], [1, -1]], dtype=complex) * R2
MS = np.array([[1, 0], [0, 1j]], dtype=complex)
MCZ = np.diag([1, 1, 1, -1]).astype(complex)
MCX = np.array([[1, 0, 0, 0], [0, 1, 0, 0], [0, 0, 0, 1], [0, 0, 1, 0]], dtype=complex)
MSWAP = np.array([[1, 0, 0, 0], [0, 0, 1, 0], [0, 1, 0, 0], [0, 0, 0, 1]], dtype=complex)


def rz(t): return np.array([[cmath.exp(-0.5j * t), 0], [0, cmath.exp(0.5j * t)]])
def rx(t): return np.array([[math.cos(t / 2), -1j * math.sin(t / 2)], [-1j * math.sin(t / 2), math.cos(t / 2)]])
def ry(t): return np.array([[math.cos(t / 2), -math.sin(t / 2)], [math.sin(t / 2), math.cos(t / 2)]], dtype=complex)
def ps(t): return np.array([[1, 0], [0, cmath.exp(1j * t)]])


def gate_matrix(name, params):
    if name in ("H", "Hadamard"): return MH
    if name in ("X", "PauliX"): return MX
    if name in ("Y", "PauliY"): return MY
    if name in ("Z", "PauliZ"): return MZ
    if name in ("I", "Identity"): return I2
    if name == "S": return MS
    if name == "Adjoint(S)": return MS.conj().T
    if name == "T": return ps(math.pi / 4)
    if name == "SX": return 0.5 * np.array([[1 + 1j, 1 - 1j], [1 - 1j, 1 + 1j]])
    if name == "CZ": return MCZ
    if name == "CNOT": return MCX
    if name == "SWAP": return MSWAP
    if name == "RZ": return rz(params[0])
    if name == "RX": return rx(params[0])
    if name == "RY": return ry(params[0])
    if name == "PhaseShift": return ps(params[0])
    if name == "RotXZX": return rx(params[2]) @ rz(params[1]) @ rx(params[0])       # R = RX(omega) RZ(theta) RX(phi)
    if name == "Rot": return rz(params[2]) @ ry(params[1]) @ rz(params[0])
    raise KeyError(name)


def basis_vec(plane, angle, b):
    """documented measurement bases (measure_arbitrary_basis docstring); outcome 1 = the orthogonal state"""
    if plane == "XY":
        return np.array([1, (-1) ** b * cmath.exp(1j * angle)]) * R2
    c, s = math.cos(angle / 2), math.sin(angle / 2)
    if plane == "ZX":
        return np.array([c, s], dtype=complex) if b == 0 else np.array([-s, c], dtype=complex)
    if plane == "YZ":
        return np.array([c, -1j * s]) if b == 0 else np.array([-1j * s, c])   # cos|0> - i sin|1> (docstring as corrected in /repo)
    raise KeyError(plane)


class St:
    """state on the live wires only; a wire that is not live is in |0> and unentangled.  Gates are queued and applied
    lazily: before a wire is measured, exactly the queued gates that precede it in the per-wire order are applied
    (this only reorders gates acting on disjoint wires), which keeps the live register small."""
    def __init__(self):
        self.w, self.psi, self.pending = [], np.ones((), dtype=complex), []

    def copy(self):
        s = St(); s.w, s.psi, s.pending = list(self.w), self.psi, list(self.pending)
        return s

    def ensure(self, wires):
        for x in wires:
            if x not in self.w:
                self.psi = np.tensordot(self.psi, np.array([1, 0], dtype=complex), axes=0)
                self.w.append(x)

    def apply(self, U, wires):
        self.pending.append((U, list(wires)))

    def _apply_now(self, U, wires):
        self.ensure(wires)
        k = len(wires)
        ax = [self.w.index(x) for x in wires]
        self.psi = np.moveaxis(np.tensordot(np.asarray(U).reshape((2,) * (2 * k)), self.psi, axes=(list(range(k, 2 * k)), ax)), list(range(k)), ax)

    def flush(self, wires=None):
        if wires is None:
            todo, self.pending = self.pending, []
        else:
            need, take = set(wires), [False] * len(self.pending)
            for i in range(len(self.pending) - 1, -1, -1):
                if need.intersection(self.pending[i][1]):
                    take[i] = True
                    need.update(self.pending[i][1])
            todo = [g for g, t in zip(self.pending, take) if t]
            self.pending = [g for g, t in zip(self.pending, take) if not t]
        for U, ws in todo:
            self._apply_now(U, ws)

    def project_drop(self, wire, vec):
        self.flush([wire])
        self.ensure([wire])
        ax = self.w.index(wire)
        self.psi = np.tensordot(np.conj(vec), self.psi, axes=(0, ax))
        self.w.pop(ax)

    def project_keep(self, wire, b):
        self.flush([wire])
        P = np.zeros((2, 2), dtype=complex); P[b, b] = 1
        self._apply_now(P, [wire])

    def tensor(self, order):
        """amplitudes with axes in `order`; wires missing from the live set are |0>; extra live wires are contracted with <0|"""
        s = self.copy()
        s.flush()
        s.ensure(order)
        w2 = float(np.vdot(s.psi, s.psi).real)
        for x in list(s.w):
            if x not in order:
                s.project_drop(x, np.array([1, 0], dtype=complex))
        return np.transpose(s.psi, [s.w.index(x) for x in order]), w2


def cond_value(item, vals):
    key = [vals.get(i, 0) for i in item["mids"]]
    for k, v in item["table"]:
        if k == key:
            return bool(v)
    raise KeyError(key)


def walk(prog, st, chooser, leaf, strip=False):
    """run the serialised dynamic program; chooser(n_outcomes_so_far) -> list of outcome bits to explore"""
    def rec(pos, st, vals, outs):
        while pos < len(prog):
            it = prog[pos]
            pos += 1
            if it["t"] == "cond":
                if strip and it["then"]["t"] == "gate" and it["then"]["name"] in ("PauliX", "PauliZ"):
                    continue
                if not cond_value(it, vals):
                    continue
                it = it["then"]
            elif strip and it["t"] == "gate" and it["name"] in ("PauliX", "PauliY", "PauliZ"):
                continue
            if it["t"] == "gate":
                if it["name"] == "GlobalPhase" or not it["wires"]:
                    continue
                st.apply(gate_matrix(it["name"], it["params"]), it["wires"])
            elif it["t"] == "graph":
                for g in it["dec"]:
                    st.apply(gate_matrix(g["name"], []), g["wires"])
            elif it["t"] == "mcm":
                bits = chooser(len(outs))
                for j, b in enumerate(bits):
                    s2 = st.copy() if j + 1 < len(bits) else st
                    if it["plane"] is None:
                        if it["reset"]:
                            s2.project_drop(it["wire"], np.array([1, 0] if b == 0 else [0, 1], dtype=complex))
                        else:
                            s2.project_keep(it["wire"], b)
                    else:
                        if not it["reset"]:
                            raise NotImplementedError("parametric measurement without reset")
                        s2.project_drop(it["wire"], basis_vec(it["plane"], it["angle"], b))
                    v2 = dict(vals); v2[it["id"]] = b
                    rec(pos, s2, v2, outs + [b])
                return
            else:
                raise KeyError(it["t"])
        leaf(st, outs)
    rec(0, st, {}, [])


def unitary(ops, lw):
    """textbook unitary of the original circuit on logical wires lw, as a tensor [out..., in...]"""
    n = len(lw)
    s = St(); s.w = [("o", w) for w in lw] + [("i", w) for w in lw]
    s.psi = np.eye(2 ** n, dtype=complex).reshape((2,) * (2 * n))
    for g in ops:
        if g["name"] == "GlobalPhase" or not g["wires"]:
            continue
        s._apply_now(gate_matrix(g["name"], g.get("params", [])), [("o", w) for w in g["wires"]])
    return s.psi


REF = 1000


def check_program(ctx, tag, spec, res, variant, mode, rng, nleaf, stats):
    """mode 'all' = every branch, else number of sampled branches"""
    prog, outw = res[variant]["ops"], res[variant]["out_wires"]
    lw, inw, mw = res["logical_wires"], res["in_wires"], spec["meas_wires"]
    n = len(lw)
    U = unitary(spec["ops"], lw)
    E = U / math.sqrt(2 ** n)                                   # (U x 1)|Phi>, axes [out(lw)..., ref(lw)...]
    order = [outw[mw.index(w)] for w in lw] + [REF + i for i in range(n)]
    bad = []

    def init():
        s = St()
        for i in range(n):                                      # Bell pair between logical input i and reference i
            s.apply(MH, [inw[i]]); s.apply(MCX, [inw[i], REF + i])
        return s

    def leaf(st, outs):
        stats["branches"] += 1
        T, w = st.tensor(order)
        stats["min_w"] = min(stats["min_w"], w * 2 ** len(outs)); stats["max_w"] = max(stats["max_w"], w * 2 ** len(outs))
        ov = abs(np.vdot(E, T)) ** 2
        if not (w * 2 ** len(outs) > 1e-6 and abs(ov / w - 1) < 1e-9) and len(bad) < 3:
            bad.append({"outcomes": outs, "weight": w, "fidelity": float(ov / w) if w > 0 else None})
    if mode == "all":
        walk(prog, init(), lambda k: [0, 1], leaf)
    else:
        for _ in range(nleaf):
            walk(prog, init(), lambda k: [rng.randrange(2)], leaf)
    for b in bad[:1]:
        ctx.violation(f"mbqc:{variant}:" + json.dumps(spec, sort_keys=True)[:300],
                      {"circuit": spec, "variant": variant, "branch": b, "out_wires": outw},
                      what=f"{tag}: converted circuit ({variant}) does not implement the original unitary on the output wires for measurement outcomes {b['outcomes']} (fidelity {b['fidelity']})")
    return not bad


# ------------------------------------------------------------------ generators
PYTH = [(3, 4), (4, 3), (5, 12), (12, 5), (8, 15), (15, 8), (7, 24), (20, 21)]


def pyth_angle(rng):
    if rng.random() < 0.2:
        return rng.choice([math.pi / 2, math.pi, -math.pi / 2, 3 * math.pi / 2])
    p, q = rng.choice(PYTH)
    return 2 * math.atan2(rng.choice([1, -1]) * q, p)


def gen_circuit(rng, nw, ngates, exactable=False):
    ops = []
    for _ in range(ngates):
        r = rng.random()
        ang = (lambda: pyth_angle(rng)) if exactable or rng.random() < 0.5 else (lambda: rng.uniform(-2 * math.pi, 2 * math.pi))
        if nw > 1 and r < 0.25:
            ops.append({"name": "CNOT", "wires": rng.sample(range(nw), 2), "params": []})
        elif r < 0.45:
            ops.append({"name": "H", "wires": [rng.randrange(nw)], "params": []})
        elif r < 0.6:
            ops.append({"name": "S", "wires": [rng.randrange(nw)], "params": []})
        elif r < 0.72:
            ops.append({"name": "RZ", "wires": [rng.randrange(nw)], "params": [ang()]})
        elif r < 0.84:
            ops.append({"name": "RotXZX", "wires": [rng.randrange(nw)], "params": [ang(), ang(), ang()]})
        elif r < 0.97:
            ops.append({"name": rng.choice("XYZI"), "wires": [rng.randrange(nw)], "params": []})
        else:
            ops.append({"name": "GlobalPhase", "wires": [], "params": [rng.uniform(-3, 3)]})
    mw = list(range(nw)); rng.shuffle(mw)
    return {"ops": ops, "meas_wires": mw}


def gen_tracker_tape(rng, nw, ngates):
    """tape acceptable to get_byproduct_corrections most of the time: non-Clifford gates only first on their wire"""
    ops, touched = [], set()
    for _ in range(ngates):
        r = rng.random()
        if nw > 1 and r < 0.3:
            ws = rng.sample(range(nw), 2); ops.append({"name": "CNOT", "wires": ws, "params": []}); touched.update(ws)
            continue
        w = rng.randrange(nw)
        if r < 0.5:
            ops.append({"name": "H", "wires": [w], "params": []})
        elif r < 0.65:
            ops.append({"name": "S", "wires": [w], "params": []})
        elif r < 0.8:
            ops.append({"name": rng.choice("XYZI"), "wires": [w], "params": []})
        elif w not in touched or rng.random() < 0.15:
            if rng.random() < 0.5:
                ops.append({"name": "RZ", "wires": [w], "params": [pyth_angle(rng)]})
            else:
                ops.append({"name": "RotXZX", "wires": [w], "params": [pyth_angle(rng) for _ in range(3)]})
        else:
            ops.append({"name": "H", "wires": [w], "params": []})
        touched.add(w)
    return ops


def tape_valid_offline(ops):
    touched = set()
    for g in ops:
        if g["name"] in ("RZ", "RotXZX") and g["wires"][0] in touched:
            return False
        touched.update(g["wires"])
    return True


def n_mid(ops):
    return sum(13 if g["name"] == "CNOT" else 4 for g in ops if g["name"] in ("H", "S", "RZ", "RotXZX", "CNOT"))


# ------------------------------------------------------------------ Gallina printers
def g_xz(p): return f"({gbool(bool(p[0]))}, {gbool(bool(p[1]))})"
def g_pauli(n): return "P" + n


def g_tgate(g):
    n, w = g["name"], g["wires"]
    if n in ("H", "S", "RZ", "RotXZX"):
        return f"TG1 {dict(H='K_H', S='K_S', RZ='K_RZ', RotXZX='K_ROT')[n]} {w[0]}"
    if n == "CNOT":
        return f"TCNOT {w[0]} {w[1]}"
    if n in "XYZI":
        return f"TP P{n} {w[0]}"
    return f"TOther {glist(w)}"


def g_case(c, o):
    k = c["k"]
    if k == "commute":
        cop = {"H": "CH", "S": "CS", "CNOT": "CCNOT"}.get(c["op"], f"(COther {len(c['wires'])})")
        exp = "None" if o == "ERR" else f"(Some {glist(o, g_xz)})"
        return f"KCommute {cop} {glist(c['xz'], lambda t: glist(t, gz))} {exp}"
    if k == "prod":
        exp = "None" if o == "ERR" else f"(Some {g_xz(o)})"
        return f"KProd {glist(c['ops'], lambda n: '(Some P' + n + ')' if n in 'XYZI' else 'None')} {exp}"
    if k == "toxz":
        return f"KToXZ P{c['p']} {g_xz(o)}"
    if k == "topauli":
        return f"KToPauli {gz(c['x'])} {gz(c['z'])} " + ("None" if o == "ERR" else f"(Some P{o})")
    if k == "track":
        gs = glist(c["gates"], lambda g: (f"GH {g[1]}" if g[0] == "H" else f"GS {g[1]}" if g[0] == "S" else f"GCX {g[1]} {g[2]}"))
        return f"KTrack {gs} {glist(c['frame'], g_xz)} {glist(o, g_xz)}"
    if k == "byprod":
        bl = lambda l: glist(l, lambda b: gbool(bool(b)))
        head = f"{glist(c['ops'], lambda g: '(' + g_tgate(g) + ')')} {glist(c['mw'])} {bl(c['mid'])} {bl(c['vals'])}"
        if o == "ERR":
            return f"KByprod {head} None"
        if o["x"] is None:
            return f"KByprodPublic {head} (Some {bl(o['corr'])})"
        return f"KByprod {head} (Some ({bl(o['corr'])}, {bl(o['x'])}, {bl(o['z'])}))"
    raise KeyError(k)


# ------------------------------------------------------------------ direct numeric oracles for the tracker
def pauli_mat(x, z):
    return np.linalg.matrix_power(MX, x) @ np.linalg.matrix_power(MZ, z)


def frame_mat(F):
    M = np.ones((1, 1), dtype=complex)
    for x, z in F:
        M = np.kron(M, pauli_mat(x, z))
    return M


def embed(U, wires, n):
    s = St(); s.w = [("o", i) for i in range(n)] + [("i", i) for i in range(n)]
    s.psi = np.eye(2 ** n, dtype=complex).reshape((2,) * (2 * n))
    s._apply_now(U, [("o", w) for w in wires])
    return s.psi.reshape(2 ** n, 2 ** n)


def prop_phase(A, B):
    """A = u B with u in {1, i, -1, -i}"""
    return any(np.allclose(A, u * B, atol=1e-9) for u in (1, 1j, -1, -1j))


def run(ctx):
    import time
    T0 = time.time(); timing = {}
    ctx.coq_props()
    timing["coq_props"] = round(time.time() - T0, 1)
    rng = ctx.rng
    quick = ctx.tier == "quick"
    # ================================================================ B: conversion request
    circuits = []
    singles = [{"name": "H", "wires": [0], "params": []}, {"name": "S", "wires": [0], "params": []},
               {"name": "RZ", "wires": [0], "params": [pyth_angle(rng)]}, {"name": "RZ", "wires": [0], "params": [rng.uniform(-6, 6)]},
               {"name": "RotXZX", "wires": [0], "params": [pyth_angle(rng) for _ in range(3)]},
               {"name": "RotXZX", "wires": [0], "params": [rng.uniform(-6, 6) for _ in range(3)]}]
    for i, g in enumerate(singles):
        circuits.append(("single_exact" if i in (0, 1, 2, 4) else "single", {"ops": [g], "meas_wires": [0]}))
    circuits.append(("single", {"ops": [{"name": "CNOT", "wires": [0, 1], "params": []}], "meas_wires": [0, 1]}))
    circuits.append(("single", {"ops": [{"name": "CNOT", "wires": [1, 0], "params": []}], "meas_wires": [1, 0]}))
    for g in ("X", "Y", "Z", "I"):
        circuits.append(("single", {"ops": [{"name": g, "wires": [0], "params": []}, {"name": "H", "wires": [1], "params": []}], "meas_wires": [1, 0]}))
    for _ in range(10 if quick else 60):
        nw = rng.choice([1, 2, 2])
        circuits.append(("random", gen_circuit(rng, nw, rng.randint(2, 4 if quick else 6))))
    n_off = 8 if quick else 40
    for _ in range(n_off):
        nw = rng.choice([1, 2, 2, 3])
        ops = gen_tracker_tape(rng, nw, rng.randint(1, 4 if quick else 6))
        while not tape_valid_offline(ops):
            ops = gen_tracker_tape(rng, nw, rng.randint(1, 4))
        used = sorted({w for g in ops for w in g["wires"]})
        ops = [dict(g, wires=[used.index(w) for w in g["wires"]]) for g in ops]     # contiguous wire labels
        mw = list(range(len(used))); rng.shuffle(mw)
        circuits.append(("offline", {"ops": ops, "meas_wires": mw}))
    for _ in range(3 if quick else 12):
        circuits.append(("exact", gen_circuit(rng, 1, rng.randint(2, 3), exactable=True)))
    graphs = []
    for _ in range(12 if quick else 80):
        n = rng.randint(1, 7)
        labels = rng.sample(range(-5, 40), n)
        edges = [[a, b] for a, b in itertools.combinations(labels, 2) if rng.random() < 0.4]
        wires = rng.sample(range(20), n)
        graphs.append({"nodes": labels, "edges": edges, "wires": wires})
    mcms = [{"kind": "x", "reset": True}, {"kind": "y", "reset": False}]
    for plane in ("XY", "ZX", "YZ"):
        for _ in range(3 if quick else 10):
            mcms.append({"kind": "arb", "plane": plane, "angle": rng.uniform(-6, 6), "reset": rng.random() < 0.5})
    gateset = [{"ops": [{"name": "Rot", "wires": [0], "params": [rng.uniform(-3, 3) for _ in range(3)]}, {"name": "T", "wires": [0], "params": []},
                        {"name": "RX", "wires": [1], "params": [rng.uniform(-3, 3)]}, {"name": "CZ", "wires": [0, 1], "params": []},
                        {"name": "SX", "wires": [1], "params": []}, {"name": "SWAP", "wires": [0, 1], "params": []}], "meas_wires": [0, 1]}]
    # initial logical->physical map: also convert Identity-only tapes on the same (ordered) wire sets
    def tape_wires(spec):
        ws = []
        for w in [w for g in spec["ops"] for w in g["wires"]] + spec["meas_wires"]:
            if w not in ws:
                ws.append(w)
        return tuple(ws)
    lws = sorted({tape_wires(c) for _, c in circuits})
    idspecs = [{"ops": [{"name": "I", "wires": [w], "params": []} for w in lw], "meas_wires": list(lw)} for lw in lws]
    conv = ctx.run_impl("c74_impl.py", {"mode": "convert", "circuits": [c for _, c in circuits] + idspecs, "graphs": graphs, "mcms": mcms, "gateset": gateset}, timeout=3000)
    inmap = {lw: r["mbqc"]["out_wires"] for lw, r in zip(lws, conv["circuits"][len(circuits):])}
    timing["convert"] = round(time.time() - T0, 1)
    stats = {"branches": 0, "min_w": 9.0, "max_w": 0.0, "programs": 0, "cnot_full": 0, "graph_items": 0, "offline_branches": 0, "exact_branches": 0}
    tracker_cases, pending_off, exact_req, exact_meta = [], [], [], []
    for (tag, spec), res in zip(circuits, conv["circuits"]):
        if "error" in res:
            ctx.violation("convert-error:" + json.dumps(spec, sort_keys=True)[:300], {"circuit": spec, "error": res["error"]},
                          what="convert_to_mbqc_formalism raised on a circuit over the supported gate set")
            continue
        if tuple(res["logical_wires"]) != tape_wires(spec):
            raise RuntimeError(f"harness: tape wire order {res['logical_wires']} differs from the predicted {tape_wires(spec)}")
        res["in_wires"] = inmap[tuple(res["logical_wires"])]
        # graph-state structure: H on every wire, CZ exactly on the graph edges under the sorted-node wire map
        for variant in ("mbqc", "mbqc_diag", "mbqc_then_diag"):
            for it in res[variant]["ops"]:
                if it["t"] == "graph":
                    stats["graph_items"] += 1
                    hs = [g["wires"][0] for g in it["dec"] if g["name"] == "Hadamard"]
                    czs = sorted(sorted(g["wires"]) for g in it["dec"] if g["name"] == "CZ")
                    want = sorted(sorted([it["wires"][a], it["wires"][b]]) for a, b in it["edges"])
                    if sorted(hs) != sorted(it["wires"]) or czs != want or len(it["dec"]) != len(hs) + len(czs):
                        ctx.violation("graphprep:" + json.dumps(it, sort_keys=True)[:300], {"item": it}, what="GraphStatePrep decomposition is not H^n followed by CZ on the graph edges")
        ncnot = sum(1 for g in spec["ops"] if g["name"] == "CNOT")
        nmeas = n_mid(spec["ops"])
        for variant in ("mbqc", "mbqc_diag", "mbqc_then_diag"):
            stats["programs"] += 1
            if tag.startswith("single"):
                mode = "all"
                stats["cnot_full"] += (nmeas == 13)
            else:
                mode = "sample"
            check_program(ctx, tag, spec, res, variant, mode, rng, (24 if quick else 64) if ncnot == 0 else (12 if quick else 32), stats)
        if tag == "offline":
            # offline scheme: online Pauli corrections and physical Pauli gates removed; the record must repair the state
            prog, outw = res["mbqc"]["ops"], res["mbqc"]["out_wires"]
            lw, inw, mw = res["logical_wires"], res["in_wires"], spec["meas_wires"]
            n = len(lw)
            E = unitary(spec["ops"], lw) / math.sqrt(2 ** n)
            order = [outw[mw.index(w)] for w in lw] + [REF + i for i in range(n)]
            for _ in range(4 if quick else 8):
                s = St()
                for i in range(n):
                    s.apply(MH, [inw[i]]); s.apply(MCX, [inw[i], REF + i])
                got = []
                walk(prog, s, lambda k: [rng.randrange(2)], lambda st, outs: got.append((st, outs)), strip=True)
                st, outs = got[0]
                vals = [rng.randrange(2) for _ in mw]
                tracker_cases.append({"k": "byprod", "ops": spec["ops"], "mw": mw, "mid": outs, "vals": vals})
                pending_off.append((len(tracker_cases) - 1, st, order, E, lw, spec))
        if tag in ("exact", "single_exact"):
            prog, outw, inw = res["mbqc"]["ops"], res["mbqc"]["out_wires"], res["in_wires"]
            nm = n_mid(spec["ops"])
            branches = list(itertools.product([0, 1], repeat=nm)) if nm <= 4 else [tuple(rng.randrange(2) for _ in range(nm)) for _ in range(4)]
            if tag == "exact" and quick:
                branches = branches[:3]
            NS = 5                                                   # one-qubit patterns never hold more than 5 wires
            for br in branches:
                for inp in ("0", "+"):
                    # physical wires are mapped to NS slots; a slot is released when its wire is measured and reset
                    slots, free, ok = {}, list(range(NS)), True

                    def sl(w):
                        if w not in slots:
                            if not free:
                                raise OverflowError
                            slots[w] = free.pop(0)
                        return slots[w]
                    try:
                        gates = [{"name": "Hadamard", "wires": [sl(inw[0])], "params": []}] if inp == "+" else [{"name": "Identity", "wires": [sl(inw[0])], "params": []}]
                        vals, k = {}, 0
                        for it in prog:
                            if it["t"] == "cond":
                                if not cond_value(it, vals):
                                    continue
                                it = it["then"]
                            if it["t"] == "gate":
                                if it["wires"] and it["name"] != "GlobalPhase":
                                    gates.append({"name": it["name"], "wires": [sl(w) for w in it["wires"]], "params": it["params"]})
                            elif it["t"] == "graph":
                                gates += [{"name": g["name"], "wires": [sl(w) for w in g["wires"]], "params": []} for g in it["dec"]]
                            else:
                                b = br[k]; k += 1
                                vals[it["id"]] = b
                                gates.append({"name": "MeasReset", "wires": [sl(it["wire"])], "angle": it["angle"], "b": b})
                                free.append(slots.pop(it["wire"]))
                        out_slot = sl(outw[0])
                    except OverflowError:
                        stats["exact_skipped"] = stats.get("exact_skipped", 0) + 1
                        continue
                    exact_req.append({"n": NS, "gates": gates})
                    exact_meta.append({"spec": spec, "branch": list(br), "input": inp, "n": NS, "out": out_slot, "nm": nm})
    timing["branch_sim"] = round(time.time() - T0, 1)
    # ================================================================ A: tracker cases
    a_start = len(tracker_cases)
    for op, nwires in (("H", 1), ("S", 1), ("CNOT", 2)):
        for fr in itertools.product([0, 1], repeat=2 * nwires):                      # exhaustive over all frames
            for wires in ([[0], [3]] if nwires == 1 else [[0, 1], [1, 0], [2, 5]]):
                tracker_cases.append({"k": "commute", "op": op, "wires": wires, "xz": [list(fr[2 * i:2 * i + 2]) for i in range(nwires)]})
    for _ in range(60 if quick else 400):                                            # malformed stream
        op = rng.choice(["H", "S", "CNOT", "X", "T", "CZ", "SWAP", "Z"])
        nwires = 2 if op in ("CNOT", "CZ", "SWAP") else 1
        ln = rng.choice([nwires, nwires, nwires, 0, 1, 2, 3])
        xzl = [[rng.choice([0, 1, 0, 1, 2, -1]) for _ in range(rng.choice([2, 2, 2, 2, 1, 3]))] for _ in range(ln)]
        tracker_cases.append({"k": "commute", "op": op, "wires": list(range(nwires)), "xz": xzl})
    for L in range(0, 4):
        for ops in itertools.product("IXYZ", repeat=L):
            tracker_cases.append({"k": "prod", "ops": list(ops), "as_class": False})
    for _ in range(60 if quick else 400):
        L = rng.randint(1, 9)
        ops = [rng.choice("IXYZ") for _ in range(L)]
        if rng.random() < 0.2:
            ops[rng.randrange(L)] = rng.choice(["H", "S", "T"])
        tracker_cases.append({"k": "prod", "ops": ops, "as_class": rng.random() < 0.3})
    for p in "IXYZ":
        for cl in (False, True):
            tracker_cases.append({"k": "toxz", "p": p, "as_class": cl})
    for x in (-1, 0, 1, 2):
        for z in (-1, 0, 1, 2):
            tracker_cases.append({"k": "topauli", "x": x, "z": z})
    for _ in range(120 if quick else 800):                                           # random Clifford circuits and frames
        n = rng.randint(1, 4)
        gates = []
        for _ in range(rng.randint(0, 8)):
            if n > 1 and rng.random() < 0.4:
                c, t = rng.sample(range(n), 2); gates.append(["CNOT", c, t])
            else:
                gates.append([rng.choice(["H", "S"]), rng.randrange(n)])
        tracker_cases.append({"k": "track", "gates": gates, "frame": [[rng.randrange(2), rng.randrange(2)] for _ in range(n)]})
    for _ in range(150 if quick else 1000):                                          # tapes with mid-measurement records
        nw = rng.choice([1, 2, 2, 3, 4])
        ops = gen_tracker_tape(rng, nw, rng.randint(0, 6))
        if rng.random() < 0.06:
            ops.insert(rng.randrange(len(ops) + 1), {"name": "T", "wires": [rng.randrange(nw)], "params": []})
        mw = rng.sample(range(nw), rng.randint(1, nw))
        nm = n_mid(ops)
        if rng.random() < 0.08:
            nm = max(0, nm - rng.randint(1, 5))
        elif rng.random() < 0.08:
            nm += rng.randint(1, 3)
        tracker_cases.append({"k": "byprod", "ops": ops, "mw": mw, "mid": [rng.randrange(2) for _ in range(nm)], "vals": [rng.randrange(2) for _ in mw]})
    # "track" cases are executed by iterating the real commute_clifford_op: expand to a byprod-free driver request
    drv_cases = []
    for c in tracker_cases:
        drv_cases.append(c)
    out = ctx.run_impl("c74_impl.py", {"mode": "tracker", "cases": drv_cases, "exact": exact_req}, timeout=3000)
    timing["tracker_impl"] = round(time.time() - T0, 1)
    obs = out["cases"]
    terms = [g_case(c, o) for c, o in zip(tracker_cases, obs)]
    badidx = ctx.coq_eval_cases("cases", "From PLV Require Import Disc.PauliTrackModel.", [f"({t})" for t in terms], "check_case")
    timing["coq_cases"] = round(time.time() - T0, 1)
    hist = {}
    nontrivial = set()
    for i, (c, o) in enumerate(zip(tracker_cases, obs)):
        k = c["k"]
        hist[k] = hist.get(k, 0) + 1
        if o == "ERR":
            hist[k + "_err"] = hist.get(k + "_err", 0) + 1
        # direct oracles on the implementation's own output (textbook numpy matrices)
        if k == "commute" and o != "ERR":
            U = {"H": MH, "S": MS, "CNOT": MCX}[c["op"]]
            if not prop_phase(U @ frame_mat(c["xz"]), frame_mat(o) @ U):
                ctx.violation("direct:commute:" + json.dumps(c, sort_keys=True), {"case": c, "returned": o},
                              what="commute_clifford_op: C P is not a phase times P' C for the returned frame P'")
            nontrivial.add(json.dumps(c, sort_keys=True))
        elif k == "track" and o != "ERR":
            n = len(c["frame"])
            U = np.eye(2 ** n, dtype=complex)
            for g in c["gates"]:
                U = embed({"H": MH, "S": MS, "CNOT": MCX}[g[0]], g[1:], n) @ U
            if not prop_phase(U @ frame_mat(c["frame"]), frame_mat(o) @ U):
                ctx.violation("direct:track:" + json.dumps(c, sort_keys=True), {"case": c, "returned": o},
                              what="iterated commute_clifford_op: C P C^dagger is not (a phase times) the tracked frame for this Clifford circuit")
            if c["gates"]:
                nontrivial.add(json.dumps(c, sort_keys=True))
        elif k == "prod" and o != "ERR":
            Mt = np.eye(2, dtype=complex)
            for nme in c["ops"]:
                Mt = Mt @ gate_matrix(nme, [])
            if not prop_phase(Mt, pauli_mat(*o)):
                ctx.violation("direct:prod:" + json.dumps(c, sort_keys=True), {"case": c, "returned": o}, what="pauli_prod is not the operator product up to a phase")
        elif k == "byprod" and o != "ERR":
            nontrivial.add(json.dumps(c, sort_keys=True))
            if o["x"] is not None and o["corr"] != [v ^ o["x"][w] for v, w in zip(c["vals"], c["mw"])]:
                ctx.violation("direct:corr:" + json.dumps(c, sort_keys=True)[:300], {"case": c, "returned": o}, what="corrected samples are not raw samples xor recorded x")
    for i in badidx:
        ctx.violation("corr:" + json.dumps(tracker_cases[i], sort_keys=True)[:400], {"case": tracker_cases[i], "implementation": obs[i], "gallina": terms[i][:600]},
                      what="pauli_tracker implementation differs from the proved model")
    # offline corrections: X^x Z^z of the record repairs the uncorrected branch state
    for idx, st, order, E, lw, spec in pending_off:
        o = obs[idx]
        c = tracker_cases[idx]
        stats["offline_branches"] += 1
        if o == "ERR" or o["x"] is None:
            ctx.violation("offline-error:" + json.dumps(spec, sort_keys=True)[:300], {"case": c, "returned": o}, what="get_byproduct_corrections raised on a supported tape")
            continue
        n = len(lw)
        for i, w in enumerate(lw):                       # record is indexed by logical wire label
            st.apply(pauli_mat(o["x"][w], o["z"][w]), [order[i]])
        T, wgt = st.tensor(order)
        ov = abs(np.vdot(E, T)) ** 2
        if not (wgt * 2 ** len(c["mid"]) > 1e-6 and abs(ov / wgt - 1) < 1e-9):
            ctx.violation("offline:" + json.dumps(spec, sort_keys=True)[:300], {"circuit": spec, "mid_meas": c["mid"], "record": o, "fidelity": float(ov / wgt) if wgt > 0 else None},
                          what="the (x, z) record of get_byproduct_corrections does not repair the uncorrected MBQC branch state")
    # exact route: Coq simulates the branch circuits over Q(zeta_8)
    ex_ok = [(m, t) for m, t in zip(exact_meta, out["exact"]) if t is not None]
    states = exactsim.exact_states(ctx, "branch", [(m["n"], t) for m, t in ex_ok], chunk=16) if ex_ok else []
    timing["coq_exact"] = round(time.time() - T0, 1)
    for (m, _), psi in zip(ex_ok, states):
        stats["exact_branches"] += 1
        U = unitary(m["spec"]["ops"], [0])
        phi = U @ (np.array([1, 0], dtype=complex) if m["input"] == "0" else np.array([R2, R2], dtype=complex))
        exp = np.zeros((2,) * m["n"], dtype=complex)
        idx = [0] * m["n"]
        for b in (0, 1):
            idx[m["out"]] = b; exp[tuple(idx)] = phi[b]
        exp = exp.reshape(-1)
        w = float(np.vdot(psi, psi).real)
        ov = abs(np.vdot(exp, psi)) ** 2
        if not (abs(w * 2 ** m["nm"] - 1) < 1e-9 and abs(ov / w - 1) < 1e-9):
            ctx.violation("mbqc-exact:" + json.dumps([m["spec"], m["branch"], m["input"]], sort_keys=True)[:300],
                          {"circuit": m["spec"], "branch": m["branch"], "input": m["input"], "weight": w, "fidelity": float(ov / w) if w > 0 else None},
                          what="exact (Coq) simulation of the MBQC branch does not give the original gate applied to the input")
    # GraphStatePrep on random graphs
    for g, dec in zip(graphs, conv["graphs"]):
        nodes = sorted(g["nodes"]); wm = dict(zip(nodes, g["wires"]))
        want = sorted(sorted([wm[a], wm[b]]) for a, b in g["edges"])
        ok = dec != "ERR" and [d["wires"][0] for d in dec if d["name"] == "Hadamard"] == g["wires"] \
            and sorted(sorted(d["wires"]) for d in dec if d["name"] == "CZ") == want and len(dec) == len(g["wires"]) + len(want)
        if not ok:
            ctx.violation("graphprep:" + json.dumps(g, sort_keys=True)[:300], {"graph": g, "decomposition": dec}, what="GraphStatePrep decomposition is not H on every wire followed by CZ on the graph edges (sorted-node wire map)")
    # parametric measurements: diagonalizing gates map the documented basis to the computational basis
    for m, r in zip(mcms, conv["mcms"]):
        pl, ang = r["mcm"]["plane"], r["mcm"]["angle"]
        want = {"x": ("XY", 0.0), "y": ("XY", math.pi / 2)}.get(m["kind"], (m.get("plane"), m.get("angle")))
        U = np.eye(2, dtype=complex)
        for g in r["diag"]:
            U = gate_matrix(g["name"], g["params"]) @ U
        okb = all(abs(abs((U @ basis_vec(want[0], want[1], b))[b]) - 1) < 1e-9 for b in (0, 1))
        okm = pl == want[0] and abs(ang - want[1]) < 1e-12 and r["mcm"]["reset"] == m["reset"] and r["queued"]
        if not okm:
            ctx.violation("mcm-meta:" + json.dumps(m, sort_keys=True), {"request": m, "got": r}, what="parametric mid-circuit measurement has the wrong plane/angle/reset")
        if not okb:
            key = "mcm-basis:" + json.dumps(m, sort_keys=True)
            ctx.violation(key, {"request": m, "diagonalizing_gates": r["diag"], "documented_basis_state_0": [str(v) for v in basis_vec(want[0], want[1], 0)],
                                "image_under_diagonalizing_gates": [str(v) for v in U @ basis_vec(want[0], want[1], 0)]},
                          what=f"diagonalizing gates of a {want[0]}-plane measurement do not map the documented basis states to |0>, |1>")
    # convert_to_mbqc_gateset: numerically the same unitary, only supported gates
    for spec, res in zip(gateset, conv["gateset"]):
        if isinstance(res, str):
            ctx.violation("gateset-error:" + json.dumps(spec, sort_keys=True)[:300], {"circuit": spec, "error": res}, what="convert_to_mbqc_gateset raised")
            continue
        bad_names = [g["name"] for g in res if g["name"] not in ("CNOT", "Hadamard", "S", "RotXZX", "RZ", "PauliX", "PauliY", "PauliZ", "Identity", "GlobalPhase")]
        U0 = unitary(spec["ops"], [0, 1]).reshape(4, 4); U1 = unitary(res, [0, 1]).reshape(4, 4)
        if bad_names or abs(abs(np.trace(U0.conj().T @ U1)) - 4) > 1e-8:
            ctx.violation("gateset:" + json.dumps(spec, sort_keys=True)[:300], {"circuit": spec, "converted": res, "unsupported": bad_names}, what="convert_to_mbqc_gateset changed the unitary or left gates outside the MBQC gate set")
    ctx.coverage.update({"evaluations": len(tracker_cases) + stats["branches"] + stats["offline_branches"] + stats["exact_branches"],
                         "distinct_nontrivial": len(nontrivial) + stats["branches"],
                         "rule": "A: exhaustive frames for H,S,CNOT + malformed stream + random Clifford circuits/frames + random tapes with mid-measurement records; B: every branch of each single-gate pattern (CNOT: all 8192, each variant), sampled branches of random 1-2 wire circuits, 3 conversion variants",
                         "input_distribution": hist, "mbqc": {k: (round(v, 9) if isinstance(v, float) else v) for k, v in stats.items()},
                         "cumulative_seconds": timing, "exact_not_representable": sum(1 for t in out["exact"] if t is None)})
    for c, o in list(zip(tracker_cases, obs))[a_start:a_start + 2]:
        ctx.sample({"case": c, "observed": o})
    ctx.sample({"mbqc_circuit": circuits[2][1]})
