"""C11 Declared decomposition resources match the emitted gates."""
from vlib import *
import collections

PID = "C11"
META = {
    "level": "proof",
    "engine": "qsym-translator",
    "technique": "Coq theorem (soundness of the counting checker, all streams) + vm_compute evaluation of the checker on gate streams and declarations regenerated from /repo for every catalogued rule instance",
    "design_ref": "DESIGN.md §3 C11",
    "text": "For every catalogued operator instance x applicable registered rule (same instance space as C10) the rule is executed, each emitted operator is mapped to its compressed resource representation with the repo's own abstractify, and the declared resources / exactness flag / work-wire spec are read from the rule. The Gallina checker check_case (exact: per-type counts equal and nothing undeclared; inexact: emitted types subset of declared; peak live allocations <= declared work wires) is evaluated inside Coq on these data; theorem resources_check_sound states what a passing case means for every resource type and every prefix of the allocation stream.",
    "note": "Trusted: Coq kernel; harness extraction (rule execution, abstractify, canonicalisation of resource reps that ignores dtype/weak_type and dict print order); rules whose resource function cannot be evaluated are listed in the evidence, not alarmed. Structure enumerated up to the catalogue bounds.",
    "assumptions": ["resource types are compared after dtype-insensitive canonicalisation of the compressed representation"],
    "trusted": ["harness/qrules.py catalogue; repo's abstractify as the definition of a resource type"],
}


def run(ctx):
    ctx.coq_props()
    items = ctx.run_impl("c11_impl.py", {"tier": ctx.tier, "seed": ctx.seed}, timeout=1800)
    ok = [i for i in items if i["status"] == "ok"]
    terms, direct_bad = [], []
    for i in ok:
        codes = {}
        for k in list(i["declared"]) + i["emitted"]:
            codes.setdefault(k, len(codes) + 1)
        em = [codes[k] for k in i["emitted"]]
        dec = [(codes[k], v) for k, v in i["declared"].items()]
        terms.append(f"mkCase {glist(em, gz)} {glist(dec, lambda p: f'({gz(p[0])}, {gz(p[1])})')} {gbool(i['exact'])} {glist(i['allocs'], gz)} {gz(i['work'])}")
    bad = ctx.coq_eval_cases("cases", "From PLV Require Import Disc.DecompResModel.", terms, "check_case")
    for b in bad:
        i = ok[b]
        act = collections.Counter(i["emitted"])
        diff = {k: (act.get(k, 0), i["declared"].get(k, 0)) for k in set(act) | set(i["declared"]) if act.get(k, 0) != i["declared"].get(k, 0)}
        ctx.violation(f"res:{i['label']}:{i['rule']}", {"operator": i["label"], "rule": i["rule"], "exact": i["exact"],
                      "emitted_vs_declared": diff, "allocs": i["allocs"], "declared_work_wires": i["work"]},
                      what=f"declared resources of rule {i['rule']} for {i['label']} do not match the emitted gates")
    errs = [i for i in items if i["status"] != "ok"]
    base_p = VERIF / "harness" / "expected_c11.json"
    cur = sorted({(i["label"], i["rule"]) for i in ok})
    if os.environ.get("VERIF_WRITE_BASELINE") and not bad:
        old = set(tuple(x) for x in json.loads(base_p.read_text())) if base_p.exists() else set()
        base_p.write_text(json.dumps(sorted(old | set(cur)), indent=0))
    if base_p.exists():
        base = set(tuple(x) for x in json.loads(base_p.read_text()))
        st = {(i["label"], i["rule"]): i for i in items}
        for lab, rule in sorted(base):
            i = st.get((lab, rule))
            if i is not None and i["status"] != "ok":
                ctx.violation(f"tie:{lab}:{rule}", {"operator": lab, "rule": rule, "detail": i.get("detail"),
                              "no_longer_checks": "resource extraction of this rule"}, found_input=False,
                              what=f"resources of rule {rule} for {lab} can no longer be evaluated")
    ctx.coverage.update({"evaluations": len(items), "distinct_nontrivial": len({(i["label"], i["rule"]) for i in ok if len(i["emitted"]) >= 2}),
                         "rule": "catalogue instances x applicable rules; non-trivial = rule emitting >= 2 gates",
                         "exact_rules": sum(i["exact"] for i in ok), "inexact_rules": sum(not i["exact"] for i in ok),
                         "with_allocations": sum(bool(i["allocs"]) for i in ok),
                         "not_evaluable": [(i["label"], i["rule"], i.get("detail", "")[:80]) for i in errs][:30]})
    for i in ok[:3]:
        ctx.sample({"operator": i["label"], "rule": i["rule"], "emitted": len(i["emitted"]), "declared": list(i["declared"].values()), "exact": i["exact"]})
