"""C23 Compile pipelines compose transforms and route results correctly."""
from vlib import *

PID = "C23"
META = {
    "level": "proof",
    "technique": "Coq proofs by induction over a Gallina transcription of CompilePipeline (__call_tapes routing for arbitrary transforms; container/marker operations) + vm_compute correspondence against the real CompilePipeline on term-algebra transforms and random edit histories",
    "design_ref": "DESIGN.md §3 C23",
    "text": "Props/C23.v: pipeline_is_manual_composition proves, for ALL pipelines of arbitrary transforms (any fan-out, incl. 0), all batches and all executors, that post-processing the executed output batch equals applying the transforms one after another by hand to each input tape, in input order (induction on the pipeline + firstn/skipn slice lemma); container_refines_list_* theorems prove that append, +=, +, radd, *, insert (index in range), pop (any valid index, incl. negative, incl. removal of the expand_transform partner), int/slice indexing (step 1, normalised bounds) and remove (no expand partners) act on the underlying list exactly like the list operations, that len/iteration are those of the list and that at most one terminal transform is ever present; markers_* theorems prove for append, +, +=, * (n>=1), pop (single and expand-pair), step-1 slicing and in-range insert of a transform without expand_transform that every marker stays attached to the same boundary (same prefix or same suffix of transforms). The executable model is evaluated inside Coq on the same random pipelines/batches (free term algebra for tapes and results, so any routing error changes the term) and the same random edit histories as the real CompilePipeline; every execution tape, every post-processed result, every container state, marker map, returned transform and raised/not-raised flag is compared. Independently the by-hand composition is computed on the implementation side through the public single-tape API and compared with the pipeline result.",
    "note": "Modelled, not verified: the model is a hand transcription of compile_pipeline.py tied to /repo only by the correspondence run. Classical cotransforms / cotransform_cache (needs a QNode) and QNode-level application (__call_generic) are not modelled; transforms in the tie are synthetic (term building) rather than PennyLane's numerical transforms; exception TYPES are not compared; extend(), __contains__, __eq__, __str__/__repr__ are not modelled. Marker arithmetic is transcribed as written, including behaviour the documentation contradicts: those cases are not covered by a marker theorem and are reported from fixed corpus cases under finding:* keys (insert with a negative index, insert of a transform with an expand_transform, transform + pipeline, insert with an out-of-range index and an expand_transform). `pipeline * n` keeping markers un-duplicated at their level is documented behaviour; a failed insert/+= (TransformError) still mutating the markers is unspecified and is transcribed without alarm.",
    "assumptions": ["cotransform_cache is None (no classical cotransform post-processing)",
                    "transforms are pure functions of the tape (same tape -> same tapes and post-processing)",
                    "slice bounds follow CPython slice.indices (transcribed in the model, tied by the run)"],
    "trusted": ["hand-written model coq/Disc/PipelineModel.v tied to /repo by correspondence only",
                "harness/impl/c23_impl.py encoding of term-algebra tapes as QuantumScripts"],
}

# registry index -> (tid, expand tid, final)   (must agree with REGSPEC in impl/c23_impl.py)
REG = [(0, None, False), (1, None, False), (2, None, False), (3, 20, False), (4, 21, False),
       (0, 20, False), (5, None, True), (6, None, True), (7, 20, True), (20, None, False)]
NONFINAL = [0, 1, 2, 3, 4, 5, 9]


# ------------------------------------------------------------------ Gallina printers
def g_bt4(o, t, e, f):
    return f"(mkBT {gz(o)} {gz(t)} {gopt(e, gz)} {gbool(f)})"


def g_reg(r):
    return g_bt4(r, *REG[r])


def g_tape(t):
    return f"(TBase {gz(t[1])})" if t[0] == "B" else f"(TF {gz(t[1])} {gz(t[2])} {g_tape(t[3])})"


def g_res(r):
    if r[0] == "R":
        return f"(RRun {g_tape(r[1])})"
    return f"(RPost {gz(r[1])} {g_tape(r[2])} {glist(r[3], g_res)})"


def g_syn(s):
    return f"(mkSyn {gz(s[0])} {gz(s[1])} {gz(s[2])} {glist(s[3], gz)})"


def g_route(c, o):
    return (f"({glist(c['p'], g_syn)}, {glist(c['batch'], lambda b: f'(TBase {gz(b)})')}, "
            f"({glist(o['out'], g_tape)}, {glist(o['post'], g_res)}, {glist(o['hand'], g_res)}))")


def g_pspec(q):
    ms = glist(q["ms"], lambda m: f"({gz(m[0])}, {gopt(m[1], gz)})")
    return f"({glist(q['ts'], g_reg)}, {ms})"


def g_op(o):
    k = o["op"]
    if k == "append":
        return f"OAppend {g_reg(o['t'])}"
    if k == "iadd_t":
        return f"OIaddT {g_reg(o['t'])}"
    if k == "iadd_p":
        return f"OIaddP {g_pspec(o['q'])}"
    if k == "add_t":
        return f"OAddT {g_reg(o['t'])}"
    if k == "add_p":
        return f"OAddP {g_pspec(o['q'])}"
    if k == "radd_p":
        return f"ORaddP {g_pspec(o['q'])}"
    if k == "radd":
        return f"ORadd {g_reg(o['t'])}"
    if k == "mul":
        return f"OMul {gz(o['n'])}"
    if k == "insert":
        return f"OInsert {gz(o['i'])} {g_reg(o['t'])}"
    if k == "pop":
        return f"OPop {gz(o['i'])}"
    if k == "remove":
        return f"ORemove ({'RByBound ' + g_reg(o['t']) if o['by'] == 'bound' else 'RByTransform ' + gz(o['t'])})"
    if k == "get":
        return f"OGet {gz(o['i'])}"
    if k == "slice":
        return f"OSlice {gopt(o['a'], gz)} {gopt(o['b'], gz)} {gz(o['s'])}"
    if k == "add_marker":
        return f"OAddMarker {gz(o['l'])} {gopt(o['v'], gz)}"
    if k == "remove_marker":
        return f"ORemoveMarker {gz(o['l'])}"
    raise ValueError(k)


def g_obs(o):
    ret = "None" if o["ret"] is None else f"(Some {g_bt4(*o['ret'])})"
    marks = glist(o["marks"], lambda m: f"({gz(m[0])}, {gz(m[1])})")
    return f"({gbool(o['raised'])}, {glist(o['items'], lambda b: g_bt4(*b))}, {marks}, {ret})"


def g_hist(ops, obs):
    return f"({glist(ops, lambda o: '(' + g_op(o) + ')')}, {glist(obs, g_obs)})"


# ------------------------------------------------------------------ generators
def gen_route(rng, big):
    n = rng.choice([0, 1, 1, 2, 2, 3, 3, 4, 5] if not big else [2, 3, 4, 5, 6])
    p, cap = [], 1
    for _ in range(n):
        fans = [rng.choice([0, 1, 1, 1, 2, 2, 2, 3, 3]) for _ in range(rng.choice([1, 2, 2, 3]))]
        if cap * max(fans + [1]) > (48 if not big else 200):
            fans = [min(f, 1) for f in fans]
        cap *= max(fans + [1])
        p.append([rng.randint(0, 9), 0 if rng.random() < 0.8 else 1, 0 if rng.random() < 0.75 else 1, fans])
    batch = [rng.randint(0, 9) for _ in range(rng.choice([0, 1, 2, 2, 3, 3, 4]))]
    return {"p": p, "batch": batch, "build": rng.choice(["star", "iadd", "list"])}


def gen_pspec(rng, lab0):
    ts = [rng.choice(NONFINAL) for _ in range(rng.choice([0, 1, 1, 2, 3]))]
    if rng.random() < 0.15:
        ts.append(rng.choice([6, 7, 8]))
    n = sum(2 if REG[r][1] is not None else 1 for r in ts)
    ms, labs = [], rng.sample(range(6), rng.choice([0, 1, 1, 2]))
    for l in labs:
        ms.append([l, None if rng.random() < 0.3 else rng.randint(0, n)])
    return {"ts": ts, "ms": ms}


def gen_tr(rng):
    r = rng.random()
    if r < 0.62:
        return rng.choice([0, 1, 2, 9])
    if r < 0.9:
        return rng.choice([3, 4, 5])
    return rng.choice([6, 7, 8])


def gen_idx(rng):
    return rng.choice([0, 0, 1, 1, 2, 2, 3, 4, 5, 7, -1, -1, -2, -3, -5, -9])


def gen_op(rng, building):
    r = rng.random()
    tb = {"t": gen_tr(rng), "bound": rng.random() < 0.4}
    if building:
        if r < 0.45:
            return {"op": "append", **tb}
        if r < 0.65:
            return {"op": "iadd_t", **tb}
        if r < 0.75:
            return {"op": "iadd_p", "q": gen_pspec(rng, 0)}
        return {"op": "add_marker", "l": rng.randint(0, 5), "v": None if rng.random() < 0.5 else rng.randint(0, 4)}
    if r < 0.07:
        return {"op": "append", **tb}
    if r < 0.12:
        return {"op": "iadd_t", **tb}
    if r < 0.17:
        return {"op": "iadd_p", "q": gen_pspec(rng, 0)}
    if r < 0.22:
        return {"op": "add_t", **tb}
    if r < 0.28:
        return {"op": "add_p", "q": gen_pspec(rng, 0)}
    if r < 0.33:
        return {"op": "radd_p", "q": gen_pspec(rng, 0)}
    if r < 0.39:
        return {"op": "radd", **tb}
    if r < 0.45:
        return {"op": "mul", "n": rng.choice([0, 1, 2, 2, 3, -1]), "left": rng.random() < 0.5}
    if r < 0.60:
        return {"op": "insert", "i": gen_idx(rng), **tb}
    if r < 0.72:
        return {"op": "pop", "i": gen_idx(rng)}
    if r < 0.79:
        return {"op": "remove", "t": rng.choice([0, 1, 2, 3, 4, 5, 9, 9, 3]), "by": rng.choice(["bound", "transform"])}
    if r < 0.83:
        return {"op": "get", "i": gen_idx(rng)}
    if r < 0.92:
        opt = lambda: None if rng.random() < 0.35 else gen_idx(rng)
        return {"op": "slice", "a": opt(), "b": opt(), "s": rng.choice([1, 1, 1, 1, 2, -1, -2, 3, 0])}
    if r < 0.97:
        return {"op": "add_marker", "l": rng.randint(0, 5), "v": None if rng.random() < 0.4 else rng.randint(0, 7)}
    return {"op": "remove_marker", "l": rng.randint(0, 5)}


def gen_history(rng, big):
    nb = rng.choice([2, 3, 4, 5])
    n = nb + rng.choice([2, 3, 4, 5, 6] if not big else [5, 8, 10, 12])
    return [gen_op(rng, i < nb) for i in range(n)]


# ------------------------------------------------------------------ fixed corpus
A0, A1 = {"op": "append", "t": 0}, {"op": "append", "t": 1}
M3 = [{"op": "add_marker", "l": 0, "v": 0}, {"op": "add_marker", "l": 1, "v": 1}, {"op": "add_marker", "l": 2, "v": None}]
CORPUS_HIST = [
    [A0, A1, *M3, {"op": "insert", "i": -1, "t": 2}],                       # 0: finding insert negative index
    [A0, A1, *M3, {"op": "insert", "i": 1, "t": 3}],                        # 1: finding insert expand pair
    [A0, A1, *M3, {"op": "radd", "t": 2}],                                  # 2: finding radd drops markers
    [A0, A1, {"op": "insert", "i": -1, "t": 3}],                            # 3: finding expand order, negative index
    [A0, A1, {"op": "insert", "i": 5, "t": 3}],                             # 4: finding expand order, index > len
    [A0, A1, *M3, {"op": "mul", "n": 2}],                                   # documented: markers not duplicated
    [A0, A1, *M3, {"op": "insert", "i": 1, "t": 2}, {"op": "pop", "i": 1}],
    [A0, {"op": "append", "t": 3}, A1, *M3, {"op": "pop", "i": 2}],          # pop removes the expand partner
    [A0, {"op": "append", "t": 3}, A1, *M3, {"op": "pop", "i": -2}],
    [A0, {"op": "append", "t": 9}, {"op": "append", "t": 0}, {"op": "pop", "i": -1}],
    [{"op": "append", "t": 9}, {"op": "append", "t": 5}, {"op": "pop", "i": 2}],   # coincidental partner + own partner
    [A0, {"op": "append", "t": 3}, A1, *M3, {"op": "remove", "t": 3, "by": "transform"}],
    [A0, {"op": "append", "t": 5}, A0, *M3, {"op": "remove", "t": 0, "by": "bound"}],
    [A0, *M3, {"op": "insert", "i": 0, "t": 6}],                            # failed insert still shifts markers
    [{"op": "append", "t": 6}, {"op": "iadd_p", "q": {"ts": [1, 7], "ms": [[4, 2]]}}],   # failed += merges markers
    [{"op": "append", "t": 6}, A0, {"op": "append", "t": 7}, {"op": "mul", "n": 0}],
    [A0, A1, {"op": "append", "t": 2}, *M3, {"op": "slice", "a": 1, "b": None, "s": 1}],
    [A0, A1, {"op": "append", "t": 2}, *M3, {"op": "slice", "a": None, "b": 2, "s": 1}],
    [A0, A1, {"op": "append", "t": 2}, *M3, {"op": "slice", "a": None, "b": None, "s": -1}],
    [A0, A1, *M3, {"op": "add_p", "q": {"ts": [2, 3], "ms": [[1, 1], [5, None]]}}],
    [A0, A1, *M3, {"op": "radd_p", "q": {"ts": [2, 3], "ms": [[1, 1], [5, None]]}}],
    [{"op": "insert", "i": 0, "t": 8}, {"op": "insert", "i": 0, "t": 0}, {"op": "append", "t": 1}],
]
CORPUS_ROUTE = [
    {"p": [], "batch": [1, 2], "build": "star"},
    {"p": [[1, 0, 0, [2]], [2, 0, 0, [0]]], "batch": [0, 1], "build": "star"},          # everything dropped
    {"p": [[1, 0, 0, [2, 0, 1]], [2, 0, 0, [1, 3]], [3, 0, 0, [2, 1, 0]]], "batch": [0, 1, 2, 3], "build": "iadd"},
    {"p": [[1, 0, 0, [0]]], "batch": [5], "build": "list"},
    {"p": [[1, 1, 1, [2]], [2, 0, 1, [0, 1]]], "batch": [3, 4], "build": "star"},
    {"p": [[4, 0, 0, [3]], [4, 0, 0, [3]], [4, 0, 0, [0, 1, 2, 3]]], "batch": [], "build": "star"},
]


def find_bt(items, tid):
    return [i for i, b in enumerate(items) if b[1] == tid]


def findings(ctx, obs):
    """Behaviour the documentation of markers / expand_transform contradicts; fixed corpus cases only."""
    def level(o, lab):
        return dict((a, b) for a, b in o["marks"]).get(lab)
    o = obs[0][-1]
    if level(o, 0) != 0:
        ctx.violation("finding:marker_insert_negative_index",
                      {"history": CORPUS_HIST[0], "observed": o,
                       "expected": "marker 0 ('no transforms', level 0) stays at level 0 when inserting before the last transform"},
                      what="insert(-1, t) shifts every marker, also those before the insertion point")
    o = obs[1][-1]
    if level(o, 2) != o["len"]:
        ctx.violation("finding:marker_insert_expand_transform",
                      {"history": CORPUS_HIST[1], "observed": o,
                       "expected": "the end marker follows the last transform (level 4) after two entries were inserted before it"},
                      what="insert of a transform with an expand_transform adds two entries but shifts markers by one")
    o = obs[2][-1]
    if not o["raised"] and level(o, 1) is None:
        ctx.violation("finding:marker_radd_drops_markers",
                      {"history": CORPUS_HIST[2], "observed": o,
                       "expected": "markers kept (shifted by the number of prepended entries), as for pipeline + transform"},
                      what="transform + pipeline (__radd__) drops all markers")
    for k in (3, 4):
        o = obs[k][-1]
        e, t = find_bt(o["items"], 20), find_bt(o["items"], 3)
        if not (len(e) == 1 and len(t) == 1 and e[0] + 1 == t[0]):
            ctx.violation("finding:insert_expand_order_index_out_of_range",
                          {"history": CORPUS_HIST[k], "observed": o,
                           "expected": "the expand_transform sits directly before its transform"},
                          what="insert with a negative or too large index places the expand_transform AFTER its transform")


def res_stats(r, st):
    if r[0] == "P":
        st["post_nodes"] += 1
        if not r[3]:
            st["dropped"] = True
        if len(r[3]) > 1:
            st["fan"] += 1
        for x in r[3]:
            res_stats(x, st)


def run(ctx):
    ctx.coq_props()
    rng = ctx.rng
    big = ctx.tier != "quick"
    n_route, n_hist = (550, 900) if not big else (5000, 8000)
    routes = list(CORPUS_ROUTE)
    while len(routes) < n_route:
        routes.append(gen_route(rng, big and rng.random() < 0.3))
    hists = [list(h) for h in CORPUS_HIST]
    while len(hists) < n_hist:
        hists.append(gen_history(rng, big and rng.random() < 0.3))
    out = ctx.run_impl("c23_impl.py", {"routes": routes, "histories": hists})
    robs, hobs = out["routes"], out["histories"]

    # ---- correspondence: model evaluated in Coq on the same inputs
    hdr = "From PLV Require Import Disc.PipelineModel.\nOpen Scope Z_scope."
    bad_r = ctx.coq_eval_cases("route", hdr, [g_route(c, o) for c, o in zip(routes, robs)], "check_route", chunk=120)
    bad_h = ctx.coq_eval_cases("hist", hdr, [g_hist(h, o) for h, o in zip(hists, hobs)], "check_history", chunk=200)

    # ---- direct oracle: the property's own statement on the implementation's output
    rstat = {"cases": len(routes), "empty_pipeline": 0, "with_dropped_tape": 0, "stacked_fanout": 0,
             "uneven_batch": 0, "max_exec_tapes": 0, "copies_kind": 0, "passthrough_post": 0}
    nontrivial = set()
    for c, o in zip(routes, robs):
        key = json.dumps(c, sort_keys=True)
        if o["post"] != o["hand"] or len(o["post"]) != len(c["batch"]):
            ctx.violation("direct:route:" + key, {"case": c, "observed": o},
                          what="post-processed pipeline results differ from applying the transforms by hand")
        st = {"post_nodes": 0, "dropped": False, "fan": 0}
        for r in o["post"]:
            res_stats(r, st)
        rstat["empty_pipeline"] += not c["p"]
        rstat["with_dropped_tape"] += st["dropped"]
        rstat["stacked_fanout"] += st["fan"] >= 2
        rstat["uneven_batch"] += len({json.dumps(r).count('"R"') for r in o["post"]}) > 1
        rstat["max_exec_tapes"] = max(rstat["max_exec_tapes"], len(o["out"]))
        rstat["copies_kind"] += any(s[1] == 1 for s in c["p"])
        rstat["passthrough_post"] += any(s[2] == 1 for s in c["p"])
        if len(c["p"]) >= 2 and st["fan"] >= 1 and c["batch"]:
            nontrivial.add(key)
    for i in bad_r:
        ctx.violation("corr:route:" + json.dumps(routes[i], sort_keys=True),
                      {"case": routes[i], "implementation": robs[i]},
                      what="execution tapes / post-processed results differ from the proved model of __call_tapes")

    hstat = {"histories": len(hists), "steps": 0, "raised": 0, "with_markers": 0, "expand_pairs_present": 0,
             "partner_pops": 0, "ops": {}}
    for h, o in zip(hists, hobs):
        prev_len = 0
        for op, ob in zip(h, o):
            hstat["steps"] += 1
            hstat["ops"][op["op"]] = hstat["ops"].get(op["op"], 0) + 1
            hstat["raised"] += ob["raised"]
            hstat["with_markers"] += bool(ob["marks"])
            hstat["expand_pairs_present"] += any(b[0] == -1 for b in ob["items"])
            if op["op"] == "pop" and not ob["raised"] and prev_len - ob["len"] == 2:
                hstat["partner_pops"] += 1
            # direct oracle: len == number of iterated items
            if ob["len"] != len(ob["items"]):
                ctx.violation("direct:len:" + json.dumps(h, sort_keys=True), {"history": h, "observed": o},
                              what="len(pipeline) differs from the number of iterated transforms")
            prev_len = ob["len"]
        if len(h) >= 5 and any(ob["marks"] for ob in o):
            nontrivial.add(json.dumps(h, sort_keys=True))
    for i in bad_h:
        ctx.violation("corr:history:" + json.dumps(hists[i], sort_keys=True),
                      {"history": hists[i], "implementation": hobs[i]},
                      what="container state / markers after an edit history differ from the proved list model")

    findings(ctx, hobs)

    ctx.coverage.update({
        "evaluations": len(routes) + len(hists), "distinct_nontrivial": len(nontrivial),
        "rule": "routing: seeded pipelines of 0..5 (thorough ..6) synthetic term-building transforms, tape-dependent fan-out 0..3, "
                "two tape kinds (children / copies) and two post-processing kinds, batches of 0..4 tapes, three ways of building the "
                "pipeline; container: seeded edit histories (2-5 building steps then 2-6 (thorough ..12) random operations incl. "
                "out-of-range and negative indices, terminal transforms, expand pairs, failing operations); non-trivial = "
                ">=2 transforms with fan-out>1 on a non-empty batch, or history of >=5 steps carrying markers",
        "input_distribution": {"routing": rstat, "container": hstat}})
    ctx.sample({"route": routes[2], "observed_post": robs[2]["post"][:1]})
    ctx.sample({"history": hists[7], "observed_last": hobs[7][-1]})
