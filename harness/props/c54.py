"""C54 Boson-to-qubit mappings represent truncated boson operators."""
from vlib import *
from fractions import Fraction
import itertools
import numpy as np

PID = "C54"
META = {
    "level": "proof",
    "technique": "Coq vm_compute over an exact model (formal square roots, Q(i)[sqrt2,sqrt3,sqrt5,sqrt7]) of binary/unary/Christiansen mappings for truncations 2..8 + correspondence of the real mappings with the model and with an independent numpy ladder-product oracle",
    "design_ref": "DESIGN.md §3 C54",
    "text": "Props/C54.v (11 kernel-checked theorems): for the transcribed binary and unary mappings, every truncation 2..8 and every one-mode word of length <=3 (two modes: truncations 2..4, length <=2; Christiansen: two modes, length <=3) the matrix element of the image between the documented encodings of Fock states equals the matrix element of the product of truncated ladder matrices in word order, exactly (coefficients kept in Q(i)[sqrt2,sqrt3,sqrt5,sqrt7] with formal square roots whose squares are checked); encoded states have no amplitude outside the code space (one mode, length <=2); image(adjoint word) = adjoint(image); the ket-propagation reference equals the honest product of truncated matrices; sums are preserved for ALL sentences (image of a concatenation = concatenation of images, every term a scalar multiple of a word-image term). Tie: random bosonic words/sentences on 1-3 modes, truncations 2-8 go through the real qp.binary_mapping / unary_mapping / christiansen_mapping (ps=True); every Pauli coefficient is compared inside Coq with the exact model coefficient (rational enclosures of the square roots, 1e-9; exact equality where the coefficients are rational), and an independent numpy oracle checks that the image restricted to the encoded subspace equals the ladder product, that the code space is invariant, and that sums and Hermitian conjugates are preserved.",
    "note": "Bounded proof: the image/closure/adjoint theorems are finite computations (bounds in the statements); multi-mode and longer words are covered only by the correspondence run. The arithmetic of the formal-square-root field (kadd/kmul, ~15 lines) is part of the trusted model (sanity theorem: sqrt symbols square correctly; tie compares against floats on every run). Sentence sums are modelled as concatenation of term lists (dict merging of the implementation is compared as a map word->coefficient). wire_map / ps=False (operator output) / tol arguments are not modelled. Truncations above 8 are outside the model.",
    "assumptions": ["truncation 2 <= n_states <= 8 (property quantifier)", "ps=True, wire_map=None, tol=None"],
    "trusted": ["hand-written model coq/Disc/BoseModel.v tied to /repo by correspondence only",
                "Pauli word product table reused from Disc/PauliAlgModel.v (C51)",
                "numpy (independent ladder-product oracle)"],
}

KIND = {"bin": "MBin", "una": "MUna", "chr": "MChr"}
P1 = {"X": "PX", "Y": "PY", "Z": "PZ", "I": "PI"}


def ceil_log2(d):
    return max(1, (d - 1).bit_length())


def qpm(kind, d):
    return {"bin": ceil_log2(d), "una": d, "chr": 1}[kind]


def encode(kind, d, levels):
    """documented encodings: binary = little-endian bits of the level on the mode's block, unary = one-hot on
    the mode's block, Christiansen = the level on the mode's wire; bit q of the result = state of wire q"""
    step, x = qpm(kind, d), 0
    for b, l in enumerate(levels):
        x |= ((1 << l) if kind == "una" else l) << (b * step)
    return x


def word_size(kind, d, letters):
    per = {"bin": 4 ** ceil_log2(d), "una": 4 * (d - 1), "chr": 4}[kind]
    return per ** len({m for m, _ in letters})


# ------------------------------------------------------------------ generator
def gen_coeff(rng):
    re = Fraction(rng.choice([-6, -3, -2, -1, 1, 1, 2, 3, 5, 7]), rng.choice([1, 1, 2, 4]))
    im = Fraction(0)
    if rng.random() < 0.35:
        im = Fraction(rng.choice([-3, -1, 1, 2, 5]), rng.choice([1, 2, 4]))
    return re, im


def gen_word(rng, M):
    L = rng.choice([0, 1, 1, 2, 2, 2, 3, 3, 4])
    if rng.random() < 0.35:
        m = rng.randrange(M)
        return [[m, rng.choice("+-")] for _ in range(L)]
    return [[rng.randrange(M), rng.choice("+-")] for _ in range(L)]


def gen_sentence(rng, M, nterms):
    seen, terms = set(), []
    for _ in range(nterms):
        w = gen_word(rng, M)
        key = tuple(map(tuple, w))
        if key in seen:
            continue
        seen.add(key)
        re, im = gen_coeff(rng)
        terms.append([re.numerator, re.denominator, im.numerator, im.denominator, w])
    return terms


def gen_case(rng, cap):
    while True:
        kind = rng.choice(["bin", "bin", "una", "una", "chr"])
        d = 2 if kind == "chr" else rng.choice([2, 3, 3, 4, 4, 5, 6, 7, 8, 8])
        M = rng.choice([1, 1, 2, 2, 3])
        r = rng.random()
        if r < 0.3:
            terms = [[1, 1, 0, 1, gen_word(rng, M)]]
            as_word = True
        else:
            terms = gen_sentence(rng, M, rng.choice([1, 2, 2, 3]))
            as_word = False
        b = gen_sentence(rng, M, rng.choice([1, 2])) if rng.random() < 0.5 else None
        size = sum(word_size(kind, d, t[4]) for t in terms + (b or []))
        if size <= cap:
            c = {"kind": kind, "d": d, "terms": terms, "as_word": as_word}
            if b is not None:
                c["b"] = b
            return c


CORPUS = [
    {"kind": "bin", "d": 4, "terms": [[1, 1, 0, 1, [[0, "+"]]]], "as_word": True},          # documented example
    {"kind": "una", "d": 4, "terms": [[1, 1, 0, 1, [[0, "+"]]]], "as_word": True},          # documented example
    {"kind": "chr", "d": 2, "terms": [[1, 1, 0, 1, [[0, "+"], [1, "-"]]]], "as_word": True},  # documented example
    {"kind": "bin", "d": 3, "terms": [[1, 1, 0, 1, [[0, "-"], [0, "+"]]]], "as_word": True},  # b b+ hits the truncation
    {"kind": "una", "d": 3, "terms": [[1, 1, 0, 1, [[0, "-"], [0, "+"]]]], "as_word": True},
    {"kind": "bin", "d": 8, "terms": [[1, 2, 1, 4, [[0, "+"], [0, "+"], [0, "-"]]], [3, 1, 0, 1, []]], "as_word": False,
     "b": [[1, 1, 0, 1, [[0, "-"]]]]},
    {"kind": "una", "d": 8, "terms": [[1, 1, 0, 1, [[1, "+"], [0, "-"]]]], "as_word": False},
    {"kind": "bin", "d": 5, "terms": [[1, 1, 0, 1, [[1, "+"], [0, "-"], [1, "-"]]]], "as_word": True},
    {"kind": "una", "d": 2, "terms": [[1, 1, 0, 1, [[0, "+"], [2, "-"], [1, "+"]]]], "as_word": True},
    {"kind": "bin", "d": 2, "terms": [], "as_word": False},
    {"kind": "bin", "d": 1, "terms": [], "as_word": False},                                    # no word: no error
    {"kind": "bin", "d": 1, "terms": [[1, 1, 0, 1, [[0, "+"]]]], "as_word": True},           # ValueError
    {"kind": "una", "d": 0, "terms": [[1, 2, 0, 1, [[0, "-"]]]], "as_word": False},           # ValueError
    {"kind": "una", "d": -3, "terms": [[1, 1, 0, 1, []]], "as_word": True},                    # ValueError
]


# ------------------------------------------------------------------ Gallina printers
def zi(n):
    n = int(n)
    return f"({n})" if n < 0 else str(n)


def g_q(fr):
    fr = Fraction(fr)
    return f"({zi(fr.numerator)} # {fr.denominator})%Q"


def g_cq(re, im):
    return f"({g_q(re)}, {g_q(im)})"


def g_bword(letters):
    return glist(letters, lambda l: f"({zi(l[0])}, {gbool(l[1] == '+')})")


def g_bsent(terms):
    return glist(terms, lambda t: f"({g_cq(Fraction(t[0], t[1]), Fraction(t[2], t[3]))}, {g_bword(t[4])})")


def rnd12(x):
    """numerator over 10^12"""
    return int(round(x * 10 ** 12))


def snap(x):
    """numerator over 4096 if x is (within 1e-12) a multiple of 1/4096"""
    n = int(round(x * 4096))
    return n if abs(n / 4096 - x) < 1e-12 else None


def g_isent(img, conv):
    return glist(img, lambda e: "(" + glist(e[0], lambda wp: f"({zi(wp[0])}, {P1[wp[1]]})") + ", "
                 + f"({zi(conv(e[1]))}, {zi(conv(e[2]))})" + ")")


def g_case(c, o, conv=rnd12):
    exp = "None" if o == "ERR" else f"(Some {g_isent(o['img'], conv)})"
    return f"({KIND[c['kind']]}, {zi(c['d'])}, {g_bsent(c['terms'])}, {exp})"


# ------------------------------------------------------------------ independent numpy oracle
def as_dict(img):
    out = {}
    for letters, re, im in img:
        k = tuple(sorted((w, p) for w, p in letters if p != "I"))
        out[k] = out.get(k, 0) + complex(re, im)
    return out


def dict_close(a, b, tol=1e-9):
    return all(abs(a.get(k, 0) - b.get(k, 0)) <= tol for k in set(a) | set(b))


def apply_image(img, states):
    """amplitudes <y ^ xmask| S |y> for every code state y, grouped by the flip mask of the Pauli words"""
    groups = {}
    for letters, re, im in img:
        xm = zm = ny = 0
        for w, p in letters:
            if p in "XY":
                xm |= 1 << w
            if p in "ZY":
                zm |= 1 << w
            if p == "Y":
                ny += 1
        par = np.zeros(len(states), dtype=np.int64)
        q, z = 0, zm
        while z:
            if z & 1:
                par ^= (states >> q) & 1
            z >>= 1
            q += 1
        amp = complex(re, im) * (1j) ** ny * (1 - 2 * par)
        groups[xm] = groups.get(xm, 0) + amp
    return groups


def ladder_reference(d, M, terms):
    a_dag = np.zeros((d, d))
    for s in range(d - 1):
        a_dag[s + 1, s] = np.sqrt(s + 1.0)
    mats = {"+": a_dag, "-": a_dag.T}
    dim = d ** M
    tot = np.zeros((dim, dim), dtype=complex)
    for rn, rd, inn, idd, letters in terms:
        prod = np.eye(dim, dtype=complex)
        for m, s in letters:                      # word order: left factor first
            full = np.array([[1.0]])
            for b in range(M):
                full = np.kron(full, mats[s] if b == m else np.eye(d))
            prod = prod @ full
        tot += complex(rn / rd, inn / idd) * prod
    return tot


def oracle(c, o):
    """returns None if fine, else a description"""
    kind, d, terms = c["kind"], c["d"], c["terms"]
    allt = terms + (c.get("b") or [])
    M = max([m for t in allt for m, _ in t[4]] + [0]) + 1
    levels = list(itertools.product(range(d), repeat=M))          # index = mixed radix, mode 0 most significant
    code = np.array([encode(kind, d, ls) for ls in levels], dtype=np.int64)
    index = {int(x): i for i, x in enumerate(code)}

    def restricted(img):
        mat = np.zeros((len(code), len(code)), dtype=complex)
        leak = 0.0
        for xm, amp in apply_image(img, code).items():
            tgt = code ^ xm
            for col, (t, a) in enumerate(zip(tgt, np.broadcast_to(amp, (len(code),)))):
                row = index.get(int(t))
                if row is None:
                    leak = max(leak, abs(a))
                else:
                    mat[row, col] += a
        return mat, leak

    mat, leak = restricted(o["img"])
    if leak > 1e-9:
        return f"code space not invariant: amplitude {leak:.3g} outside the encoded subspace"
    ref = ladder_reference(d, M, terms)
    if not np.allclose(mat, ref, atol=1e-9, rtol=0):
        return f"restricted image differs from the ladder product (max dev {np.abs(mat - ref).max():.3g})"
    # Hermitian conjugation
    if not dict_close(as_dict(o["adj"]), {k: v.conjugate() for k, v in as_dict(o["img"]).items()}):
        return "image of the adjoint differs from the adjoint of the image"
    madj, leak = restricted(o["adj"])
    if leak > 1e-9 or not np.allclose(madj, ref.conj().T, atol=1e-9, rtol=0):
        return "image of the adjoint is not the adjoint ladder product on the code space"
    if "img_sum" in o:
        a, b, s = as_dict(o["img"]), as_dict(o["img_b"]), as_dict(o["img_sum"])
        if not dict_close(s, {k: a.get(k, 0) + b.get(k, 0) for k in set(a) | set(b)}):
            return "image of the sum differs from the sum of the images"
    return None


def run(ctx):
    ctx.coq_props()
    rng = ctx.rng
    quick = ctx.tier == "quick"
    n = 90 if quick else 500
    cases = [dict(c) for c in CORPUS]
    while len(cases) < n:
        big = rng.random() < (0.06 if quick else 0.12)
        cases.append(gen_case(rng, ((1500 if quick else 4200) if big else (500 if quick else 900))))
    obs = ctx.run_impl("c54_impl.py", {"cases": cases})
    header = ("From Coq Require Import QArith.\nFrom PLV Require Import Disc.PauliAlgModel Disc.BoseModel.\n"
              "Open Scope Z_scope.")
    terms = [g_case(c, o) for c, o in zip(cases, obs)]
    bad = ctx.coq_eval_cases("cases", header, terms, "check_case", chunk=(12 if quick else 40), par=12)
    # exact comparison where the coefficients are certainly rational (two levels: sqrt(1) only)
    ex_idx = []
    for i, (c, o) in enumerate(zip(cases, obs)):
        if o != "ERR" and (c["kind"] == "chr" or c["d"] == 2):
            if all(snap(e[1]) is not None and snap(e[2]) is not None for e in o["img"]):
                ex_idx.append(i)
    ex_terms = [g_case(cases[i], obs[i], conv=snap) for i in ex_idx]
    bad_ex = ctx.coq_eval_cases("exact", header, ex_terms, "check_case_exact", chunk=25, par=12) if ex_terms else []

    hist = {"bin": 0, "una": 0, "chr": 0, "errors": 0, "as_word": 0, "sentences": 0, "with_sum": 0,
            "multi_mode": 0, "repeated_mode": 0, "complex_coeff": 0, "exact_rational_cases": len(ex_idx)}
    dh, distinct, terms_total = {}, set(), 0
    for i, (c, o) in enumerate(zip(cases, obs)):
        hist[c["kind"]] += 1
        dh[c["d"]] = dh.get(c["d"], 0) + 1
        key = json.dumps(c, sort_keys=True)
        if o == "ERR":
            hist["errors"] += 1
            if c["d"] >= 2 or c["kind"] == "chr":
                ctx.violation("direct:" + key, {"case": c, "observed": o}, what="mapping raised ValueError on a valid input")
            continue
        terms_total += len(o["img"])
        hist["as_word" if c["as_word"] else "sentences"] += 1
        hist["with_sum"] += "img_sum" in o
        ms = [[m for m, _ in t[4]] for t in c["terms"]]
        if any(len(set(x)) > 1 for x in ms):
            hist["multi_mode"] += 1
        if any(len(x) > len(set(x)) for x in ms):
            hist["repeated_mode"] += 1
        if any(t[2] != 0 for t in c["terms"]):
            hist["complex_coeff"] += 1
        if any(len(t[4]) > 0 for t in c["terms"]):
            distinct.add(key)
        why = oracle(c, o)
        if why is not None:
            ctx.violation("direct:" + key, {"case": c, "observed_image": o["img"][:40], "why": why}, what=why)
    for i in bad:
        c, o = cases[i], obs[i]
        ctx.violation("corr:" + json.dumps(c, sort_keys=True),
                      {"case": c, "implementation": o if o == "ERR" else o["img"][:40],
                       "model": "coefficients of the exact model differ by more than 1e-9 (see coq/Gen/C54)"},
                      what="implementation differs from the exact model of the boson-to-qubit mapping")
    for j in bad_ex:
        c = cases[ex_idx[j]]
        ctx.violation("corr-exact:" + json.dumps(c, sort_keys=True), {"case": c, "implementation": obs[ex_idx[j]]["img"][:40]},
                      what="rational coefficients of the implementation differ from the exact model")
    hist["truncation"] = {str(k): v for k, v in sorted(dh.items())}
    ctx.coverage.update({
        "evaluations": len(cases) + len(ex_idx), "distinct_nontrivial": len(distinct),
        "pauli_terms_compared": terms_total,
        "rule": "corpus (documented examples, truncation-hitting b b+, error stream n_states<2) then seeded random words/sentences "
                "on 1-3 modes, truncations 2-8, word length 0-4 (35% single-mode words), dyadic Gaussian coefficients; estimated "
                "image size capped; non-trivial = at least one non-identity word; every case also goes through the numpy oracle "
                "(restriction = ladder product, code-space invariance, adjoint, sum)",
        "input_distribution": hist})
    for c, o in list(zip(cases, obs))[:3]:
        ctx.sample({"case": c, "image_terms": o if o == "ERR" else len(o["img"])})
