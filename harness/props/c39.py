"""C39 Jacobian-product utilities contract Jacobians correctly."""
from vlib import *

PID = "C39"
META = {
    "level": "proof",
    "technique": "Coq proofs by induction over a hand-written Gallina transcription of gradients/vjp.py and gradients/jvp.py "
                 "(dynamic Python values: None / rank-0,1,2 arrays / tuples) + vm_compute correspondence against the real "
                 "compute_vjp/jvp_single/multi, batch_vjp, batch_jvp + numpy-einsum direct oracle",
    "design_ref": "DESIGN.md §3 C39",
    "text": "Kernel-checked theorems (Props/C39.v) for ALL well-shaped Jacobians (any number of measurements, parameters, "
            "entry lengths): compute_vjp_single/multi return exactly sum_m sum_i dy[m][i]*J[m][p][i] on every code path "
            "(array form, stacked tuple, both einsum paths, the except-fallback), compute_jvp_single/multi return "
            "sum_p J[m][p][i]*tangent[p]; multi = sum of singles; the all-zero-dy shortcut of vjp() equals what the "
            "contraction would return (theorem for tapes without a shot vector; with a shot vector by the tie only); the "
            "zero-tangent shortcut of jvp() equals the contraction path with and without a shot vector (theorems for "
            "single-measurement tapes of any dimension; several measurements by the tie); batch processing keeps per-tape grouping for "
            "'append' and concatenates in tape order for 'extend', each tape receiving exactly its slice of the results. "
            "The model's executable definitions are evaluated inside Coq on the same random shapes/Jacobians/(co)tangents "
            "(incl. all-zero, partially zero, malformed) as the real functions and all results are compared exactly.",
    "note": "Trusted: Coq kernel; the hand transcription coq/Num/JacProdModel.v is tied to /repo only by the correspondence "
            "run. Numbers are dyadic floats k/4 (exact in float64); the model works on the integer numerators (bilinearity "
            "of the contraction: result*16 is compared), so allclose(.,0) coincides with ==0 on the test data. "
            "classical_jacobian is covered by the tie ONLY (no Coq model): QNodes whose classical preprocessing is an "
            "integer-affine map A@x+b of one or two autograd arguments must give exactly A. "
            "Not modelled: the explicit `num` argument, non-numpy interfaces (_convert/cast), autograd SequenceBox, "
            "tensor-valued (rank>0) trainable parameters in compute_jvp_single, callable reductions, numpy's silent "
            "broadcasting of a length-1 axis in the einsum path when len(dy)=1 != len(jac), and Jacobian entries whose "
            "rank differs from the dy entries (those inputs are not generated). "
            "Known quirk transcribed in the model: batch_jvp(reduction='extend') raises TypeError on a 0-d JVP.",
    "assumptions": ["inputs are plain numpy arrays / tuples of them (autograd interface, default num=None)",
                    "entries of dy/jac are dyadic rationals with small numerators so float arithmetic is exact"],
    "trusted": ["hand-written model coq/Num/JacProdModel.v tied to /repo by correspondence only",
                "classical_jacobian: tie-only (integer-affine preprocessing, autograd interface)"],
}

VALS = [-8, -6, -4, -3, -2, -1, 1, 2, 3, 4, 5, 6, 8]


# ------------------------------------------------------------------ value helpers (JSON encoding, see c39_impl.py)
def entry(kind, vec):
    """kind 's' -> 0-d array, 'v' -> 1-d array"""
    return vec[0] if kind == "s" else {"v": list(vec)}


def tup(xs):
    return {"t": list(xs)}


def g_val(v):
    if v is None:
        return "VNone"
    if isinstance(v, dict):
        if "v" in v:
            return f"(VT (T1 {glist(v['v'], gz)}))"
        if "m" in v:
            return f"(VT (T2 {glist(v['m'], lambda r: glist(r, gz))}))"
        return f"(VTup {glist(v['t'], g_val)})"
    return f"(VT (T0 {gz(v)}))"


def g_res(o):
    return "Err" if o == "ERR" else f"(Ok {g_val(o)})"


def g_tape(t):
    return f"(Build_tape {gnat(t['k'])} {glist(t['meas'], gnat)} {gnat(len(t['shots'] or []))})"


def g_case(c):
    op = c["op"]
    if op in ("vs", "vm"):
        return f"{'CVS' if op == 'vs' else 'CVM'} {g_val(c['dy'])} {g_val(c['jac'])}"
    if op in ("js", "jm"):
        return f"{'CJS' if op == 'js' else 'CJM'} {glist(c['tg'], gz)} {g_val(c['jac'])}"
    items = []
    for t in c["tapes"]:
        cot = g_val(t["dy"]) if op == "bv" else glist(t["tg"], gz)
        items.append(f"({g_tape(t)}, {cot}, ({gnat(t['glen'])}, {g_val(t['J'])}))")
    return f"{'CBV' if op == 'bv' else 'CBJ'} {gbool(c['ext'])} {glist(items)} {glist(c['results'], gz)}"


# ------------------------------------------------------------------ generators
def rvec(rng, n, zero_mode):
    if zero_mode == "zero":
        return [0] * n
    v = [rng.choice(VALS) for _ in range(n)]
    if zero_mode == "partial":
        for i in range(n):
            if rng.random() < 0.5:
                v[i] = 0
    return v


def zmode(rng):
    r = rng.random()
    return "zero" if r < 0.15 else ("partial" if r < 0.45 else "dense")


def gen_dense(rng, kinds_pool, M=None, k=None):
    """kinds[m] in {'s','v1','v2','v4'}; J[m][p] = list of d ints; dy[m] = list of d ints; tg[p]"""
    M = M or rng.randint(1, 3)
    k = k or rng.randint(1, 4)
    if rng.random() < 0.45:      # homogeneous measurement kinds (einsum paths)
        kinds = [rng.choice(kinds_pool)] * M
    else:
        kinds = [rng.choice(kinds_pool) for _ in range(M)]
    dims = [{"s": 1, "v1": 1, "v2": 2, "v4": 4}[x] for x in kinds]
    zm = zmode(rng)
    J = [[rvec(rng, d, rng.choice(["dense", "dense", "partial"])) for _ in range(k)] for d in dims]
    dy = [rvec(rng, d, zm) for d in dims]
    tg = rvec(rng, k, zmode(rng))
    return {"kinds": kinds, "dims": dims, "k": k, "J": J, "dy": dy, "tg": tg}


def kd(kind):
    return "s" if kind == "s" else "v"


def jac_single(kind, rows, array_form):
    if array_form and len(rows) == 1:
        return entry(kd(kind), rows[0])
    return tup(entry(kd(kind), r) for r in rows)


def jac_of(D, array_form):
    """PennyLane structure for all measurements of D (multi: tuple over measurements)"""
    return [jac_single(kn, rows, array_form) for kn, rows in zip(D["kinds"], D["J"])]


def dy_of(D):
    return [entry(kd(kn), d) for kn, d in zip(D["kinds"], D["dy"])]


def contract_vjp(D):
    return [sum(D["dy"][m][i] * D["J"][m][p][i] for m in range(len(D["J"])) for i in range(D["dims"][m]))
            for p in range(D["k"])]


def contract_jvp(D, m):
    return [sum(D["J"][m][p][i] * D["tg"][p] for p in range(D["k"])) for i in range(D["dims"][m])]


POOL = ["s", "v1", "v2", "v4"]


def gen_direct(rng):
    """cases for compute_{vjp,jvp}_{single,multi} with expected contraction"""
    op = rng.choice(["vs", "vm", "vm", "js", "jm"])
    r = rng.random()
    if r < 0.12:
        return gen_malformed(rng, op)
    if r < 0.17:   # None / no trainable parameters
        D = gen_dense(rng, POOL, M=(1 if op in ("vs", "js") else None))
        jac = rng.choice([None, tup([]), {"v": []}])
        if op in ("vm", "jm") and jac is not None:
            jac = tup([jac] * len(D["kinds"])) if not (op == "vm" and jac == tup([])) else tup([{"v": []}] * len(D["kinds"]))
        c = {"op": op, "jac": jac, "expect": None, "cls": "notrain"}
        if op == "vs":
            c["dy"] = dy_of(D)[0]
        elif op == "vm":
            c["dy"] = tup(dy_of(D))
        else:
            c["tg"] = D["tg"]
        return c
    if op in ("vs", "js"):
        D = gen_dense(rng, POOL, M=1)
        jac = jac_of(D, rng.random() < 0.7)[0]
        if op == "vs":
            return {"op": op, "dy": dy_of(D)[0], "jac": jac, "expect": {"v": contract_vjp(D)}, "cls": "ok", "D": D}
        return {"op": op, "tg": D["tg"], "jac": jac, "expect": entry(kd(D["kinds"][0]), contract_jvp(D, 0)), "cls": "ok", "D": D}
    D = gen_dense(rng, POOL)
    jac = tup(jac_of(D, rng.random() < 0.7))
    if op == "vm":
        return {"op": op, "dy": tup(dy_of(D)), "jac": jac, "expect": {"v": contract_vjp(D)}, "cls": "ok", "D": D}
    return {"op": op, "tg": D["tg"], "jac": jac, "cls": "ok", "D": D,
            "expect": tup(entry(kd(kn), contract_jvp(D, m)) for m, kn in enumerate(D["kinds"]))}


def gen_malformed(rng, op):
    """inputs on which a definite exception (or a definite odd reshape) is expected; no expected value"""
    if op == "vs":
        D = gen_dense(rng, ["v2", "v4"], M=1)
        r = rng.random()
        if r < 0.4:      # dy of another length
            dy = {"v": rvec(rng, rng.choice([3, 5, 2, 4, 1]), "dense")}
            return {"op": op, "dy": dy, "jac": jac_of(D, rng.random() < 0.5)[0], "cls": "mal"}
        if r < 0.7:      # tuple with entries of different shapes
            rows = [entry("v", rvec(rng, rng.choice([2, 4]), "dense")) for _ in range(3)] + [entry("s", [3])]
            return {"op": op, "dy": dy_of(D)[0], "jac": tup(rows), "cls": "mal"}
        # scalar entries, longer dy
        k = rng.randint(2, 4)
        return {"op": op, "dy": {"v": rvec(rng, 2, "dense")}, "jac": tup(entry("s", rvec(rng, 1, "dense")) for _ in range(k)), "cls": "mal"}
    if op == "vm":
        D = gen_dense(rng, POOL, M=rng.randint(2, 3))
        af = rng.random() < 0.4
        jl = jac_of(D, af)
        r = rng.random()
        if r < 0.5:      # one more / one fewer measurement in jac (never down to len(dy)=1 or len(jac)=1 in the einsum branch)
            if len(jl) == 3 and rng.random() < 0.5:
                jl = jl[:2]
            else:
                jl = jl + [jl[0]]
            return {"op": op, "dy": tup(dy_of(D)), "jac": tup(jl), "cls": "mal"}
        if D["k"] > 1 and not af:   # different number of parameters per measurement
            jl[-1] = tup(jl[-1]["t"][:-1])
            return {"op": op, "dy": tup(dy_of(D)), "jac": tup(jl), "cls": "mal"}
        return {"op": op, "dy": tup(dy_of(D)), "jac": tup([]), "cls": "mal"}
    D = gen_dense(rng, POOL, M=(1 if op == "js" else None))
    r = rng.random()
    if r < 0.5:          # tangent of the wrong length
        tg = D["tg"] + [rng.choice(VALS)] if rng.random() < 0.5 or D["k"] == 1 else D["tg"][:-1]
        jl = jac_of(D, rng.random() < 0.5)
        return {"op": op, "tg": tg, "jac": jl[0] if op == "js" else tup(jl), "cls": "mal"}
    rows = [entry("v", rvec(rng, 2, "dense")), entry(rng.choice(["s", "v"]), rvec(rng, rng.choice([1, 4]), "dense"))]
    j = tup(rows)
    return {"op": op, "tg": rvec(rng, 2, "dense"), "jac": j if op == "js" else tup([j, j]), "cls": "mal"}


def gen_tape(rng, is_vjp):
    k = rng.choice([0, 1, 1, 2, 3, 4])
    M = rng.randint(1, 3)
    meas = [rng.choice([0, 0, 2, 4]) for _ in range(M)]
    shots = rng.choice([None, None, [10], [10, 20], [5, 5], [10, 20, 5]])
    ncopy = len(shots) if shots else 0
    part = ncopy > 1
    kinds = ["s" if d == 0 else f"v{d}" for d in meas]
    kk = max(k, 1)
    zm = zmode(rng)
    Ds = []
    for _ in range(max(ncopy, 1)):
        D = gen_dense(rng, POOL, M=M, k=kk)
        D["kinds"], D["dims"] = kinds, [max(d, 1) for d in meas]
        D["J"] = [[rvec(rng, d, "dense") for _ in range(kk)] for d in D["dims"]]
        D["dy"] = [rvec(rng, d, zm) for d in D["dims"]]
        Ds.append(D)
    tg = rvec(rng, kk, zm)
    for D in Ds:
        D["tg"] = tg

    def per_shot(D):
        jl = jac_of(D, True)
        return jl[0] if M == 1 else tup(jl)

    def per_shot_dy(D):
        dl = dy_of(D)
        return dl[0] if M == 1 else tup(dl)
    J = tup(per_shot(D) for D in Ds) if part else per_shot(Ds[0])
    dy = tup(per_shot_dy(D) for D in Ds) if part else per_shot_dy(Ds[0])
    t = {"k": k, "meas": meas, "shots": shots, "glen": rng.choice([0, 1, 1, 2]), "J": J, "Ds": Ds, "part": part}
    if is_vjp:
        t["dy"] = dy
        t["zero"] = all(x == 0 for D in Ds for d in D["dy"] for x in d)
    else:
        t["tg"] = tg if k > 0 else []
        t["zero"] = all(x == 0 for x in tg)
    if k > 0 and not t["zero"] and part and rng.random() < 0.04:   # malformed: one shot entry missing in jac
        t["J"] = tup(J["t"][:-1])
        t["mal"] = True
    return t


def gen_batch(rng):
    is_vjp = rng.random() < 0.5
    tapes = [gen_tape(rng, is_vjp) for _ in range(rng.randint(1, 3))]
    n_g = sum(t["glen"] for t in tapes if t["k"] > 0 and not t["zero"])
    results = [rng.choice([1, 2]) for _ in range(n_g)]
    if rng.random() < 0.08 and results:
        results = results[:-1]
    elif rng.random() < 0.05:
        results = results + [2]
    return {"op": "bv" if is_vjp else "bj", "ext": rng.random() < 0.4, "tapes": tapes, "results": results, "n_g": n_g}


def weight(sl):
    return 1 if not sl else sum((i + 1) * x for i, x in enumerate(sl))


def scale(v, w):
    if isinstance(v, dict):
        return {k: scale(x, w) for k, x in v.items()}
    if isinstance(v, list):
        return [scale(x, w) for x in v]
    return v * w


def iter_enc(v):
    if isinstance(v, dict):
        if "t" in v:
            return v["t"]
        if "v" in v:
            return list(v["v"])
    return None   # 0-d array: not iterable


def expect_batch(c):
    """the property's own statement: per tape the explicit contraction (einsum of the dense Jacobian), grouped
    per tape for append, concatenated in tape order for extend.  Returns (expected, tolerated_error)"""
    out, start, scalar_extend = [], 0, False
    for t in c["tapes"]:
        k, M, part, Ds = t["k"], len(t["meas"]), t["part"], t["Ds"]
        active = k > 0 and not t["zero"]
        sl = c["results"][start:start + t["glen"]] if active else []
        if active:
            start += t["glen"]
        w = weight(sl)
        if t.get("mal"):
            return None, True
        if c["op"] == "bv":
            if k == 0:
                v = None
            else:
                v = {"v": [w * sum(contract_vjp(D)[p] for D in Ds) for p in range(k)]}
        else:
            def one(D):
                if k == 0:
                    es = [entry(kd(kn), [0] * d) for kn, d in zip(D["kinds"], D["dims"])]
                else:
                    es = [entry(kd(kn), [w * x for x in contract_jvp(D, m)]) for m, kn in enumerate(D["kinds"])]
                return es[0] if M == 1 else tup(es)
            v = tup(one(D) for D in Ds) if part else one(Ds[0])
        if v is None:
            if not c["ext"]:
                out.append(None)
            continue
        if c["ext"]:
            it = iter_enc(v)
            if it is None:
                scalar_extend = True
                continue
            out.extend(it)
        else:
            out.append(v)
    return tup(out), scalar_extend


def gen_cj(rng):
    g, n = rng.randint(1, 4), rng.randint(1, 3)
    nargs = 2 if (n >= 2 and rng.random() < 0.4) else 1
    return {"op": "cj", "A": [[rng.randint(-3, 3) for _ in range(n)] for _ in range(g)],
            "b": [rng.randint(-8, 8) for _ in range(g)], "x": [rng.randint(-8, 8) for _ in range(n)],
            "nargs": nargs, "split": rng.randint(1, n - 1) if nargs == 2 else n}


def strip(c):
    """what is sent to the implementation / used as a key (no oracle data)"""
    if c["op"] in ("bv", "bj"):
        ts = [{k: v for k, v in t.items() if k in ("k", "meas", "shots", "glen", "J", "dy", "tg")} for t in c["tapes"]]
        return {"op": c["op"], "ext": c["ext"], "tapes": ts, "results": c["results"]}
    return {k: v for k, v in c.items() if k not in ("D", "expect", "cls")}


def corpus():
    s, v = (lambda x: x), (lambda *x: {"v": list(x)})
    cs = [
        # the four docstring shapes of compute_vjp_single / compute_jvp_single
        {"op": "vs", "dy": 8, "jac": 2, "expect": v(16)},
        {"op": "vs", "dy": v(4, 4), "jac": v(1, 2), "expect": v(12)},
        {"op": "vs", "dy": 8, "jac": tup([1, 2]), "expect": v(8, 16)},
        {"op": "vs", "dy": v(4, 8), "jac": tup([v(1, 2), v(3, 4)]), "expect": v(20, 44)},
        {"op": "vm", "dy": tup([4, v(4, 8)]), "jac": tup([1, v(3, 4)]), "expect": v(48)},
        {"op": "vm", "dy": tup([4, v(4, 8)]), "jac": tup([tup([1, 2]), tup([v(3, 4), v(5, 6)])]), "expect": v(48, 76)},
        {"op": "vm", "dy": tup([4, 8]), "jac": tup([tup([1, 2]), tup([3, 4])]), "expect": v(28, 40)},
        {"op": "vm", "dy": tup([v(4, 0), v(0, 8)]), "jac": tup([tup([v(1, 2)]), tup([v(3, 4)])]), "expect": v(36)},
        {"op": "js", "tg": [4], "jac": 2, "expect": 8},
        {"op": "js", "tg": [8], "jac": v(1, 2), "expect": v(8, 16)},
        {"op": "js", "tg": [4, 8], "jac": tup([1, 2]), "expect": 20},
        {"op": "js", "tg": [4, 2], "jac": tup([v(1, 3), v(2, 4)]), "expect": v(8, 20)},
        {"op": "jm", "tg": [4, 8], "jac": tup([tup([3, 4]), tup([v(2, 5), v(3, 8)])]), "expect": tup([44, v(32, 84)])},
        {"op": "vs", "dy": 4, "jac": None, "expect": None}, {"op": "js", "tg": [4], "jac": tup([]), "expect": {"m": [[]]}},
    ]
    for c in cs:
        c["cls"] = "corpus"
    return cs


def run(ctx):
    ctx.coq_props()
    rng = ctx.rng
    n_direct, n_batch, n_cj = (700, 350, 30) if ctx.tier == "quick" else (7000, 4000, 300)
    cases = corpus()
    while len(cases) < n_direct:
        cases.append(gen_direct(rng))
    for _ in range(n_batch):
        cases.append(gen_batch(rng))
    cj = [gen_cj(rng) for _ in range(n_cj)]
    obs_all = ctx.run_impl("c39_impl.py", {"cases": [strip(c) for c in cases] + cj})
    obs, obs_cj = obs_all[:len(cases)], obs_all[len(cases):]

    def o_res(c, o):
        return o if o == "ERR" or c["op"] not in ("bv", "bj") else o["r"]
    terms = [f"({g_case(c)}, {g_res(o_res(c, o))})" for c, o in zip(cases, obs)]
    bad = ctx.coq_eval_cases("cases", "From PLV Require Import Num.JacProdModel.", terms, "check_case", chunk=175)

    hist = {"vs": 0, "vm": 0, "js": 0, "jm": 0, "bv": 0, "bj": 0, "errors": 0, "malformed": 0, "no_trainable_or_None": 0,
            "zero_dy_or_tangent": 0, "partially_zero": 0, "vm_single_param": 0, "vm_einsum_scalar": 0,
            "vm_einsum_vector": 0, "vm_fallback_ragged": 0, "batch_extend": 0, "batch_partitioned_tapes": 0,
            "batch_shortcut_tapes": 0, "batch_none_tapes": 0, "direct_oracle_checked": 0}
    distinct = set()
    for c, o in zip(cases, obs):
        key = json.dumps(strip(c), sort_keys=True)
        hist[c["op"]] += 1
        if o == "ERR":
            hist["errors"] += 1
        if c["op"] in ("bv", "bj"):
            hist["batch_extend"] += c["ext"]
            hist["batch_partitioned_tapes"] += sum(t["part"] for t in c["tapes"])
            hist["batch_shortcut_tapes"] += sum(t["k"] > 0 and t["zero"] for t in c["tapes"])
            hist["batch_none_tapes"] += sum(t["k"] == 0 for t in c["tapes"])
            exp, tolerated = expect_batch(c)
            if len(c["tapes"]) > 1:
                distinct.add(key)
            if tolerated:
                continue
            hist["direct_oracle_checked"] += 1
            if o == "ERR" or o["r"] != exp or o["ng"] != c["n_g"]:
                ctx.violation("direct:" + key, {"case": strip(c), "observed": o, "expected": exp, "expected_ng": c["n_g"]},
                              what="batch_vjp/batch_jvp differs from the explicit contraction (einsum oracle) or from the "
                                   "append/extend grouping")
            continue
        cls = c.get("cls")
        if cls == "mal":
            hist["malformed"] += 1
            continue
        if cls == "notrain":
            hist["no_trainable_or_None"] += 1
            continue
        D = c.get("D")
        if D:
            cot = [x for d in D["dy"] for x in d] if c["op"] in ("vs", "vm") else D["tg"]
            if all(x == 0 for x in cot):
                hist["zero_dy_or_tangent"] += 1
            elif any(x == 0 for x in cot):
                hist["partially_zero"] += 1
            if c["op"] == "vm":
                if not (isinstance(c["jac"]["t"][0], dict) and "t" in c["jac"]["t"][0]):
                    hist["vm_single_param"] += 1
                elif all(kn == "s" for kn in D["kinds"]):
                    hist["vm_einsum_scalar"] += 1
                elif len(set(D["kinds"])) == 1:
                    hist["vm_einsum_vector"] += 1
                else:
                    hist["vm_fallback_ragged"] += 1
            if D["k"] > 1 or len(D["kinds"]) > 1:
                distinct.add(key)
        hist["direct_oracle_checked"] += 1
        if o != c["expect"]:
            ctx.violation("direct:" + key, {"case": strip(c), "observed": o, "expected": c["expect"]},
                          what="compute_vjp/jvp result differs from the einsum contraction of the explicit Jacobian")
    for i in bad:
        c, o = cases[i], obs[i]
        ctx.violation("corr:" + json.dumps(strip(c), sort_keys=True),
                      {"case": strip(c), "implementation": o, "model": "run coq/Gen/C39 to see the model value"},
                      found_input=True, what="implementation differs from the proved model of vjp.py / jvp.py")
    n_cj_bad = 0
    for c, o in zip(cj, obs_cj):
        if o == "ERR" or o["cj"] != [[float(v) for v in row] for row in c["A"]]:
            n_cj_bad += 1
            ctx.violation("cj:" + json.dumps(c, sort_keys=True), {"case": c, "observed": o, "expected": c["A"]},
                          what="classical_jacobian of an integer-affine preprocessing A@x+b is not A")
    hist["classical_jacobian_cases"] = len(cj)
    ctx.coverage.update({"evaluations": len(cases) + len(cj), "distinct_nontrivial": len(distinct),
                         "rule": "corpus (docstring shapes) + seeded generator: measurements 1-3 of kind scalar/(1,)/(2,)/(4,), "
                                 "params 1-4, array and tuple Jacobian forms, dy/tangent all-zero 15% / partially zero 30%, "
                                 "malformed stream 12%, None/no-trainable 5%; batches of 1-3 fake tapes (k 0-4, shots "
                                 "None/1/2/3 copies, 0-2 gradient tapes each, append/extend, results occasionally short/long); "
                                 "classical_jacobian on integer-affine QNodes (tie only); non-trivial = >1 parameter or >1 "
                                 "measurement or >1 tape",
                         "input_distribution": hist})
    shown = 0
    for c, o in zip(cases, obs):
        if c["op"] in ("vm", "bj") and c.get("cls") != "corpus" and shown < 3:
            ctx.sample({"case": strip(c), "observed": o})
            shown += 1
    ctx.sample({"case": cj[0], "observed": obs_cj[0]})
