"""C05 Result caching never changes results."""
from vlib import *

PID = "C05"
META = {
    "level": "proof",
    "engine": "coq-model+correspondence",
    "technique": "Coq proof (induction over batches and histories) that the two-phase cache transform is transparent when keys determine results + reflection proofs (QSym) that every parameter period used by the operator hash is an exact period of the gate matrix + vm_compute correspondence of the cache model against real cached executions",
    "design_ref": "DESIGN.md §3 C05, §5 item 1",
    "text": "Model coq/Disc/CacheModel.v transcribes _cache_transform applied to a batch (phase 1: hit / miss with placeholder, phase 2: post-processing in order) and histories sharing one cache. Theorems: cache_transparent / shared_cache_history_transparent (for all batches, histories and consistent caches, if equal keys imply equal device results then cached execution returns exactly the device results in order) and key_collision_changes_results (the hypothesis is necessary). The hypothesis is discharged for the parameter reduction the hash performs: the harness probes the real hash for the period it uses per (gate class, parameter) and Coq proves M(theta_j + P) = M(theta_j) exactly (global phase included) for all parameter values. The model is run in Coq on a fixed corpus (tapes derived by QuantumScript.copy(measurements= / shots= / trainable_params= / operations=) from a tape that already went through a cached execution, on default.qubit and default.mixed; near-duplicates differing only in a keyword setting of one operator: IntegerComparator value/geq, PauliRot word, control values, PauliError word, channel class; near-duplicates whose >1000-entry array parameters differ only in entries an abbreviated printout elides) and on generated batch histories (duplicates, 2pi/4pi-shifted twins, copies with other measurements derived from hashed tapes, wrappers ctrl/adjoint/pow, state/expval/probs/var/density-matrix measurements, shared caches) and compared with which circuits really reached the device and which results came back; cached results are also compared with uncached ones directly.",
    "note": "Trusted: Coq kernel (+ stdlib real axioms in period_obligation_forall); translator qsym/qx for the matrices; the rest of the key (names, wires, hyperparameters, trainable indices, shots, measurement data) is covered by the correspondence run only; the 10-decimal rounding in the key merges parameters closer than 5e-11 (results then differ by <= 1e-10): compared with tolerance 1e-9, not claimed exact. A defect found here (period 2 pi for RX/RY/RZ/Rot/U3) was repaired in /repo by a fix: commit.",
    "assumptions": ["analytic execution is deterministic: run is a function of the tape"],
    "trusted": ["hand model coq/Disc/CacheModel.v tied by correspondence", "translator harness/qsym.py, qx.py"],
}
HEADER = """From Coq Require Import List ZArith QArith Bool.
From PLV Require Import Alg.Poly Lin.Vec Lin.PVec.
Import ListNotations.
Open Scope Q_scope.
"""


def run(ctx):
    ctx.coq_props()
    out = ctx.run_impl("c05_impl.py", {"tier": ctx.tier, "seed": ctx.seed, "outdir": str(ctx.gen_dir)}, timeout=3000)
    items, cases = out["items"], out["cases"]
    obl = json.loads((ctx.gen_dir / "obligations.json").read_text())
    failed = ctx.coq_obligations("period", HEADER, [(o["name"], o["stmt"], "vm_compute. reflexivity.") for o in obl], chunk=20)
    by = {o["name"]: o for o in obl}
    lem = {i.get("lemma"): i for i in items if i.get("lemma")}
    for name, detail in failed:
        o = by.get(name)
        if o is None:
            ctx.broken_obligation("coq", name, detail); continue
        wit = lem.get(name, {}).get("numeric_fail")
        ctx.violation(f"period:{o['gate']}:{o['param']}", {"gate": o["gate"], "parameter": o["param"], "period_used_by_hash": f"{o['mult']}*2pi",
                      "witness": wit, "consequence": "two circuits with equal cache key but different matrices: cached execution returns the wrong one"},
                      found_input=bool(wit), what=f"the hash of {o['gate']} reduces parameter {o['param']} modulo {o['mult']}*2pi which is not a period of its matrix")
    for i in items:
        if i.get("numeric_fail") and i.get("lemma") not in [n for n, _ in failed]:
            ctx.violation(f"period:{i['name']}:{i['param']}", {"gate": i["name"], "witness": i["numeric_fail"]}, what="hash period is not a matrix period (numeric)")
    bad_items = [i for i in items if i["status"] != "ok"]
    pr = lambda p: f"({gz(p[0])}, {gz(p[1])})"
    terms = []
    for c in cases:
        obs = glist(c["observed"], lambda eo: f"({glist(eo[0], gz)}, {glist(eo[1], lambda x: gopt(x, gz))})")
        terms.append(f"({glist(c['keys'], pr)}, {glist(c['runs'], pr)}, {glist(c['batches'], lambda b: glist(b, gz))}, {obs})")
    bad = ctx.coq_eval_cases("cases", "From PLV Require Import Disc.CacheModel.", terms, "check_case")
    for ci, c in enumerate(cases):
        if c["mismatch"]:
            ctx.violation("cached-vs-uncached:" + json.dumps(c["tapes"])[:300], {"tapes": c["tapes"], "batches": c["batches"], "first_mismatch": c["mismatch"], "case_class": c.get("label", "generated history")},
                          what="cached execution returned a different result than uncached execution")
    for b in bad:
        c = cases[b]
        if not c["mismatch"]:
            ctx.violation("corr:" + json.dumps(c["tapes"])[:300], {"tapes": c["tapes"], "batches": c["batches"], "observed": c["observed"], "keys": c["keys"], "case_class": c.get("label", "generated history")},
                          what="cached execution differs from the proved cache model (which circuits were executed / which results returned)")
    ctx.coverage.update({"evaluations": len(cases) + len(items), "distinct_nontrivial": sum(1 for c in cases if c["dup_keys"]) + len(obl),
                         "rule": "batch histories with forced 2pi-multiple twins sharing one cache; non-trivial = history in which two distinct circuits share a key; plus one period obligation per (gate, parameter) whose hash is periodic; fixed corpus first: tapes derived with copy(measurements/shots/trainable_params/operations) from an already executed (hashed) tape, keyword (hyperparameter) twins on default.qubit and default.mixed, large-array twins differing in entries an abbreviated printout elides",
                         "fixed_corpus_cases": out.get("nfixed", 0), "fixed_corpus_classes": sorted(set(c["label"] for c in cases if c.get("label"))),
                         "periods_found": [(i["name"], i["param"], i["period_over_2pi"]) for i in items if i.get("period_over_2pi")],
                         "histories_with_key_sharing": sum(1 for c in cases if c["dup_keys"]),
                         "extraction_problems": [(i["name"], i.get("detail", "")[:80]) for i in bad_items]})
    if cases:
        ctx.sample({"tapes": cases[0]["tapes"], "batches": cases[0]["batches"], "observed": cases[0]["observed"]})
