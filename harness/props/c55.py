"""C55 Lie-algebra tools compute closed algebras and correct structure constants."""
from vlib import *
from fractions import Fraction
import numpy as np

PID = "C55"
META = {
    "level": "proof",
    "technique": "verified checkers in Coq (exact rational linear algebra over Pauli sentences, certificate re-verification) run by vm_compute on the outputs of the real lie_closure / structure_constants / cartan_decomp / PauliVSpace; numpy oracle for the dense-matrix form",
    "design_ref": "DESIGN.md §3 C55",
    "text": "Props/C55.v (11 kernel-checked theorems, all inputs): soundness of check_closure (basis linearly independent, every generator in the span, every commutator of basis elements in the span), check_structure ([iG_a,iG_b] = sum_g f^g_ab iG_g in PennyLane's documented normalisation), check_cartan (k fixed / m negated by theta, [k,k] in k, [k,m] in m, [m,m] in k), of the certificate-returning span test (sound for any certificate, complete once the dual functionals are verified => PauliVSpace's independence question is decided exactly); the built-in involutions are linear sign extensions squaring to the identity, and automorphisms of the Pauli Lie algebra for all words on <= 4 qubits (finite computation, bound in the statement). Tie: random generator sets (Pauli words and rational Pauli sentences, structured TFIM/XY/Heisenberg families and random ones, <= 4 qubits) go through the real qp.lie_closure in PauliSentence, Operator and dense-matrix form, qp.structure_constants (orthogonal and Gram-corrected), qp.liealg.cartan_decomp with the built-in involutions and PauliVSpace.is_independent/add; the outputs are converted to exact rationals and fed to the Coq checkers (vm_compute); the matrix form is checked by an independent numpy oracle and the dimensions of the three forms must agree.",
    "note": "The checkers validate OUTPUTS (translation validation): termination and minimality of lie_closure are not proved (minimality is only cross-checked: equal dimension in the three forms, and a truncated basis must be rejected). Floats are converted to rationals (exact for dyadic inputs; limit_denominator snapping with 1e-10 guard otherwise; unsnappable outputs are counted and only checked numerically). The Gauss-Jordan elimination that finds the dual functionals is untrusted (its result is re-verified by the proved checker). Non-qubit (p != q) involutions, horizontal_cartan_subalgebra and center are not covered. The dense-matrix form is covered by the numpy oracle only (its orthonormalised basis is irrational).",
    "assumptions": ["generators are Hermitian with rational Pauli coefficients on wires 0..n-1, n <= 4",
                    "DLA dimension below the per-tier cap for the in-Coq check (larger ones: dimension cross-check only)"],
    "trusted": ["float -> rational conversion of the implementation's outputs in harness/props/c55.py",
                "Pauli word product table and wcomm reused from Disc/PauliAlgModel.v (C51)",
                "numpy (oracle for the dense-matrix form)"],
}

P1 = {"X": "PX", "Y": "PY", "Z": "PZ"}
INV_MODEL = {"even_odd": "IEvenOdd", "concurrence": "IConcurrence", "AI": "IConcurrence", "CI": "IConcurrence",
             "AII": "IAII", "AIII": "IAIII", "BDI": "IAIII", "DIII": "IDIII", "A": "IDIII", "BD": "IDIII",
             "C": "IDIII", "CII": "ICII"}
M1 = {"I": np.eye(2), "X": np.array([[0, 1], [1, 0]]), "Y": np.array([[0, -1j], [1j, 0]]), "Z": np.diag([1, -1])}


# ------------------------------------------------------------------ generator
def rcoef(rng, dyadic=True):
    dens = [1, 1, 2, 4] if dyadic else [1, 2, 3, 3, 4, 5]
    return [rng.choice([-3, -2, -1, 1, 1, 2, 3, 5]), rng.choice(dens)]


def rword(rng, n):
    while True:
        w = [[q, rng.choice("XYZ")] for q in range(n) if rng.random() < 0.6]
        if w:
            return w


def gen_closure(rng, quick):
    fam = rng.choice(["tfim", "xy", "heis", "words", "words", "words", "sent", "sent", "mixed"])
    dy = rng.random() < 0.8
    one = lambda w: [[w] + rcoef(rng, dy)]
    if fam == "tfim":
        n = rng.choice([2, 3, 4] if not quick else [2, 3, 3, 4])
        a, b = rng.sample("XYZ", 2)
        gens = [one([[i, a], [i + 1, a]]) for i in range(n - 1)] + [one([[i, b]]) for i in range(n)]
    elif fam == "xy":
        n = rng.choice([2, 3])
        gens = [[[[[i, "X"], [i + 1, "X"]]] + rcoef(rng, dy), [[[i, "Y"], [i + 1, "Y"]]] + rcoef(rng, dy)] for i in range(n - 1)]
        gens += [one([[i, "Z"]]) for i in range(n) if rng.random() < 0.7]
    elif fam == "heis":
        n = rng.choice([2, 3, 4])
        gens = []
        for i in range(n - 1):
            c = rcoef(rng, dy)
            gens.append([[[[i, p], [i + 1, p]]] + c for p in "XYZ"])
    elif fam == "words":
        n = rng.choice([1, 2, 2, 3, 3, 4])
        k = rng.choice([2, 3, 4]) if n <= 3 else rng.choice([2, 3])
        gens = [one(rword(rng, n)) for _ in range(k)]
    elif fam == "sent":
        n = rng.choice([1, 2, 2, 3])
        gens = []
        for _ in range(rng.choice([2, 2, 3])):
            ws = []
            for _ in range(rng.choice([1, 2, 2, 3])):
                w = rword(rng, n)
                if w not in ws:
                    ws.append(w)
            gens.append([[w] + rcoef(rng, dy) for w in ws])
    else:
        n = 2
        gens = [one(rword(rng, n)), [[[[0, "X"], [1, "Y"]]] + rcoef(rng, dy), [[[0, "Y"], [1, "X"]]] + rcoef(rng, dy)]]
    # duplicates / dependent generators on purpose
    if rng.random() < 0.25:
        g = rng.choice(gens)
        gens.append([[w, 2 * a, b] for w, a, b in g])
    names = ["even_odd", "concurrence", "AI", "CI", "AII", "AIII", "BDI", "DIII", "A", "BD", "C"] + (["CII"] if n >= 2 else [])
    invs = [[nm, rng.randrange(n)] for nm in rng.sample(names, 3)]
    return {"t": "closure", "n": n, "gens": gens, "invs": invs, "cap": 40 if quick else 70, "fam": fam}


def gen_vspace(rng):
    n = rng.choice([1, 2, 3])
    pool = []
    while len(pool) < rng.choice([3, 4, 5, 6]):
        w = rword(rng, n)
        if w not in pool:
            pool.append(w)

    def rs(k):
        ws = rng.sample(pool, min(k, len(pool)))
        return [[w] + rcoef(rng, False) for w in ws]
    init = [rs(rng.choice([1, 2, 3])) for _ in range(rng.choice([2, 3, 4, 5]))]
    if rng.random() < 0.5 and len(init) >= 2:      # a dependent one inside the initial list
        a, b = init[0], init[1]
        init.insert(2, lin_comb([(Fraction(2), a), (Fraction(-1, 3), b)]))
    cands = []
    for _ in range(rng.choice([2, 3, 4])):
        r = rng.random()
        if r < 0.45:     # in the span of the initial list
            ks = rng.sample(range(len(init)), min(2, len(init)))
            cands.append(lin_comb([(Fraction(*rcoef(rng, False)), init[k]) for k in ks]) or rs(1))
        elif r < 0.8:
            cands.append(rs(rng.choice([1, 2])))
        else:            # certainly new word
            cands.append([[[[0, "Z"], [n, "Z"]], 1, 1]] + rs(1))
    return {"t": "vspace", "init": init, "cands": cands}


def lin_comb(pairs):
    acc = {}
    for c, s in pairs:
        for w, a, b in s:
            k = json.dumps(w)
            acc[k] = acc.get(k, 0) + c * Fraction(a, b)
    return [[json.loads(k), v.numerator, v.denominator] for k, v in acc.items() if v != 0]


# ------------------------------------------------------------------ conversion / printers
def snapq(x, maxden=10 ** 6, tol=1e-10):
    f = Fraction(x)
    if f.denominator > maxden:
        f = f.limit_denominator(maxden)
    return f if abs(float(f) - x) <= tol else None


def snap_sentence(s):
    """implementation sentence (floats) -> [(letters, Fraction)] or None; imaginary parts must vanish"""
    out = []
    for letters, re, im in s:
        q = snapq(re)
        if q is None or abs(im) > 1e-12:
            return None
        if q != 0:
            out.append((letters, q))
    return out


def zi(n):
    return f"({int(n)})" if n < 0 else str(int(n))


def g_q(fr):
    fr = Fraction(fr)
    return f"({zi(fr.numerator)} # {fr.denominator})%Q"


def g_sent(s):
    return glist(s, lambda e: "(" + glist(e[0], lambda wp: f"({zi(wp[0])}, {P1[wp[1]]})") + ", " + g_q(e[1]) + ")")


def g_in_sent(s):
    return g_sent([(w, Fraction(a, b)) for w, a, b in s])


def g_sparse_f(f, d):
    ent = []
    for a in range(d):
        for b in range(d):
            col = []
            for g in range(d):
                x = f[g][a][b]
                if abs(x) > 1e-11:
                    q = snapq(x, 10 ** 4, 1e-9)
                    if q is None:
                        return None
                    col.append(f"({g}%nat, {g_q(q)})")
            if col:
                ent.append(f"({a}%nat, {b}%nat, [{'; '.join(col)}])")
    return "[" + "; ".join(ent) + "]"


def g_inv(name, wire):
    m = INV_MODEL[name]
    return m if m in ("IEvenOdd", "IConcurrence") else f"({m} {zi(wire)})"


# ------------------------------------------------------------------ numpy oracle (dense-matrix form)
def mat_of(sent, n):
    tot = np.zeros((2 ** n, 2 ** n), dtype=complex)
    for letters, a, b in sent:
        d = {w: p for w, p in letters}
        m = np.array([[1.0 + 0j]])
        for q in range(n):
            m = np.kron(m, M1[d.get(q, "I")])
        tot += (a / b) * m
    return tot


def vecs(ms):
    ms = np.asarray(ms).reshape(len(ms), -1)
    return np.concatenate([ms.real, ms.imag], axis=1)


def residual(basis_vecs, targets):
    if len(targets) == 0:
        return 0.0
    if len(basis_vecs) == 0:
        return float(np.abs(targets).max())
    sol = np.linalg.lstsq(basis_vecs.T, targets.T, rcond=None)[0]
    return float(np.abs(basis_vecs.T @ sol - targets.T).max())


def commutators(A, B):
    return np.array([a @ b - b @ a for a in A for b in B]).reshape(len(A) * len(B), *A[0].shape) if len(A) and len(B) else np.zeros((0, 1, 1))


def on_wire(p, wire, n):
    m = np.array([[1.0 + 0j]])
    for q in range(n):
        m = np.kron(m, M1[p] if q == wire else M1["I"])
    return m


def theta_np(name, wire, n, x):
    """the involutions of involutions.py acting on x = iG, written independently"""
    if name == "even_odd":
        y = np.array([[1.0 + 0j]])
        for _ in range(n):
            y = np.kron(y, M1["Y"])
        return y @ x.conj() @ y
    if name == "concurrence":
        return -x.T
    if name == "AI":
        return x.conj()
    if name == "AII":
        y = on_wire("Y", wire, n)
        return y @ x.conj() @ y
    if name == "AIII":
        z = on_wire("Z", wire, n)
        return z @ x @ z
    if name == "DIII":
        y = on_wire("Y", wire, n)
        return y @ x @ y
    raise KeyError(name)


def mat_oracle(c, r, stats):
    n, d = c["n"], r["dim"]
    G = np.array([np.array(re) + 1j * np.array(im) for re, im in r["basis"]])
    if not np.allclose(G, np.conj(np.transpose(G, (0, 2, 1))), atol=1e-9):
        return "matrix basis not Hermitian"
    V = vecs(G)
    if np.linalg.matrix_rank(V, tol=1e-8) != d:
        return "matrix basis linearly dependent"
    gens = np.array([mat_of(s, n) for s in c["gens"]])
    if residual(V, vecs(gens)) > 1e-7:
        return "a generator is outside the span of the matrix basis"
    com = commutators(G, G) / 1j
    if residual(V, vecs(com)) > 1e-7:
        return "matrix basis not closed under commutators"
    f = np.array(r["f"])
    if f.shape != (d, d, d):
        return "structure constants have the wrong shape"
    pred = -1j * np.einsum("gab,gij->abij", f, G).reshape(d * d, *G[0].shape)
    if np.abs(commutators(G, G) - pred).max() > 1e-7:
        return "matrix structure constants do not reproduce the commutators"
    for (name, wire), res in zip(r["minvs"], r["cartan"]):
        if isinstance(res, str):
            continue
        # cartan_decomp assumes every basis element is an eigenvector of the involution; the matrix versions of
        # AI/AII/AIII/DIII do not test this, so the precondition is evaluated here (independent numpy involutions)
        th = [theta_np(name, wire, n, 1j * g) for g in G]
        if not all(np.allclose(t, 1j * g, atol=1e-9) or np.allclose(t, -1j * g, atol=1e-9) for t, g in zip(th, G)):
            stats["matrix_cartan_precondition_fails"] = stats.get("matrix_cartan_precondition_fails", 0) + 1
            continue
        stats["matrix_cartan_checked"] = stats.get("matrix_cartan_checked", 0) + 1
        k = np.array([np.array(re) + 1j * np.array(im) for re, im in res["k"]]).reshape(-1, 2 ** n, 2 ** n)
        m = np.array([np.array(re) + 1j * np.array(im) for re, im in res["m"]]).reshape(-1, 2 ** n, 2 ** n)
        if len(k) + len(m) != d:
            return f"cartan_decomp({name}) is not a partition of the matrix basis"
        if not all(np.allclose(theta_np(name, wire, n, 1j * x), 1j * x, atol=1e-9) for x in k) or \
           not all(np.allclose(theta_np(name, wire, n, 1j * x), -1j * x, atol=1e-9) for x in m):
            return f"cartan_decomp({name}) matrix form: k is not fixed / m is not negated by the involution"
        vk, vm = vecs(k) if len(k) else np.zeros((0, V.shape[1])), vecs(m) if len(m) else np.zeros((0, V.shape[1]))
        for A, B, T, nm in ((k, k, vk, "[k,k] in k"), (k, m, vm, "[k,m] in m"), (m, m, vk, "[m,m] in k")):
            if len(A) and len(B) and residual(T, vecs(commutators(A, B) / 1j)) > 1e-7:
                return f"cartan_decomp({name}) matrix form violates {nm}"
    return None


CORPUS = [
    {"t": "closure", "n": 2, "cap": 40, "fam": "doc", "invs": [["even_odd", 0], ["concurrence", 0], ["AIII", 0]],
     "gens": [[[[[0, "X"], [1, "X"]], 1, 1]], [[[[0, "Z"]], 1, 1]], [[[[1, "Z"]], 1, 1]]]},
    {"t": "closure", "n": 1, "cap": 40, "fam": "doc", "invs": [["AI", 0], ["DIII", 0], ["AII", 0]],
     "gens": [[[[[0, "X"]], 1, 1]], [[[[0, "Y"]], 1, 1]], [[[[0, "X"]], 1, 1], [[[0, "Z"]], -1, 1]]]},
    {"t": "closure", "n": 3, "cap": 40, "fam": "heis", "invs": [["even_odd", 0], ["CII", 1], ["BDI", 2]],
     "gens": [[[[[i, p], [i + 1, p]], 1, 2] for p in "XYZ"] for i in range(2)]},
    {"t": "closure", "n": 2, "cap": 40, "fam": "sent", "invs": [["concurrence", 0], ["A", 1], ["C", 0]],
     "gens": [[[[[0, "X"], [1, "X"]], 1, 1], [[[0, "Y"], [1, "Y"]], 1, 3]], [[[[0, "Z"]], 1, 1], [[[1, "Z"]], 3, 4]]]},
    {"t": "vspace", "init": [[[[[0, "X"], [1, "X"]], 1, 1], [[[0, "Y"], [1, "Y"]], 1, 1]], [[[[0, "X"], [1, "X"]], 1, 1]],
                             [[[[0, "Y"], [1, "Y"]], 1, 1]]],
     "cands": [[[[[0, "X"]], 1, 1]], [[[[0, "Y"], [1, "Y"]], 1, 1]], [[[[0, "X"], [1, "X"]], 1, 3], [[[0, "X"]], -2, 1]]]},
]


def run(ctx):
    ctx.coq_props()
    rng = ctx.rng
    quick = ctx.tier == "quick"
    ncl, nvs = (28, 30) if quick else (120, 160)
    cap_words, cap_sent = (30, 14) if quick else (64, 24)
    cases = [dict(c) for c in CORPUS]
    while sum(c["t"] == "closure" for c in cases) < ncl:
        cases.append(gen_closure(rng, quick))
    while sum(c["t"] == "vspace" for c in cases) < nvs:
        cases.append(gen_vspace(rng))
    obs = ctx.run_impl("c55_impl.py", {"cases": cases}, timeout=(420 if quick else 1500))

    terms, owners = [], []        # Gallina cases and (case index, label)
    hist = {"closure_cases": 0, "vspace_cases": 0, "coq_closure": 0, "coq_closure_negative_controls": 0, "coq_struct": 0,
            "coq_cartan": 0, "coq_vspace_steps": 0, "cartan_undefined": 0, "unsnappable": 0, "too_big_for_coq": 0,
            "matrix_oracle": 0, "sentence_bases": 0, "dependent_generators": 0, "dims": {}, "families": {}}
    distinct = set()

    def add(term, i, label):
        terms.append(term)
        owners.append((i, label))

    for i, (c, o) in enumerate(zip(cases, obs)):
        key = json.dumps(c, sort_keys=True)
        if c["t"] == "vspace":
            hist["vspace_cases"] += 1
            if not o["consistent"]:
                ctx.violation("direct:" + key, {"case": c, "observed": o}, what="PauliVSpace basis bookkeeping inconsistent")
            basis = []
            steps = [(s, k in o["basis0"]) for k, s in enumerate(c["init"])]
            for s, kept in steps:
                add(f"KVspace {glist(basis, g_in_sent)} {g_in_sent(s)} {gbool(kept)}", i, "vspace-init")
                if kept:
                    basis.append(s)
            for s, ind in zip(c["cands"], o["indep"]):
                add(f"KVspace {glist(basis, g_in_sent)} {g_in_sent(s)} {gbool(ind)}", i, "vspace-is_independent")
            for s, ad in zip(c["cands"], o["added"]):
                add(f"KVspace {glist(basis, g_in_sent)} {g_in_sent(s)} {gbool(ad)}", i, "vspace-add")
                if ad:
                    basis.append(s)
            hist["coq_vspace_steps"] += len(steps) + 2 * len(c["cands"])
            distinct.add(key)
            continue
        # ---------------- closure
        hist["closure_cases"] += 1
        hist["families"][c["fam"]] = hist["families"].get(c["fam"], 0) + 1
        dims = {f: (len(o[f]["basis"]) if f != "mat" else o[f]["dim"]) for f in ("ps", "op", "mat")}
        d = dims["ps"]
        hist["dims"][str(d)] = hist["dims"].get(str(d), 0) + 1
        if len(set(dims.values())) != 1:
            ctx.violation("direct:" + key, {"case": c, "dims": dims},
                          what="lie_closure returns different dimensions in PauliSentence / Operator / matrix form")
        if d < len(c["gens"]):
            hist["dependent_generators"] += 1
        if d > 1:
            distinct.add(key)
        gens_g = glist(c["gens"], g_in_sent)
        for form in ("ps", "op"):
            r = o[form]
            basis = [snap_sentence(s) for s in r["basis"]]
            if any(b is None for b in basis):
                hist["unsnappable"] += 1
                continue
            is_sent = any(len(b) > 1 for b in basis)
            hist["sentence_bases"] += is_sent
            if d > (cap_sent if is_sent else cap_words) or "f_gen" not in r:
                hist["too_big_for_coq"] += 1
                continue
            bg = glist(basis, g_sent)
            add(f"KClosure {bg} {gens_g} true", i, f"closure-{form}")
            hist["coq_closure"] += 1
            if d >= 2 and rng.random() < 0.3:
                add(f"KClosure {glist(basis[:-1], g_sent)} {gens_g} false", i, f"closure-negative-control-{form}")
                hist["coq_closure_negative_controls"] += 1
            for fk in ("f_gen", "f_orth"):
                if fk in r:
                    f = r[fk]
                    if len(f) != d or any(len(x) != d or any(len(y) != d for y in x) for x in f):
                        ctx.violation("direct:" + key, {"case": c, "form": form}, what="structure constants have the wrong shape")
                        continue
                    sf = g_sparse_f(f, d)
                    if sf is None:
                        hist["unsnappable"] += 1
                        continue
                    add(f"KStruct {sf} {bg} true", i, f"structure-{form}-{fk}")
                    hist["coq_struct"] += 1
            for (name, wire), res in zip(c["invs"], r["cartan"]):
                if isinstance(res, str):
                    hist["cartan_undefined"] += 1
                    continue
                k, m = [snap_sentence(s) for s in res["k"]], [snap_sentence(s) for s in res["m"]]
                if any(x is None for x in k + m):
                    hist["unsnappable"] += 1
                    continue
                canon = lambda ss: sorted(json.dumps(sorted((json.dumps(w), str(q)) for w, q in s)) for s in ss)
                if canon(k + m) != canon(basis):
                    ctx.violation("direct:" + key, {"case": c, "involution": [name, wire]},
                                  what="cartan_decomp output is not a partition of the algebra basis")
                add(f"KCartan {g_inv(name, wire)} {glist(k, g_sent)} {glist(m, g_sent)} true", i, f"cartan-{form}-{name}")
                hist["coq_cartan"] += 1
        r = o["mat"]
        if "basis" in r:
            hist["matrix_oracle"] += 1
            why = mat_oracle(c, r, hist)
            if why is not None:
                ctx.violation("direct-matrix:" + key, {"case": c, "why": why}, what=why)

    header = ("From Coq Require Import QArith.\nFrom PLV Require Import Disc.PauliAlgModel Disc.LieAlgModel.\n"
              "Open Scope Z_scope.")
    bad = ctx.coq_eval_cases("cases", header, terms, "check_case", chunk=(40 if quick else 80), par=12)
    for j in bad:
        i, label = owners[j]
        c = cases[i]
        ctx.violation(f"checker:{label}:" + json.dumps(c, sort_keys=True),
                      {"case": c, "failed_checker": label, "gallina": terms[j][:3000]},
                      what=f"verified checker rejects the implementation's output ({label})")
    ctx.coverage.update({
        "evaluations": len(terms), "distinct_nontrivial": len(distinct),
        "rule": "corpus (documented TFIM / non-orthogonal su(2) examples, Heisenberg, XY) then seeded generator sets: TFIM/XY/Heisenberg "
                "chains, random Pauli words, random rational Pauli sentences (80% dyadic coefficients), duplicated generators 25%; "
                "each set through lie_closure in PauliSentence, Operator and dense-matrix form, structure_constants "
                "(is_orthogonal False / True), cartan_decomp with 3 random built-in involutions; PauliVSpace streams with dependent "
                "and independent candidates; non-trivial = DLA dimension > 1 or a vspace stream",
        "input_distribution": hist})
    for c, o in list(zip(cases, obs))[:2]:
        ctx.sample({"case": {k: v for k, v in c.items() if k != "cap"},
                    "dims": {f: (len(o[f]["basis"]) if f != "mat" else o[f]["dim"]) for f in ("ps", "op", "mat")}})
