"""C06 Copies, pickles, pytrees and rebinding reproduce operators."""
import re
from fractions import Fraction as F

from vlib import *
from props import c04 as G

PID = "C06"
META = {
    "level": "proof",
    "technique": "Coq proofs by structural induction over a Gallina model of the operator parameter codec (data leaves / metadata, flatten-unflatten, bind_new_parameters) + vm_compute structural comparison of ASTs extracted from the real objects after copy, deepcopy, pickle, qp.pytrees, jax.tree_util and bind_new_parameters",
    "design_ref": "DESIGN.md §3 C06",
    "text": "Props/C06.v proves for ALL nested ASTs: unflatten(flatten a) = a, bind(a, params(a)) = a, bind replaces exactly the leaves in data order and preserves all metadata (class, wires, hyperparameters, control wires/values, exponents, operand order), bind succeeds iff the new leaves have the number and shapes of the old ones. Every run builds real operators and measurement processes of ~75 classes (named gates, nested Adjoint/Pow/Controlled/SProd/Exp/Sum/Prod/ChangeOpBasis, templates, channels, observables, 17 measurement kinds) with generated parameters and wire labels, sends them through copy.copy, copy.deepcopy, pickle, qp.pytrees.flatten/unflatten, jax.tree_util, bind_new_parameters(op, op.data / op.parameters) and bind_new_parameters with fresh values, extracts the AST of every result from the REAL object and checks inside Coq that it is structurally identical to the original's AST resp. to the model's bind; results are also compared with qp.equal in both orders, types and wires are compared, rebinding must return exactly the new data and leave the original untouched, and every mutable leaf of the deep copy is mutated in place to show that the original does not change (plus an identity scan for shared mutable objects).",
    "note": "Trusted: Coq kernel; RebindModel.v is a hand transcription tied to /repo by the correspondence run only; the AST extraction in harness/impl/c04_impl.py. The proofs are about the codec LOGIC; Python object identity, pickle internals and jax registration are runtime behaviour observed per run, not proved. The control-value pseudo parameter of MultiControlledX/ControlledQubitUnitary is treated as metadata and passed through unchanged when rebinding. PennyLane's own pytree leaves (which for Operator2 also contain wires and exponents) are not compared leaf-by-leaf with the model's leaves, only the round trip. Classes whose hyperparameters hold operators of non-extractable kinds (LinearCombination, ApproxTimeEvolution, TrotterProduct, Select) are compared by qp.equal and a repr fingerprint only. Rebinding with a wrong number of parameters is observed (raised / silently returned) but not alarmed on: the property does not constrain it. Capture-primitive binding (plxpr) is not exercised. Two defects of the unchanged tree are reported under stable keys (known_findings.json): finding:deepcopy_shares_data_arrays (Operator.__deepcopy__ shallow-copies _data by design, so ndarray parameters of old-style operators are shared with the deep copy) and finding:bind_controlled_qubit_unitary (bind_new_parameters on ControlledQubitUnitary raises / drops control values); any other sharing or rebinding failure is a per-case violation. Shallow copies (copy.copy) are allowed to share state. General complex parameters are not extractable (real or purely imaginary only).",
    "assumptions": ["operators are concrete (no tracers), data are numpy/python numbers",
                    "new parameters have the shapes and real/imaginary kind of the old ones"],
    "trusted": ["hand-written model coq/Disc/RebindModel.v tied to /repo by correspondence only",
                "harness extraction of the AST from real objects (harness/impl/c04_impl.py)"],
}

EXTRA = ["U1", "CRY", "CH", "CCZ", "IsingYY", "IsingXY", "OrbitalRotation", "PhaseDamping", "PhaseFlip",
         "GeneralizedAmplitudeDamping", "ResetError", "PauliError", "Projector", "StatePrep", "Snapshot", "WireCut",
         "StronglyEntanglingLayers", "Permute", "GroverOperator", "AmplitudeEmbedding", "BasisEmbedding",
         "ControlledQubitUnitary", "DiagonalQubitUnitary", "Hamiltonian", "ApproxTimeEvolution", "TrotterProduct",
         "Select", "SingleExcitationPlus", "DoubleExcitationMinus", "FermionicSWAP", "ECR", "SISWAP", "CPhaseShift00"]


def prob(rng):
    return rng.choice([0.125, 0.25, 0.0625, rng.randint(1, 400) / 1024.0])


def pauli_ham(rng, pool):
    n = rng.randint(2, 3)
    return {"c": "hamiltonian", "coeffs": [G.rval(rng) or 0.5 for _ in range(n)],
            "o": [{"c": rng.choice(["X", "Y", "Z"]), "w": [rng.choice(pool)]} for _ in range(n)]}


def gen_extra(rng, pool):
    """returns (spec, rebindable)"""
    for _ in range(40):
        name = rng.choice(EXTRA)
        k = len(pool)
        w = lambda n: rng.sample(pool, n)
        if name in ("U1",):
            return {"c": name, "p": [G.rval(rng)], "w": w(1)}, True
        if name in ("CRY", "IsingYY", "IsingXY", "SingleExcitationPlus", "FermionicSWAP", "CPhaseShift00") and k >= 2:
            return {"c": name, "p": [G.rval(rng)], "w": w(2)}, True
        if name in ("CH", "ECR", "SISWAP") and k >= 2:
            return {"c": name, "w": w(2)}, True
        if name == "CCZ" and k >= 3:
            return {"c": name, "w": w(3)}, True
        if name in ("OrbitalRotation", "DoubleExcitationMinus") and k >= 4:
            return {"c": name, "p": [G.rval(rng)], "w": w(4)}, True
        if name in ("PhaseDamping", "PhaseFlip"):
            return {"c": name, "p": [prob(rng)], "w": w(1)}, True
        if name in ("GeneralizedAmplitudeDamping", "ResetError"):
            return {"c": name, "p": [prob(rng), prob(rng)], "w": w(1)}, True
        if name == "PauliError":
            n = rng.randint(1, min(2, k))
            return {"c": name, "p": ["".join(rng.choice("XYZ") for _ in range(n)), prob(rng)], "w": w(n)}, True
        if name == "Projector":
            n = rng.randint(1, min(2, k))
            return {"c": name, "p": [{"arr": [rng.randint(0, 1) for _ in range(n)], "dtype": "int64"}], "w": w(n)}, True
        if name == "StatePrep":
            n = rng.randint(1, min(2, k))
            v = [0.0] * (2 ** n)
            v[rng.randrange(2 ** n)] = 1.0
            if rng.random() < 0.5:
                v = [0.6, 0.8] + [0.0] * (2 ** n - 2)
            return {"c": name, "p": [{"arr": v}], "w": w(n)}, False
        if name == "AmplitudeEmbedding":
            n = rng.randint(1, min(2, k))
            return {"c": name, "p": [{"arr": [0.6, 0.8] + [0.0] * (2 ** n - 2)}], "w": w(n)}, False
        if name == "BasisEmbedding":
            n = rng.randint(1, min(3, k))
            return {"c": name, "p": [{"arr": [rng.randint(0, 1) for _ in range(n)], "dtype": "int64"}], "w": w(n)}, True
        if name == "Snapshot":
            return {"c": name, "p": [rng.choice(["tag", "s1"])], "nowires": 1}, True
        if name == "WireCut":
            return {"c": name, "w": w(rng.randint(1, min(2, k)))}, True
        if name == "StronglyEntanglingLayers" and k >= 2:
            n = rng.randint(2, min(3, k))
            return {"c": name, "p": [{"arr": [[[G.rval(rng) for _ in range(3)] for _ in range(n)] for _ in range(rng.randint(1, 2))]}],
                    "w": w(n)}, True
        if name == "Permute" and k >= 2:
            ws = w(rng.randint(2, min(4, k)))
            perm = ws[:]
            rng.shuffle(perm)
            if perm == ws:
                perm = ws[::-1]
            return {"c": name, "p": [perm], "w": ws}, True
        if name == "GroverOperator" and k >= 2:
            ws = w(rng.randint(2, min(3, k)))
            return {"c": name, "w": ws}, True
        if name == "ControlledQubitUnitary" and k >= 2:
            return {"c": name, "p": [{"arr": rng.choice([[[0.0, 1.0], [1.0, 0.0]], [[0.6, 0.8], [-0.8, 0.6]]])}], "w": w(2)}, True
        if name == "DiagonalQubitUnitary":
            return {"c": name, "p": [{"arr": [1.0, -1.0]}], "w": w(1)}, False
        if name == "Hamiltonian":
            return pauli_ham(rng, pool), True
        if name == "ApproxTimeEvolution":
            return {"c": name, "p": [{"op": pauli_ham(rng, pool)}, G.rval(rng) or 0.5, rng.randint(1, 3)], "nowires": 1}, True
        if name == "TrotterProduct":
            return {"c": name, "p": [{"op": pauli_ham(rng, pool)}, G.rval(rng) or 0.5], "kw": {"n": rng.randint(1, 2), "order": rng.choice([1, 2])},
                    "nowires": 1}, True
        if name == "Select" and k >= 3:
            ws = w(3)
            return {"c": name, "p": [{"ops": [{"c": "RX", "p": [G.rval(rng)], "w": [ws[0]]}, {"c": "Z", "w": [ws[1]]}]}],
                    "kw": dict({"control": [ws[2]]}, **({"partial": True} if rng.random() < 0.5 else {})), "nowires": 1}, True
    return {"c": "U1", "p": [0.5], "w": [pool[0]]}, True


def gen_tree(rng, pool, depth):
    """operator tree whose leaves are drawn from C04's leaf table and the extra classes; returns (spec, rebindable)"""
    reb = [True]

    def leaf():
        if rng.random() < 0.4:
            s, r = gen_extra(rng, pool)
            reb[0] &= r
            return s
        return G.gen_leaf(rng, pool)

    def go(d):
        s = G.gen_op(rng, pool, d)
        # replace a share of the leaves by extra classes
        def rep(n):
            for k in ("b",):
                if k in n:
                    n[k] = rep(n[k])
            if "o" in n:
                n["o"] = [rep(x) for x in n["o"]]
            if "b" not in n and "o" not in n and rng.random() < 0.4:
                free = [w for w in pool]
                return leaf()
            return n
        return rep(s)
    s = go(depth)
    return s, reb[0]


def ctrl_ok(s):
    """a Controlled node needs control wires disjoint from its base: re-check after leaf replacement"""
    if s.get("c") == "ctrl":
        if set(map(repr, s["cw"] + s.get("ww", []))) & set(map(repr, G.spec_wires(s["b"]))):
            return False
    ok = True
    for k in ("b", "obs"):
        if k in s:
            ok &= ctrl_ok(s[k])
    for o in s.get("o", []):
        ok &= ctrl_ok(o)
    return ok


CORPUS = [
    # the two repaired defects (fix c728bd9): parameters stay aligned behind a MultiControlledX operand;
    # ChangeOpBasis keeps (uncompute, target, compute)
    {"c": "sum", "o": [{"c": "MultiControlledX", "w": ["a", "c2", 1, 2], "kw": {"control_values": [0, 0, 1]}},
                       {"c": "exp", "k": {"im": 1.58}, "b": {"c": "Z", "w": [0]}}, {"c": "CZ", "w": [1, "a"]}]},
    {"c": "cob", "o": [{"c": "S", "w": [0]}, {"c": "RY", "p": [0.3], "w": [0]}]},
    {"c": "cob", "o": [{"c": "RX", "p": [0.125], "w": [0]}, {"c": "RY", "p": [0.25], "w": [0]}, {"c": "RZ", "p": [0.75], "w": [0]}]},
    {"c": "prod", "o": [{"c": "ControlledQubitUnitary", "p": [{"arr": [[0.6, 0.8], [-0.8, 0.6]]}], "w": [1, 0]},
                        {"c": "RX", "p": [0.5], "w": [2]}]},
    {"c": "expval", "mp": 1, "obs": {"c": "Hermitian", "p": [{"arr": [[1.0, 0.5], [0.5, -1.0]]}], "w": [0]}},
    {"c": "ctrl", "b": {"c": "PSWAP", "p": [0.25], "w": [2, 3]}, "cw": [5, "a"], "cv": [1, 0], "ww": [7], "wt": "zeroed"},
    {"c": "pow", "z": 2.5, "b": {"c": "sprod", "s": {"im": 0.5}, "b": {"c": "adjoint", "b": {"c": "Rot", "p": [0.1, 0.2, 0.3], "w": ["b"]}}}},
    {"c": "expval_eig", "mp": 1, "w": [0], "eig": [1.0, -1.0]},
    {"c": "mutual_info", "mp": 1, "w0": [0], "w1": [1, "a"], "log_base": 2},
    # non-default hyperparameters must survive copy / rebinding
    {"c": "Select", "p": [{"ops": [{"c": "RX", "p": [0.125], "w": [2]}, {"c": "RY", "p": [0.25], "w": [3]}, {"c": "RZ", "p": [0.375], "w": [2]}]}],
     "kw": {"control": [0, 1], "work_wires": ["aux"], "partial": True}, "nowires": 1},
]

DATA_SHARE = re.compile(r"\._data\[\d+\]$")
CQU_KEY = "finding:bind_controlled_qubit_unitary"


def bind_key(default, has_cqu):
    return CQU_KEY if has_cqu else default


def run(ctx):
    ctx.coq_props()
    rng = ctx.rng
    n = 260 if ctx.tier == "quick" else 3000
    cases = [{"spec": s, "fresh": [[0.25, 0.125, 0.375, 0.0625] * 3, [0.3125] * 12]} for s in CORPUS]
    while len(cases) < n:
        pool = rng.sample(G.LABELS, rng.choice([2, 3, 4, 4, 5]))
        if rng.random() < 0.22:
            spec, reb = G.gen_mp(rng, pool), False
        else:
            spec, reb = gen_tree(rng, pool, rng.choice([0, 0, 1, 1, 2, 3]))
            if not ctrl_ok(spec):
                continue
        fresh = [[rng.randint(1, 460) / 1024.0 for _ in range(40)] for _ in range(2)] if reb else []
        cases.append({"spec": spec, "fresh": fresh})
    obs = ctx.run_impl("c06_impl.py", {"cases": cases})
    it = G.Intern()
    terms, idx = [], []
    hist = {"skipped_build": 0, "mp": 0, "with_model_ast": 0, "equal_only": 0, "nested_depth>=2": 0, "rebinds": 0,
            "deep_mutated_leaves": 0, "wrong_len_raised": 0, "wrong_len_returned": 0, "routes": 0}
    classes, skips = {}, {}

    def leaves(ls):
        return glist([glist([G.g_frac(x) for x in l]) for l in ls])

    for i, (c, o) in enumerate(zip(cases, obs)):
        key = json.dumps(c["spec"], sort_keys=True)
        if "skip" in o:
            hist["skipped_build"] += 1
            skips[o["skip"][:60]] = skips.get(o["skip"][:60], 0) + 1
            continue
        classes[o["cls"]] = classes.get(o["cls"], 0) + 1
        hist["mp"] += o["is_mp"]
        ast0 = o["ast"]
        if ast0 is None:
            hist["equal_only"] += 1
            skips["ast: " + o.get("ast_skip", "")[:50]] = skips.get("ast: " + o.get("ast_skip", "")[:50], 0) + 1
        else:
            hist["with_model_ast"] += 1
            hist["nested_depth>=2"] += G.ast_depth(ast0) >= 2
        results = []
        for name, r in o["routes"].items():
            hist["routes"] += 1
            rk = f"route:{name}:{key}"
            if name.startswith("bind"):
                rk = bind_key(rk, o.get("has_cqu"))
            if "error" in r:
                ctx.violation(rk, {"spec": c["spec"], "route": name, "error": r["error"]}, what=f"{name} round trip raised: {r['error'][:160]}")
                continue
            if "equal_error" in r or not r.get("equal"):
                ctx.violation(rk, {"spec": c["spec"], "route": name, "result": {k: v for k, v in r.items() if k != "ast"}},
                              what=f"result of {name} is not qp.equal to the original")
            if not r["type_same"]:
                ctx.violation(rk, {"spec": c["spec"], "route": name}, what=f"result of {name} has a different class")
            if not r.get("hyper_same", True):
                ctx.violation(rk, {"spec": c["spec"], "route": name}, what=f"{name} changed a non-parameter attribute (hyperparameter) of the operator")
            if ast0 is not None:
                if r.get("ast") is None:
                    ctx.violation(rk, {"spec": c["spec"], "route": name, "why": r.get("ast_error")}, what=f"result of {name} cannot be read back")
                else:
                    results.append(r["ast"])
                    if r["ast"] != ast0:
                        ctx.violation(rk, {"spec": c["spec"], "route": name, "original": ast0, "result": r["ast"]},
                                      what=f"{name} changed the structure of the object")
            elif not r.get("describe_same", True):
                ctx.violation(rk, {"spec": c["spec"], "route": name}, what=f"{name} changed data or wires")
        d = o["deep"]
        if "error" in d:
            ctx.violation("deep:" + key, {"spec": c["spec"], "error": d["error"]}, what="deepcopy aliasing test raised")
        else:
            hist["deep_mutated_leaves"] += d["mutated_leaves"]
            if d["shared"] or not d["orig_unchanged"]:
                only_data = d["shared"] and all(DATA_SHARE.search(p) for p in d["shared"])
                k = "finding:deepcopy_shares_data_arrays" if only_data else "deep:" + key
                ctx.violation(k, {"spec": c["spec"], "shared_mutable_objects": d["shared"], "original_unchanged_after_mutating_copy": d["orig_unchanged"],
                                  "repro": "import pennylane as qp, numpy as np, copy; m=qp.Hermitian(np.array([[1.,.5],[.5,-1.]]),0); d=copy.deepcopy(m); d.data[0][0,0]=99; print(m.data[0])"},
                              what=("copy.deepcopy shares mutable state with the original (Operator.__deepcopy__ copies _data shallowly; mutating the copy's parameter array changes the original)"
                                    if only_data else "copy.deepcopy shares mutable state with the original: " + ", ".join(d["shared"])[:200]))
        binds = []
        for b in o.get("bind", []):
            hist["rebinds"] += 1
            bk = bind_key("bind:" + key, o.get("has_cqu"))
            if "error" in b:
                ctx.violation(bk, {"spec": c["spec"], "error": b["error"]}, what="bind_new_parameters raised for well-shaped new parameters: " + b["error"][:160])
                continue
            if not (b["params_exact"] and b["type_same"] and b["wires_same"] and b["orig_untouched"] and b.get("hyper_same", True)):
                ctx.violation(bk, {"spec": c["spec"], "new": b["new"], "observed": {k: v for k, v in b.items() if k not in ("ast", "new")}},
                              what="bind_new_parameters: result's data are not exactly the new parameters, or class/wires/hyperparameters changed, or the original was modified")
            if b["ast"] is None:
                ctx.violation(bk, {"spec": c["spec"], "why": b.get("ast_error")}, what="rebound operator cannot be read back")
            else:
                binds.append((b["new"], b["ast"]))
        for v in (o.get("wrong_len") or {}).values():
            hist["wrong_len_" + v] += 1
        if ast0 is not None:
            terms.append(f"(({G.g_item(it, ast0)}, {leaves(o['data'])}), ({glist([G.g_item(it, a) for a in results])}, "
                         f"{glist(['(' + leaves(nl) + ', ' + G.g_item(it, a) + ')' for nl, a in binds])}))")
            idx.append(i)
    bad = ctx.coq_eval_cases("cases", "From Coq Require Import QArith.\nFrom PLV Require Import Disc.EqualModel Disc.RebindModel.",
                             terms, "check_case", chunk=60)
    for j in bad:
        c, o = cases[idx[j]], obs[idx[j]]
        ctx.violation(bind_key("corr:" + json.dumps(c["spec"], sort_keys=True), o.get("has_cqu")),
                      {"spec": c["spec"], "original_ast": o["ast"], "data": o["data"],
                       "routes": {k: v.get("ast") for k, v in o["routes"].items()}, "bind": o.get("bind")},
                      what="a round trip or bind_new_parameters result differs structurally from the proved codec model")
    ctx.coverage.update({"evaluations": hist["routes"] + hist["rebinds"], "distinct_nontrivial": hist["with_model_ast"],
                         "rule": "seeded generator over C04's operator/measurement trees with 40% of the leaves drawn from 33 further classes (templates, channels, observables, state preparations); 7 routes per operator (5 per measurement) + 2 rebindings with fresh values + wrong-length rebinding (observed only); non-trivial = case with an extractable AST compared structurally inside Coq",
                         "input_distribution": {**hist, "classes_top_level": classes, "skips": skips}})
    for c, o in list(zip(cases, obs))[len(CORPUS):len(CORPUS) + 3]:
        ctx.sample({"spec": c["spec"], "class": o.get("cls"), "routes_equal": {k: v.get("equal") for k, v in o.get("routes", {}).items()}})
