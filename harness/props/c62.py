"""C62 Quantum-chemistry Hamiltonians are physically correct."""
import itertools
import math
import os
from fractions import Fraction

for _v in ("OMP_NUM_THREADS", "OPENBLAS_NUM_THREADS", "MKL_NUM_THREADS"):   # small matrices: threads only hurt
    os.environ.setdefault(_v, "1")
import numpy as np

from vlib import *

PID = "C62"
META = {
    "level": "proof",
    "technique": "Coq proofs (induction) about a Gallina model of qchem.structure / number / spin and of the Fock-space action "
                 "of fermionic words (verified conservation checkers) + vm_compute correspondence against pennylane.qchem; "
                 "numerical tie of molecular_hamiltonian / taper against independent PySCF FCI/CASCI and own sparse matrices",
    "design_ref": "DESIGN.md §3 C62",
    "text": "33 kernel-checked theorems (Props/C62.v), universally quantified unless a bound is written in the statement: hf_state "
            "(error conditions, length, occupation pattern, electron count; parity basis = prefix parities; Bravyi-Kitaev matrix = "
            "update sets of the fermi module for orbitals <= 12), excitations (every single/double is occupied->virtual with the "
            "spin selection rule, completeness, no duplicates, closed-form counts for delta_sz = 0 up to 12 spin orbitals), "
            "excitations_to_wires (contiguous wire ranges, never fails on the output of excitations), particle_number / spinz / "
            "spin2 term structure, and the conservation theorem: a fermionic word whose weighted creation/annihilation balance "
            "vanishes commutes with the diagonal one-body observable sum_p wt(p) a+_p a_p on Fock space for every register size "
            "(N: wt = 1, 2 S_z: wt = +-1 interleaved), with the verified checkers conserves_number / conserves_sz (soundness "
            "theorems) and is_hermitian_sentence; for n <= 4 the same commutation is established on the Jordan-Wigner image and "
            "the JW image is shown to act like the Fock model.  Tie: (1) hf_state, excitations (also fermionic=True), "
            "excitations_to_wires, particle_number, spinz, spin2 are compared exactly with the model inside Coq for all "
            "electrons <= orbitals <= 10 and all delta_sz (incl. malformed inputs); (2) for H2, HeH+, H3+, (LiH, H4 in the "
            "thorough tier) at random rigidly rotated/stretched geometries with the dhf, pyscf and openfermion back-ends: real "
            "coefficients, commutation with N, S_z, S^2 (own sparse matrices), the whole (N, S_z=0)-sector spectrum and its "
            "lowest eigenvalue against an independent PySCF FCI / CASCI run, <HF|H|HF> = E_RHF, the fermionic Hamiltonian's term "
            "list passes the verified Coq checkers and reproduces the qubit Hamiltonian under an independent Fock-space "
            "construction; (3) tapering: generators commute with H, spectrum of the tapered H equals the spectrum of H on the "
            "symmetry sector (optimal sector and one flipped sector), the N-electron ground-state energy is retained, taper_hf "
            "reproduces the HF energy.",
    "note": "FINDING kept under the stable key finding:pyscf-active-space-ignored-without-core: molecular_hamiltonian(method='pyscf', "
            "active_orbitals=k) returns the FULL-space Hamiltonian when the active space has no core orbitals (`if core and active` "
            "in _pyscf_integrals), unlike the dhf and openfermion back-ends.  NOT a theorem: integrals, SCF and the agreement with PySCF FCI/CASCI energies are numerical comparisons "
            "(tolerance 1e-6 Ha for pyscf/openfermion, 2e-6 Ha for the differentiable-HF back-end whose STO-3G integrals and SCF "
            "are independent of PySCF's); commutation with S^2 and all tapering statements are numerical (1e-8..1e-9) on the "
            "generated molecules only.  The conservation theorem is proved for the Fock representation (all n) and for the "
            "Jordan-Wigner image only up to 4 spin orbitals / words of length <= 4 (bound in the statement).  Only closed-shell "
            "singlets in STO-3G; mult != 1, other bases, dipole_moment, convert.py, factorization, the parity / Bravyi-Kitaev "
            "mappings of molecular_hamiltonian, taper_operation and differentiation of the dhf Hamiltonian are not covered.  "
            "qchem.spin2(electrons, orbitals) is by its documented formula 3/4*electrons + two-body part, i.e. S^2 only on the "
            "`electrons`-particle sector; it is compared with S^2 + 3/4(electrons - N).  excitations(fermionic=True) returns "
            "a+_occ a_virt (adjoint of the docstring's excitation operator): modelled as is, balance theorems stated for it.  hf_state's "
            "basis string is modelled as a three-valued enum (every unknown string means occupation_number, as in the code).",
    "assumptions": ["closed-shell molecules in STO-3G with at most 12 spin orbitals",
                    "PySCF 2.14 RHF/FCI/CASCI is the independent reference (same geometry, basis, charge)",
                    "RHF of PennyLane and of PySCF converge to the same solution on the generated geometries (needed for active spaces)"],
    "trusted": ["hand-written model coq/Disc/QchemModel.v tied to /repo by correspondence only",
                "PySCF (reference energies), numpy/scipy eigensolvers and sparse products in the harness",
                "coq/Disc/FermiModel.v (Jordan-Wigner model, tied by C50/C51's own checks)"],
}

TOL = {"dhf": 2e-6, "pyscf": 1e-6, "openfermion": 1e-6}
ZNUM = {"H": 1, "He": 2, "Li": 3}
P1 = {"I": "PI", "X": "PX", "Y": "PY", "Z": "PZ"}


# ------------------------------------------------------------------ independent matrices
def popcount_table(n):
    t = np.zeros(1 << n, dtype=np.int64)
    for k in range(n):
        t += (np.arange(1 << n) >> k) & 1
    return t


def sent_matrix(terms, n, pos=None):
    """dense matrix of a Pauli sentence; wire w sits at bit (n-1-pos[w]) (wire 0 = most significant)."""
    import scipy.sparse as sp
    dim = 1 << n
    cols = np.arange(dim)
    pc = popcount_table(n)
    R, C_, V = [], [], []
    for word, re, im in terms:
        x = z = ny = 0
        for w, l in word:
            bit = 1 << (n - 1 - (pos[w] if pos else w))
            if l in "XY":
                x |= bit
            if l in "ZY":
                z |= bit
            if l == "Y":
                ny += 1
        val = (re + 1j * im) * (1j ** ny) * (1 - 2 * (pc[cols & z] & 1))
        R.append(cols ^ x); C_.append(cols); V.append(val)
    if not R:
        return sp.csr_matrix((dim, dim), dtype=complex)
    return sp.csr_matrix((np.concatenate(V), (np.concatenate(R), np.concatenate(C_))), shape=(dim, dim))


def kron_matrix(terms, n):
    """the same by explicit Kronecker products (self-test of sent_matrix)"""
    P = {"I": np.eye(2), "X": np.array([[0, 1], [1, 0]]), "Y": np.array([[0, -1j], [1j, 0]]), "Z": np.diag([1, -1])}
    M = np.zeros((1 << n, 1 << n), dtype=complex)
    for word, re, im in terms:
        d = dict((w, l) for w, l in word)
        m = np.array([[1.0 + 0j]])
        for w in range(n):
            m = np.kron(m, P[d.get(w, "I")])
        M += (re + 1j * im) * m
    return M


def fermi_matrix(terms, n):
    """matrix of a fermionic sentence on the occupation basis (orbital p at bit n-1-p), acting on Fock space:
    a+_p |b> = (-1)^(n_0+...+n_{p-1}) |b+p>; right-most factor first.  Independent of PennyLane."""
    import scipy.sparse as sp
    dim = 1 << n
    pc = popcount_table(n)
    R, C_, V = [], [], []
    for word, re, im in terms:
        st = np.arange(dim)
        alive = np.ones(dim, dtype=bool)
        sign = np.ones(dim)
        for p, s in reversed(word):
            bit = 1 << (n - 1 - p)
            occ = (st & bit) != 0
            alive &= (occ != (s == "+"))
            below = ((1 << n) - 1) ^ ((1 << (n - p)) - 1)     # bits of orbitals 0..p-1
            sign = sign * (1 - 2 * (pc[st & below] & 1))
            st = st ^ bit
        idx = np.nonzero(alive)[0]
        R.append(st[idx]); C_.append(idx); V.append((re + 1j * im) * sign[idx])
    if not R:
        return sp.csr_matrix((dim, dim), dtype=complex)
    return sp.csr_matrix((np.concatenate(V), (np.concatenate(R), np.concatenate(C_))), shape=(dim, dim))


def own_observables(n):
    """N, S_z, S^2 on n interleaved spin orbitals (even = up) from the Fock construction above"""
    num = [[[[p, "+"], [p, "-"]], 1.0, 0.0] for p in range(n)]
    sz = [[[[p, "+"], [p, "-"]], 0.5 if p % 2 == 0 else -0.5, 0.0] for p in range(n)]
    splus = fermi_matrix([[[[2 * k, "+"], [2 * k + 1, "-"]], 1.0, 0.0] for k in range(n // 2)], n)
    N = fermi_matrix(num, n)
    Sz = fermi_matrix(sz, n)
    S2 = splus.conj().T @ splus + Sz @ Sz + Sz
    return N, Sz, S2


def maxabs(M):
    M = M.tocoo() if hasattr(M, "tocoo") else M
    d = M.data if hasattr(M, "data") and not isinstance(M, np.ndarray) else np.asarray(M)
    return float(np.max(np.abs(d))) if d.size else 0.0


def comm_norm(A, B):
    return maxabs(A @ B - B @ A)


# ------------------------------------------------------------------ independent reference (PySCF)
def reference(c):
    from pyscf import gto, scf, fci, mcscf, lib
    lib.num_threads(1)
    mol = gto.M(atom=[(s, tuple(x)) for s, x in zip(c["symbols"], c["coords"])], unit="Bohr", basis="sto-3g",
                charge=c["charge"], spin=0, verbose=0)
    mf = scf.RHF(mol)
    mf.conv_tol = 1e-12
    mf.kernel()
    ne_tot, nao = mol.nelectron, mol.nao
    ae = c.get("ae") if c.get("ae") is not None else ne_tot
    ncore = (ne_tot - ae) // 2
    ao = c.get("ao") if c.get("ao") is not None else nao - ncore
    ref = {"e_hf": float(mf.e_tot), "enuc": float(mol.energy_nuc()), "ne": int(ae), "norb": int(ao), "ncore": int(ncore),
           "nao": int(nao), "converged": bool(mf.converged)}
    mc = mcscf.CASCI(mf, ao, ae)
    mc.verbose = 0
    mc.fcisolver = fci.direct_spin1.FCI(mol)
    mc.fcisolver.conv_tol = 1e-12
    if ncore == 0 and ao == nao:
        cis = fci.FCI(mf)
        cis.conv_tol = 1e-12
        ref["e_fci"] = float(cis.kernel()[0])
        ref["kind"] = "FCI"
    else:
        ref["e_fci"] = float(mc.kernel()[0])
        ref["kind"] = "CASCI"
    h1, ecore = mc.get_h1eff()
    h2 = mc.get_h2eff()
    Hm = fci.direct_spin1.pspace(h1, h2, ao, (ae // 2, ae // 2), np=10 ** 6)[1]
    ref["spectrum"] = (np.linalg.eigvalsh(Hm) + ecore).tolist()
    return ref


# ------------------------------------------------------------------ molecule generator
def rot(rng):
    a, b, g = (rng.uniform(0, 2 * math.pi) for _ in range(3))
    Rz = lambda t: np.array([[math.cos(t), -math.sin(t), 0], [math.sin(t), math.cos(t), 0], [0, 0, 1]])
    Ry = lambda t: np.array([[math.cos(t), 0, math.sin(t)], [0, 1, 0], [-math.sin(t), 0, math.cos(t)]])
    return Rz(a) @ Ry(b) @ Rz(g)


def place(rng, pts, rigid=True):
    pts = np.array(pts, dtype=float)
    if rigid:
        pts = pts @ rot(rng).T + np.array([rng.uniform(-1, 1) for _ in range(3)])
    return [[round(float(x), 6) for x in p] for p in pts]


def gen_mol(rng, kind, rigid=True):
    if kind == "H2":
        r = rng.uniform(0.9, 3.0)
        return {"name": "H2", "symbols": ["H", "H"], "coords": place(rng, [[0, 0, 0], [0, 0, r]], rigid), "charge": 0}
    if kind == "HeH+":
        r = rng.uniform(1.0, 3.0)
        return {"name": "HeH+", "symbols": ["He", "H"], "coords": place(rng, [[0, 0, 0], [0, 0, r]], rigid), "charge": 1}
    if kind == "H3+":
        s = 1.65 * rng.uniform(0.85, 1.5)
        base = np.array([[0, 0, 0], [s, 0, 0], [s / 2, s * math.sqrt(3) / 2, 0]])
        base += np.array([[rng.uniform(-0.25, 0.25) for _ in range(3)] for _ in range(3)])
        return {"name": "H3+", "symbols": ["H", "H", "H"], "coords": place(rng, base, rigid), "charge": 1}
    if kind == "LiH":
        r = rng.uniform(2.3, 3.9)
        return {"name": "LiH", "symbols": ["Li", "H"], "coords": place(rng, [[0, 0, 0], [0, 0, r]], rigid), "charge": 0}
    if kind == "H4":
        d = [rng.uniform(1.3, 1.9) for _ in range(3)]
        base = np.array([[0, 0, 0], [0, 0, d[0]], [0, 0, d[0] + d[1]], [0, 0, d[0] + d[1] + d[2]]], dtype=float)
        base += np.array([[rng.uniform(-0.2, 0.2) for _ in range(3)] for _ in range(4)])
        return {"name": "H4", "symbols": ["H"] * 4, "coords": place(rng, base, rigid), "charge": 0}
    raise ValueError(kind)


def mol_cases(ctx):
    rng = ctx.rng
    cases = []

    def add(m, method, ae=None, ao=None, taper=True, flip=None):
        c = dict(m)
        c.update({"method": method, "ae": ae, "ao": ao, "taper": taper})
        if flip is not None:
            c["taper_flip"] = flip
        cases.append(c)

    # corpus: the docstring molecule, un-rotated
    doc = {"name": "H2", "symbols": ["H", "H"], "coords": [[0.0, 0.0, -0.66140414], [0.0, 0.0, 0.66140414]], "charge": 0}
    add(doc, "dhf", flip=0)
    add(doc, "pyscf")
    for i in range(2):
        m = gen_mol(rng, "H2")
        add(m, "dhf", flip=i)
        add(m, "pyscf")
    add(gen_mol(rng, "H2"), "openfermion")
    m = gen_mol(rng, "HeH+")
    add(m, "dhf", flip=1)
    add(m, "pyscf")
    m = gen_mol(rng, "H3+")
    add(m, "dhf", flip=0)
    add(m, "pyscf")
    add(m, "dhf", ae=2, ao=2)
    add(m, "openfermion", ae=2, ao=2)
    add(m, "pyscf", ae=2, ao=2, taper=False)          # active space without core orbitals
    for meth, mp in (("dhf", "parity"), ("pyscf", "bravyi_kitaev"), ("dhf", "bravyi_kitaev")):
        cases.append(dict(m, method=meth, ae=None, ao=None, taper=False, mapping=mp))
    m = gen_mol(rng, "H2")
    cases.append(dict(m, method="pyscf", ae=None, ao=None, taper=False, mapping="parity"))
    cases.append(dict(m, method="openfermion", ae=None, ao=None, taper=False, mapping="bravyi_kitaev"))
    # frozen core orbitals (the mean-field correction 2J-K of the core enters the active one-electron integrals)
    mcore = {"name": "LiH", "symbols": ["Li", "H"], "coords": [[0.0, 0.0, 0.0], [0.0, 0.0, 3.0]], "charge": 0}
    add(mcore, "dhf", ae=2, ao=2, taper=False)
    add(mcore, "pyscf", ae=2, ao=2, taper=False)
    if ctx.tier != "quick":
        for kind in ["H2", "HeH+", "H3+"]:
            for _ in range(3):
                m = gen_mol(rng, kind)
                for meth in ["dhf", "pyscf", "openfermion"]:
                    add(m, meth, flip=rng.randrange(4))
        for _ in range(3):
            m = gen_mol(rng, "LiH")
            for meth in ["dhf", "pyscf", "openfermion"]:
                add(m, meth, ae=2, ao=2)
                add(m, meth, ae=2, ao=rng.choice([3, 4]), flip=rng.randrange(4))
            add(m, "dhf", ae=2, ao=5, flip=1)
            add(m, "pyscf", ae=2, ao=5)
            add(m, "pyscf", ae=4, ao=4, flip=2)
            add(m, "dhf", ae=4, ao=rng.choice([3, 4]))
        for mp in ("parity", "bravyi_kitaev"):
            cases.append(dict(m, method="dhf", ae=2, ao=3, taper=False, mapping=mp))
            cases.append(dict(m, method="pyscf", ae=2, ao=5, taper=False, mapping=mp))
        m = gen_mol(rng, "LiH")
        add(m, "pyscf")                                # 12 qubits, full space
        add(m, "dhf", taper=False)
        for _ in range(2):
            m = gen_mol(rng, "H4")
            add(m, "dhf", flip=rng.randrange(4))
            add(m, "pyscf", flip=rng.randrange(4))
            add(m, "pyscf", ae=2, ao=3)
            add(m, "dhf", ae=2, ao=2)
    return cases


# ------------------------------------------------------------------ checks on one molecule
def case_key(c):
    d = {k: c[k] for k in ("name", "coords", "charge", "method", "ae", "ao")}
    if c.get("mapping", "jordan_wigner") != "jordan_wigner":
        d["mapping"] = c["mapping"]
    return json.dumps(d, sort_keys=True)


def verify_mol(ctx, c, o, stats, coq_cases):
    key = case_key(c)
    tol = TOL[c["method"]]

    def bad(kind, what, **info):
        ctx.violation(f"{kind}:{key}", {"case": c, "info": info}, what=what)

    if "error" in o:
        bad("raise", f"molecular_hamiltonian raised {o['error']}: {o.get('msg')}")
        return
    ref = reference(c)
    n = 2 * ref["norb"]
    ne = ref["ne"]
    # --- active-space bookkeeping
    if o["qubits"] != n or sorted(o["wires"]) != list(range(n)):
        if (c["method"] == "pyscf" and ref["ncore"] == 0 and ref["norb"] < ref["nao"] and o["qubits"] == 2 * ref["nao"]):
            ctx.violation("finding:pyscf-active-space-ignored-without-core",
                          {"case": c, "qubits_returned": o["qubits"], "qubits_expected": n,
                           "explanation": "_pyscf_integrals truncates the integrals only `if core and active`; with an empty "
                                          "core list the requested active_orbitals is ignored and the full-space "
                                          "Hamiltonian is returned (dhf and openfermion back-ends return the active-space one)"},
                          what="method='pyscf' ignores active_orbitals when there are no core orbitals")
            stats["finding_pyscf_active"] += 1
        else:
            bad("qubits", f"{o['qubits']} qubits / wires {o['wires']} returned, expected {n}")
        return
    if c.get("mapping", "jordan_wigner") != "jordan_wigner":
        verify_mapped(ctx, c, o, ref, n, ne, tol, stats, bad)
        return
    stats["molecules"] += 1
    stats["by_method"][c["method"]] = stats["by_method"].get(c["method"], 0) + 1
    stats["by_name"][c["name"]] = stats["by_name"].get(c["name"], 0) + 1
    # --- Hermitian: real coefficients (Pauli words are Hermitian)
    im = max((abs(t[2]) for t in o["H"]), default=0.0)
    if im > 1e-10:
        bad("hermitian", f"coefficient with imaginary part {im}")
    H = sent_matrix(o["H"], n)
    if maxabs(H - H.conj().T) > 1e-10:
        bad("hermitian", "matrix is not Hermitian")
    coq_cases.append(("herm:" + key, f"QHerm {g_psent_exact(o['H'], snap_im=True)} {gnat(n)} true"))
    # --- observables of PennyLane equal the independent ones; H commutes with them
    N, Sz, S2 = own_observables(n)
    import scipy.sparse as sp
    # qchem.spin2(electrons, orbitals) is documented as 3/4*electrons + sum(...): the one-body part of S^2 is the NUMBER
    # `electrons`, not the operator N, so it is the total-spin operator on the `electrons`-particle sector: S^2 + 3/4 (ne - N)
    S2e = S2 + 0.75 * (ne * sp.identity(1 << n, format="csr") - N)
    for name, own in (("number", N), ("spinz", Sz), ("spin2", S2e)):
        M = sent_matrix(o["obs"][name], n)
        d = maxabs(M - own)
        if d > 1e-10:
            bad("observable-" + name, f"qchem.{name} differs from the independent matrix by {d}", n=n, ne=ne)
        cn = comm_norm(H, M)
        stats["max_comm"] = max(stats["max_comm"], cn)
        if cn > 1e-8:
            bad("commute-" + name, f"|[H, {name}]| = {cn}")
    # --- sector spectrum against PySCF
    pc = popcount_table(n)
    idx = np.arange(1 << n)
    upmask = sum(1 << (n - 1 - p) for p in range(0, n, 2))
    sector = idx[(pc == ne) & (pc[idx & upmask] == ne // 2)]
    Hs = H[sector][:, sector].toarray()
    ev = np.linalg.eigvalsh((Hs + Hs.conj().T) / 2)
    d0 = abs(ev[0] - ref["e_fci"])
    stats["max_dE"][c["method"]] = max(stats["max_dE"].get(c["method"], 0.0), d0)
    if d0 > tol:
        bad("energy", f"lowest eigenvalue in the N={ne}, Sz=0 sector {ev[0]:.10f} differs from PySCF {ref['kind']} "
                      f"{ref['e_fci']:.10f} by {d0:.2e}", e_sector=float(ev[0]), e_ref=ref["e_fci"])
    spec = np.array(sorted(ref["spectrum"]))
    if len(spec) != len(ev):
        bad("spectrum", f"sector dimension {len(ev)} vs determinant space {len(spec)}")
    else:
        ds = float(np.max(np.abs(spec - ev)))
        stats["max_dspec"][c["method"]] = max(stats["max_dspec"].get(c["method"], 0.0), ds)
        if ds > 5 * tol:
            bad("spectrum", f"(N, Sz=0) sector spectrum differs from the PySCF determinant-space matrix by {ds:.2e}")
    # Hartree-Fock determinant
    hf_bits = [1] * ne + [0] * (n - ne)
    if o["hf_state"] != hf_bits:
        bad("hf-state", f"hf_state({ne},{n}) = {o['hf_state']}")
    hf_idx = int("".join(map(str, hf_bits)), 2)
    e_hf = float(H[hf_idx, hf_idx].real)
    dhf = abs(e_hf - ref["e_hf"])
    stats["max_dEhf"][c["method"]] = max(stats["max_dEhf"].get(c["method"], 0.0), dhf)
    if dhf > tol:
        bad("hf-energy", f"<HF|H|HF> = {e_hf:.10f} differs from PySCF RHF {ref['e_hf']:.10f} by {dhf:.2e}")
    # the global minimum over the N-electron sector (any S_z) must not lie below the S_z = 0 one
    secN = idx[pc == ne]
    if len(secN) <= 1000:
        HN = H[secN][:, secN].toarray()
        evN = np.linalg.eigvalsh((HN + HN.conj().T) / 2)
        if evN[0] < ev[0] - 1e-9:
            bad("sz-sector", f"N-sector minimum {evN[0]} below the Sz=0 minimum {ev[0]}")
    # --- fermionic Hamiltonian: verified checkers + independent Jordan-Wigner/Fock construction
    if "ferm_error" in o:
        bad("ferm-raise", f"fermionic Hamiltonian raised {o['ferm_error']}")
    if "ferm" in o:
        words = [t[0] for t in o["ferm"]]
        coq_cases.append(("conserve:" + key, f"QCons {g_fwords(words)} true true"))
        stats["ferm_terms"] += len(words)
        F = fermi_matrix(o["ferm"], n)
        d = maxabs(F - H)
        stats["max_ferm_vs_qubit"] = max(stats["max_ferm_vs_qubit"], d)
        if d > 1e-8:
            bad("ferm-vs-qubit", f"qubit Hamiltonian differs from the Fock-space matrix of the fermionic Hamiltonian by {d:.2e}")
    if "integrals" in o and c["method"] == "dhf":
        I = o["integrals"]
        one, two = np.array(I["one"]), np.array(I["two"])
        if ref["ncore"] == 0 and abs(I["core"][0] - ref["enuc"]) > 1e-8:
            bad("integrals", f"core constant {I['core'][0]} vs nuclear repulsion {ref['enuc']}")
        sym = max(float(np.max(np.abs(one - one.T))), float(np.max(np.abs(two - two.transpose(3, 1, 2, 0)))),
                  float(np.max(np.abs(two - two.transpose(0, 2, 1, 3)))), float(np.max(np.abs(two - two.transpose(1, 0, 3, 2)))))
        stats["max_int_asym"] = max(stats["max_int_asym"], sym)
        if sym > 1e-7:
            bad("integrals", f"electron integrals violate the permutation symmetries by {sym:.2e}")
    # --- tapering
    if c.get("taper"):
        if "taper_error" in o:
            bad("taper-raise", f"tapering raised {o['taper_error']}")
        elif "taper" in o:
            verify_taper(ctx, c, o, H, n, ne, ev[0], e_hf, hf_idx, stats, bad)


def verify_mapped(ctx, c, o, ref, n, ne, tol, stats, bad):
    """parity / Bravyi-Kitaev mapping: isospectral to the Jordan-Wigner Hamiltonian of the same call; the HF determinant
    written in that basis by hf_state(basis=...) has the RHF energy"""
    H = sent_matrix(o["H"], n).toarray()
    J = sent_matrix(o["H_jw"], n).toarray()
    if max((abs(t[2]) for t in o["H"]), default=0.0) > 1e-10 or np.max(np.abs(H - H.conj().T)) > 1e-10:
        bad("hermitian", "mapped Hamiltonian is not Hermitian")
    d = float(np.max(np.abs(np.linalg.eigvalsh(H) - np.linalg.eigvalsh(J))))
    stats["max_mapped_dspec"] = max(stats.get("max_mapped_dspec", 0.0), d)
    if d > 1e-8:
        bad("mapping-spectrum", f"{c['mapping']} Hamiltonian is not isospectral to the Jordan-Wigner one ({d:.2e})")
    hb = o["hf_state_mapped"]
    j = int("".join(map(str, hb)), 2)
    e = float(H[j, j].real)
    if len(hb) != n or abs(e - ref["e_hf"]) > tol:
        bad("mapping-hf", f"hf_state(basis={c['mapping']}) = {hb} has energy {e:.10f}, RHF energy {ref['e_hf']:.10f}")
    stats["mapped"] = stats.get("mapped", 0) + 1


def verify_taper(ctx, c, o, H, n, ne, e_gs, e_hf, hf_idx, stats, bad):
    t = o["taper"]
    k = len(t["generators"])
    stats["tapered"] += 1
    stats["tapered_qubits"] += k
    if k == 0:
        return
    if len(t["paulix"]) != k or len(t["sector"]) != k or any(s not in (1, -1) for s in t["sector"]):
        bad("taper-shape", f"{k} generators, paulix {t['paulix']}, sector {t['sector']}")
        return
    diag = []
    for j, g in enumerate(t["generators"]):
        if len(g) != 1 or abs(g[0][1] - 1.0) > 1e-12 or abs(g[0][2]) > 1e-12:
            bad("taper-generator", f"generator {j} is not a single Pauli word with coefficient 1: {g}")
            return
        G = sent_matrix(g, n)
        cn = comm_norm(H, G)
        if cn > 1e-8:
            bad("taper-commute", f"|[H, tau_{j}]| = {cn}")
        if any(l not in "Z" for _, l in g[0][0]):
            stats["non_z_generators"] += 1
            diag = None
        elif diag is not None:
            diag.append(G.diagonal().real)
        # X_{q_i} anticommutes with tau_j iff i == j
        for i, (q, nm) in enumerate(t["paulix"]):
            acts = any(w == q and l in "ZY" for w, l in g[0][0])
            if nm != "PauliX" or acts != (i == j):
                bad("taper-paulix", f"paulix_ops {t['paulix']} do not pair with the generators")
                return
    xw = [q for q, _ in t["paulix"]]
    if len(set(xw)) != k:
        bad("taper-paulix", f"repeated Pauli-X wires {xw}")
        return
    m = n - k
    if sorted(t["tap_wires"]) != list(range(m)):
        bad("taper-wires", f"tapered Hamiltonian on wires {t['tap_wires']}, expected {m} wires")
        return

    def sector_spectrum(sec):
        if diag is not None:
            sel = np.ones(1 << n, dtype=bool)
            for d, s in zip(diag, sec):
                sel &= np.abs(d - s) < 1e-9
            ii = np.nonzero(sel)[0]
            Hs = H[ii][:, ii].toarray()
            return np.linalg.eigvalsh((Hs + Hs.conj().T) / 2)
        import scipy.linalg as sl
        P = np.eye(1 << n, dtype=complex)
        for g, s in zip(t["generators"], sec):
            P = P @ (np.eye(1 << n) + s * sent_matrix(g, n).toarray()) / 2
        B = sl.orth(P)
        Hs = B.conj().T @ H.toarray() @ B
        return np.linalg.eigvalsh((Hs + Hs.conj().T) / 2)

    for tag, sec, terms in (("", t["sector"], t["H_tap"]),) + ((("2", t["sector2"], t["H_tap2"]),) if "H_tap2" in t else ()):
        Ht = sent_matrix(terms, m)
        if maxabs(Ht - Ht.conj().T) > 1e-9:
            bad("taper-hermitian" + tag, "tapered Hamiltonian is not Hermitian")
        evt = np.linalg.eigvalsh((Ht.toarray() + Ht.toarray().conj().T) / 2)
        evs = sector_spectrum(sec)
        if len(evs) != len(evt):
            bad("taper-spectrum" + tag, f"sector {sec} has dimension {len(evs)}, tapered Hamiltonian {len(evt)}")
            continue
        d = float(np.max(np.abs(evs - evt)))
        stats["max_taper_dspec"] = max(stats["max_taper_dspec"], d)
        if d > 1e-8:
            bad("taper-spectrum" + tag, f"spectrum of the tapered Hamiltonian differs from H on the sector {sec} by {d:.2e} "
                                        f"(lowest: {evt[0]:.10f} vs {evs[0]:.10f})")
        if tag == "":
            dg = float(np.min(np.abs(evt - e_gs)))
            if dg > 1e-8:
                bad("taper-ground", f"the N={ne} ground-state energy {e_gs:.10f} is not an eigenvalue of the tapered Hamiltonian "
                                    f"in the optimal sector {sec} (closest {dg:.2e})")
            if abs(evt[0] - e_gs) <= 1e-8:
                stats["taper_lowest_is_ground"] += 1
            # the HF determinant lies in the optimal sector
            if diag is not None and any(abs(d[hf_idx] - s) > 1e-9 for d, s in zip(diag, sec)):
                bad("taper-sector", f"optimal_sector {sec} is not the sector of the Hartree-Fock determinant")
            hft = t["hf_tap"]
            if len(hft) != m or any(b not in (0, 1) for b in hft):
                bad("taper-hf", f"taper_hf returned {hft} for {m} wires")
            else:
                j = int("".join(map(str, hft)), 2) if m else 0
                e = float(Ht[j, j].real)
                if abs(e - e_hf) > 1e-8:
                    bad("taper-hf", f"tapered HF state {hft} has energy {e:.10f}, HF energy {e_hf:.10f}")


# ------------------------------------------------------------------ Gallina printers
def rnat(n):
    n = int(n)
    assert 0 <= n < 5000
    return str(n)


def rz(n):
    n = int(n)
    return f"({n})" if n < 0 else str(n)


def g_fword_raw(w):
    return glist(w, lambda l: f"({rnat(l[0])}, {gbool(l[1] == '+')})")


def g_fwords(ws):
    """a list of fermionic words; one scope delimiter for the whole literal (parsing `5%nat` per number is slow)"""
    return "(" + glist(ws, g_fword_raw) + ")%nat"


def g_sparse(word):
    return "(" + glist(word, lambda e: f"({rnat(e[0])}, {P1[e[1]]})") + ")%nat"


def g_c(re, im):
    return f"({gq(Fraction(re))}, {gq(Fraction(im))})"


def g_psent_exact(terms, snap_im=False):
    # snap_im: imaginary parts below 1e-12 are sent as exact zeros (the numerical tolerance of the Hermiticity clause)
    return glist(terms, lambda t: f"({g_sparse(t[0])}, {g_c(t[1], 0.0 if snap_im and abs(t[2]) <= 1e-12 else t[2])})")


def g_ll(xs):
    return "(" + glist(xs, lambda x: glist(x, rnat)) + ")%nat"


def g_basis(b):
    return {"parity": "BPar", "bravyi_kitaev": "BBK"}.get(b.strip().lower(), "BOcc")


def g_disc(c, o):
    op = c["op"]
    er = "error" in o
    if op == "hf":
        return f"QHf {gz(c['e'])} {gz(c['o'])} {g_basis(c['basis'])} " + ("None" if er else f"(Some {glist(o['out'], lambda b: gbool(b == 1))})")
    if op == "exc":
        return f"QExc {gz(c['e'])} {gz(c['o'])} {gz(c['d'])} " + ("None" if er else f"(Some ({g_ll(o['out'][0])}, {g_ll(o['out'][1])}))")
    if op == "excf":
        return f"QExcF {gz(c['e'])} {gz(c['o'])} {gz(c['d'])} " + (
            "None" if er else f"(Some ({g_fwords(o['out'][0])}, {g_fwords(o['out'][1])}))")
    if op == "wires":
        w = "None" if c.get("wires") is None else f"(Some ({glist(c['wires'], rz)})%Z)"
        ex = "None" if er else (f"(Some (({glist(o['out'][0], lambda x: glist(x, rz))})%Z, "
                                f"({glist(o['out'][1], lambda x: glist(x, lambda y: glist(y, rz)))})%Z))")
        return f"QWires {g_ll(c['singles'])} {g_ll(c['doubles'])} {w} {ex}"
    if op == "obs":
        kind = {"number": "ONumber", "spinz": "OSpinz", "spin2": "OSpin2"}[c["kind"]]
        return f"QObs {kind} {gz(c.get('e', 1))} {gz(c['n'])} " + ("None" if er else f"(Some {g_psent_exact(o['out'])})")
    raise ValueError(op)


# ------------------------------------------------------------------ discrete cases
def disc_cases(ctx):
    rng = ctx.rng
    cases = []
    omax = 10
    for o in range(0, omax + 1):
        for e in range(-1, o + 2):
            for b in ("occupation_number", "parity", "bravyi_kitaev"):
                cases.append({"op": "hf", "e": e, "o": o, "basis": b})
    cases.append({"op": "hf", "e": 2, "o": 5, "basis": "  Parity "})
    cases.append({"op": "hf", "e": 2, "o": 5, "basis": "something_else"})
    for o in range(0, omax + 1):
        for e in range(-1, o + 2):
            for d in range(-3, 4):
                cases.append({"op": "exc", "e": e, "o": o, "d": d})
                if o <= 7:
                    cases.append({"op": "excf", "e": e, "o": o, "d": d})
    nmax = 6 if ctx.tier == "quick" else 8
    for n in range(-1, nmax + 1):
        cases.append({"op": "obs", "kind": "number", "n": n})
        cases.append({"op": "obs", "kind": "spinz", "n": n})
        for e in sorted({-1, 0, 1, 2, max(1, n - 1), n + 2}):
            cases.append({"op": "obs", "kind": "spin2", "e": e, "n": n})
    for n in (9, 12):
        cases.append({"op": "obs", "kind": "number", "n": n})
        cases.append({"op": "obs", "kind": "spinz", "n": n})
    return cases


def own_excitations(e, orb, d):
    sz = lambda i: 1 if i % 2 == 0 else -1
    S = [[r, p] for r in range(e) for p in range(e, orb) if sz(p) - sz(r) == 2 * d]
    D = [[s, r, q, p] for s, r in itertools.combinations(range(e), 2) for q, p in itertools.combinations(range(e, orb), 2)
         if sz(p) + sz(q) - sz(r) - sz(s) == 2 * d]
    return S, D


def wires_cases(ctx, disc):
    """second stage: excitations_to_wires on the lists returned by excitations, plus custom wires and malformed lists"""
    rng = ctx.rng
    cases = [{"op": "wires", "singles": [], "doubles": []},
             {"op": "wires", "singles": [[0, 2], [1, 3]], "doubles": [[0, 1, 2, 3]]},
             {"op": "wires", "singles": [[0, 2], [1, 3]], "doubles": [[0, 1, 2, 3]], "wires": [10, 11, 12, 13]},
             {"op": "wires", "singles": [[0, 2], [1, 3]], "doubles": [[0, 1, 2, 3]], "wires": [10, 11, 12]},
             {"op": "wires", "singles": [[0, 2, 1]], "doubles": []},
             {"op": "wires", "singles": [], "doubles": [[0, 1, 2]]},
             {"op": "wires", "singles": [[3, 1]], "doubles": []},
             {"op": "wires", "singles": [], "doubles": [[0, 1, 4, 6]], "wires": [5, 4, 3, 2, 1, 0, -1]}]
    for c in disc:
        if c["op"] != "exc" or not (c["e"] > 0 and c["o"] > c["e"] and c["d"] in (-2, -1, 0, 1, 2)):
            continue
        s, d = own_excitations(c["e"], c["o"], c["d"])
        if s or d:
            if len(s) + len(d) > 150:
                keep = rng.sample(range(len(d)), 100)
                d = [d[i] for i in sorted(keep)]
            cases.append({"op": "wires", "singles": s, "doubles": d})
            mx = max([max(x) for x in s + d])
            r = rng.random()
            if r < 0.5:
                lab = list(range(100, 100 + mx + 1))
                rng.shuffle(lab)
                cases.append({"op": "wires", "singles": s[:20], "doubles": d[:20], "wires": lab})
            elif r < 0.6:
                cases.append({"op": "wires", "singles": s[:20], "doubles": d[:20], "wires": list(range(mx + rng.choice([0, 2])))})
            elif r < 0.7:
                cases.append({"op": "wires", "singles": s[:5], "doubles": [], "wires": None})
                cases.append({"op": "wires", "singles": [], "doubles": d[:5], "wires": None})
    return cases


def direct_disc(ctx, c, o, hist):
    """the property's own statement on the implementation's output (documented electron counts / selection rules)"""
    op = c["op"]
    key = json.dumps(c, sort_keys=True)
    if op == "hf":
        valid = 0 < c["e"] <= c["o"]
        if valid != ("out" in o):
            ctx.violation("direct-hf-error:" + key, {"case": c, "observed": o}, what="hf_state error condition")
        elif valid:
            s = o["out"]
            e = c["e"]
            b = c["basis"].strip().lower()
            if b == "parity":
                want = [min(i + 1, e) % 2 for i in range(c["o"])]
            elif b == "bravyi_kitaev":
                want = None
            else:
                want = [1 if i < e else 0 for i in range(c["o"])]
            if len(s) != c["o"] or (want is not None and s != want):
                ctx.violation("direct-hf:" + key, {"case": c, "observed": o}, what="hf_state occupation pattern")
            hist["hf_valid"] += 1
    elif op == "exc":
        valid = c["e"] > 0 and c["o"] > c["e"] and c["d"] in (-2, -1, 0, 1, 2)
        if valid != ("out" in o):
            ctx.violation("direct-exc-error:" + key, {"case": c, "observed": o}, what="excitations error condition")
        elif valid:
            S, D = own_excitations(c["e"], c["o"], c["d"])
            if sorted(o["out"][0]) != sorted(S) or sorted(o["out"][1]) != sorted(D):
                ctx.violation("direct-exc:" + key, {"case": c, "observed": o}, what="excitations differ from the selection-rule set")
            hist["exc_valid"] += 1
            if o["out"][0] or o["out"][1]:
                hist["exc_nonempty"] += 1


# ------------------------------------------------------------------ run
def self_test(ctx):
    rng = np.random.default_rng(ctx.seed)
    for _ in range(3):
        terms = []
        for _ in range(5):
            word = [[w, "XYZ"[rng.integers(3)]] for w in range(3) if rng.random() < 0.7]
            terms.append([word, float(rng.normal()), float(rng.normal())])
        if np.max(np.abs(sent_matrix(terms, 3).toarray() - kron_matrix(terms, 3))) > 1e-12:
            raise RuntimeError("harness self-test failed: sent_matrix != Kronecker products")
    # CAR of the Fock construction
    n = 3
    for p in range(n):
        for q in range(n):
            A = fermi_matrix([[[[p, "-"]], 1.0, 0.0]], n)
            B = fermi_matrix([[[[q, "+"]], 1.0, 0.0]], n)
            ac = (A @ B + B @ A).toarray()
            if np.max(np.abs(ac - (np.eye(8) if p == q else 0))) > 1e-12:
                raise RuntimeError("harness self-test failed: Fock construction violates the CAR")


def run(ctx):
    ctx.coq_props()
    self_test(ctx)
    header = "From Coq Require Import QArith.\nFrom PLV Require Import Disc.FermiModel Disc.QchemModel."
    # ---------------- discrete part
    disc = disc_cases(ctx)
    mols = mol_cases(ctx)
    if getattr(ctx, "replay", None) and isinstance(ctx.replay.get("replay", {}).get("case"), dict):
        rc = ctx.replay["replay"]["case"]
        if "op" in rc:
            disc, mols = [rc], []
        else:
            disc, mols = [], [rc]
    wcs = wires_cases(ctx, disc) if not getattr(ctx, "replay", None) else []
    t_impl = time.time()
    out = ctx.run_impl("c62_impl.py", {"disc": disc + wcs, "mol": mols})
    t_impl = time.time() - t_impl
    dobs, wobs = out["disc"][:len(disc)], out["disc"][len(disc):]
    hist = {"hf_valid": 0, "exc_valid": 0, "exc_nonempty": 0, "errors": 0, "wires": len(wcs), "obs": 0}
    labels, terms = [], []
    for c, o in list(zip(disc, dobs)) + list(zip(wcs, wobs)):
        if o.get("error") not in (None, "ValueError"):
            ctx.violation("disc-raise:" + json.dumps(c, sort_keys=True), {"case": c, "observed": o},
                          what=f"unexpected exception {o['error']}")
            continue
        if "error" in o:
            hist["errors"] += 1
        if c["op"] == "obs" and "out" in o:
            hist["obs"] += 1
        direct_disc(ctx, c, o, hist)
        labels.append(c)
        terms.append(g_disc(c, o))
    # ---------------- molecules
    stats = {"molecules": 0, "by_method": {}, "by_name": {}, "max_comm": 0.0, "max_dE": {}, "max_dspec": {}, "max_dEhf": {},
             "ferm_terms": 0, "max_ferm_vs_qubit": 0.0, "max_int_asym": 0.0, "tapered": 0, "tapered_qubits": 0,
             "non_z_generators": 0, "max_taper_dspec": 0.0, "taper_lowest_is_ground": 0, "finding_pyscf_active": 0}
    coq_mol = []
    t_mol = time.time()
    for c, o in zip(mols, out["mol"]):
        verify_mol(ctx, c, o, stats, coq_mol)
    t_mol = time.time() - t_mol
    # negative controls for the verified checkers (they must be able to say no)
    coq_mol.append(("control", "QCons [[(0%nat, true); (2%nat, false)]; [(1%nat, true)]] false false"))
    coq_mol.append(("control", "QCons [[(0%nat, true); (1%nat, false)]] true false"))
    coq_mol.append(("control", "QCons [[(0%nat, true); (1%nat, true); (3%nat, false); (2%nat, false)]] true true"))
    coq_mol.append(("control", "QHerm [([(0%nat, PZ)], ((1 # 2)%Q, (1 # 3)%Q))] 2%nat false"))
    all_terms = terms + [t for _, t in coq_mol]
    all_labels = labels + [l for l, _ in coq_mol]
    t_coq = time.time()
    badi = ctx.coq_eval_cases("cases", header, all_terms, "check_case", chunk=250)
    ctx.notes.append(f"wall: implementation driver {t_impl:.1f}s, PySCF reference + matrix checks {t_mol:.1f}s, "
                     f"Coq evaluation of {len(all_terms)} cases {time.time() - t_coq:.1f}s")
    for i in badi:
        lab = all_labels[i]
        if isinstance(lab, dict):
            k = (lab["op"] if lab["op"] != "wires" else "wires") + ":" + json.dumps(lab, sort_keys=True)
            o = (dobs + wobs)[i] if i < len(dobs) + len(wobs) else None
            ctx.violation("corr-" + k, {"case": lab, "implementation": o}, what="implementation differs from the proved model (qchem.structure / number / spin)")
        elif lab == "control":
            ctx.violation("control:" + all_terms[i][:80], {"term": all_terms[i]}, found_input=False, what="negative control of a verified checker failed")
        else:
            kind, key = lab.split(":", 1)
            case = json.loads(key)
            full = next((m for m in mols if case_key(m) == key), case)
            ctx.violation(("coq-" + kind + ":" + key), {"case": full},
                          what={"conserve": "fermionic Hamiltonian contains a term that does not conserve particle number / S_z (verified checker)",
                                "herm": "qubit Hamiltonian has a non-real coefficient (verified Hermiticity checker)"}[kind])
    nontrivial = hist["hf_valid"] + hist["exc_nonempty"] + hist["obs"] + stats["molecules"]
    ctx.coverage.update({
        "evaluations": len(all_terms) + stats["molecules"],
        "distinct_nontrivial": nontrivial,
        "rule": "exhaustive grid electrons in -1..orbitals+1, orbitals <= 10, delta_sz in -3..3, three bases; excitations_to_wires on "
                "every returned list (+ custom/malformed wires); observables up to 6/8 (12 for N, S_z) spin orbitals; molecules: "
                "seeded random rigid motions and bond stretches; non-trivial = accepted hf_state / non-empty excitation list / "
                "observable / molecule fully checked",
        "input_distribution": {"discrete": hist, "molecules": stats},
        "tolerances": TOL,
    })
    for c, o in list(zip(mols, out["mol"]))[:3]:
        ctx.sample({"molecule": {k: c[k] for k in ("name", "coords", "charge", "method", "ae", "ao")},
                    "qubits": o.get("qubits"), "terms": len(o.get("H", []))})
    ctx.sample({"max |E_sector - E_PySCF| (Ha)": stats["max_dE"], "max |<HF|H|HF> - E_RHF|": stats["max_dEhf"]})
