"""C33 Device preprocessing yields executable, equivalent circuits."""
from vlib import *
import exactsim
import numpy as np

PID = "C33"
META = {
    "level": "proof",
    "technique": "Coq proofs by induction over the stage list / decomposition fuel of a Gallina model of the device "
                 "preprocessing program + vm_compute correspondence of the REAL programs of all six built-in devices "
                 "(stage by stage) + differential execution against an independent (numpy and exact Coq) simulation of the original circuit",
    "design_ref": "DESIGN.md §3 C33",
    "text": "Theorems (Props/C33.v, no axioms): validators return the same tape or an error (reject_not_alter), "
            "validate_device_wires only fills the wires of wire-less measurements (wires_completed_only_for_wireless), "
            "decompose's output satisfies the stopping condition (decompose_output_accepted) and preserves any monoid "
            "semantics when the decomposer does (decompose_sem), every pipeline whose establishing stages "
            "(decompose / validate_measurements / validate_device_wires) are followed only by stages preserving the "
            "established predicate returns supported tapes (preprocess_output_supported, forall pipelines), and the "
            "composition of semantics-preserving stages with the slice/stack post-processing of CompilePipeline "
            "preserves results (pipeline_sem, forall pipelines). Tie: for default.qubit, default.mixed, "
            "reference.qubit, default.clifford, default.tensor, null.qubit (wires None / explicit incl. string labels, "
            "permuted, with spare wires, with a missing wire; gradient None/adjoint/backprop; mcm deferred / "
            "tree-traversal / one-shot; analytic and finite shots) the real program from "
            "dev.preprocess_transforms(config) is run stage by stage on generated circuits (templates QFT / "
            "BasisEmbedding / StronglyEntanglingLayers and adjoints, nested Adjoint/Pow/Controlled, initial and "
            "mid-circuit StatePrep/BasisState, mid-circuit measurements with conditionals/reset/postselection, "
            "trainable parameters, operators without matrix/decomposition, channels, unsupported observables and "
            "measurements, wires missing from the device; preceded by a seed-independent fixed corpus: default.qubit with "
            "gradient_method='adjoint' on tapes with and without trainable parameters measuring expectation values of "
            "diagonal / non-diagonal observables mixed with probs/state, and default.mixed / default.qubit with scalar "
            "multiples, sums and products of supported and of unsupported (Pow, Adjoint) observables). The recorded stage names must equal the model's program "
            "for that device/config and the recorded per-stage batches (Ok tapes / Err) must equal the model's trace "
            "(validators and decompose are PREDICTED by the model from the predicate tables of the bound transforms "
            "and the one-level decompositions; contract-only rewriters are replayed). Directly on the real output: "
            "(a) every operation/measurement/observable satisfies the device module's own predicates and all wires "
            "are device wires; (b) dev.execute(preprocessed)+post-processing equals an independent simulation of "
            "the ORIGINAL circuit (own branching state-vector simulator with templates/symbolic operators expanded "
            "by formulas in the driver; additionally the exact Coq simulation over Q(zeta_8) for unitary "
            "representable circuits) to 1e-9; (c) circuits the classifier marks unsupported must raise, unless "
            "the results still match.",
    "note": "Trusted: Coq kernel; the hand transcription (coq/Disc/PreprocessModel.v) of preprocess.py validators, "
            "decompose (without the graph-based decomposition system, which is disabled by default; stopping_condition_shots "
            "folded into the recorded table) and of the six preprocess()/preprocess_transforms() stage orders is tied "
            "to /repo by the correspondence run only. Conditional operators are encoded in the tables the way "
            "_operator_decomposition_gen treats them (acceptance of the base, decomposition re-wrapped). Rewriters other "
            "than decompose (defer_measurements, split_non_commuting, diagonalize_measurements, measurements_from_samples, "
            "broadcast_expand, dynamic_one_shot, adjoint_state_measurements, device_resolve_dynamic_wires) are modelled by "
            "contract only: their preservation of semantics/support is a HYPOTHESIS of pipeline_sem / "
            "preprocess_output_supported and is checked only by the differential execution. Snapshot wire completion, "
            "jax-jit (no_counts), max_workers, readout error and check_clifford=False configurations are in the model but "
            "not generated. Reference semantics of primitive gates uses Operator.compute_matrix (independent of decompositions); "
            "finite-shot cases are checked for (a)/(c) and the model only (no value comparison); null.qubit is compared on result "
            "sizes only; default.clifford state/density results are not compared. Defect classes present in the pinned tree "
            "(all on devices other than default.qubit, plus the wire order of wire-less measurements on devices without wires) are "
            "reported under stable keys `finding:<device>:<class>` (function classify); a failure outside these signatures is keyed by its input.",
    "assumptions": ["graph-based decomposition (qp.decomposition.enable_graph) is off (the default)",
                    "float error of the simulators on <= 6 wires is below 1e-9"],
    "trusted": ["hand-written model coq/Disc/PreprocessModel.v tied to /repo by correspondence only",
                "independent reference simulator in harness/impl/c33_impl.py (cross-checked against the exact Coq simulation)",
                "translator harness/qx.py (numeric matrices -> exact constants), harness/exactsim.py post-processing"],
}

HEADER = "From PLV Require Import Disc.PreprocessModel."
SNAME = {"validate_device_wires": "NValidateDeviceWires", "validate_measurements": "NValidateMeasurements",
         "validate_observables": "NValidateObservables", "no_sampling": "NNoSampling", "no_analytic": "NNoAnalytic",
         "validate_multiprocessing_workers": "NValidateWorkers", "validate_adjoint_trainable_params": "NValidateAdjointTrainable",
         "no_counts": "NNoCounts", "_validate_channels": "NValidateChannels", "warn_readout_error_state": "NWarnReadout",
         "decompose": "NDecompose", "defer_measurements": "NDefer", "split_non_commuting": "NSplitNonCommuting",
         "diagonalize_measurements": "NDiagonalize", "measurements_from_samples": "NMeasFromSamples",
         "broadcast_expand": "NBroadcastExpand", "_conditional_broadcast_expand": "NCondBroadcastExpand",
         "_expand_fn": "NExpandFn", "dynamic_one_shot": "NDynamicOneShot", "device_resolve_dynamic_wires": "NResolveDynamicWires",
         "adjoint_state_measurements": "NAdjointStateMeasurements"}
DEVS = ["DQubit", "DMixed", "DReference", "DClifford", "DTensor", "DNull"]
GRADS = ["GNone", "GAdjoint", "GBackprop"]
MCMS = ["MDeferred", "MOneShot", "MTree"]


def gzl(l):
    return glist(l, gz)


def g_op(o):
    return f"(mkOp {gz(o[0])} {gzl(o[1])})"


def g_mp(m):
    return f"(mkMp {gz(m[0])} {gopt(m[1], gz)} {gzl(m[2])})"


def g_tape(t):
    return f"(mkTape {glist(t['ops'], g_op)} {glist(t['mps'], g_mp)} {gbool(t['shots'])})"


def g_otapes(ts):
    return "None" if ts is None else f"(Some {glist(ts, g_tape)})"


def g_stage(st):
    k = st["kind"]
    if k == "vwires":
        return f"(SWires {gopt(st['dw'], gzl)})"
    if k == "vmeas":
        return f"(SMeas {gzl(st['ana'])} {gzl(st['samp'])})"
    if k == "vobs":
        return f"(SObs {gzl(st['ok'])})"
    if k == "nosamp":
        return "SNoSampling"
    if k == "noana":
        return "SNoAnalytic"
    if k == "flag":
        return f"(SFlag {gbool(st['ok'])})"
    if k == "decomp":
        dt = glist(st["dtab"], lambda e: f"({gz(e[0])}, {glist(e[1], g_op)})")
        return f"(SDecompose {gzl(st['acc'])} {dt} {gbool(st['skip'])} {gzl(st['prep'])})"
    tab = glist(st.get("table", []), lambda e: f"({g_tape(e[0])}, {g_otapes(e[1])})")
    return f"(SOracle (tab_fun {tab}))"


def g_case(r):
    c = r["cfg"]
    cfg = (f"(mkCfg {DEVS[c['dev']]} {GRADS[c['grad']]} {MCMS[c['mcm']]} {gbool(c['max_workers'])} {gbool(c['readout'])} "
           f"{gbool(c['check_clifford'])} {gbool(c['jit'])})")
    names = glist(r["names"], lambda n: SNAME.get(n, "NOther"))
    stages = glist(r["stages"], g_stage)
    trace = glist([s["out"] for s in r["stages"]], g_otapes)
    f = r.get("final")
    if f is None:
        fin, chk = "(mkFinal [] [] false [] None)", "false"
    else:
        fin = f"(mkFinal {gzl(f['ops_ok'])} {gzl(f['prep'])} {gbool(f['prep_exempt'])} {gzl(f['mps_ok'])} {gopt(f['dw'], gzl)})"
        chk = gbool(not r.get("direct"))
    return f"(mkCase {cfg} {names} {stages} {g_tape(r['input'])} {trace} {fin} {chk})"


def arr(j):
    a = np.array(j["re"], dtype=float)
    return a + 1j * np.array(j["im"], dtype=float) if "im" in j else a


def exact_expected(st, n, m):
    k = m["kind"]
    if k == "state":
        return st
    if k == "probs":
        return exactsim.probs(st, n, m["idx"])
    if k in ("expval", "var"):
        M = arr(m["M"])
        e = exactsim.expval(st, n, M, m["idx"])
        if k == "expval":
            return e
        return exactsim.expval(st, n, M @ M, m["idx"]) - e * e
    if k == "dm":
        ws = m["idx"]
        psi = np.moveaxis(st.reshape([2] * n), ws, range(len(ws))).reshape(2 ** len(ws), -1)
        return psi @ psi.conj().T
    return None


def describe(r):
    return {k: r.get(k) for k in ("device", "dev_wires", "labels", "grad", "mcm", "shots", "ops", "meas", "tags", "names", "fixed", "trainable_params")}


def casekey(r):
    return json.dumps([r["device"], r["dev_wires"], r["grad"], r["mcm"], r["shots"], r["ops"], r["meas"]])[:420]


def classify(r, kind, detail="", mm=None):
    """stable keys for the defect classes that exist in the pinned tree (reported until registered/fixed); any
    failure outside these signatures gets a key that identifies the failing input"""
    dev, tags, meas = r["device"], set(r["tags"]), r["meas"]
    if any(t.startswith("initial_prep") for t in tags) or r["ops"][:1] and r["ops"][0].startswith(("BasisState", "StatePrep")):
        tags.add("initial_prep")
    if any(o.startswith(("BasisEmbedding", "BasisState", "StatePrep")) for o in r["ops"][1:]):
        tags.add("midprep")          # BasisEmbedding decomposes into a (mid-circuit) BasisState
    late = dev in ("reference.qubit", "default.clifford", "default.tensor")
    if kind == "direct":
        if "not on the device" in detail and "mcm" in tags and late:
            return f"finding:{dev}:aux-wires-of-defer_measurements-not-validated"
    if kind == "exec":
        exc = detail.split(":")[0]
        if dev == "default.tensor":
            if r.get("shots"):
                return "finding:default.tensor:finite-shots-accepted-but-not-executable"
            if exc == "WireError" and "mcm" in tags:
                return f"finding:{dev}:aux-wires-of-defer_measurements-not-validated"
            if exc == "TransformError" and "mcm" in tags:
                return "finding:default.tensor:mcm-statistics-accepted-but-not-executable"
            if any(m.startswith(("probs", "density_matrix", "state")) for m in meas) and exc in ("NotImplementedError", "KeyError", "ValueError", "AttributeError", "TransformError"):
                return "finding:default.tensor:state-measurements-accepted-but-not-executable"
            if "initial_prep" in tags or "midprep" in tags:
                return "finding:default.tensor:initial-stateprep-wire-handling"
        if dev == "default.qubit" and "dq_sprod_of_pow" in tags and exc in ("ValueError", "TypeError"):
            return "finding:default.qubit:scalar-multiple-of-pow-observable-accepted-but-not-executable"
        if dev == "default.mixed" and exc == "MatrixUndefinedError" and "midprep" in tags:
            return "finding:default.mixed:midcircuit-stateprep-accepted-by-name"
        if dev == "default.clifford":
            if ("midprep" in tags or "initial_prep" in tags) and exc == "ValueError":
                return "finding:default.clifford:stateprep-accepted-by-name"
            if exc in ("NotImplementedError", "AttributeError"):
                return "finding:default.clifford:observable-accepted-but-not-executable"
        if dev == "reference.qubit":
            if exc == "EigvalsUndefinedError":
                return "finding:reference.qubit:observables-not-validated"
            if exc == "AttributeError" and r.get("shots"):
                return "finding:reference.qubit:state-measurement-with-shots-accepted"
    if kind == "mismatch" and mm is not None:
        if mm.get("matches_in_executed_tape_wire_order") or mm.get("matches_in_wire_order"):
            return "finding:wireless-measurement-order-without-device-wires"
        if dev == "reference.qubit" and ("Hermitian" in mm["m"] or "Projector" in mm["m"]):
            return "finding:reference.qubit:hermitian-observable-not-diagonalized"
        if dev == "default.clifford" and ("midprep" in tags or "initial_prep" in tags):
            return "finding:default.clifford:stateprep-accepted-by-name"
        if dev == "default.tensor":
            if "initial_prep" in tags or "midprep" in tags:
                return "finding:default.tensor:initial-stateprep-wire-handling"
            if mm["m"].startswith(("state", "density_matrix")):
                return "finding:default.tensor:state-measurements-accepted-but-not-executable"
    return f"{kind}:{casekey(r)}"


def run(ctx):
    import time
    t0 = time.time(); tm = {}
    ctx.coq_props()
    tm['props'] = round(time.time() - t0, 1)
    out = ctx.run_impl("c33_impl.py", {"tier": ctx.tier, "seed": ctx.seed}, timeout=3000)
    runs = out["runs"]
    for d in out.get("dynamic", []):
        if d["err"] is None or d["err"] > 1e-9:
            ctx.violation("dynamic-wires:" + d["name"], d, what="a circuit with a dynamically allocated work wire gives different results after device pre-processing than with an explicit fresh wire (the work wire was mapped onto a wire the circuit uses, or pre-processing failed)")
    tm['impl'] = round(time.time() - t0, 1)
    hist = {"accepted": 0, "rejected": 0, "config_rejected": 0, "timeout": 0, "driver_error": 0}
    per_dev, reject_types, stage_hits, tagcount = {}, {}, {}, {}
    model_cases, model_runs, skipped_overflow = [], [], 0
    n_exec_ok = n_ref = n_unsup_rejected = n_unsup_accepted_ok = 0
    for r in runs:
        st = r["status"]
        hist[st] = hist.get(st, 0) + 1
        if st == "driver_error":
            ctx.violation("driver:" + r["detail"][:200], r, found_input=False, what="C33 driver failed on a generated case: " + r["detail"][:150])
            continue
        if st in ("config_rejected", "timeout"):
            continue
        per_dev.setdefault(r["device"], {"accepted": 0, "rejected": 0})[st] += 1
        for t in r["tags"]:
            tagcount[t] = tagcount.get(t, 0) + 1
        for s in r["stages"]:
            d = stage_hits.setdefault(s["name"], {"ok": 0, "err": 0})
            d["ok" if s["out"] is not None else "err"] += 1
        unsup = [t for t in r["tags"] if t.startswith("unsupported")]
        if r.get("whole_mismatch"):
            ctx.violation("whole:" + casekey(r), {**describe(r), "detail": r["whole_mismatch"]},
                          what="running the program at once differs from running its stages one by one")
        # model correspondence
        if any(s.get("overflow") for s in r["stages"]) or any("table_error" in s for s in r["stages"]):
            skipped_overflow += 1
        else:
            model_cases.append(g_case(r)); model_runs.append(r)
        if st == "rejected":
            et = r["detail"].split(":")[0]
            reject_types[et] = reject_types.get(et, 0) + 1
            if unsup:
                n_unsup_rejected += 1
            continue
        # ---- accepted
        for d in r.get("direct", [])[:1]:
            ctx.violation(classify(r, "direct", d), {**describe(r), "violations": r["direct"]},
                          what=f"{r['device']}: preprocessed tape violates the device's own predicate: {d}")
        ex = r.get("exec")
        if ex == "error":
            ctx.violation(classify(r, "exec", r["exec_detail"]), {**describe(r), "error": r["exec_detail"], "classifier": unsup},
                          what=f"{r['device']}: circuit accepted by the preprocessing program cannot be executed: {r['exec_detail'][:120]}")
            continue
        if ex in ("ok", "ok_shots"):
            n_exec_ok += 1
        if r.get("ref") == "numpy":
            n_ref += 1
        for mm in r.get("mismatch", []):
            ctx.violation(classify(r, "mismatch", mm=mm), {**describe(r), "mismatch": mm, "classifier": unsup},
                          what=f"{r['device']}: result of {mm['m']} after preprocessing differs from the independent simulation of the original circuit")
        if unsup:
            if ex == "ok" and r.get("ref") == "numpy" and not r.get("mismatch"):
                n_unsup_accepted_ok += 1      # decomposable after all
            elif not r.get("mismatch"):
                ctx.violation("unsupported-accepted:" + casekey(r), {**describe(r), "classifier": unsup, "exec": ex},
                              what=f"{r['device']}: circuit classified unsupported ({unsup}) was accepted and its results cannot be validated")
    # ---- model correspondence inside Coq
    bad = ctx.coq_eval_cases("cases", HEADER, model_cases, "check_case", chunk=(50 if ctx.tier == "quick" else 100))
    if bad:
        diag = ctx.coq_eval_terms("diag", HEADER + "\nRequire Import List ZArith. Import ListNotations.", [f"diag_case {model_cases[i]}" for i in bad[:12]])
    for j, i in enumerate(bad[:12]):
        r = model_runs[i]
        ctx.violation("corr:" + casekey(r), {**describe(r), "stages": [(s["name"], "ok" if s["out"] is not None else s.get("err")) for s in r["stages"]],
                      "diag(names_ok,kinds_ok,trace_ok,final_ok)": diag[j]},
                      what=f"{r['device']}: real preprocessing program differs from the proved model (names, kinds, trace, final)={diag[j]}")
    tm['model'] = round(time.time() - t0, 1)
    # ---- exact reference (Coq) for unitary representable circuits
    ex_runs = [r for r in runs if r.get("exact") and (ctx.tier != "quick" or (r["exact"]["n"] <= 3 and r["exact"]["circuit"].count("%nat]") <= 14))]
    ex_runs = ex_runs[: (8 if ctx.tier == "quick" else 300)]
    states = exactsim.exact_states(ctx, "ref", [(r["exact"]["n"], r["exact"]["circuit"]) for r in ex_runs], chunk=(4 if ctx.tier == "quick" else 25)) if ex_runs else []
    n_exact_cmp = 0
    for r, stv in zip(ex_runs, states):
        e = r["exact"]
        for m, v, skip, desc in zip(e["meas"], e["vals"], e["skip"], r["meas"]):
            if skip or v is None:
                continue
            exp = exact_expected(stv, e["n"], m)
            if exp is None:
                continue
            got = arr(v)
            ea = np.asarray(exp)
            if m["kind"] == "state" and got.ndim == 2:
                ea = np.outer(ea, ea.conj())
            err = float(np.abs(got.reshape(-1) - ea.reshape(-1)).max()) if got.size == ea.size else 9.9
            n_exact_cmp += 1
            if err > 1e-9:
                mm = {"m": desc, "err": err, "got": v, "exact": True}
                for x in r.get("mismatch", []):
                    if x["m"] == desc:
                        mm.update({k: x[k] for k in x if k.startswith("matches_")})
                ctx.violation(classify(r, "mismatch", mm=mm), {**describe(r), "mismatch": mm},
                              what=f"{r['device']}: result of {desc} after preprocessing differs from the exact Coq simulation of the original circuit")
    tm['exact'] = round(time.time() - t0, 1)
    ctx.coverage["timing_cumulative_s"] = tm
    nontrivial = sum(1 for r in runs if r["status"] == "accepted" and r.get("n_final_ops", 0) > len(r["ops"]))
    ctx.coverage.update({
        "evaluations": len(runs), "distinct_nontrivial": nontrivial, "fixed_corpus_cases": sum(1 for r in runs if r.get("fixed")),
        "rule": "seeded generator (per-case seed): device x wire configuration x ExecutionConfig x circuit flavour; non-trivial = accepted and the program changed the number of operations",
        "input_distribution": {"status": hist, "per_device": per_dev, "tags": tagcount, "reject_exception_types": reject_types},
        "stage_outcomes": stage_hits, "model_cases": len(model_cases), "model_skipped_table_overflow": skipped_overflow,
        "executed_ok": n_exec_ok, "compared_with_numpy_reference": n_ref, "exact_circuits": len(ex_runs), "exact_comparisons": n_exact_cmp,
        "unsupported_rejected": n_unsup_rejected, "unsupported_but_decomposable_and_correct": n_unsup_accepted_ok,
        "impl_wall_s": round(out.get("wall", 0), 1)})
    for r in [x for x in runs if x["status"] == "accepted"][:2] + [x for x in runs if x["status"] == "rejected"][:2]:
        ctx.sample({k: r.get(k) for k in ("device", "dev_wires", "grad", "mcm", "ops", "meas", "tags", "status", "detail")})
