"""C57 State-preparation templates prepare the requested state."""
from vlib import *
from fractions import Fraction as Fr
import math
import numpy as np

PID = "C57"
NAMES = ["StatePrep", "AmplitudeEmbedding", "BasisState", "BasisEmbedding", "MottonenStatePreparation", "MPSPrep",
         "Superposition", "QROMStatePreparation", "SumOfSlatersPrep", "MultiplexerStatePreparation", "CosineWindow",
         "PartialUnaryStatePreparation"]
META = {
    "level": "proof",
    "technique": "Coq proofs (induction over bitstrings / wire lists; exact rational arithmetic) for the discrete parts + vm_compute correspondence; per-instance numerical validation of every template against an independently computed target state",
    "design_ref": "DESIGN.md §3 C57",
    "text": "20 kernel-checked theorems (Props/C57.v), for all sizes: (a) BasisState/BasisEmbedding - the X gates emitted by the decomposition, run from |0..0>, leave exactly the requested bits (index sum b_i 2^(n-1-i)), and that is the basis state state_vector(wire_order) selects on any device register containing the wires; accepted inputs are exactly 0/1 sequences of the right length; int_to_binary is the big-endian expansion of k mod 2^width. (b) StatePrep/AmplitudeEmbedding pre-processing over Gaussian rationals with rational norm - padding is appended to length 2^n with original entries in place, then the whole vector is normalised to norm exactly 1; the accept/reject decision is |norm-1| <= atol+rtol as the code takes it; too long / wrong length rejected; sparse path. The models are evaluated inside Coq on generated inputs and compared with BasisState (decomposition wires, state_vector index), qp.math.int_to_binary and StatePrep/AmplitudeEmbedding parameters of the real implementation. VALIDATION (per instance, not proved): all 12 templates named in the property are run on default.qubit from |0..0> on random wire labels (1-4 target qubits, permuted device wire order, spectator wires) both as a device primitive (qnode + qp.state()) through op.decomposition() fully decomposed (qp.transforms.decompose) to {RX,RY,RZ,CNOT,GlobalPhase}, and through the decomposition rules registered for the graph-based system (enable_graph) to the same gate set; the resulting state is compared at 1e-7 with a target computed independently in the harness (Haar-random real/complex, Pythagorean-rational, sparse, signed, basis states; random MPS tensors contracted densely; QROM angles truncated to the number of precision wires as documented; cosine window formula), tensored with |0> on every auxiliary / work / precision wire.",
    "note": "Trusted: Coq kernel; hand transcription of BasisState/_preprocess tied by correspondence only. The numerical angle computations (Mottonen/Multiplexer alpha angles and Gray-code transform, QROM angle truncation, MPS QR completion, SumOfSlaters / PartialUnary classical co-processing, Superposition order_states permutation bookkeeping, CosineWindow QFT circuit) are VALIDATED on generated instances, not proved. Equality is exact (incl. global phase) wherever the docstring shows/claims the exact state; a global phase is allowed only for the decompositions of StatePrep/AmplitudeEmbedding (documented 'up to a global phase') and for one-entry sparse states (coefficient phase dropped by design). Dynamic work-wire allocation (SumOfSlatersPrep / PartialUnaryStatePreparation without registers) is checked through the reduced density matrix of the target wires. States are compared at 1e-7 (not 1e-8): the implementation's 2*arcsin(sqrt(x)) angle formula loses sqrt(machine eps) ~ 1.5e-8 in amplitude when a branch carries all the weight. Norm decisions are tested away from the tolerance boundary (float vs exact norm). Not covered: the identification-register branch of SumOfSlatersPrep (needs >= 7 entries on >= 6 wires, ~20 qubits); broadcasting (batched states); abstract/jax inputs; lightning.tensor's native MPSPrep; preparation in the middle of a circuit. Three defects of the checkout are reported by this check under stable keys (one replay each): MPSPrep[right-canonicalize-early-exit] (right_canonicalize_mps inspects only the intermediate tensors before declaring the MPS canonical: two-site MPS are never canonicalised and a wrong state is prepared), MultiplexerStatePreparation[zero-first-rotation] (TypeError on default.qubit when the first qubit of the target is |0>: SelectPauliRot with all-zero angles and no controls decomposes to an empty Prod), StatePrep[sparse-input] (a csr state cannot be decomposed: MottonenStatePreparation on a csr matrix raises ImportError from autoray).",
    "assumptions": ["inputs of the pre-processing model have rational norm (otherwise the model answers 'outside')",
                    "wire labels are distinct (pennylane.wires.Wires enforces it)",
                    "concrete (non-traced) numpy inputs, no broadcasting"],
    "trusted": ["hand-written model coq/Disc/StatePrepModel.v tied to /repo by correspondence only",
                "harness-side numpy computation of the target states (independent of the templates)"],
}

PATHS = {"dev": "device primitive", "dec": "op.decomposition()", "gr": "registered graph decomposition rule",
         "sv": "state_vector(wire_order) called directly"}
TOL = 1e-7   # not 1e-8: Mottonen's 2*arcsin(sqrt(x)) has an intrinsic sqrt(eps) ~ 1.5e-8 amplitude error when x rounds to 1-eps (witnessed)
LABEL_POOLS = [[0, 1, 2, 3], ["a", "b", "c", "d"], [3, "x", 0, "q"], [-1, 10, "w0", "t"], [2, 0, 3, 1], ["q3", "q1", 5, 4]]


# ------------------------------------------------------------------ target generators
def nprng(rng):
    return np.random.default_rng(rng.getrandbits(32))


def haar(g, d, real=False):
    v = g.normal(size=d) + (0 if real else 1j * g.normal(size=d))
    return (v / np.linalg.norm(v)).astype(float if real else complex)


PYTH2 = [(Fr(3, 5), Fr(4, 5)), (Fr(5, 13), Fr(12, 13)), (Fr(8, 17), Fr(15, 17)), (Fr(4, 5), Fr(3, 5)), (Fr(1), Fr(0)), (Fr(0), Fr(1)), (Fr(7, 25), Fr(24, 25))]
PYTH4 = [[Fr(1, 2)] * 4, [Fr(1, 5), Fr(2, 5), Fr(2, 5), Fr(4, 5)], [Fr(2, 9), Fr(4, 9), Fr(5, 9), Fr(6, 9)], [Fr(1, 6), Fr(1, 6), Fr(3, 6), Fr(5, 6)], [Fr(2, 7), Fr(3, 7), Fr(6, 7), Fr(0)]]


def pyth_state(rng, n, cplx):
    """product of rational 1- and 2-qubit states with random unit phases: all amplitudes Gaussian rationals"""
    v, k = np.ones(1, dtype=complex), 0
    while k < n:
        if n - k >= 2 and rng.random() < 0.4:
            f = np.array([float(x) for x in rng.choice(PYTH4)], dtype=complex); k += 2
        else:
            f = np.array([float(x) for x in rng.choice(PYTH2)], dtype=complex); k += 1
        v = np.kron(v, f)
    units = [1, -1, 1j, -1j] if cplx else [1, -1]
    v = v * np.array([rng.choice(units) for _ in v])
    return v if cplx else np.real(v)


def sparse_state(rng, g, n, cplx):
    d = 2 ** n
    k = rng.randint(1, max(1, d // 2))
    idx = rng.sample(range(d), k)
    v = np.zeros(d, dtype=complex if cplx else float)
    v[idx] = haar(g, k, real=not cplx)
    return v


def gen_state(rng, g, n, force=None):
    """returns (vector, kind, description)"""
    r = rng.random() if force is None else force
    if r < 0.3:
        return haar(g, 2 ** n), "complex", "haar-complex"
    if r < 0.5:
        return haar(g, 2 ** n, real=True), "real", "haar-real"
    if r < 0.65:
        return pyth_state(rng, n, True), "complex", "pythagorean-complex"
    if r < 0.8:
        return pyth_state(rng, n, False), "real", "pythagorean-real"
    if r < 0.9:
        return sparse_state(rng, g, n, True), "complex", "sparse-complex"
    return sparse_state(rng, g, n, False), "real", "sparse-real"


def enc(v):
    return [[float(np.real(x)), float(np.imag(x))] for x in np.asarray(v).reshape(-1)]


def dec(pairs):
    return np.array([complex(p[0], p[1]) for p in pairs])


def labels(rng, n):
    pool = rng.choice(LABEL_POOLS)
    return rng.sample(pool, n) if rng.random() < 0.5 else pool[:n]


def aux_labels(rng, prefix, k, used):
    if rng.random() < 0.5:
        out = [f"{prefix}{i}" for i in range(k)]
    else:
        base = 20 + rng.randint(0, 5)
        out = [base + i for i in range(k)]
    assert not set(map(str, out)) & set(map(str, used))
    return out


def device_order(rng, allw):
    order = list(allw)
    r = rng.random()
    if r < 0.4:
        rng.shuffle(order)
    if rng.random() < 0.25:
        order.insert(rng.randint(0, len(order)), "spect")
    return order


# ------------------------------------------------------------------ independent target computations
def qrom_expected(psi, m):
    """documented semantics: every rotation angle theta/pi and phase/(2 pi) truncated to m binary digits"""
    n = int(round(math.log2(len(psi))))
    probs, ph = np.abs(psi) ** 2, np.angle(psi) % (2 * np.pi)

    def trunc(val):
        k = int(2 ** m * val)
        return min(k, 2 ** m - 1) / 2 ** m
    amp = np.ones(1)
    for i in range(n):
        blk = probs.reshape(2 ** i, -1)
        den = blk.sum(axis=1)
        num = blk.reshape(2 ** (i + 1), -1).sum(axis=1)[::2]
        new = np.zeros(2 ** (i + 1))
        for j in range(2 ** i):
            th = np.pi * trunc(2 * np.arccos(np.sqrt(num[j] / (den[j] + 1e-15))) / np.pi)
            new[2 * j], new[2 * j + 1] = amp[j] * np.cos(th / 2), amp[j] * np.sin(th / 2)
        amp = new
    out = amp.astype(complex)
    if not np.allclose(ph, 0.0):
        out = out * np.exp(2j * np.pi * np.array([trunc(p / (2 * np.pi)) for p in ph]))
    return out


def mps_contract(mps):
    v = mps[0]
    for A in mps[1:]:
        v = np.tensordot(v, A, axes=([-1], [0]))
    return v.reshape(-1)


def rand_mps(g, n, bonds, cplx, canonical):
    def rnd(*s):
        return g.normal(size=s) + (1j * g.normal(size=s) if cplx else 0)
    ts = [rnd(2, bonds[0])] + [rnd(bonds[i - 1], 2, bonds[i]) for i in range(1, n - 1)] + [rnd(bonds[-1], 2)]
    if canonical:
        for i in range(1, n):
            sh = ts[i].shape
            q, _ = np.linalg.qr(ts[i].reshape(sh[0], -1).conj().T)
            ts[i] = q.conj().T.reshape(sh)
        ts[0] = ts[0] / np.linalg.norm(ts[0])
    return ts


def expected_state(c):
    """(target vector on c['wires'], number of auxiliary wires, mode_dev, mode_dec) ; mode: 'exact' | 'phase'"""
    t = c["t"]
    n = len(c["wires"])
    if t in ("StatePrep", "AmplitudeEmbedding"):
        v = dec(c["state"])
        kw = c.get("kw", {})
        if kw.get("pad_with") is not None:
            v = np.concatenate([v, np.full(2 ** n - len(v), complex(*kw["pad_with"]))])
        elif len(v) < 2 ** n:      # sparse input: implicit zero padding
            v = np.concatenate([v, np.zeros(2 ** n - len(v))])
        if kw.get("normalize") or kw.get("pad_with") is not None:
            v = v / np.linalg.norm(v)
        return v, 0, "exact", "phase"
    if t in ("MottonenStatePreparation", "MultiplexerStatePreparation"):
        return dec(c["state"]), 0, "exact", "exact"
    if t in ("BasisState", "BasisEmbedding"):
        v = np.zeros(2 ** n, dtype=complex)
        v[int("".join(str(int(b)) for b in c["bits"]), 2)] = 1
        return v, 0, "exact", "exact"
    if t == "CosineWindow":
        v = np.sqrt(2.0 ** (1 - n)) * np.cos(np.pi * np.arange(2 ** n) / 2 ** n - np.pi / 2)
        return v.astype(complex), 0, "exact", "exact"
    if t == "Superposition":
        v = np.zeros(2 ** n, dtype=complex)
        for co, b in zip(dec(c["coeffs"]), c["bases"]):
            v[int("".join(map(str, b)), 2)] = co
        return v, 1, "exact", "exact"
    if t == "QROMStatePreparation":
        if c.get("exact_dyadic"):
            v = dec(c["state"])
        else:
            v = qrom_expected(dec(c["state"]), len(c["precision_wires"]))
        return v, len(c["precision_wires"]) + len(c["work_wires"]), "exact", "exact"
    if t == "MPSPrep":
        mps = [np.array(A["re"]) + 1j * np.array(A["im"]) for A in c["mps"]]
        v = mps_contract(mps)
        return v / np.linalg.norm(v), len(c["work_wires"]), "exact", "exact"
    if t in ("SumOfSlatersPrep", "PartialUnaryStatePreparation"):
        v = np.zeros(2 ** n, dtype=complex)
        for co, i in zip(dec(c["coeffs"]), c["indices"]):
            v[i] = co
        mode = "phase" if len(c["indices"]) == 1 else "exact"
        if t == "SumOfSlatersPrep":
            naux = sum(len(x) for x in (c.get("regs") or {}).values())
        else:
            naux = len(c["work_wires"])
        return v, naux, mode, mode
    raise KeyError(t)


def embed(v, allw, naux, order):
    """target (x) |0>_aux on allw (targets first), re-expressed in device wire order `order` (extra wires |0>)"""
    extra = [w for w in order if w not in allw]
    full = list(allw) + extra
    z = np.zeros(2 ** (naux + len(extra)), dtype=complex)
    z[0] = 1
    T = np.kron(v, z).reshape((2,) * len(full))
    return np.transpose(T, [full.index(w) for w in order]).reshape(-1)


def defect_class(c, path, err_text=None):
    """stable tags for failure classes that are reproducible defects of the checkout (one replay per class)"""
    t = c["t"]
    if t == "MultiplexerStatePreparation" and path == "dev" and err_text and "reduce() of empty" in err_text:
        v = dec(c["state"])
        h = len(v) // 2
        if not np.any(np.abs(v[h:]) > 0):
            return "zero-first-rotation"
    if t == "StatePrep" and path in ("dec", "gr") and c.get("sparse") and err_text:
        return "sparse-input"
    if t == "MPSPrep" and c["right_canonicalize"] and not err_text:
        mps = [np.array(A["re"]) + 1j * np.array(A["im"]) for A in c["mps"]]
        mid_ok = all(np.allclose(np.tensordot(A, A.conj(), axes=([1, 2], [1, 2])), np.eye(A.shape[0])) for A in mps[1:-1])
        last = mps[-1]
        if mid_ok and not np.allclose(last @ last.conj().T, np.eye(last.shape[0])):
            return "right-canonicalize-early-exit"
    return None


def compare(s, tgt, mode):
    """returns (ok, err, phase_only)"""
    s, tgt = np.asarray(s), np.asarray(tgt)
    if s.shape != tgt.shape:
        return False, 9.9, False
    err = float(np.abs(s - tgt).max())
    if err <= TOL:
        return True, err, False
    k = int(np.argmax(np.abs(tgt)))
    if abs(s[k]) > 1e-12:
        ph = (s[k] / tgt[k]) / abs(s[k] / tgt[k])
        err2 = float(np.abs(s - ph * tgt).max())
        if err2 <= TOL:
            return mode == "phase", err, True
    return False, err, False


# ------------------------------------------------------------------ numeric case generation
def all_wires_of(c):
    t = c["t"]
    W = list(c["wires"])
    if t == "Superposition":
        return W + [c["work_wire"]]
    if t == "QROMStatePreparation":
        return W + list(c["precision_wires"]) + list(c["work_wires"])
    if t in ("MPSPrep", "PartialUnaryStatePreparation"):
        return W + list(c["work_wires"])
    if t == "SumOfSlatersPrep":
        regs = c.get("regs") or {}
        return W + sum((list(regs[k]) for k in ("enumeration_wires", "identification_wires", "qrom_work_wires", "mcx_cache_wires") if k in regs), [])
    return W


def ceil_log2(m):
    return max(0, (m - 1).bit_length())


def gen_prep_cases(rng, tier):
    g = nprng(rng)
    cases = []
    big = tier != "quick"

    def add(c):
        if not c.get("dyn"):
            c["order"] = device_order(rng, all_wires_of(c))
        cases.append(c)

    # ---- corpus: hand-picked / regression cases first
    add({"t": "StatePrep", "wires": [0, 1], "state": enc([0.5, 0.5, 0.5, 0.5]), "kind": "real", "kw": {}, "desc": "doc"})
    add({"t": "StatePrep", "wires": [0, 1], "state": enc([15, 15, 15, 15]), "kind": "int", "kw": {"normalize": True}, "desc": "doc-normalize"})
    add({"t": "AmplitudeEmbedding", "wires": ["a", "b"], "state": enc([3, 4, 0]), "kind": "real", "kw": {"pad_with": [12.0, 0.0]}, "desc": "pad 12 -> (3,4,0,12)/13"})
    add({"t": "AmplitudeEmbedding", "wires": ["a", "b"], "state": enc([1 / math.sqrt(2), 1 / math.sqrt(2)]), "kind": "real", "kw": {"pad_with": [0.0, 0.0]}, "desc": "doc-pad"})
    add({"t": "AmplitudeEmbedding", "wires": [1, 0], "state": enc([1 + 1j, 1, 1]), "kind": "complex", "kw": {"pad_with": [0.0, 1.0]}, "desc": "complex pad"})
    # the pad is NOT representable in the dtype of the features (integer features + fractional pad, real features +
    # complex pad): the documented state is still normalise(concat(features, pad_with * ones))
    add({"t": "AmplitudeEmbedding", "wires": ["b", "a"], "state": enc([1, 2, 3]), "kind": "int", "kw": {"pad_with": [0.5, 0.0]}, "desc": "int features, fractional pad"})
    add({"t": "StatePrep", "wires": ["b", "a"], "state": enc([0.6, 0.8]), "kind": "real", "kw": {"pad_with": [0.0, 0.5]}, "desc": "real features, complex pad"})
    add({"t": "StatePrep", "wires": [1, 0, 2], "state": enc([2, 0, 1, 1, 3]), "kind": "int", "kw": {"pad_with": [-0.75, 0.0], "normalize": True}, "desc": "int features, fractional pad"})
    add({"t": "AmplitudeEmbedding", "wires": [0, 1], "state": enc([1.0, 2.0, 3.0]), "kind": "real", "kw": {"pad_with": [0.25, -0.75]}, "desc": "real features, complex pad"})
    add({"t": "AmplitudeEmbedding", "wires": ["q"], "state": enc([2]), "kind": "int", "kw": {"pad_with": [0.0, 1.5]}, "desc": "int features, complex pad"})
    add({"t": "StatePrep", "wires": [2, 0, 1], "state": enc([0, 3, 0, 0, 0, 0, 4, 0]), "kind": "real", "sparse": True, "kw": {"normalize": True}, "desc": "sparse csr"})
    add({"t": "StatePrep", "wires": [2, 0], "state": enc([0, 3, 4]), "kind": "real", "sparse": True, "kw": {"normalize": True}, "desc": "sparse csr short"})
    for st in ([0.0, -1.0], [-1.0, 0.0], [0.0, 0.0, 0.0, -1.0], [-0.5, -0.5, 0.5, 0.5], [0.6, 0.0, 0.0, -0.8], [0.0, 0.0, 0.6, 0.8]):
        add({"t": "MottonenStatePreparation", "wires": list(range(int(math.log2(len(st))))), "state": enc(st), "kind": "real", "desc": "signed-real"})
        add({"t": "MultiplexerStatePreparation", "wires": list(range(int(math.log2(len(st))))), "state": enc(st), "kind": "real", "desc": "signed-real"})
    for st in ([0, 0, 0, -1j], [0.6, 0.8j], [0.5, 0.5j, -0.5, -0.5j], [1j, 0]):
        add({"t": "MottonenStatePreparation", "wires": ["a", "b"][:int(math.log2(len(st)))], "state": enc(st), "kind": "complex", "desc": "phases"})
        add({"t": "MultiplexerStatePreparation", "wires": ["a", "b"][:int(math.log2(len(st)))], "state": enc(st), "kind": "complex", "desc": "phases"})
    st = np.array([1, 2j, 3, 4j, 5, 6j, 7, 8j]); st = st / np.linalg.norm(st)
    add({"t": "MottonenStatePreparation", "wires": [0, 1, 2], "state": enc(st), "kind": "complex", "desc": "doc"})
    add({"t": "QROMStatePreparation", "wires": [4, 5], "precision_wires": [1, 2, 3], "work_wires": [0], "state": enc(np.sqrt([0.5, 0.0, 0.25, 0.25])), "kind": "real", "exact_dyadic": True, "desc": "doc"})
    add({"t": "Superposition", "wires": [0, 1, 2], "work_wire": 3, "coeffs": enc(np.sqrt([1 / 3] * 3)), "bases": [[1, 1, 1], [0, 1, 0], [0, 0, 0]], "kind": "real", "desc": "doc"})
    add({"t": "Superposition", "wires": [0, 1], "work_wire": 2, "coeffs": enc(np.sqrt([0.5, 0.5])), "bases": [[1, 1], [0, 0]], "kind": "real", "desc": "doc2"})
    mps_doc = [np.array([[0.0, 0.107], [0.994, 0.0]]), np.array([[[0.0, 0.0], [1.0, 0.0]], [[0.0, 1.0], [0.0, 0.0]]]), np.array([[-1.0, -0.0], [-0.0, -1.0]])]
    add({"t": "MPSPrep", "wires": [1, 2, 3], "work_wires": [0], "right_canonicalize": True, "kind": "real",
         "mps": [{"re": A.tolist(), "im": np.zeros_like(A).tolist()} for A in mps_doc], "desc": "doc"})
    for n in range(1, 5):
        add({"t": "CosineWindow", "wires": labels(rng, n), "desc": f"n={n}"})
    # fixed device orders whose permutation from (operator wires + rest) is NOT an involution (3-cycles):
    # a transposition-only order cannot tell a permutation from its inverse
    for t_, w_, o_ in (("CosineWindow", [1, 2], [0, 1, 2]), ("CosineWindow", [2, 0], [0, 1, 2]),
                       ("CosineWindow", [3, 1, 0], [0, 1, 2, 3]), ("CosineWindow", ["b", "c"], ["c", "a", "b"])):
        cases.append({"t": t_, "wires": w_, "order": o_, "sv": True, "desc": "cyclic-order"})
    st3 = np.array([1, 2, 3, 4, 5, 6, 7, 8.0]); st3 = st3 / np.linalg.norm(st3)
    for t_ in ("StatePrep", "MottonenStatePreparation", "AmplitudeEmbedding"):
        cases.append({"t": t_, "wires": [3, 1, 2], "order": [1, 2, 0, 3], "state": enc(st3), "kind": "real", "kw": {}, "sv": t_ != "MottonenStatePreparation", "desc": "cyclic-order"})
        cases.append({"t": t_, "wires": [1, 2], "order": [0, 1, 2], "state": enc([0.1, 0.7, 0.5, 0.5]), "kind": "real", "kw": {}, "sv": t_ != "MottonenStatePreparation", "desc": "cyclic-order"})

    # ---- seeded random cases
    k = 1 if not big else 12

    def nq(hi=4):
        return rng.choice([1, 2, 2, 3, 3, 4][: (6 if hi >= 4 else 5 if hi == 3 else 3)])
    for _ in range(8 * k):           # StatePrep / AmplitudeEmbedding, normalised input
        n = nq()
        v, kind, d = gen_state(rng, g, n)
        t = rng.choice(["StatePrep", "AmplitudeEmbedding"])
        kw = {}
        if rng.random() < 0.3:
            kw["validate_norm"] = rng.random() < 0.5
        add({"t": t, "wires": labels(rng, n), "state": enc(v), "kind": kind, "kw": kw, "desc": d})
    for _ in range(10 * k):          # unnormalised with normalize / padding
        n = nq()
        v, kind, d = gen_state(rng, g, n)
        t = rng.choice(["StatePrep", "AmplitudeEmbedding"])
        v = v * rng.choice([2.0, 0.37, 13.0, 5.0])
        kw = {"normalize": True}
        if rng.random() < 0.6 and n >= 1:
            keep = rng.randint(1, 2 ** n - 1)
            v = v[:keep]
            if not np.any(np.abs(v) > 1e-6):
                v = v + 1.0
            p = rng.choice([[0.0, 0.0], [1.0, 0.0], [-0.5, 0.0], [0.25, -0.75], [0.0, 2.0]])
            if kind != "complex" and len(cases) % 2:     # real features: every other case keeps a complex pad
                p = [p[0] if p[0] or not p[1] else 1.5, 0.0]
            kw = {"pad_with": p}
            if rng.random() < 0.5:
                kw["normalize"] = rng.random() < 0.5
            d += "+pad"
        elif not np.any(np.abs(v) > 1e-6):
            continue
        add({"t": t, "wires": labels(rng, n), "state": enc(v), "kind": kind, "kw": kw, "desc": d + "+unnormalised"})
    for _ in range(3 * k):           # sparse csr input
        n = nq()
        v = sparse_state(rng, g, n, rng.random() < 0.5) * rng.choice([1.0, 3.0])
        if rng.random() < 0.4 and n > 1:
            cut = max(int(np.max(np.nonzero(v)[0])) + 1, 2 ** (n - 1) + 1)
            v = v[:cut]
        add({"t": "StatePrep", "wires": labels(rng, n), "state": enc(v), "kind": "complex" if np.iscomplexobj(v) else "real",
             "sparse": True, "kw": {"normalize": True}, "desc": "sparse-csr"})
    for _ in range(12 * k):
        n = nq()
        v, kind, d = gen_state(rng, g, n)
        add({"t": "MottonenStatePreparation", "wires": labels(rng, n), "state": enc(v), "kind": kind, "desc": d})
    for _ in range(10 * k):
        n = nq()
        v, kind, d = gen_state(rng, g, n)
        add({"t": "MultiplexerStatePreparation", "wires": labels(rng, n), "state": enc(v), "kind": kind, "desc": d})
    for _ in range(6 * k):
        n = nq()
        bits = [rng.randint(0, 1) for _ in range(n)]
        add({"t": rng.choice(["BasisState", "BasisEmbedding"]), "wires": labels(rng, n), "bits": bits, "as_array": rng.random() < 0.5, "desc": "bits"})
    for _ in range(8 * k):           # Superposition
        n = rng.choice([1, 2, 2, 3, 3, 4] if big else [1, 2, 2, 3, 3])
        m = rng.randint(1 if n == 1 else 2, min(2 ** n, 6 if big else 5))
        idx = rng.sample(range(2 ** n), m)
        if rng.random() < 0.3:
            idx = sorted(idx)
        co = haar(g, m, real=rng.random() < 0.4) if (rng.random() < 0.7 or m > 4) else np.array([float(x) for x in rng.choice([q for q in PYTH4 + [list(p) for p in PYTH2] if len(q) >= m])[:m]], dtype=complex)
        co = co / np.linalg.norm(co)
        W = labels(rng, n)
        add({"t": "Superposition", "wires": W, "work_wire": aux_labels(rng, "wk", 1, W)[0], "coeffs": enc(co),
             "bases": [[int(ch) for ch in format(i, f"0{n}b")] for i in idx], "kind": "complex" if np.iscomplexobj(co) else "real", "desc": f"m={m}"})
    for _ in range(7 * k):           # QROMStatePreparation
        n = rng.choice([1, 2, 2, 3] if big else [1, 2, 2])
        v, kind, d = gen_state(rng, g, n, force=rng.choice([0.1, 0.4, 0.85, 0.95]))
        m = rng.randint(2, 4 if big else 3)
        W = labels(rng, n)
        P = aux_labels(rng, "p", m, W)
        Wk = [f"wq{i}" for i in range(rng.randint(0, 2))]
        add({"t": "QROMStatePreparation", "wires": W, "precision_wires": P, "work_wires": Wk, "state": enc(v), "kind": kind, "desc": d + f",m={m}"})
    for _ in range(8 * k):           # MPSPrep
        n = rng.choice([2, 3, 3, 4])
        canonical = rng.random() < 0.4
        bonds = []
        for i in range(n - 1):
            bonds.append(rng.choice([1, 2, 2, 4] if not canonical else [1, 2, 2]))
        if canonical:               # right-isometries need chi_left <= 2 chi_right
            bonds[-1] = min(bonds[-1], 2)
            for i in range(n - 3, -1, -1):
                bonds[i] = min(bonds[i], 2 * bonds[i + 1])
        if max(bonds) == 1:
            bonds[rng.randrange(len(bonds))] = 2
            if canonical:
                bonds[-1] = min(bonds[-1], 2)
        cplx = rng.random() < 0.5
        ts = rand_mps(g, n, bonds, cplx, canonical)
        W = labels(rng, n)
        kw = max(1, ceil_log2(max(bonds))) + (1 if rng.random() < 0.2 else 0)
        add({"t": "MPSPrep", "wires": W, "work_wires": aux_labels(rng, "mw", kw, W), "right_canonicalize": (not canonical) or rng.random() < 0.3,
             "kind": "complex" if cplx else "real", "mps": [{"re": np.real(A).tolist(), "im": np.imag(A).tolist()} for A in ts],
             "desc": f"bonds={bonds},canonical={canonical}"})
    for _ in range(8 * k):           # sparse preparations
        n = rng.choice([1, 2, 3, 3, 4])
        D = rng.randint(1, min(2 ** n, 4 if not big else 6))
        idx = rng.sample(range(2 ** n), D)
        co = haar(g, D, real=rng.random() < 0.3).astype(complex)
        W = labels(rng, n)
        base = {"wires": W, "indices": idx, "coeffs": enc(co), "kind": "complex", "desc": f"n={n},D={D}"}
        cases.append(dict(base, t="SumOfSlatersPrep", regs="AUTO", aux_style=rng.choice(["str", "int"]),
                          perm_seed=rng.choice([None, rng.randint(0, 999)])))
        need = max(ceil_log2(D) - 1, 1)
        c2 = dict(base, t="PartialUnaryStatePreparation", work_wires=aux_labels(rng, "pu", need + (1 if rng.random() < 0.25 else 0), W))
        add(c2)
    # dynamic work wires: reduced density matrix of the target register
    for _ in range(2 * k):
        n = rng.choice([2, 3])
        D = rng.randint(2, 4)
        idx = rng.sample(range(2 ** n), D)
        co = haar(g, D).astype(complex)
        W = labels(rng, n)
        cases.append({"t": "SumOfSlatersPrep", "wires": W, "indices": idx, "coeffs": enc(co), "kind": "complex", "dyn": True, "desc": "dynamic work wires"})
        cases.append({"t": "PartialUnaryStatePreparation", "wires": W, "indices": idx, "coeffs": enc(co), "kind": "complex", "work_wires": [], "dyn": True, "desc": "dynamic work wires"})
    return cases


# ------------------------------------------------------------------ Coq-tie generators: (a) BasisState
WIRE_POOL = [0, 1, 2, 3, 4, 5, "a", "b", "c", "q", "w0", -1, 7, "t"]


def wid(w):
    return WIRE_POOL.index(w)


def gen_basis_cases(rng, N, maxn):
    cases = [{"mode": "list", "state": [1, 0, 1], "wires": ["a", "b", 2], "order": ["a", "b", 2]},
             {"mode": "list", "state": [0, 1, 1], "wires": ["a", "b", 2], "order": ["b", 2, "q", "a"]},
             {"mode": "scalar", "state": 3, "wires": [0, 1], "order": [0, 1]},
             {"mode": "list", "state": [1, 2], "wires": [0, 1], "order": [0, 1]},
             {"mode": "list", "state": [1, 1, 0], "wires": [0, 1], "order": [0, 1]},
             {"mode": "int2bin", "k": 13, "width": 5, "wires": []}, {"mode": "int2bin", "k": 3, "width": 2, "wires": []},
             {"mode": "int2bin", "k": 37, "width": 3, "wires": []}, {"mode": "int2bin", "k": 0, "width": 0, "wires": []}]
    while len(cases) < N:
        r = rng.random()
        if r < 0.2:
            w = rng.randint(0, 9)
            k = rng.choice([rng.randrange(0, 2 ** w) if w else 0, rng.randrange(0, 2 ** (w + 3)), -rng.randrange(1, 40)]) if rng.random() < 0.5 else (rng.randrange(0, 2 ** w) if w else 0)
            cases.append({"mode": "int2bin", "k": k, "width": w, "wires": []})
            continue
        n = rng.randint(1, maxn)
        wires = rng.sample(WIRE_POOL, n)
        extra = rng.sample([w for w in WIRE_POOL if w not in wires], rng.randint(0, min(3, len(WIRE_POOL) - n)))
        order = wires + extra
        if rng.random() < 0.7:
            rng.shuffle(order)
        st = [rng.randint(0, 1) for _ in range(n)]
        if r < 0.28:
            cases.append({"mode": "scalar", "state": rng.randrange(0, 2 ** n), "wires": wires, "order": order})
        elif r < 0.36:
            st[rng.randrange(n)] = rng.choice([2, -1, 3])
            cases.append({"mode": "list", "state": st, "wires": wires, "order": order})
        elif r < 0.44:
            st = st + [1] if rng.random() < 0.5 else st[:-1]
            cases.append({"mode": "list", "state": st, "wires": wires, "order": order})
        else:
            cases.append({"mode": "list", "state": st, "wires": wires, "order": order})
    return cases


def g_basis(c, o):
    if c["mode"] == "int2bin":
        return f"(BCInt2Bin {gz(c['k'])} {gnat(c['width'])}, BOBits {glist(o['bits'], gz)})"
    inp = f"(BSScalar {gz(c['state'])})" if c["mode"] == "scalar" else f"(BSList {glist(c['state'], gz)})"
    cs = f"BCPrep {inp} {glist([wid(w) for w in c['wires']], gz)} {glist([wid(w) for w in c['order']], gz)}"
    if o == "ERR":
        return f"({cs}, BOErr)"
    if "bad_gate" in o:
        return f"({cs}, BOBits [])"     # never matches: reported as divergence
    return f"({cs}, BOPrep {glist([wid(w) for w in o['x_wires']], gz)} {gz(o['sv_index'])} {gz(o['sv_len'])})"


# ------------------------------------------------------------------ Coq-tie generators: (b) pre-processing
# integer vectors with integer euclidean norm
SQ = [[3, 4], [5, 12], [8, 15], [1, 0], [0, 2], [1, 2, 2], [2, 3, 6], [1, 4, 8], [4, 4, 7], [1, 1, 1, 1], [1, 2, 2, 4], [2, 4, 5, 6], [1, 1, 3, 5],
      [1, 3, 3, 9], [3, 4, 0, 12], [0, 0, 3, 4], [1, 1, 1, 1, 1, 1, 1, 3], [1, 1, 1, 1, 2, 2, 2, 3], [2, 2, 2, 2, 2, 2, 2, 6], [0, 0, 0, 0, 0, 3, 0, 4],
      [1, 1, 7, 7], [11, 4, 4, 4], [1, 1, 1, 1, 1, 1, 1, 1, 1, 1, 1, 1, 1, 1, 1, 1], [1, 2, 2, 4, 0, 0, 0, 0, 5, 10, 10, 20, 0, 0, 0, 0][:8]]
# (state, pad, nwires) with rational norm after padding; entries are (re, im) integer pairs
PADS = [([(3, 0), (4, 0), (0, 0)], (12, 0), 2), ([(1, 0), (1, 0)], (1, 0), 2), ([(1, 0)], (1, 0), 2), ([(11, 0)], (4, 0), 2), ([(1, 0), (1, 0)], (7, 0), 2),
        ([(0, 0)], (3, 4), 1), ([(0, 5)], (3, 4), 2), ([(3, 0)], (0, 4), 1), ([(1, 0), (1, 0), (1, 0), (1, 0), (1, 0), (1, 0), (1, 0)], (3, 0), 3),
        ([(1, 1), (1, -1)], (1, 1), 3), ([(2, 3), (6, 0)], (0, 0), 2), ([(1, 0), (2, 0), (2, 0), (4, 0)], (0, 0), 3), ([(3, 0), (4, 0)], (0, 0), 1),
        # fractional pads on integer vectors, still with rational norm: 4+9/4=(5/2)^2, 1+3*16/121=(13/11)^2, 25+225/16=(25/4)^2
        ([(2, 0)], (Fr(3, 2), 0), 1), ([(1, 0)], (Fr(4, 11), 0), 2), ([(3, 0), (4, 0), (0, 0)], (Fr(15, 4), 0), 2), ([(-2, 0)], (0, Fr(3, 2)), 1)]


def isq(fr):
    """exact rational square root or None"""
    if fr < 0:
        return None
    a, b = math.isqrt(fr.numerator), math.isqrt(fr.denominator)
    return Fr(a, b) if a * a == fr.numerator and b * b == fr.denominator else None


def gen_pre_cases(rng, N):
    cases = []

    def mk(state, n, pad, normalize, validate, cls, kind, sparse=False):
        return {"state": [[str(Fr(a)), str(Fr(b))] for a, b in state], "n": n, "pad_with": None if pad is None else [str(Fr(pad[0])), str(Fr(pad[1]))],
                "normalize": normalize, "validate_norm": validate, "cls": cls, "kind": kind, "sparse": sparse}
    cases.append(mk([(3, 0), (4, 0), (0, 0)], 2, (12, 0), False, True, "AmplitudeEmbedding", "real"))
    cases.append(mk([(3, 0), (4, 0), (0, 0), (0, 0), (0, 0)], 2, (12, 0), False, True, "AmplitudeEmbedding", "real"))
    cases.append(mk([(3, 0), (4, 0), (0, 0), (0, 0)], 2, None, False, True, "AmplitudeEmbedding", "int"))
    cases.append(mk([(3, 0), (4, 0), (0, 0), (0, 0)], 2, None, False, False, "StatePrepDefault", "int"))
    cases.append(mk([(3, 0), (4, 0), (0, 0)], 2, None, False, True, "StatePrep", "real"))
    cases.append(mk([(0, 0), (0, 0), (0, 0), (0, 0)], 2, None, True, True, "AmplitudeEmbedding", "real"))
    cases.append(mk([(Fr(3, 5), 0), (0, Fr(4, 5))], 1, None, False, True, "AmplitudeEmbedding", "complex"))
    # pad not representable in the dtype of the features: integer features + fractional pad, real features + complex pad
    cases.append(mk([(2, 0)], 1, (Fr(3, 2), 0), False, True, "AmplitudeEmbedding", "int"))             # -> (4/5, 3/5)
    cases.append(mk([(3, 0), (4, 0), (0, 0)], 2, (Fr(15, 4), 0), False, False, "StatePrepDefault", "int"))  # -> (12,16,0,15)/25
    cases.append(mk([(1, 0)], 2, (Fr(4, 11), 0), True, True, "StatePrep", "int"))                      # -> (11,4,4,4)/13
    cases.append(mk([(3, 0)], 1, (0, 4), False, True, "StatePrep", "real"))                            # -> (3/5, 4i/5)
    cases.append(mk([(Fr(1, 2), 0), (Fr(-1, 2), 0)], 3, (Fr(1, 2), Fr(1, 2)), False, True, "AmplitudeEmbedding", "real"))  # 1/2+6/2 -> norm^2 7/2: outside model, direct oracle only
    cases.append(mk([(0, 0), (5, 0)], 2, (3, -4), False, True, "AmplitudeEmbedding", "int"))            # 25+2*25 = 75: direct oracle only
    cases.append(mk([(0, 0), (5, 0), (0, 0)], 2, (0, Fr(-15, 4)), True, False, "StatePrep", "int"))    # 25+225/16 -> (0, 4/5, 0, -3i/5)
    while len(cases) < N:
        r = rng.random()
        cls = rng.choice(["StatePrep", "AmplitudeEmbedding", "StatePrepDefault"])
        validate = True if cls == "AmplitudeEmbedding" and rng.random() < 0.7 else (False if cls == "StatePrepDefault" else rng.random() < 0.6)
        normalize = rng.random() < 0.4
        sparse = rng.random() < 0.2
        if r < 0.3:     # padding
            st, p, n = rng.choice(PADS)
            s = rng.choice([Fr(1), Fr(1, 2), Fr(3), Fr(1, 7)])
            st = [(a * s, b * s) for a, b in st]
            p = (p[0] * s, p[1] * s)
            if rng.random() < 0.15:
                st = st + [(Fr(1), Fr(0))] * (2 ** n - len(st) + 1)     # too long
            if any(b for _, b in st):
                kind = "complex"
            elif all(Fr(a).denominator == 1 for a, _ in st):
                kind = rng.choice(["real", "complex", "int", "int"])    # integer features: the pad may be fractional / complex
            else:
                kind = rng.choice(["real", "complex"])                  # real features: the pad may be complex
            cases.append(mk(st, n, p, normalize, validate, cls, kind, sparse))
            continue
        v = list(rng.choice(SQ))
        rng.shuffle(v)
        v = [x * rng.choice([1, -1]) for x in v]
        cplx = rng.random() < 0.4 and len(v) >= 4
        st = [(v[2 * i], v[2 * i + 1]) for i in range(len(v) // 2)] if cplx else [(x, 0) for x in v]
        if cplx and rng.random() < 0.5:
            st = [(a, b) if rng.random() < 0.5 else (-b, a) for a, b in st]
        d = len(st)
        n = max(0, (d - 1).bit_length())
        if d != 2 ** n:
            # not a power of two: wrong length unless sparse (implicit zero padding)
            pass
        N2 = sum(Fr(a) ** 2 + Fr(b) ** 2 for a, b in st)
        Nn = isq(N2)
        assert Nn is not None and Nn > 0
        s = rng.choice([1 / Nn, 1 / Nn, 1 / Nn, Fr(1), Fr(1, 2), (1 + Fr(1, 10 ** 6)) / Nn, (1 - Fr(1, 10 ** 6)) / Nn,
                        (1 + Fr(1, 10 ** 4)) / Nn, (1 - Fr(1, 10 ** 4)) / Nn, (1 + Fr(1, 10 ** 7)) / Nn, 3 / Nn])
        st = [(Fr(a) * s, Fr(b) * s) for a, b in st]
        if rng.random() < 0.08:
            n += rng.choice([1, -1]) if n > 0 else 1     # wrong number of wires
        kind = "complex" if cplx else ("int" if s == 1 and rng.random() < 0.5 else "real")
        pad = None
        if sparse and rng.random() < 0.3:
            pad = rng.choice([(0, 0), (1, 0)])
        cases.append(mk(st, n, pad, normalize, validate, cls, kind, sparse))
    return cases


def g_q(s):
    return gq(Fr(s))


def g_c(p):
    return f"({g_q(p[0])}, {g_q(p[1])})"


def g_pre(c, o):
    validate = c["validate_norm"] if c["cls"] != "StatePrepDefault" else False
    a = f"(mkPre {glist(c['state'], g_c)} {gnat(c['n'])} {gopt(c['pad_with'], g_c)} {gbool(c['normalize'])} {gbool(validate)})"
    if o == "ERR":
        ob = "IErr"
    elif o == "NAN":
        ob = "INaN"
    else:
        ob = f"(IOk {glist(o['out'], g_c)})"
    return f"(({gbool(c['sparse'])}, {a}), {ob})"


def pre_outside_model(c):
    """True when the model would answer 'outside' (irrational norm where a norm is needed)"""
    validate = c["validate_norm"] if c["cls"] != "StatePrepDefault" else False
    st = [(Fr(a), Fr(b)) for a, b in c["state"]]
    dim = 2 ** c["n"]
    if len(st) > dim:
        return False
    if c["pad_with"] is not None and not c["sparse"]:
        st = st + [(Fr(c["pad_with"][0]), Fr(c["pad_with"][1]))] * (dim - len(st))
    elif c["pad_with"] is None and not c["sparse"] and len(st) != dim:
        return False
    if not (validate or c["normalize"] or (c["pad_with"] is not None and not c["sparse"])):
        return False
    return isq(sum(a * a + b * b for a, b in st)) is None


# ------------------------------------------------------------------ run
def run(ctx):
    t_start = time.time()
    ctx.coq_props()
    t_props = time.time() - t_start
    rng = ctx.rng
    quick = ctx.tier == "quick"
    basis = gen_basis_cases(rng, 400 if quick else 3000, 6 if quick else 9)
    pre = gen_pre_cases(rng, 300 if quick else 2500)
    prep = gen_prep_cases(rng, ctx.tier)
    t0 = time.time()
    # the driver is run as 4 concurrent processes: discrete observables, and three interleaved slices of the
    # numerical validation cases
    from concurrent.futures import ThreadPoolExecutor
    NPAR = 3
    payloads = [{"basis": basis, "pre": pre, "names": NAMES}] + [{"prep": prep[i::NPAR]} for i in range(NPAR)]
    with ThreadPoolExecutor(max_workers=NPAR + 1) as ex:
        parts = list(ex.map(lambda pl: ctx.run_impl("c57_impl.py", pl, timeout=3000), payloads))
    out = {"basis": parts[0]["basis"], "pre": parts[0]["pre"], "present": parts[0]["present"], "prep": [None] * len(prep), "timing": {}}
    for i in range(NPAR):
        out["prep"][i::NPAR] = parts[1 + i]["prep"]
        for kk, vv in parts[1 + i]["timing"].items():
            out["timing"][kk] = round(out["timing"].get(kk, 0.0) + vv, 2)
    t_impl = time.time() - t0

    for nm, ok in out["present"].items():
        if not ok:
            ctx.violation(f"missing:{nm}", {"template": nm}, what=f"qp.{nm} named by the property does not exist")

    # ---- tie K (a): BasisState
    terms = [g_basis(c, o) for c, o in zip(basis, out["basis"])]
    bad = ctx.coq_eval_cases("basis", "From PLV Require Import Disc.StatePrepModel.", terms, "check_basis")
    for i in bad:
        ctx.violation("corr-basis:" + json.dumps(basis[i], sort_keys=True), {"case": basis[i], "implementation": out["basis"][i]},
                      what="BasisState (canonicalisation / decomposition X gates / state_vector index / int_to_binary) differs from the proved model")
    # direct oracle for BasisState
    hb = {"accepted": 0, "rejected": 0, "int2bin": 0, "permuted_order": 0, "extra_wires": 0}
    for c, o in zip(basis, out["basis"]):
        if c["mode"] == "int2bin":
            hb["int2bin"] += 1
            if sum(b << (c["width"] - 1 - i) for i, b in enumerate(o["bits"])) != c["k"] % (2 ** c["width"]):
                ctx.violation("direct-int2bin:" + json.dumps(c, sort_keys=True), {"case": c, "observed": o}, what="int_to_binary is not the big-endian expansion")
            continue
        if o == "ERR":
            hb["rejected"] += 1
            continue
        hb["accepted"] += 1
        hb["permuted_order"] += c["order"][:len(c["wires"])] != c["wires"]
        hb["extra_wires"] += len(c["order"]) > len(c["wires"])
        want = {w for w, b in zip(c["wires"], c["state"]) if b == 1}
        idx = sum(1 << (len(c["order"]) - 1 - c["order"].index(w)) for w in want)
        if "bad_gate" in o or set(map(str, o["x_wires"])) != set(map(str, want)) or len(o["x_wires"]) != len(want) or o["sv_index"] != idx:
            ctx.violation("direct-basis:" + json.dumps(c, sort_keys=True), {"case": c, "observed": o, "expected_x_wires": sorted(map(str, want)), "expected_index": idx},
                          what="BasisState decomposition / state_vector does not prepare the requested basis state")

    # ---- tie K (b): pre-processing
    terms = [g_pre(c, o) for c, o in zip(pre, out["pre"])]
    bad = ctx.coq_eval_cases("pre", "From Coq Require Import QArith.\nFrom PLV Require Import Disc.StatePrepModel.", terms, "check_pre")
    for i in bad:
        ctx.violation("corr-pre:" + json.dumps(pre[i], sort_keys=True), {"case": pre[i], "implementation": out["pre"][i]},
                      what="StatePrep/AmplitudeEmbedding pre-processing (padding / norm check / normalisation) differs from the proved model")
    hp = {"err": 0, "nan": 0, "ok": 0, "padded": 0, "sparse": 0, "outside_model": 0, "normalised_by_code": 0}
    for c, o in zip(pre, out["pre"]):
        hp["sparse"] += c["sparse"]
        hp["outside_model"] += pre_outside_model(c)
        if o == "ERR":
            hp["err"] += 1
        elif o == "NAN":
            hp["nan"] += 1
        else:
            hp["ok"] += 1
            hp["padded"] += len(c["state"]) < 2 ** c["n"]
            vals = [(Fr(a), Fr(b)) for a, b in o["out"]]
            n2 = float(sum(a * a + b * b for a, b in vals))
            inp = [(Fr(a), Fr(b)) for a, b in c["state"]]
            hp["normalised_by_code"] += any(abs(float(x[0] - y[0])) > 1e-9 for x, y in zip(vals, inp))
            validate = c["validate_norm"] if c["cls"] != "StatePrepDefault" else False
            checked = validate or c["normalize"] or (c["pad_with"] is not None and not c["sparse"])
            # direct oracle: accepted (validated or normalised) vectors have unit norm within the code's tolerance,
            # length 2^n, original entries kept in place up to one common positive scale
            if len(vals) != 2 ** c["n"] or (checked and abs(math.sqrt(n2) - 1) > 1.1e-5):
                ctx.violation("direct-pre:" + json.dumps(c, sort_keys=True), {"case": c, "observed": o, "norm": math.sqrt(n2)},
                              what="pre-processed state has wrong length or is not normalised")
            # direct oracle for padding (independent of the Coq model, also for irrational norms):
            # the parameter is concat(features, pad_with * ones) / ||.||, whatever the dtype of the features
            if c["pad_with"] is not None and not c["sparse"] and len(inp) <= 2 ** c["n"]:
                full = inp + [(Fr(c["pad_with"][0]), Fr(c["pad_with"][1]))] * (2 ** c["n"] - len(inp))
                nrm = math.sqrt(float(sum(a * a + b * b for a, b in full)))
                hp["pad_direct"] = hp.get("pad_direct", 0) + 1
                scales = [nrm] + ([1.0] if abs(nrm - 1) <= 1e-4 else [])     # inside the norm tolerance the code may leave the vector as it is
                if nrm > 0 and min(max(abs(complex(float(x[0]), float(x[1])) - complex(float(y[0]), float(y[1])) / sc) for x, y in zip(vals, full)) for sc in scales) > 1e-9:
                    ctx.violation("direct-pad:" + json.dumps(c, sort_keys=True), {"case": c, "observed": o, "expected": [[float(a) / nrm, float(b) / nrm] for a, b in full]},
                                  what="padded StatePrep/AmplitudeEmbedding parameter is not normalise(concat(features, pad_with*ones)) (pad lost or altered for this feature dtype?)")

    # ---- validation of every template (device primitive and decomposition)
    per, gates, maxerr, phase_only, dirty = {}, {}, 0.0, 0, 0
    desc_hist = {}
    for c, o in zip(prep, out["prep"]):
        t = c["t"]
        st = per.setdefault(t, {"cases": 0, "dev_ok": 0, "dec_ok": 0, "gr_ok": 0, "sv_ok": 0})
        st["cases"] += 1
        key = f"{t}:" + hashlib.sha1(json.dumps(c, sort_keys=True).encode()).hexdigest()[:12]
        small = {k: v for k, v in c.items() if k not in ("mps",)} if t == "MPSPrep" else c
        if "build_err" in o:
            ctx.violation("build:" + key, {"case": c, "error": o["build_err"]}, what=f"{t} refused a valid input: {o['build_err'][:120]}")
            continue
        if t == "SumOfSlatersPrep" and c.get("regs") == "AUTO":
            c = dict(c, regs=o.get("regs_used") or {}, order=o["order_used"])
        v, naux, mode_dev, mode_dec = expected_state(c)
        desc_hist[c.get("desc", "").split(",")[0].split("+")[0][:24]] = desc_hist.get(c.get("desc", "").split(",")[0].split("+")[0][:24], 0) + 1
        if c.get("dyn"):
            if "rho" not in o:
                ctx.violation("dev-error:" + key, {"case": c, "error": o.get("dev_err")}, what=f"{t} with dynamically allocated work wires raised: {str(o.get('dev_err'))[:120]}")
                continue
            rho = np.array([[complex(*x) for x in row] for row in o["rho"]])
            err = float(np.abs(rho - np.outer(v, v.conj())).max())
            maxerr = max(maxerr, err)
            if err > TOL:
                ctx.violation("dev-dyn:" + key, {"case": c, "max_abs_err": err, "expected_state": enc(v), "reduced_density_matrix": o["rho"]},
                              what=f"{t} (dynamic work wires): reduced state of the target wires is not the pure documented state")
            else:
                st["dev_ok"] += 1
            continue
        allw = all_wires_of(c)
        tgt = embed(v, allw, naux, c["order"])
        for path, mode in (("dev", mode_dev), ("dec", mode_dec), ("gr", mode_dec)) + ((("sv", mode_dev),) if c.get("sv") else ()):
            if path == "gr" and "gr_order" in o and o["gr_order"] != [w for w in c["order"]]:
                # wires allocated dynamically by a rule: appended after the device wires, expected in |0>
                tgt_gr = embed(v, allw, naux, c["order"] + [w for w in o["gr_order"][len(c["order"]):]])
            else:
                tgt_gr = None
            if path not in o:
                e = o.get(path + "_err", "?")
                cls = defect_class(c, path, e)
                ctx.violation(f"{path}-error:{t}[{cls}]" if cls else f"{path}-error:" + key, {"case": small, "error": e, "device_wire_order": c["order"]},
                              what=f"{t} raised on the {PATHS[path]} path: {e[:120]}")
                continue
            s = dec(o[path])
            ok, err, ph = compare(s, tgt if tgt_gr is None else tgt_gr, mode)
            if ok:
                st[path + "_ok"] += 1
                phase_only += ph
                maxerr = max(maxerr, err if not ph else 0.0)
                continue
            # classify: dirty auxiliary wires?
            what = f"{t} ({PATHS[path]}) does not prepare the documented state"
            if s.shape == tgt.shape and naux:
                T = s.reshape((2,) * len(c["order"]))
                ax = [c["order"].index(w) for w in allw[len(c["wires"]):]]
                sl = [slice(None)] * len(c["order"])
                for a in ax:
                    sl[a] = 0
                leak = 1.0 - float(np.sum(np.abs(T[tuple(sl)]) ** 2))
                if leak > 1e-8:
                    dirty += 1
                    what = f"{t} ({path}): auxiliary / work wires are not returned to |0> (weight {leak:.3g} outside)"
            if ph:
                what += " (differs by a global phase not allowed by the documentation)"
            cls = defect_class(c, path)
            ctx.violation(f"{path}:{t}[{cls}]" if cls else f"{path}:" + key, {"case": c if cls else small, "device_wire_order": c["order"], "path": path, "max_abs_err": err, "expected": enc(tgt) if len(tgt) <= 64 else "omitted (large)",
                                             "observed": o[path] if len(tgt) <= 64 else "omitted (large)", "gates": o.get("gates")}, what=what)
        for gname in o.get("gates", []):
            gates[gname] = gates.get(gname, 0) + 1
    nontrivial = sum(1 for c in prep if c["t"] not in ("BasisState", "BasisEmbedding", "CosineWindow"))
    ctx.coverage.update({
        "evaluations": len(basis) + len(pre) + len(prep), "distinct_nontrivial": nontrivial + hb["accepted"] + hp["ok"],
        "rule": "corpus of documented examples and signed/phase edge states first, then seeded generators; Coq tie on BasisState (valid, malformed, scalar, int_to_binary) and on rational pre-processing inputs (normalised, off by 1e-7..1e-4, unnormalised, padded, too long, wrong length, sparse, zero vector); numeric validation of the 12 templates on default.qubit (device primitive and decomposition to RX/RY/RZ/CNOT/GlobalPhase) at 1e-7",
        "input_distribution": {"basis": hb, "pre": hp, "templates": per, "target_kinds": desc_hist},
        "templates_present": out["present"], "final_gate_names": gates, "max_abs_err_exact_cases": maxerr,
        "phase_only_accepted": phase_only, "dirty_aux_detected": dirty, "validation_cases": len(prep),
        "timing_s": {"coq_props": round(t_props, 1), "implementation_driver": round(t_impl, 1), "per_case_impl_s": out.get("timing")}})
    for c, o in list(zip(prep, out["prep"]))[:3]:
        ctx.sample({"case": {k: v for k, v in c.items() if k != "mps"}, "gates": o.get("gates"), "n_ops": o.get("n_ops")})
    ctx.sample({"basis_case": basis[1], "observed": out["basis"][1]})
    ctx.sample({"pre_case": pre[0], "observed": out["pre"][0]})
