"""C38 Metric tensors equal the Fubini-Study metric."""
from vlib import *
from concurrent.futures import ThreadPoolExecutor
import hashlib

PID = "C38"
META = {
    "level": "proof",
    "engine": "qsym-translator",
    "technique": "Coq proof that the exact metric polynomial is the Fubini-Study expression built from analytic partial derivatives of the state (Coquelicot is_derive) + per-run reflection obligations (real qp.metric_tensor executed on formal parameters for approx None / block-diag / diag, its degree-2 post-processing read off numerically) that tapes and post-processing give that entry for all parameter values; adjoint_metric_tensor, quantum_fisher and QNode-level results compared numerically with the certified polynomials",
    "design_ref": "DESIGN.md §3 C38",
    "text": "Static (Lin/MetricSound.v, Props/C38.v): certified_fubini_study_entry - a discharged metric_is obligation means that at every real parameter vector the state components have partial derivatives dI, dJ and G = Re(<dI|dJ> - <dI|psi><psi|dJ>); metric_tensor_tapes_give_the_entry - a discharged postproc_is obligation means the transform's post-processing polynomial applied to the exact results of its tapes equals G for all parameters; fubini_study_symmetric. Per run: random layered circuits (RX/RY/RZ/PhaseShift/Ising/controlled rotations, fixed Clifford+T and Pythagorean gates, 1-4 trainable parameters incl. several in one layer) are built with formal parameters and pushed through the real qp.metric_tensor with approx=None (covariance tapes + Hadamard-test tapes on an auxiliary wire), 'block-diag' and 'diag'; the returned tapes are translated with PennyLane's matrix code, the post-processing (a polynomial of degree <= 2 in the probabilities/expectations) is recovered by evaluating it on unit and pair inputs and verified on random inputs, and one obligation per tensor entry is proved by vm_compute: full -> G_ij; diag -> G_ii on the diagonal and 0 elsewhere; block-diag -> G_ij on the entries the implementation computes and 0 on its structural zeros (pattern checked to be symmetric, to contain the diagonal and to be a union of blocks). Part B (numeric 1e-8/1e-7): metric_tensor on numeric tapes (3 approximations), adjoint_metric_tensor, and QNode-level metric_tensor / adjoint_metric_tensor / quantum_fisher (= 4 g) in autograd, jax and torch with shared parameters and classical preprocessing (reference J^T G J).",
    "note": "Each obligation is universal in the parameters but only for the circuits sampled in the run. Which parameters share a block is taken from the implementation (its structural zero pattern), not from an independent layering. adjoint_metric_tensor, quantum_fisher and the classical-Jacobian contraction are validated numerically only. Trusted: Coq kernel, stdlib real axioms + classic (Coquelicot), translator, float evaluation of certified polynomials.",
    "assumptions": ["the post-processing of metric_tensor is a polynomial of degree <= 2 in the tape results (verified numerically per run)"],
    "trusted": ["harness/gradlib.py (quadratic_coefficients, sym_metric), harness/gradgen.py, harness/qx.py, harness/qsym.py", "harness/gradcfg.py float evaluation"],
}

CORPUS = [
    {"nw": 2, "nx": 2, "steps": [{"name": "RY", "wires": [0], "params": [["fix", 0.7853981633974483]]}, {"name": "PhaseShift", "wires": [0], "params": [["lin", 0, 1, 0]]},
                                  {"name": "RX", "wires": [0], "params": [["fix", 1.5707963267948966]]}, {"name": "PhaseShift", "wires": [0], "params": [["lin", 1, 1, 0]]},
                                  {"name": "CNOT", "wires": [0, 1], "params": []}, {"name": "RY", "wires": [1], "params": [["prod", 0, 1]]}],
     "meas": [{"k": "expval", "word": ["Z"], "wires": [0]}]},
    {"nw": 2, "nx": 2, "steps": [{"name": "RX", "wires": [0], "params": [["lin", 0, 1, 0]]}, {"name": "RY", "wires": [1], "params": [["lin", 1, 1, 0]]},
                                  {"name": "CNOT", "wires": [0, 1], "params": []}, {"name": "RZ", "wires": [1], "params": [["sin", 0]]},
                                  {"name": "IsingXX", "wires": [0, 1], "params": [["lin", 1, 2, 0]]}],
     "meas": [{"k": "expval", "word": ["Z"], "wires": [0]}]},
    # two non-commuting FIXED gates between consecutive trainable layers (order in which they are un-applied matters)
    {"nw": 2, "nx": 4, "steps": [{"name": "RX", "wires": [0], "params": [["lin", 0, 1, 0]]}, {"name": "RY", "wires": [1], "params": [["lin", 1, 1, 0]]},
                                  {"name": "Hadamard", "wires": [0], "params": []}, {"name": "CNOT", "wires": [0, 1], "params": []},
                                  {"name": "RZ", "wires": [1], "params": [["lin", 2, 1, 0]]}, {"name": "RY", "wires": [0], "params": [["lin", 3, 1, 0]]}],
     "meas": [{"k": "expval", "word": ["Z"], "wires": [0]}]},
    # controlled rotation (generator lists target before control) between other trainable layers
    {"nw": 2, "nx": 4, "steps": [{"name": "RX", "wires": [0], "params": [["lin", 0, 1, 0]]}, {"name": "RY", "wires": [1], "params": [["lin", 1, 1, 0]]},
                                  {"name": "CRX", "wires": [0, 1], "params": [["lin", 2, 1, 0]]}, {"name": "RY", "wires": [1], "params": [["lin", 3, 1, 0]]}],
     "meas": [{"k": "expval", "word": ["Z"], "wires": [0]}]},
    # the SAME non-parametrised entangler repeated after every rotation layer (three layers): the gate between layers 1 and 2
    # equals by value (but is not) the gate before layer 1 -> off-block-diagonal Hadamard-test tapes must keep it
    {"nw": 2, "nx": 3, "steps": [{"name": "RX", "wires": [0], "params": [["lin", 0, 1, 0]]}, {"name": "CNOT", "wires": [0, 1], "params": []},
                                  {"name": "RY", "wires": [1], "params": [["lin", 1, 1, 0]]}, {"name": "CNOT", "wires": [0, 1], "params": []},
                                  {"name": "RX", "wires": [0], "params": [["lin", 2, 1, 0]]}],
     "meas": [{"k": "expval", "word": ["Z", "Z"], "wires": [0, 1]}]},
    # the same constant-angle rotation (and the same Hadamard) repeated between three trainable layers on one wire
    {"nw": 1, "nx": 3, "steps": [{"name": "RY", "wires": [0], "params": [["lin", 0, 1, 0]]}, {"name": "RX", "wires": [0], "params": [["fix", 0.7853981633974483]]},
                                  {"name": "Hadamard", "wires": [0], "params": []},
                                  {"name": "RZ", "wires": [0], "params": [["lin", 1, 1, 0]]}, {"name": "RX", "wires": [0], "params": [["fix", 0.7853981633974483]]},
                                  {"name": "Hadamard", "wires": [0], "params": []},
                                  {"name": "RY", "wires": [0], "params": [["lin", 2, 1, 0]]}],
     "meas": [{"k": "expval", "word": ["Z"], "wires": [0]}]},
]


def block_pattern_ok(pat):
    P = len(pat)
    if any(pat[i][i] != 1 for i in range(P)) or any(pat[i][j] != pat[j][i] for i in range(P) for j in range(P)):
        return False
    for i in range(P):            # transitivity: rows of connected indices coincide
        for j in range(P):
            if pat[i][j] and pat[i] != pat[j]:
                return False
    return True


def run(ctx):
    from gradlib import GRAD_HEADER
    ctx.coq_props()
    quick = ctx.tier == "quick"
    n_circ, n_proof = (len(CORPUS) + 3, len(CORPUS) + 1) if quick else (60, 36)      # quick: whole corpus + 1 random circuit proved
    A = ctx.run_impl("c38_impl.py", {"seed": ctx.seed, "n_circ": n_circ, "n_proof": n_proof, "corpus": CORPUS}, timeout=3000)
    obl = [(n, s, "vm_compute. reflexivity.") for n, s, ci in A["obligations"]]
    ci_of = {n: ci for n, s, ci in A["obligations"]}
    failed = ctx.coq_obligations("metric", GRAD_HEADER + "From PLV Require Import Lin.Metric.\n", obl, chunk=6, par=10)
    for si, it in enumerate(A["specs"]):
        pat = it["blocks"].get("blockdiag")
        if pat is not None and not block_pattern_ok(pat):
            ctx.violation("blockpattern:" + hashlib.sha1(json.dumps(it["spec"], sort_keys=True).encode()).hexdigest()[:10], {"spec": it["spec"], "pattern": pat},
                          what="the block-diagonal metric tensor's non-zero pattern is not a symmetric union of diagonal blocks")
    NW = 4 if quick else 8
    jobs = [[] for _ in range(NW)]
    for si, item in enumerate(A["specs"]):
        item = dict(item, si=si)
        if quick and si >= len(CORPUS):
            item["interfaces"] = [["autograd", "jax", "torch"][si % 3]]
        jobs[si % NW].append(item)
    jobs = [j for j in jobs if j]

    def one(job):
        return ctx.run_impl("c38_cfg_impl.py", {"seed": ctx.seed, "specs": job}, timeout=3000)
    stats, results = {}, []
    with ThreadPoolExecutor(max_workers=NW) as ex:
        for o in ex.map(one, jobs):
            results += o["results"]
            for k, v in o["stats"].items():
                d = stats.setdefault(k, {})
                for kk, vv in v.items():
                    d[kk] = d.get(kk, 0) + vv
    bad_si = {}
    for r in results:
        spec = A["specs"][r["si"]]["spec"]
        h = hashlib.sha1(json.dumps(spec, sort_keys=True).encode()).hexdigest()[:10]
        bad_si.setdefault(r["si"], r)
        ctx.violation(f"metric:{r['config']}:{h}", {"config": r["config"], "spec": spec, "x": r["x"], "result": r["result"]},
                      what=f"{r['config']} differs from the Fubini-Study metric ({r['result']['status']})")
    for name, detail in failed:
        ci = ci_of.get(name)
        if ci is None:
            ctx.broken_obligation("coq", name, detail)
            continue
        spec = A["specs"][ci]["spec"] if ci < len(A["specs"]) else None
        wit = bad_si.get(ci)
        ctx.violation(f"metric-obligation:{name.split('_', 1)[1]}:{hashlib.sha1(json.dumps(spec, sort_keys=True).encode()).hexdigest()[:10]}",
                      {"obligation": name, "spec": spec, "numeric_witness": wit, "no_longer_checks": None if wit else "Coq obligation " + name, "detail": detail[-400:]},
                      found_input=bool(wit), what=f"metric_tensor tapes/post-processing do not give the Fubini-Study entry (obligation {name})")
    acc = {k: v for k, v in stats.items() if not k.startswith("_")}
    n_ok = sum(v.get("ok", 0) for v in acc.values())
    va = A["stats"]["variants"]
    if n_ok == 0 or not obl or not va.get("full:ok") or not va.get("blockdiag:ok") or not va.get("diag:ok"):
        ctx.broken_obligation("tie", "c38", "metric_tensor could not be extracted for some approximation: " + json.dumps(A["stats"]))
    multi = sum(1 for it in A["specs"] if len(it["tp"]) >= 2)
    ctx.coverage.update({"evaluations": n_ok + len(obl), "distinct_nontrivial": len(obl),
                         "rule": "obligations: one per (circuit, approximation, tensor entry), universal in the parameters; Part B per circuit",
                         "circuits": A["stats"]["circuits"], "circuits_with_2plus_parameters": multi, "not_extractable": A["stats"]["notex"],
                         "extraction": va, "extraction_failures": A["stats"]["reasons"],
                         "config_outcomes": acc, "reject_reasons": stats.get("_reject_reasons", {}), "obligations_failed": len(failed)})
    for it in A["specs"][len(CORPUS):len(CORPUS) + 2]:
        ctx.sample({"spec": it["spec"], "block_pattern": it["blocks"].get("blockdiag")})
