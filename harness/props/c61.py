"""C61 Optimizers apply their documented update rules."""
import math
from fractions import Fraction as F

from vlib import *

PID = "C61"
META = {
    "level": "proof",
    "technique": "Coq proofs by induction over step counts on an exact-rational (Q) state-machine model of the gradient optimizers "
                 "(sqrt as an abstract function argument) + Coq Reals proof that the Rotosolve closed form is a global minimiser + "
                 "vm_compute correspondence of the real optimizers on dyadic quadratic objectives (exact) / rational sqrt enclosure (1e-12)",
    "design_ref": "DESIGN.md §3 C61",
    "text": "Props/C61.v, for ALL gradient oracles, hyperparameters, argument lists and step counts: gd_closed_form (x_n = x_0 - eta*sum g_i), "
            "momentum_acc_closed_form (a_n = sum gamma^(n-i)*eta*g_i, also for Nesterov), nesterov_uses_lookahead_gradient (oracle queried at "
            "x - gamma*a for trainable arguments, at x itself while the memory is empty), adagrad_acc_is_sum_squares, "
            "rmsprop_acc_recurrence_closed_form, adam_moments_closed_form, adam_bias_correction (constant gradient g gives fm=(1-b1^t)g, "
            "sm=(1-b2^t)g^2, and the step-size rescaling equals the bias-corrected update for any multiplicative sqrt), adam/adagrad/rmsprop "
            "per-coordinate update formulas, step_and_cost_same_update, step_and_cost_returns_prestep_cost (all optimizers except "
            "Nesterov-with-autograd), nesterov_step_and_cost_prestep_refuted (the faithful model returns the cost at the look-ahead point), "
            "nontrainable_untouched, multi_arg_independent (argument i is updated from its own gradient, the rank(i)-th of the tuple, and "
            "its own accumulator entry), reset_forgets, qsqrt_encloses, rotoselect_picks_minimum, and over the reals "
            "rotosolve_minimises (theta* = -pi/(2f) - atan2(2f0-fp-fm, fp-fm)/f with the (-pi/f, pi/f] wrap is a global minimiser of "
            "C + p sin(f t) + q cos(f t), and the reported y_min is its value). Tie: random dyadic quadratic objectives (several arguments, "
            "trainable and not, shapes up to 2x2), hyperparameters and call sequences (step / step_and_cost / reset, autograd or grad_fn) run "
            "through qp.GradientDescentOptimizer, MomentumOptimizer, NesterovMomentumOptimizer, AdagradOptimizer, RMSPropOptimizer, "
            "AdamOptimizer; the model is replayed inside Coq on the same data: parameters/costs/accumulators EXACTLY (Fraction of the float) "
            "for GD/Momentum/Nesterov, accumulators and Adam's t exactly and parameters to 1e-12 (cost 1e-10) for the sqrt optimizers. "
            "Direct oracle: an independent Fraction implementation of the documented formulas, plus Rotosolve/Rotoselect/min_analytic on "
            "random sinusoids checked numerically (1e-9).",
    "note": "Not covered: QNGOptimizer/MomentumQNG (metric tensor solve), Riemannian, SPSA/QNSPSA, ShotAdaptive, Adaptive optimizers; "
            "Rotosolve's numeric sub-optimizers (brute/shgo) and Fourier reconstruction for more than one frequency; float rounding of sqrt, "
            "division and of non-dyadic data (the exact tie is restricted by construction to histories in which every float operation is "
            "exact: cases are truncated by a bit-width guard); objectives of the sqrt optimizers are bilinear in (trainable, non-trainable) "
            "arguments so that their gradients do not depend on rounded parameters. Broadcasting between vectors of different non-zero "
            "lengths, a changing number of arguments between steps and non-finite values are outside the model. The Rotosolve theorem is about "
            "the real-number formula (numpy arctan2 modelled by a case definition over atan); its tie is numeric only. "
            "The autograd `.forward` mechanism is modelled by a flag (grad_fn=None => cost of the gradient's evaluation point).",
    "assumptions": ["gradients have the shape of their argument (documented requirement on grad_fn)",
                    "the number and trainability of arguments does not change during a history",
                    "1 - beta^t != 0 and accumulator + eps > 0 (otherwise numpy produces inf/nan, the model 0)"],
    "trusted": ["hand-written model coq/Num/OptimizersModel.v tied to /repo by correspondence only",
                "Python fractions.Fraction arithmetic and math.isqrt in the direct oracle and the exactness guard",
                "Coq stdlib Reals axioms (rotosolve_minimises only)"],
}

KINDS = ["GD", "Momentum", "Nesterov", "Adagrad", "RMSProp", "Adam"]
SQRT_KINDS = {"Adagrad", "RMSProp", "Adam"}
FIND_NESTEROV = "finding:nesterov_step_and_cost_returns_lookahead_cost"
FIND_ROTOSELECT = "finding:rotoselect_step_and_cost_uses_updated_generators"


# ------------------------------------------------------------------ exact helpers
def P(x):
    x = F(x)
    return [x.numerator, x.denominator]


def U(p):
    return F(p[0], p[1])


def dy_exp(v):
    """exponent e with v an integer multiple of 2^-e (None if not dyadic)"""
    d = v.denominator
    return d.bit_length() - 1 if d & (d - 1) == 0 else None


def sig_ok(v, bits=52):
    """v is a float that every IEEE operation producing it yields exactly"""
    if v == 0:
        return True
    if dy_exp(v) is None:
        return False
    n = abs(v.numerator)
    return (n >> ((n & -n).bit_length() - 1)).bit_length() <= bits and abs(v) < 2 ** 200 and abs(v) > F(1, 2 ** 200)


def sum_ok(terms):
    """any summation order / fused multiply-add of these exact terms is exact"""
    terms = [t for t in terms if t != 0]
    if not terms:
        return True
    es = [dy_exp(t) for t in terms]
    if any(e is None for e in es):
        return False
    return sum(abs(t) for t in terms) * 2 ** max(es) < 2 ** 52


def fsqrt(x, p=100):
    if x <= 0:
        return F(0)
    n, d = x.numerator, x.denominator
    return F(math.isqrt(n * d * 4 ** p), d * 2 ** p)


def vz(f, a, b):
    n = max(len(a), len(b))
    a = list(a) + [F(0)] * (n - len(a))
    b = list(b) + [F(0)] * (n - len(b))
    return [f(x, y) for x, y in zip(a, b)]


class Guard:
    def __init__(self):
        self.ok = True

    def v(self, x):
        if not sig_ok(x):
            self.ok = False
        return x

    def s(self, terms):
        if not sum_ok(terms):
            self.ok = False


def flat(args):
    return [v for a in args for v in a["v"]]


def quad_cost(o, z, g=None):
    A, b, c = o["A"], o["b"], o["c"]
    terms = [A[i][j] * z[i] * z[j] for i in range(len(z)) for j in range(len(z))] + [b[i] * z[i] for i in range(len(z))] + [c]
    if g is not None:
        g.s(terms)
    return sum(terms, F(0))


def quad_grad(o, args, g=None):
    """independent implementation: gradient of z^T A z + b.z + c, cut into the trainable arguments"""
    A, b = o["A"], o["b"]
    z = flat(args)
    n = len(z)
    full = []
    for k in range(n):
        terms = [A[k][j] * z[j] for j in range(n) if A[k][j] != 0] + [A[j][k] * z[j] for j in range(n) if A[j][k] != 0] + [b[k]]
        full.append((sum(terms, F(0)), terms))
    out, pos = [], 0
    for a in args:
        m = len(a["v"])
        if a["rg"]:
            for _, terms in full[pos:pos + m]:
                if g is not None:
                    g.s(terms)
            out.append([v for v, _ in full[pos:pos + m]])
        pos += m
    return out


def ref_run(case):
    """Documented update rules in exact arithmetic (sqrt: lower approximation 2^-100).  Returns the expected
    observations and, per call, whether every float operation behind the exactly-compared quantities is exact."""
    kind, h = case["kind"], case["h"]
    eta, gam, b2, eps = h["eta"], h["gam"], h["beta2"], h["eps"]
    args = [{"rg": a["rg"], "v": list(a["v"])} for a in case["args"]]
    st = None
    out, oks = [], []
    for call in case["calls"]:
        g = Guard()
        cost = None
        if call[0] == "reset":
            st = None
        else:
            o = case["objs"][call[2]]
            fresh = st is None
            if fresh:
                st = {"t": 0, "a1": [[] for _ in args], "a2": [[] for _ in args]}
            q = args
            if kind == "Nesterov" and not fresh:     # documented: gradient at x - m * a  (a = 0 on a fresh optimizer)
                q = [{"rg": a["rg"], "v": vz(lambda x, m: g.v(x - g.v(gam * m)), a["v"], st["a1"][i]) if a["rg"] else a["v"]}
                     for i, a in enumerate(args)]
            grads = quad_grad(o, q, g)
            if call[0] == "sc":
                # the property: the cost at the PRE-step parameters
                cost = quad_cost(o, flat(args), None if kind in SQRT_KINDS else g)
                if kind == "Nesterov" and call[1]:
                    quad_cost(o, flat(q), g)
            st["t"] += 1
            t = st["t"]
            new, ti = [], 0
            for i, a in enumerate(args):
                if not a["rg"]:
                    new.append(a)
                    continue
                gr = grads[ti]
                ti += 1
                x = a["v"]
                if kind == "GD":
                    x2 = vz(lambda u, w: g.v(u - g.v(eta * w)), x, gr)
                elif kind in ("Momentum", "Nesterov"):
                    st["a1"][i] = vz(lambda m, w: g.v(g.v(gam * m) + g.v(eta * w)), st["a1"][i], gr)
                    x2 = vz(lambda u, m: g.v(u - m), x, st["a1"][i])
                elif kind == "Adagrad":
                    st["a1"][i] = vz(lambda m, w: g.v(m + g.v(w * w)), st["a1"][i], gr)
                    x2 = vz(lambda u, d: u - d, x, vz(lambda m, w: eta / fsqrt(m + eps) * w, st["a1"][i], gr))
                elif kind == "RMSProp":
                    st["a1"][i] = vz(lambda m, w: g.v(g.v(gam * m) + g.v(g.v(1 - gam) * g.v(w * w))), st["a1"][i], gr)
                    x2 = vz(lambda u, d: u - d, x, vz(lambda m, w: eta / fsqrt(m + eps) * w, st["a1"][i], gr))
                else:
                    st["a1"][i] = vz(lambda m, w: g.v(g.v(gam * m) + g.v(g.v(1 - gam) * w)), st["a1"][i], gr)
                    st["a2"][i] = vz(lambda m, w: g.v(g.v(b2 * m) + g.v(g.v(1 - b2) * g.v(w * w))), st["a2"][i], gr)
                    ns = eta * fsqrt(1 - b2 ** t) / (1 - gam ** t)
                    x2 = vz(lambda u, d: u - d, x, vz(lambda f1, s2: ns * f1 / (fsqrt(s2) + eps), st["a1"][i], st["a2"][i]))
                new.append({"rg": True, "v": x2})
            args = new
        out.append({"args": [{"rg": a["rg"], "v": list(a["v"])} for a in args], "cost": cost,
                    "state": None if st is None or kind == "GD" else
                    {"t": st["t"] if kind == "Adam" else 0, "a1": [list(v) for v in st["a1"]],
                     "a2": [list(v) for v in st["a2"]] if kind == "Adam" else [[] for _ in st["a2"]]}})
        oks.append(g.ok)
    return out, oks


# ------------------------------------------------------------------ generator
DY = [F(k, 4) for k in range(-8, 9)]
ETAS = [F(1, 2), F(1, 4), F(1, 8), F(3, 8), F(1, 16), F(1), F(3, 4)]
ETAS_SQRT = [F(0.01), F(0.1), F(1, 4), F(0.05), F(1, 2), F(0.3)]
GAMS = [F(1, 2), F(3, 4), F(7, 8), F(1, 4), F(5, 8), F(15, 16)]
B2S = [F(3, 4), F(7, 8), F(15, 16), F(63, 64), F(1, 2)]
EPSS = [F(1e-8), F(1, 2 ** 20), F(1, 2 ** 10), F(1e-8)]
SHAPES = [[], [1], [2], [2], [3], [2, 2], [1, 2]]


def gen_case(rng, tier):
    kind = rng.choice(KINDS)
    while True:
        nargs = rng.choice([1, 1, 2, 2, 3])
        args = []
        for _ in range(nargs):
            shape = rng.choice(SHAPES)
            size = 1
            for s in shape:
                size *= s
            args.append({"rg": rng.random() < 0.7, "shape": shape, "v": [rng.choice(DY) for _ in range(size)]})
        if kind in SQRT_KINDS and nargs > 1 and rng.random() < 0.8:
            args[rng.randrange(nargs)]["rg"] = False     # data argument that makes the gradient vary
        if any(a["rg"] for a in args) and sum(len(a["v"]) for a in args) <= 7:
            break
    n = sum(len(a["v"]) for a in args)
    train = [a["rg"] for a in args for _ in a["v"]]
    objs = []
    for _ in range(rng.choice([1, 1, 2])):
        A = [[rng.choice([0, 0, 0, 1, -1, 2, -2, F(1, 2), F(-3, 2), 3]) for _ in range(n)] for _ in range(n)]
        if kind in SQRT_KINDS:       # gradient independent of the (rounded) trainable parameters
            A = [[F(0) if train[i] and train[j] else A[i][j] for j in range(n)] for i in range(n)]
        objs.append({"A": [[F(x) for x in row] for row in A], "b": [F(rng.randint(-6, 6), 2) for _ in range(n)],
                     "c": F(rng.randint(-8, 8), 2)})
    h = {"eta": rng.choice(ETAS_SQRT if kind in SQRT_KINDS else ETAS), "gam": rng.choice(GAMS),
         "beta2": rng.choice(B2S), "eps": rng.choice(EPSS)}
    ncalls = rng.choice([1, 2, 3, 4, 5, 6] if tier == "quick" else [2, 4, 6, 8, 10])
    calls = []
    for _ in range(ncalls):
        r = rng.random()
        if r < 0.1 and kind != "GD":
            calls.append(["reset"])
        else:
            calls.append(["step" if r < 0.55 else "sc", rng.random() < 0.7, rng.randrange(len(objs))])
    return {"kind": kind, "h": h, "args": args, "objs": objs, "calls": calls}


def hand_cases():
    one = lambda k, calls, eta=F(1, 2), gam=F(1, 2): {
        "kind": k, "h": {"eta": eta, "gam": gam, "beta2": F(3, 4), "eps": F(1, 2 ** 10)},
        "args": [{"rg": True, "shape": [2], "v": [F(1), F(2)]}, {"rg": False, "shape": [2], "v": [F(1, 2), F(1, 4)]}],
        "objs": [{"A": [[F(x) for x in r] for r in ([1, 0, 1, 0], [0, 1, 0, 1], [0, 0, 0, 0], [0, 0, 0, 0])],
                  "b": [F(0)] * 4, "c": F(0)}],
        "calls": calls}
    cs = [one(k, [["sc", True, 0], ["sc", True, 0], ["step", False, 0], ["sc", False, 0]]) for k in ("GD", "Momentum", "Nesterov")]
    for k in ("Adagrad", "RMSProp", "Adam"):
        c = one(k, [["sc", True, 0], ["step", True, 0], ["reset"], ["sc", False, 0], ["step", True, 0]], eta=F(0.1))
        c["objs"][0]["A"] = [[F(x) for x in r] for r in ([0, 0, 1, 0], [0, 0, 0, 2], [0, 0, 0, 0], [0, 0, 0, 0])]
        cs.append(c)
    return cs


def to_payload(c):
    return {"kind": c["kind"], "hyper": {k: P(v) for k, v in c["h"].items()},
            "args": [{"rg": a["rg"], "shape": a["shape"], "vals": [P(v) for v in a["v"]]} for a in c["args"]],
            "objs": [{"A": [[P(x) for x in row] for row in o["A"]], "b": [P(x) for x in o["b"]], "c": P(o["c"])} for o in c["objs"]],
            "calls": c["calls"]}


# ------------------------------------------------------------------ Gallina printers
def g_vec(v):
    return glist(v, gq)


def g_arg(rg, v):
    return f"({gbool(rg)}, {g_vec(v)})"


def g_state(s):
    if s is None:
        return "None"
    prs = glist(list(zip(s["a1"], s["a2"])), lambda p: f"({g_vec(p[0])}, {g_vec(p[1])})")
    return f"(Some ({gnat(s['t'])}, {prs}))"


def g_obs(o):
    a = glist(o["args"], lambda x: g_arg(x["rg"], [U(p) for p in x["vals"]]))
    st = o["state"]
    if st is not None:
        st = {"t": st["t"], "a1": [[U(p) for p in v] for v in st["a1"]], "a2": [[U(p) for p in v] for v in st["a2"]]}
    return f"({a}, {gopt(None if o['cost'] is None else U(o['cost']), gq)}, {g_state(st)})"


def g_call(c):
    if c[0] == "reset":
        return "CReset"
    return f"({'CStep' if c[0] == 'step' else 'CStepCost'} {gbool(c[1])} {gnat(c[2])})"


def g_case(c, obs):
    h = c["h"]
    hy = f"(mkH {gq(h['eta'])} {gq(h['gam'])} {gq(h['beta2'])} {gq(h['eps'])})"
    objs = glist(c["objs"], lambda o: f"(mkQ {glist(o['A'], g_vec)} {g_vec(o['b'])} {gq(o['c'])})")
    return (f"({c['kind']}, {hy}, {glist(c['args'], lambda a: g_arg(a['rg'], a['v']))}, {objs}, "
            f"{glist(c['calls'], g_call)}, {glist(obs, g_obs)})")


# ------------------------------------------------------------------ direct oracle (gradient optimizers)
def close(a, b, tol):
    return abs(a - b) <= tol * max(1, abs(b))


def direct_oracle(c, obs, exp):
    """independent formulas vs observation; returns (key_suffix, witness) or None"""
    sq = c["kind"] in SQRT_KINDS
    prev = c["args"]
    for k, (o, e, call) in enumerate(zip(obs, exp, c["calls"])):
        for i, (oa, ea) in enumerate(zip(o["args"], e["args"])):
            ov = [U(p) for p in oa["vals"]]
            if not ea["rg"]:
                if ov != ea["v"] or not oa["same"] or oa["rg"]:
                    return "untouched", {"call": k, "arg": i, "what": "non-trainable argument changed / copied / became trainable"}
                continue
            if not oa["rg"] or oa["shape"] != c["args"][i]["shape"]:
                return "flags", {"call": k, "arg": i, "what": "trainable argument lost requires_grad or changed shape"}
            good = len(ov) == len(ea["v"]) and all(close(x, y, F(1, 10 ** 12)) if sq else x == y for x, y in zip(ov, ea["v"]))
            if not good:
                return "update", {"call": k, "arg": i, "observed": [float(x) for x in ov], "documented_rule": [float(x) for x in ea["v"]]}
        if (o["cost"] is None) != (e["cost"] is None):
            return "cost-presence", {"call": k}
        if e["cost"] is not None:
            oc = U(o["cost"])
            if not (close(oc, e["cost"], F(1, 10 ** 10)) if sq else oc == e["cost"]):
                return "prestep-cost", {"call": k, "kind": c["kind"], "autograd": call[1], "returned_cost": float(oc),
                                        "cost_at_prestep_parameters": float(e["cost"])}
        es, os_ = e["state"], o["state"]
        if (es is None) != (os_ is None):
            return "state-none", {"call": k, "observed": os_ is None}
        if es is not None:
            oa1 = [[U(p) for p in v] for v in os_["a1"]]
            oa2 = [[U(p) for p in v] for v in os_["a2"]]
            if oa1 != es["a1"] or oa2 != es["a2"] or os_["t"] != es["t"]:
                return "accumulator", {"call": k, "observed": {"a1": [[float(x) for x in v] for v in oa1], "a2": [[float(x) for x in v] for v in oa2], "t": os_["t"]},
                                       "documented": {"a1": [[float(x) for x in v] for v in es["a1"]], "a2": [[float(x) for x in v] for v in es["a2"]], "t": es["t"]}}
        prev = o["args"]
    return None


# ------------------------------------------------------------------ Rotosolve / Rotoselect
def ssum(terms, const, z):
    s = const
    for amp, fac in terms:
        p = amp
        for j, phi in fac:
            p *= math.sin(z[j] + phi)
        s += p
    return s


def uni_min(fun):
    """exact minimum of a single-frequency sinusoid from three evaluations (independent of the source's formula)"""
    gp, gm, g0 = fun(math.pi / 2), fun(-math.pi / 2), fun(0.0)
    cc = (gp + gm) / 2
    return cc - math.hypot((gp - gm) / 2, g0 - cc)


def gen_roto(rng, n):
    out = []
    rf = lambda a, b: round(rng.uniform(a, b), 6)
    for _ in range(n):
        r = rng.random()
        if r < 0.4:
            out.append({"type": "min_analytic", "A": rng.choice([rf(-3, 3), rf(0.1, 2), 0.0, -1.0, 1.0]), "phi": rng.choice([rf(-7, 7), 0.0, math.pi / 2, -math.pi / 2, math.pi]),
                        "C": rf(-2, 2), "freq": rng.choice([1.0, 1.0, 2.0, 0.5, 3.0, rf(0.3, 4)]), "give_f0": rng.random() < 0.5})
        elif r < 0.75:
            nx = rng.choice([1, 2, 3])
            nz = nx + 2                       # x entries, y, d[0]
            terms = []
            for _ in range(rng.choice([1, 2, 3, 4])):
                js = rng.sample(range(nz), rng.choice([1, 2, min(3, nz)]))
                terms.append([rf(-2, 2), [[j, rf(-3, 3)] for j in js]])
            out.append({"type": "rotosolve", "nx": nx, "terms": terms, "const": rf(-1, 1), "x": [rf(-3, 3) for _ in range(nx)],
                        "d": [rf(-3, 3)], "y": rf(-3, 3), "sc": rng.random() < 0.5})
        else:
            nd = rng.choice([1, 2, 3])
            out.append({"type": "rotoselect", "table": [[[rf(-2, 2), rf(-3, 3), rf(-1, 1)] for _ in range(3)] for _ in range(nd)],
                        "x": [rf(-3, 3) for _ in range(nd)], "gens": [rng.randrange(3) for _ in range(nd)], "sc": rng.random() < 0.5})
    return out


def roto_oracle(c, o):
    """returns list of (key, witness); key starting with 'finding:' is a fixed finding key"""
    bad = []
    T = 1e-9
    if isinstance(o, str):
        return [("error", {"error": o})]
    if c["type"] == "min_analytic":
        A, phi, C, f = c["A"], c["phi"], c["C"], c["freq"]
        val = A * math.sin(f * o["x"] + phi) + C
        if val > C - abs(A) + T or abs(o["y"] - (C - abs(A))) > T:
            bad.append(("min", {"value_at_returned_x": val, "returned_y": o["y"], "true_minimum": C - abs(A)}))
        if not (-math.pi / f - T < o["x"] <= math.pi / f + T):
            bad.append(("range", {"x": o["x"], "interval": math.pi / f}))
    elif c["type"] == "rotosolve":
        nx = c["nx"]
        old = list(c["x"]) + [c["y"]] + list(c["d"])
        new = list(o["x"]) + [o["y"]] + list(o["d"])
        if o["d"] != c["d"] or not o["d_same"]:
            bad.append(("untouched", {"d": o["d"]}))
        f = lambda z: ssum(c["terms"], c["const"], z)
        if o["cost"] is not None and abs(o["cost"] - f(old)) > T:
            bad.append(("prestep-cost", {"returned": o["cost"], "prestep": f(old)}))
        if len(o["ys"]) != nx + 1:
            bad.append(("substeps", {"n": len(o["ys"])}))
        else:
            for j in range(nx + 1):
                pt = new[:j + 1] + old[j + 1:nx + 1] + old[nx + 1:]
                base = list(pt)

                def uni(t, j=j, base=base):
                    z = list(base)
                    z[j] = t
                    return f(z)
                m = uni_min(uni)
                if f(pt) > m + T or abs(o["ys"][j] - m) > T:
                    bad.append(("min", {"substep": j, "value_after_substep": f(pt), "reported": o["ys"][j], "true_minimum": m}))
                    break
                if not (-math.pi - T < new[j] - old[j] <= math.pi + T):
                    bad.append(("range", {"substep": j, "shift": new[j] - old[j]}))
    else:
        tab = c["table"]
        pre = sum(tab[d][g][0] * math.sin(c["x"][d] + tab[d][g][1]) + tab[d][g][2] for d, g in enumerate(c["gens"]))
        if o["cost"] is not None and abs(o["cost"] - pre) > T:
            bad.append((FIND_ROTOSELECT, {"returned_cost": o["cost"], "cost_at_prestep_x_and_generators": pre, "case": c}))
        for d in range(len(tab)):
            mins = [tab[d][g][2] - abs(tab[d][g][0]) for g in range(3)]
            g = o["gens"][d]
            val = tab[d][g][0] * math.sin(o["x"][d] + tab[d][g][1]) + tab[d][g][2]
            if val > min(mins) + T:
                bad.append(("select", {"position": d, "value": val, "best_possible": min(mins), "chosen": g}))
            if not (-math.pi - T < o["x"][d] <= math.pi + T):
                bad.append(("range", {"position": d, "x": o["x"][d]}))
    return bad


# ------------------------------------------------------------------ run
def run(ctx):
    ctx.coq_props()
    rng = ctx.rng
    n = 360 if ctx.tier == "quick" else 4000
    cases = hand_cases()
    rp = getattr(ctx, "replay", None)
    if rp and isinstance(rp.get("replay", {}).get("case_payload"), dict):
        pc = rp["replay"]["case_payload"]
        cases.insert(0, {"kind": pc["kind"], "h": {k: U(v) for k, v in pc["hyper"].items()},
                         "args": [{"rg": a["rg"], "shape": a["shape"], "v": [U(p) for p in a["vals"]]} for a in pc["args"]],
                         "objs": [{"A": [[U(x) for x in row] for row in o["A"]], "b": [U(x) for x in o["b"]], "c": U(o["c"])} for o in pc["objs"]],
                         "calls": pc["calls"]})
    while len(cases) < n:
        cases.append(gen_case(rng, ctx.tier))
    # exactness guard: keep the longest prefix of calls in which every float operation is exact
    truncated, exps = 0, []
    for c in cases:
        exp, oks = ref_run(c)
        keep = len(oks)
        for k, ok in enumerate(oks):
            if not ok:
                keep = k
                break
        if keep < len(oks):
            truncated += 1
            c["calls"] = c["calls"][:keep]
            exp = exp[:keep]
        exps.append(exp)
    roto = gen_roto(rng, 150 if ctx.tier == "quick" else 1500)
    res = ctx.run_impl("c61_impl.py", {"cases": [to_payload(c) for c in cases], "roto": roto})
    obs = res["cases"]

    hist = {k: 0 for k in KINDS}
    hist.update({"calls": 0, "step_and_cost": 0, "reset": 0, "grad_fn_calls": 0, "multi_trainable": 0, "with_nontrainable": 0,
                 "histories_ge3": 0, "truncated_by_exactness_guard": truncated, "errors": 0, "nesterov_lookahead_cost_cases": 0})
    terms, idx = [], []
    for i, (c, o, e) in enumerate(zip(cases, obs, exps)):
        key = json.dumps(to_payload(c), sort_keys=True)
        if isinstance(o, str):
            hist["errors"] += 1
            ctx.violation("raised:" + hashlib.sha1(key.encode()).hexdigest()[:12], {"case_payload": to_payload(c), "error": o},
                          what="optimizer raised on a well-formed history: " + o[:120])
            continue
        hist[c["kind"]] += 1
        hist["calls"] += len(c["calls"])
        hist["step_and_cost"] += sum(1 for x in c["calls"] if x[0] == "sc")
        hist["reset"] += sum(1 for x in c["calls"] if x[0] == "reset")
        hist["grad_fn_calls"] += sum(1 for x in c["calls"] if x[0] != "reset" and not x[1])
        hist["multi_trainable"] += sum(a["rg"] for a in c["args"]) > 1
        hist["with_nontrainable"] += any(not a["rg"] for a in c["args"])
        hist["histories_ge3"] += len(c["calls"]) >= 3
        terms.append(g_case(c, o))
        idx.append(i)
        w = direct_oracle(c, o, e)
        if w is not None:
            kind_, wit = w
            if kind_ == "prestep-cost" and c["kind"] == "Nesterov" and wit["autograd"]:
                hist["nesterov_lookahead_cost_cases"] += 1
                ctx.violation(FIND_NESTEROV, {"case_payload": to_payload(c), "witness": wit},
                              what="NesterovMomentumOptimizer.step_and_cost (grad_fn=None) returns the objective at the shifted point "
                                   "x - momentum*accumulation instead of the pre-step parameters")
            else:
                ctx.violation("direct:" + kind_ + ":" + hashlib.sha1(key.encode()).hexdigest()[:12],
                              {"case_payload": to_payload(c), "witness": wit, "observed": o},
                              what=f"{c['kind']}Optimizer deviates from its documented update rule ({kind_})")
    bad = ctx.coq_eval_cases("cases", "From PLV Require Import Num.OptimizersModel.\nRequire Import QArith.", terms, "check_case", chunk=60)
    for b in bad:
        c, o = cases[idx[b]], obs[idx[b]]
        key = json.dumps(to_payload(c), sort_keys=True)
        ctx.violation("corr:" + hashlib.sha1(key.encode()).hexdigest()[:12], {"case_payload": to_payload(c), "implementation": o,
                      "model": "coq/Gen/C61 (the proved model replayed on this history differs)"},
                      what=f"{c['kind']}Optimizer differs from the proved model")
    rh = {"min_analytic": 0, "rotosolve": 0, "rotoselect": 0}
    for c, o in zip(roto, res["roto"]):
        rh[c["type"]] += 1
        for k, wit in roto_oracle(c, o):
            if k.startswith("finding:"):
                ctx.violation(k, {"case": c, "observed": o, "witness": wit},
                              what="RotoselectOptimizer.step_and_cost evaluates the returned cost with the UPDATED generators "
                                   "(step mutates the list in place) and the old x, not the pre-step cost")
            else:
                ctx.violation(f"roto:{c['type']}:{k}:" + hashlib.sha1(json.dumps(c, sort_keys=True).encode()).hexdigest()[:12],
                              {"case": c, "observed": o, "witness": wit}, what=f"{c['type']} does not return the exact minimum ({k})")
    hist.update({"roto_" + k: v for k, v in rh.items()})
    ctx.coverage.update({"evaluations": len(cases) + len(roto), "distinct_nontrivial": sum(1 for c in cases if len(c["calls"]) >= 2),
                         "rule": "seeded generator: 6 optimizers uniformly; 1-3 arguments (70% trainable, shapes (),(1),(2),(3),(2,2),(1,2)); "
                                 "dyadic quadratic objectives z^T A z + b.z + c (1-2 per history); call sequences of step/step_and_cost/reset "
                                 "with grad_fn=None 70%; histories truncated to the prefix in which all float operations are exact; "
                                 "non-trivial = history of >= 2 calls. Rotosolve/Rotoselect/min_analytic on random sinusoids (numeric oracle).",
                         "input_distribution": hist})
    for c, o in list(zip(cases, obs))[:3]:
        ctx.sample({"case": to_payload(c), "observed": o})
