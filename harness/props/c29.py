"""C29 Finite-shot sampling follows the Born rule (logic proved + tied deterministically; statistics tested)."""
from fractions import Fraction
from vlib import *

PID = "C29"
META = {
    "level": "proof",
    "technique": "Coq proofs over a Gallina model of sample_state/sample_probs/measure_with_samples with the RNG as an explicit list of uniforms (inverse CDF); vm_compute correspondence with the real functions driven by a stub generator; chi-square goodness-of-fit of the real numpy/JAX samplers (test, p < 1e-9)",
    "design_ref": "DESIGN.md §3 C29",
    "text": "LOGIC half (kernel-checked, all sizes): index<->bitstring conversion is a big-endian bijection; rng.choice as inverse CDF selects k exactly on the interval [cdf(k-1), cdf(k)) whose length is p_k, every u in [0,1) selects exactly one outcome and never a zero-probability one; marginalisation preserves total mass, equals the sum over the unmeasured bits and is the identity on all wires; counts total the shots; the per-bin slices partition the sample array with sizes = shot vector (bins = C44's bins); eigenvalue samples are members of the eigenvalue list; sample_state returns shots rows of valid bitstrings. The model is evaluated in Coq on the same states, wires, shot vectors, measurement lists and uniform variates as the real sample_state / measure_with_samples (numpy path with a stub Generator, numpy's own Generator.choice driven by stubbed random(), and the JAX path with jax.random.choice stubbed) and compared exactly, including the probability vector handed to choice. STATISTICS half (test, not theorem): real numpy and JAX (and default.mixed) samplers through QNodes: validity of every outcome/eigenvalue/count/bin, and chi-square goodness of fit against exact probabilities computed independently, alarm threshold p < 1e-9.",
    "note": "The random generators are oracles: nothing is proved about numpy's PCG64 or JAX's threefry, only tested (chi-square, so a bias below the resolution of 2e4 (quick) / 1e6 (thorough) shots is invisible). Probabilities are modelled as integer weights over a common denominator (exact rationals); float rounding in probs/norm and the 1e-6 normalisation tolerance are only exercised with exactly normalised or grossly unnormalised dyadic states. reshape/sum/transpose in ProbabilityMP.process_state is modelled by its index semantics (gather over basis states), numpy's binary searchsorted by a linear scan. measure_with_samples is modelled for ONE measurement group with empty diagonalising gates (wire samples/counts, or Z-word observables); grouping, diagonalising rotations, Hamiltonian/Sum/shadow paths and default.mixed are covered by the validity/statistical tests only. The JAX deterministic tie replaces jax.random.choice, so JAX's own choice algorithm is covered only statistically.",
    "assumptions": ["uniform variates lie in [0,1) (numpy Generator.random / jax.random.uniform contract)",
                    "probabilities are exact rationals in the deterministic tie (dyadic amplitudes)",
                    "statistical half: PRNG output is treated as i.i.d. uniform; chi-square asymptotics with pooled cells (expected >= 50)"],
    "trusted": ["hand-written model coq/Disc/SamplingModel.v tied to /repo by correspondence only",
                "stub generators in harness/impl/c29_impl.py (inverse CDF, side='right')",
                "scipy.stats.chi2 for p-values"],
}

HEADER = "From Coq Require Import QArith. From PLV Require Import Disc.SamplingModel. Open Scope Z_scope."


# ------------------------------------------------------------------ generators
def two_square_table(total):
    total = 2 * total            # beyond 4^k: used for over-normalised (error path) states
    reps = {}
    r = int(total ** 0.5) + 1
    for a in range(0, r + 1):
        for b in range(0, r + 1):
            m = a * a + b * b
            if m <= total:
                reps.setdefault(m, []).append((a, b))
    return reps


TABLES = {k: two_square_table(4 ** k) for k in (1, 2, 3)}


def gen_amps(rng, n, k, total=None):
    """integer Gaussian amplitudes (re, im)/2^k with sum |.|^2 = total/4^k (total defaults to 4^k)"""
    tab = TABLES[k]
    total = 4 ** k if total is None else total
    dim = 2 ** n
    for _ in range(200):
        s = rng.randint(1, dim)
        support = rng.sample(range(dim), s)
        rem, ms = total, {}
        ok = True
        for i in support[:-1]:
            cand = [m for m in tab if 0 < m <= rem] if rem > 0 else []
            if not cand:
                ms[i] = 0
                continue
            m = rng.choice(cand + [0]) if rng.random() < 0.85 else 0
            ms[i] = m
            rem -= m
        if rem not in tab:
            ok = False
        if ok:
            ms[support[-1]] = rem
            amps = []
            for i in range(dim):
                a, b = rng.choice(tab[ms.get(i, 0)])
                amps.append([a * rng.choice([1, -1]), b * rng.choice([1, -1])])
            return amps
    amps = [[0, 0] for _ in range(dim)]
    amps[rng.randrange(dim)] = [2 ** k, 0]
    return amps


def gen_uniforms(rng, count, D):
    us = []
    for _ in range(count):
        r = rng.random()
        if r < 0.3:
            us.append([rng.randrange(D), D])              # lands on cdf boundaries of dyadic states
        elif r < 0.35:
            us.append([0, 1])
        elif r < 0.4:
            us.append([2 ** 53 - 1, 2 ** 53])             # largest double below 1
        else:
            us.append([rng.randrange(2 ** 30), 2 ** 30])
    return us


def gen_wires(rng, n):
    m = rng.randint(1, n)
    return rng.sample(range(n), m)


def expand_spec(spec):
    """documented meaning of a shot specification: an int is one bin, a (shots, copies) pair is `copies` bins of `shots`"""
    if isinstance(spec, int):
        return [spec]
    flat = []
    for e in spec:
        flat += [e] if isinstance(e, int) else [e[0]] * e[1]
    return flat


def rle(flat):
    """documented shot_vector: neighbouring bins of equal size are written as one (shots, copies) entry"""
    out = []
    for s in flat:
        if out and out[-1][0] == s:
            out[-1][1] += 1
        else:
            out.append([s, 1])
    return out


def gen_spec(rng, values):
    """shot specification mixing ints and (shots, copies) pairs; equal neighbouring shot values are likely"""
    base = rng.choice(values)
    spec = []
    for _ in range(rng.randint(1, 3)):
        s = base if rng.random() < 0.6 else rng.choice(values)
        spec.append([s, rng.randint(1, 3)] if rng.random() < 0.6 else s)
    if not any(isinstance(e, list) for e in spec):
        spec[-1] = [spec[-1], 2]
    return spec


def gen_shots_case(rng):
    """operands of a sum of Shots objects: each an int or a sequence of ints / (shots, copies) pairs"""
    vals = [rng.randint(1, 60) for _ in range(2)]
    ops = []
    for _ in range(rng.randint(1, 3)):
        r = rng.random()
        if r < 0.2:
            ops.append(rng.choice(vals))
        elif r < 0.4:
            ops.append([rng.choice(vals) for _ in range(rng.randint(1, 4))])
        else:
            ops.append(gen_spec(rng, vals))
    return {"ops": ops}


def gen_det(rng, jax=False):
    """jax=True: JAX path (eager XLA compiles per shape are slow, so shapes come from a narrow set)"""
    n = rng.choice([2, 3]) if jax else rng.choice([1, 2, 2, 3, 3, 3, 4])
    k = rng.choice([1, 2, 2, 3, 3])
    be = "jax" if jax else rng.choices(["numpy", "numpyB"], [0.6, 0.4])[0]
    c = {"n": n, "k": k, "backend": be}
    bad_norm = be != "jax" and rng.random() < 0.05
    tot = None
    if bad_norm:
        tot = rng.choice([m for m in TABLES[k] if m not in (0, 4 ** k)])
    if rng.random() < (0.7 if jax else 0.5):
        c["kind"] = "state"
        c["batched"] = rng.random() < 0.25
        nb = rng.randint(1, 3) if c["batched"] else 1
        c["states"] = [gen_amps(rng, n, k, tot if (bad_norm and b == nb - 1) else None) for b in range(nb)]
        c["wires"] = None if rng.random() < 0.3 else gen_wires(rng, n)
        if rng.random() < 0.03:
            c["wires"] = (c["wires"] or [0])[:1] + [n + rng.randint(0, 2)]   # unknown wire
        c["shots"] = rng.choice([4, 6]) if jax else rng.choice([1, 2, 3, 5, 8, 13, 24])
        c["extra"] = rng.choice([0, 0, 0, 2])
        c["us"] = gen_uniforms(rng, c["shots"] * nb + c["extra"], 4 ** k)
    else:
        c["kind"] = "measure"
        c["states"] = [gen_amps(rng, n, k, tot)]
        r = rng.random()
        if jax:
            sv = rng.choice([[6], [3, 3], [2, 4]])
        elif r < 0.35:
            sv = [rng.choice([1, 2, 5, 9, 20])]
        else:
            base = rng.randint(1, 7)
            sv = [base if rng.random() < 0.5 else rng.randint(1, 9) for _ in range(rng.randint(2, 4))]
            if rng.random() < 0.25:      # specification with (shots, copies) pairs; sv = its documented expansion
                c["svspec"] = gen_spec(rng, list(range(1, 8)))
                sv = expand_spec(c["svspec"])
        c["sv"] = sv
        mps = []
        if rng.random() < 0.55:
            for _ in range(rng.randint(1, 3)):
                ws = [] if rng.random() < 0.3 else gen_wires(rng, n)
                if rng.random() < 0.4:
                    mps.append({"t": "sample", "ws": ws})
                else:
                    mps.append({"t": "counts", "ws": ws, "all": rng.random() < 0.5})
        else:
            for _ in range(rng.randint(1, 3)):
                ws = gen_wires(rng, n)[:3]
                if rng.random() < 0.5:
                    mps.append({"t": "sample_obs", "ws": ws})
                else:
                    mps.append({"t": "counts_obs", "ws": ws, "all": rng.random() < 0.5})
        c["mps"] = mps
        c["extra"] = 0
        c["us"] = gen_uniforms(rng, sum(sv), 4 ** k)
    return c


CORPUS = [
    {"n": 3, "k": 1, "backend": "numpy", "kind": "state", "batched": False, "wires": [2, 0], "shots": 6, "extra": 0,
     "states": [[[0, 0], [1, 0], [-1, 0], [0, 0], [1, 0], [0, 0], [0, 0], [0, 1]]],
     "us": [[0, 1], [1, 4], [1, 2], [3, 4], [99, 128], [3, 16]]},
    {"n": 2, "k": 1, "backend": "numpyB", "kind": "state", "batched": False, "wires": None, "shots": 4, "extra": 0,
     "states": [[[0, 0], [2, 0], [0, 0], [0, 0]]], "us": [[0, 1], [1, 2], [2 ** 53 - 1, 2 ** 53], [1, 4]]},
    {"n": 3, "k": 1, "backend": "numpy", "kind": "measure", "sv": [2, 4], "extra": 0,
     "states": [[[0, 0], [1, 0], [-1, 0], [0, 0], [1, 0], [0, 0], [0, 0], [0, 1]]],
     "mps": [{"t": "sample", "ws": [0, 1]}, {"t": "counts", "ws": [2, 1], "all": True}, {"t": "counts", "ws": [], "all": False}],
     "us": [[0, 1], [1, 4], [1, 2], [3, 4], [99, 128], [3, 16]]},
    {"n": 3, "k": 1, "backend": "jax", "kind": "measure", "sv": [3, 3], "extra": 0,
     "states": [[[0, 0], [1, 0], [-1, 0], [0, 0], [1, 0], [0, 0], [0, 0], [0, 1]]],
     "mps": [{"t": "sample_obs", "ws": [2, 0]}, {"t": "counts_obs", "ws": [1], "all": True}],
     "us": [[0, 1], [1, 4], [1, 2], [3, 4], [99, 128], [3, 16]]},
    # shot specification with (shots, copies) pairs following an equal shot value (shape of the Shots docstring example)
    {"n": 2, "k": 1, "backend": "numpy", "kind": "measure", "svspec": [2, 3, [3, 2], [1, 2]], "sv": [2, 3, 3, 3, 1, 1], "extra": 0,
     "states": [[[1, 0], [0, 1], [-1, 0], [0, -1]]],
     "mps": [{"t": "sample", "ws": [1, 0]}, {"t": "counts", "ws": [], "all": True}],
     "us": [[0, 1], [1, 4], [1, 2], [3, 4], [99, 128], [3, 16], [5, 8], [7, 8], [1, 8], [3, 8], [1, 3], [2, 3], [9, 16]]},
    {"n": 2, "k": 1, "backend": "numpyB", "kind": "measure", "svspec": [[2, 2], [2, 3]], "sv": [2, 2, 2, 2, 2], "extra": 0,
     "states": [[[1, 0], [0, 1], [-1, 0], [0, -1]]],
     "mps": [{"t": "sample_obs", "ws": [0, 1]}, {"t": "counts_obs", "ws": [0], "all": False}],
     "us": [[0, 1], [1, 4], [1, 2], [3, 4], [99, 128], [3, 16], [5, 8], [7, 8], [1, 8], [3, 8]]},
]

# QNode cases that run first: the example of the Shots docstring, (10, 100, (100, 3), (200, 4)) = 10 x 1, 100 x 4, 200 x 4
VALID_CORPUS = [
    {"n": 2, "dev": dev, "seed": 1234, "gates": [["RY", 0.9, 0], ["CNOT", 0, 1]],
     "svspec": spec, "sv": expand_spec(spec),
     "mps": [{"t": "sample", "ws": [0, 1]}, {"t": "counts", "ws": [0, 1], "all": False}]}
    for dev, spec in (("numpy", [10, 100, [100, 3], [200, 4]]), ("mixed", [[7, 2], [7, 3], 5]), ("jax", [4, [4, 2]]))
]

# parameter broadcasting: RY(x) CNOT with x = [0, pi/3, pi] (P(11) = 0, 1/4, 1), every batch entry is judged on its own
VALID_CORPUS += [
    {"n": 2, "dev": dev, "seed": 4321, "gates": [["CNOT", 0, 1]], "sv": sv,
     "batch": {"wire": 0, "xs": [0.0, 1.0471975511965976, 3.141592653589793]},
     "mps": [{"t": "counts", "ws": [0, 1], "all": False}, {"t": "counts_obs", "obs": [["Z", 0], ["Z", 1]], "all": True},
             {"t": "sample", "ws": [0, 1]}, {"t": "counts", "ws": [1], "all": True}]}
    for dev, sv in (("numpy", [400]), ("numpy", [30, 50]), ("mixed", [200]), ("jax", [64]))
]

# a single counts measurement returned as a 1-tuple, called with a broadcast parameter (recorded finding: the tuple is lost)
VALID_CORPUS += [
    {"n": 1, "dev": "numpy", "seed": 99, "gates": [["H", 0]], "sv": [50], "batch": {"wire": 0, "xs": [0.1, 0.2, 0.3]},
     "mps": [{"t": "counts", "ws": [0], "all": True}]},
]

# sums of Shots objects (ints, int sequences, (shots, copies) pairs; equal shot values meeting at the seam)
SHOTS_CORPUS = [
    {"ops": [[10, 100, [100, 3], [200, 4]]]},
    {"ops": [[[50, 2]], [[50, 2]]]},
    {"ops": [[[100, 2]]]},
    {"ops": [[100, 2]]},
    {"ops": [100, [[10, 2]]]},
    {"ops": [[7, [7, 3]], [[7, 2], 3], 3]},
    {"ops": [[1, 1, 2, 3]]},
]

GATES1 = ["RX", "RY", "RZ", "H", "X", "S", "T"]


def gen_circuit(rng, n, clifford=False):
    gates = []
    for _ in range(rng.randint(2, 4 + 2 * n)):
        if n > 1 and rng.random() < 0.35:
            a, b = rng.sample(range(n), 2)
            if clifford or rng.random() < 0.8:
                gates.append([rng.choice(["CNOT", "CZ"]), a, b])
            else:
                gates.append(["CRY", round(rng.uniform(0, 6.28), 6), a, b])
        else:
            g = rng.choice(["H", "X", "S"]) if clifford else rng.choice(GATES1)
            w = rng.randrange(n)
            gates.append([g, round(rng.uniform(0, 6.28), 6), w] if g in ("RX", "RY", "RZ") else [g, w])
    return gates


def gen_obs(rng, n, paulis="XYZH"):
    ws = gen_wires(rng, n)[:3]
    return [[rng.choice(paulis), w] for w in ws]


def gen_valid(rng, i):
    n = rng.randint(1, 4)
    c = {"n": n, "dev": ["numpy", "jax", "mixed", "numpy", "mixed", "numpy", "mixed"][i % 7], "seed": rng.randrange(10 ** 6),
         "gates": gen_circuit(rng, n, clifford=rng.random() < 0.4)}
    c["sv"] = [rng.choice([1, 7, 50, 200])] if rng.random() < 0.4 else [rng.choice([1, 5, 10, 33]) for _ in range(rng.randint(2, 4))]
    if rng.random() < 0.2:
        c["svspec"] = gen_spec(rng, [1, 5, 10, 33])
        c["sv"] = expand_spec(c["svspec"])
    if rng.random() < 0.25:      # QNode called with a parameter batch: RY(xs) on `wire` ahead of the gates
        c["batch"] = {"wire": rng.randrange(n),
                      "xs": [rng.choice([0.0, 3.141592653589793, 1.5707963267948966, round(rng.uniform(0, 6.28), 6)])
                             for _ in range(rng.randint(2, 4))]}
    mps = []
    for _ in range(rng.randint(1, 4)):
        t = rng.choice(["sample", "counts", "probs", "sample_obs", "counts_obs", "expval", "var"])
        if t in ("sample", "counts"):
            m = {"t": t, "ws": [] if rng.random() < 0.3 else gen_wires(rng, n)}
        elif t == "probs":
            m = {"t": t, "ws": gen_wires(rng, n)}
        else:
            m = {"t": t, "obs": gen_obs(rng, n)}
        if t.startswith("counts"):
            m["all"] = rng.random() < 0.5
        mps.append(m)
    c["mps"] = mps
    return c


def gen_stat(rng, i, nshots):
    n = rng.randint(1, 4)
    c = {"n": n, "dev": ["numpy", "jax", "mixed"][i % 3], "seed": rng.randrange(10 ** 6),
         "gates": gen_circuit(rng, n), "ws": [] if rng.random() < 0.4 else gen_wires(rng, n),
         "obs": [gen_obs(rng, n, "XYZ") for _ in range(rng.randint(0, 2))]}
    c["sv"] = [nshots] if rng.random() < 0.6 else [nshots // 2, nshots // 2]
    return c


# ------------------------------------------------------------------ exact reference computations (python, ints)
def weights(amps):
    return [a * a + b * b for a, b in amps]


def bits_be(k, n):
    return [(k >> (n - 1 - i)) & 1 for i in range(n)]


def marg(w, n, ws):
    out = [0] * (2 ** len(ws))
    for k, x in enumerate(w):
        b = bits_be(k, n)
        j = 0
        for i in ws:
            j = 2 * j + b[i]
        out[j] += x
    return out


def inv_cdf(p, u):
    W, acc = sum(p), 0
    for k, x in enumerate(p):
        acc += x
        if u * W < acc:
            return k
    return len(p)


# ------------------------------------------------------------------ Gallina printers
def g_nats(ws):
    return glist(ws, gnat)


def g_bits(rows):
    return glist(rows, lambda r: glist(r, lambda b: gbool(b == 1)))


def g_be(be):
    return "BJax" if be == "jax" else "BNumpy"


def g_us(us):
    return glist(us, lambda u: f"({gz(u[0])}, {gz(u[1])})")


def g_mp(m, info):
    ws = info["ws"] if info else m["ws"]
    if m["t"] == "sample":
        return f"MSample {g_nats(m['ws'])}"
    if m["t"] == "counts":
        return f"MCounts {g_nats(m['ws'])} {gbool(m['all'])}"
    eigs = info["eigs"] if info and info.get("eigs") is not None else [(-1) ** bin(k).count("1") for k in range(2 ** len(ws))]
    if m["t"] == "sample_obs":
        return f"(MSampleObs {g_nats(ws)} {glist(eigs, gz)})"
    return f"(MCountsObs {g_nats(ws)} {glist(eigs, gz)} {gbool(m['all'])})"


def g_res(r):
    if "bits" in r:
        return f"(RBits {g_bits(r['bits'])})"
    if "eig" in r:
        return f"(REig {glist(r['eig'], gz)})"
    return "(RCounts " + glist(r["counts"], lambda kc: f"({gz(kc[0])}, {gz(kc[1])})") + ")"


def g_pcalls(pc):
    return "None" if pc is None else "(Some " + glist(pc, lambda p: glist(p, gz)) + ")"


def g_case(c, o):
    D = 4 ** c["k"]
    ws = [weights(a) for a in c["states"]]
    if c["kind"] == "state":
        return (f"CState {g_be(c['backend'])} {gnat(c['n'])} {gz(D)} {glist(ws, lambda w: glist(w, gz))} "
                f"{g_nats(c['wires'] or [])} {gz(c['shots'])} {g_us(c['us'])}")
    infos = o.get("mpinfo") or [None] * len(c["mps"])
    return (f"CMeasure {g_be(c['backend'])} {gnat(c['n'])} {gz(D)} {glist(ws[0], gz)} {glist(c['sv'], gz)} "
            f"{glist(list(zip(c['mps'], infos)), lambda mi: g_mp(*mi))} {g_us(c['us'])}")


def int_pcalls(pc, D):
    """probabilities recorded by the stub -> integer weights over D (None if not exactly representable)"""
    if pc is None:
        return None, True
    out = []
    for p in pc:
        row = [Fraction(x) * D for x in p]
        if any(f.denominator != 1 for f in row):
            return None, False
        out.append([int(f) for f in row])
    return out, True


def g_out(c, o, pc):
    if "err" in o:
        return "OErr"
    if c["kind"] == "state":
        return f"OState {g_pcalls(pc)} {glist(o['samples'], g_bits)}"
    return f"OMeasure {g_pcalls(pc)} {gbool(o['part'])} {glist(o['bins'], lambda b: glist(b, g_res))}"


# ------------------------------------------------------------------ direct oracles
def direct_det(c, o):
    """the property's own clauses on the implementation's output, exact arithmetic; returns list of complaints"""
    bad = []
    if "err" in o:
        return bad
    n, D = c["n"], 4 ** c["k"]
    if not o.get("args_ok", True):
        bad.append("choice was not called with a = arange(2**num_wires)")
    if c["kind"] == "state":
        ws = c["wires"] or list(range(n))
        if o["left"] != c["extra"]:
            bad.append(f"consumed a wrong number of variates (left {o['left']}, expected {c['extra']})")
        us = [Fraction(a, b) for a, b in c["us"]]
        for bi, (amps, smp) in enumerate(zip(c["states"], o["samples"])):
            p = marg(weights(amps), n, ws)
            if len(smp) != c["shots"]:
                bad.append("number of samples differs from shots")
            for si, row in enumerate(smp):
                if len(row) != len(ws):
                    bad.append("sample row has wrong number of wires"); break
                k = int("".join(map(str, row)), 2)
                if p[k] == 0:
                    bad.append(f"sampled bitstring {row} has probability 0")
                u = us[bi * c["shots"] + si]
                if inv_cdf(p, u) != k:
                    bad.append(f"u={u} selected index {k}, inverse CDF of the exact marginal gives {inv_cdf(p, u)}")
                    break
    else:
        sv = c["sv"]
        if o["part"] != (len(sv) > 1):
            bad.append("partitioned flag differs from len(shot vector) > 1")
        if len(o["bins"]) != len(sv):
            bad.append(f"{len(o['bins'])} result bins for shot vector {sv}")
        for s, b in zip(sv, o["bins"]):
            for m, info, r in zip(c["mps"], o["mpinfo"], b):
                if "struct" in r:
                    bad.append("malformed result: " + r["struct"])
                elif "bits" in r and len(r["bits"]) != s:
                    bad.append(f"sample array has {len(r['bits'])} rows in a bin of {s} shots")
                elif "eig" in r:
                    if len(r["eig"]) != s:
                        bad.append(f"eigenvalue sample array has {len(r['eig'])} entries in a bin of {s} shots")
                    if any(v not in info["eigs"] for v in r["eig"]):
                        bad.append("eigenvalue sample is not an eigenvalue")
                elif "counts" in r:
                    if sum(v for _, v in r["counts"]) != s:
                        bad.append(f"counts total {sum(v for _, v in r['counts'])} in a bin of {s} shots")
                    if m["t"] == "counts":
                        mm = len(m["ws"]) or n
                        if r["keylens"] not in ([mm], []):
                            bad.append("counts keys are not bitstrings over the measured wires")
                        if m["all"] and len(r["counts"]) != 2 ** mm:
                            bad.append("all_outcomes dictionary does not list every bitstring")
                    elif any(k not in info["eigs"] for k, _ in r["counts"]):
                        bad.append("counts key is not an eigenvalue")
    return bad


def near(x, vals, tol=1e-6):
    return any(abs(x - v) <= tol for v in vals)


def direct_valid(c, o):
    bad = []
    if "crash" in o:
        return ["execution raised " + o["crash"]]
    if "batches" in o:      # broadcast call: entry b must be a valid result for the circuit with the scalar parameter xs[b]
        if len(o["batches"]) != len(c["batch"]["xs"]):
            return [f"{len(o['batches'])} batch entries for {len(c['batch']['xs'])} parameters"]
        for b, ob in enumerate(o["batches"]):
            bad += [f"batch entry {b} (x={c['batch']['xs'][b]}): {msg}" for msg in direct_valid(c, ob)]
        return bad
    if "struct" in o:
        return ["malformed result: " + o["struct"]]
    sv, n = c["sv"], c["n"]
    if len(o["bins"]) != len(sv):
        return [f"{len(o['bins'])} result bins for shot vector {sv}"]
    for s, b in zip(sv, o["bins"]):
        for m, info, r in zip(c["mps"], o["info"], b):
            t = m["t"]
            if "struct" in r:
                bad.append("malformed result: " + r["struct"]); continue
            if t == "sample":
                mm = info["m"]
                if r["shape"] != [s, mm]:
                    bad.append(f"sample shape {r['shape']} for {s} shots on {mm} wires")
                if any(v not in (0.0, 1.0) for v in r["values"]):
                    bad.append("sample entry is not a bit")
                for row in r["rows"] or []:
                    if len(row) == mm and set(row) <= {"0", "1"} and info["p"][int(row, 2)] < 1e-13:
                        bad.append(f"sampled bitstring {row} has exact probability {info['p'][int(row, 2)]:.2e}")
            elif t == "sample_obs":
                if r["shape"] != [s]:
                    bad.append(f"observable sample shape {r['shape']} for {s} shots")
                if any(not near(v, info["eigs"]) for v in r["values"]):
                    bad.append(f"sample {r['values']} not among eigenvalues {info['eigs']}")
            elif t == "counts":
                mm = info["m"]
                if sum(r["vals"]) != s:
                    bad.append(f"counts total {sum(r['vals'])} for {s} shots")
                if any(len(k) != mm or not set(k) <= {"0", "1"} for k in r["keys"]) or len(set(r["keys"])) != len(r["keys"]):
                    bad.append("counts keys are not distinct bitstrings over the measured wires")
                elif m["all"] and len(r["keys"]) != 2 ** mm:
                    bad.append("all_outcomes dictionary does not list every bitstring")
                elif not m["all"] and any(v <= 0 for v in r["vals"]):
                    bad.append("unobserved outcome listed without all_outcomes")
                else:
                    for k, v in zip(r["keys"], r["vals"]):
                        if v > 0 and info["p"][int(k, 2)] < 1e-13:
                            bad.append(f"counted bitstring {k} has exact probability {info['p'][int(k, 2)]:.2e}")
            elif t == "counts_obs":
                if sum(r["vals"]) != s:
                    bad.append(f"counts total {sum(r['vals'])} for {s} shots")
                if any(not near(k, info["eigs"]) for k in r["keys"]):
                    bad.append(f"counts keys {r['keys']} not among eigenvalues {info['eigs']}")
            elif t == "probs":
                mm = info["m"]
                if r["shape"] != [2 ** mm]:
                    bad.append(f"probs shape {r['shape']}")
                elif abs(sum(r["data"]) - 1) > 1e-6 or any(abs(x * s - round(x * s)) > 1e-4 or x < 0 for x in r["data"]):
                    bad.append("finite-shot probabilities are not frequencies k/shots summing to 1")
                elif any(x > 0 and p < 1e-13 for x, p in zip(r["data"], info["p"])):
                    bad.append("finite-shot probability on an outcome of exact probability 0")
            elif t == "expval":
                if r["shape"] != [] or not (min(info["eigs"]) - 1e-6 <= r["data"][0] <= max(info["eigs"]) + 1e-6):
                    bad.append(f"expectation estimate {r['data']} outside the spectrum {info['eigs']}")
            elif t == "var":
                if r["shape"] != [] or r["data"][0] < -1e-6:
                    bad.append(f"variance estimate {r['data']} negative")
    return bad


def direct_shots(c, o):
    """Shots objects built from the operands and their sum against the documented expansion"""
    if "crash" in o:
        return ["Shots construction/addition raised " + o["crash"]]
    bad = []
    flats = [expand_spec(op) for op in c["ops"]]
    for name, flat, r in [(f"Shots({op})", f, r) for op, f, r in zip(c["ops"], flats, o["each"])] + \
                         [("sum of " + " + ".join(f"Shots({op})" for op in c["ops"]), sum(flats, []), o["sum"])]:
        lo, bins = 0, []
        for s_ in flat:
            bins.append([lo, lo + s_]); lo += s_
        exp = {"iter": flat, "total": sum(flat), "vector": rle(flat), "copies": len(flat), "bins": bins, "part": len(flat) > 1}
        for k, v in exp.items():
            if r[k] != v:
                bad.append(f"{name}: {k} = {r[k]}, documented expansion gives {v}")
    return bad


def chi_square(hist, p, min_expected=50.0):
    """returns (p_value, stat, df, impossible) with cells pooled until every expected count >= min_expected"""
    from scipy.stats import chi2
    N = sum(hist)
    impossible = [k for k, (h, q) in enumerate(zip(hist, p)) if h > 0 and q < 1e-13]
    cells = sorted(((q * N, h) for h, q in zip(hist, p) if q >= 1e-13), key=lambda t: t[0])
    pooled, acc_e, acc_o = [], 0.0, 0
    for e, h in cells:
        acc_e += e; acc_o += h
        if acc_e >= min_expected:
            pooled.append([acc_e, acc_o]); acc_e, acc_o = 0.0, 0
    if acc_e > 0 or acc_o > 0:
        if pooled:
            pooled[-1][0] += acc_e; pooled[-1][1] += acc_o
        else:
            pooled.append([acc_e, acc_o])
    tot_e = sum(e for e, _ in pooled)
    pooled = [[e * (N - sum(hist[k] for k in impossible)) / tot_e, o] for e, o in pooled] if tot_e > 0 else pooled
    if len(pooled) < 2:
        return 1.0, 0.0, 0, impossible
    stat = sum((o - e) ** 2 / e for e, o in pooled)
    df = len(pooled) - 1
    return float(chi2.sf(stat, df)), stat, df, impossible


ALPHA = 1e-9


def run(ctx):
    ctx.coq_props()
    rng = ctx.rng
    quick = ctx.tier == "quick"
    n_det = 500 if quick else 6000
    n_jax = 6 if quick else 80
    n_valid = 32 if quick else 400
    n_stat = 9 if quick else 40
    nshots = 20000 if quick else 1000000

    det = [dict(c) for c in CORPUS]
    while len(det) < n_det:
        det.append(gen_det(rng, jax=len(det) < len(CORPUS) + n_jax))
    valid = [dict(c) for c in VALID_CORPUS] + [gen_valid(rng, i) for i in range(n_valid)]
    stat = [gen_stat(rng, i, nshots) for i in range(n_stat)]
    shots_cases = [dict(c) for c in SHOTS_CORPUS]
    while len(shots_cases) < (60 if quick else 600):
        shots_cases.append(gen_shots_case(rng))
    if getattr(ctx, "replay", None):
        rp = ctx.replay.get("replay", {})
        if rp.get("stream") == "det":
            det = [rp["case"]] + det[:20]
        elif rp.get("stream") == "valid":
            valid = [rp["case"]] + valid[:5]
        elif rp.get("stream") == "stat":
            stat = [rp["case"]] + stat[:2]
        elif rp.get("stream") == "shots":
            shots_cases = [rp["case"]] + shots_cases[:5]
    obs = ctx.run_impl("c29_impl.py", {"det": det, "valid": valid, "stat": stat, "shots": shots_cases}, timeout=3000)

    # ---------------- shot specifications: Shots(spec) and sums of Shots against the documented expansion
    shist = {"cases": len(shots_cases), "with_pairs": 0, "sums": 0, "equal_value_merges": 0}
    for c, o in zip(shots_cases, obs["shots"]):
        shist["with_pairs"] += any(isinstance(op, list) and any(isinstance(e, list) for e in op) for op in c["ops"])
        shist["sums"] += len(c["ops"]) > 1
        flat_all = sum((expand_spec(op) for op in c["ops"]), [])
        shist["equal_value_merges"] += len(rle(flat_all)) < len(flat_all)
        for msg in direct_shots(c, o):
            ctx.violation("shots:" + json.dumps(c, sort_keys=True), {"stream": "shots", "case": c, "observed": o, "complaint": msg},
                          what=msg)

    # ---------------- deterministic tie
    terms, idx_map = [], []
    hist = {"state": 0, "measure": 0, "numpy": 0, "numpyB": 0, "jax": 0, "errors": 0, "batched": 0,
            "partitioned": 0, "copies_pairs": 0, "permuted_wires": 0, "boundary_u": 0, "zero_prob_entries": 0, "obs_measurements": 0}
    nontrivial = set()
    for i, (c, o) in enumerate(zip(det, obs["det"])):
        key = json.dumps(c, sort_keys=True)
        hist[c["kind"]] += 1
        hist[c["backend"]] += 1
        if "crash" in o or "struct" in o:
            ctx.violation("det:" + key, {"stream": "det", "case": c, "observed": o},
                          what="sampling function failed or returned a malformed result: " + str(o)[:200])
            continue
        D = 4 ** c["k"]
        pc, exact = int_pcalls(o.get("pcalls"), D)
        if not exact:
            ctx.violation("det-p:" + key, {"stream": "det", "case": c, "observed": o},
                          what="probability vector handed to choice is not the exact marginal (not a multiple of 1/D)")
        for msg in direct_det(c, o):
            ctx.violation("direct:" + key, {"stream": "det", "case": c, "observed": o, "complaint": msg}, what=msg)
        terms.append(f"({g_case(c, o)}, {g_out(c, o, pc)})")
        idx_map.append(i)
        if "err" in o:
            hist["errors"] += 1
        else:
            ws = c.get("wires") if c["kind"] == "state" else None
            hist["batched"] += bool(c.get("batched"))
            hist["partitioned"] += bool(c["kind"] == "measure" and len(c["sv"]) > 1)
            hist["copies_pairs"] += "svspec" in c
            hist["permuted_wires"] += bool(ws and ws != sorted(ws)) + bool(
                c["kind"] == "measure" and any(m["ws"] != sorted(m["ws"]) for m in c["mps"]))
            hist["obs_measurements"] += bool(c["kind"] == "measure" and any("obs" in m["t"] for m in c["mps"]))
            w0 = weights(c["states"][0])
            hist["zero_prob_entries"] += 0 in w0
            cum, acc = set(), 0
            for x in marg(w0, c["n"], (ws or list(range(c["n"])))):
                acc += x; cum.add(Fraction(acc, sum(w0)))
            hist["boundary_u"] += any(Fraction(a, b) in cum for a, b in c["us"])
            if sum(1 for x in w0 if x) > 1:
                nontrivial.add(key)
    bad = ctx.coq_eval_cases("cases", HEADER, terms, "check_case")
    for j in bad:
        c, o = det[idx_map[j]], obs["det"][idx_map[j]]
        ctx.violation("corr:" + json.dumps(c, sort_keys=True),
                      {"stream": "det", "case": c, "implementation": o, "model": "coq/Gen/C29 (model output differs)"},
                      what="sample_state / measure_with_samples differs from the proved model on the same uniform variates")

    # ---------------- validity with the real generators
    vhist = {"numpy": 0, "jax": 0, "mixed": 0, "shot_vectors": 0, "copies_pairs": 0, "broadcast": 0, "measurements": 0}
    for c, o in zip(valid, obs["valid"]):
        vhist[c["dev"]] += 1
        vhist["copies_pairs"] += "svspec" in c
        vhist["broadcast"] += "batch" in c
        vhist["shot_vectors"] += len(c["sv"]) > 1
        vhist["measurements"] += len(c["mps"])
        if o.get("unwrapped_single_counts"):
            ctx.violation("finding:broadcast_single_counts_not_a_1_tuple", {"stream": "valid", "case": c,
                          "reproduce": "f = qp.set_shots(qp.QNode(lambda x: (qp.RY(x, 0), (qp.counts(wires=[0]),))[1], qp.device('default.qubit', wires=1)), 50); type(f(np.array([0.1, 0.2, 0.3])))  # list of 3 dicts, not a 1-tuple"},
                          what="a QNode whose quantum function returns the 1-tuple (qp.counts(...),) loses the tuple when called with a broadcast parameter")
        for msg in direct_valid(c, o):
            ctx.violation("valid:" + json.dumps(c, sort_keys=True), {"stream": "valid", "case": c, "observed": o, "complaint": msg},
                          what=msg)

    # ---------------- statistics
    tests, min_p = 0, 1.0
    for c, o in zip(stat, obs["stat"]):
        key = "stat:" + json.dumps(c, sort_keys=True)
        if "crash" in o:
            ctx.violation(key, {"stream": "stat", "case": c, "observed": o}, what="execution raised " + o["crash"])
            continue
        for s, h, oh in zip(c["sv"], o["hists"], o["ohists"]):
            if sum(h) != s:
                ctx.violation(key, {"stream": "stat", "case": c, "hist": h}, what=f"{sum(h)} samples for {s} shots")
                continue
            pv, st, df, imp = chi_square(h, o["p"])
            tests += 1
            min_p = min(min_p, pv)
            if imp:
                ctx.violation(key, {"stream": "stat", "case": c, "hist": h, "p": o["p"]},
                              what=f"outcomes {imp} of exact probability 0 were sampled")
            if pv < ALPHA:
                ctx.violation(key, {"stream": "stat", "case": c, "hist": h, "p": o["p"], "chi2": st, "df": df, "p_value": pv},
                              what=f"bitstring samples ({c['dev']}) reject the exact distribution: chi2={st:.1f} df={df} p={pv:.2e}")
            for (plus, minus), pp in zip(oh, o["pplus"]):
                if plus + minus != s:
                    ctx.violation(key, {"stream": "stat", "case": c, "obs_hist": [plus, minus]},
                                  what="observable samples are not all +-1 / wrong number of samples")
                    continue
                pv, st, df, imp = chi_square([plus, minus], [pp, 1 - pp])
                tests += 1
                min_p = min(min_p, pv)
                if imp or pv < ALPHA:
                    ctx.violation(key, {"stream": "stat", "case": c, "obs_hist": [plus, minus], "p_plus": pp, "p_value": pv},
                                  what=f"eigenvalue samples ({c['dev']}) reject the exact distribution: P(+1)={pp:.6f} observed {plus}/{s} p={pv:.2e}")

    for c, o in zip(stat, obs["stat"]):
        if "crash" in o or not o.get("vhists"):
            continue
        key = "statv:" + json.dumps(c, sort_keys=True)
        for s_, vh in zip(c["sv"], o["vhists"]):
            if vh[4] or sum(vh[:4]) != s_:
                ctx.violation(key, {"stream": "stat", "case": c, "value_hist": vh}, what="samples of Hermitian(diag(1,2,3,4)) are not all eigenvalues / wrong number of samples")
                continue
            pv, st, df, imp = chi_square(vh[:4], o["pv"])
            tests += 1
            min_p = min(min_p, pv)
            if imp or pv < ALPHA:
                ctx.violation(key, {"stream": "stat", "case": c, "value_hist": vh[:4], "p": o["pv"], "p_value": pv},
                              what=f"eigenvalue samples of a two-wire observable with distinct eigenvalues ({c['dev']}) reject the exact distribution (eigenvalue looked up at the wrong basis index?) p={pv:.2e}")

    ctx.coverage.update({
        "evaluations": len(det) + len(valid) + len(stat) + len(shots_cases),
        "distinct_nontrivial": len(nontrivial),
        "rule": "det: dyadic random states (n<=4, Gaussian-integer amplitudes/2^k, zero entries allowed), wire subsets in random order, batches, shot vectors with repeats (ints, and ~9% specifications with (shots, copies) pairs next to equal shot values), wire sample/counts or Z-word observables, uniforms incl. exact cdf boundaries, 0 and 1-2^-53; ~5% unnormalised and ~1.5% unknown-wire cases (error path); non-trivial = state with >1 non-zero outcome. valid/stat: random circuits through QNodes on default.qubit (numpy seed, JAX PRNGKey) and default.mixed, ~20% shot specifications with (shots, copies) pairs, ~25% called with a broadcast parameter batch (each entry judged against the scalar-parameter circuit); shots: Shots(spec) and sums of 1-3 Shots objects (iteration, total, shot_vector, copies, bins) against the expansion documented in the Shots docstring",
        "input_distribution": {"det": hist, "valid": vhist, "shots": shist,
                               "stat": {"cases": len(stat), "shots_per_case": nshots, "chi_square_tests": tests,
                                        "smallest_p_value": min_p, "alarm_threshold": ALPHA}},
    })
    for c, o in list(zip(det, obs["det"]))[:3]:
        ctx.sample({"case": c, "observed": {k: v for k, v in o.items() if k != "mpinfo"}})
    if stat:
        ctx.sample({"stat_case": stat[0], "observed": obs["stat"][0]})
