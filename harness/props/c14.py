"""C14 Unitary synthesis reproduces any unitary."""
from vlib import *
import math, cmath, hashlib
from fractions import Fraction as Fr
import numpy as np

PID = "C14"
META = {
    "level": "proof",
    "engine": "qsym-translator",
    "technique": "Coq reflection proofs (vm_compute over exact Laurent-polynomial matrices + soundness into C) that the circuit templates emitted by the synthesis equal their closed forms for ALL angle values; kernel-checked soundness of a fixed-point interval checker which then bounds |circuit - U| <= 1e-7 inside Coq for circuits returned by the real implementation on exact Q(zeta_8) and Haar unitaries; direct 1e-9 float oracle on every entry point",
    "design_ref": "DESIGN.md §3 C14",
    "text": "Part A (universal in the angles, regenerated from /repo every run): PennyLane's own one_qubit_decomposition is executed for every rotation convention (ZYZ, XYX, XZX, ZXZ, rot; with and without global phase) with the numerical angle extraction replaced by FORMAL angles; Coq proves that the emitted operator list multiplies to the closed form the extraction formulas assume (RZ(omega)RY(theta)RZ(phi), its basis-changed variants C.M.C^dagger, RZ(phi)RX(theta)RZ(lam), times e^{i alpha}), the four basis-change relations quoted in the code, the 3-CNOT central circuit (_central_circuit + GlobalPhase(e) = matrix C1 of the docstring, formal a,b,d,e), the 2-CNOT kernel CNOT.(RZ x RX).CNOT = V, the constant V = E^dagger.SWAP.CNOT.E of the 1-CNOT case, and the multiplexer: decompose_select_pauli_rot (RZ/CNOT Gray-code circuit with basis changes, axes Z, Y, X, 1-2 controls quick / 1-3 thorough, angles = the real compute_theta run on formal angles) equals the block-diagonal diag(R(alpha_0), ...) in the wire layout used by multi_qubit_decomp_rule. Theorem template_identity_forall_angles turns each obligation into a statement for every real angle. Static theorems: the four two-qubit skeletons have exactly 0,1,2,3 CNOTs and no other two-wire operator, any skeleton accepted by the per-run check is one of them (hence <= 3 CNOTs); interval_check_sound: for ALL complex gate matrices and unitaries inside the given enclosures, a passed check means every entry of (circuit - U) has modulus <= 1e-7 (fixed point 2^-60, outward rounding; add/mul lemmas; exact rationals are enclosed by the model's own rounding). Part B (per instance): identity, Cliffords, Clifford+T words, local products, controlled gates, SWAP-like, diagonal, QFT, 0/1/2/3-CNOT classes and degenerate canonical gates (all exact over Q(zeta_8): Pythagorean rotations and multiples of pi/4), Haar-random unitaries, perturbations at distance 1e-12..1e-3 and 0.03..0.3 from the structured ones, near-degenerate one-qubit unitaries; 1-3 qubits (4 thorough). Entry points: one_qubit_decomposition (5 conventions x global phase on/off), two_qubit_decomposition, multi_qubit_decomposition, QubitUnitary.decomposition()/compute_decomposition, the seven registered QubitUnitary rules, qp.transforms.decompose with the graph enabled (gate sets forcing each convention) and disabled. Every result: qp.matrix of the circuit AND an independent textbook-formula product vs U at 1e-9 (up to phase only for return_global_phase=False), CNOT count, skeleton/gate set checked inside Coq (check_skel), and for a sample the circuit is multiplied with interval arithmetic inside Coq against the EXACT U (check_dist); a sample of the cos/sin enclosures is re-proved with the Interval tactic.",
    "note": "NOT proved: the numerical angle extraction (arctan2/angle), KAK/eigen-decompositions, CNOT-class detection, cosine-sine decomposition - validated per instance only. Template obligations for 2-CNOT kernel and rot/theta=0 are constructed from the emission code by hand (the interleaved numerics cannot run on formal angles); the multiplexer gate ORDER comes from a numeric run of the real code and the angles from the real compute_theta on formal angles (matched by value). The outer local factors A,B,C,D of the two-qubit templates are arbitrary matrices returned as QubitUnitary: only checked per instance. Coq distance check: quick tier covers a stride sample (all n<=2 entry points by stride, 3-qubit one-level and a few fully decomposed circuits); enclosures of cos/sin come from mpmath interval arithmetic, re-proved by Interval only for a sample; the link float angle -> gate matrix (RZ = diag(e^{-it/2}, e^{it/2}) etc.) is the textbook definition, cross-checked against qp.matrix in float64. Finding keys (reported, not hidden): unitaries within ~1e-3 of a lower CNOT class are decomposed with error proportional to (and sometimes far larger than) that distance. Trusted: Coq kernel + stdlib real axioms, translator (qsym/qx/gradlib), mpmath, numpy.",
    "assumptions": ["gate matrices of RZ, RY, RX, Rot, GlobalPhase, CNOT, SelectPauliRot are the textbook ones (cross-checked against qp.matrix per result)",
                    "mpmath interval enclosures of cos/sin contain the true values (sample re-proved with the Interval tactic)",
                    "tolerance 1e-9 (float oracle) / 1e-7 (Coq) stands for 'equal'"],
    "trusted": ["harness/qsym.py, harness/qx.py, harness/gradlib.py (symbolic execution of PennyLane code for part A)", "mpmath.iv", "numpy float64 oracle"],
}

# ------------------------------------------------------------------ exact arithmetic in Q(zeta_8)
# element = (a, b, c, d)  meaning a + b z + c z^2 + d z^3,  z = exp(i pi/4), z^4 = -1
Z0 = (Fr(0),) * 4


def zq(q):
    return (Fr(q), Fr(0), Fr(0), Fr(0))


def zpow(k, q=1):
    k %= 8
    s = 1
    if k >= 4:
        k -= 4
        s = -1
    return tuple(Fr(s * q) if i == k else Fr(0) for i in range(4))


def zadd(x, y):
    return tuple(a + b for a, b in zip(x, y))


def zmul(x, y):
    r = [Fr(0)] * 4
    for i, a in enumerate(x):
        if a:
            for j, b in enumerate(y):
                if b:
                    k = i + j
                    if k >= 4:
                        r[k - 4] -= a * b
                    else:
                        r[k] += a * b
    return tuple(r)


def zscale(x, q):
    return tuple(a * q for a in x)


def zcplx(re, im):
    return (Fr(re), Fr(0), Fr(im), Fr(0))


_ZF = [cmath.exp(1j * math.pi * k / 4) for k in range(4)]
SQH = math.sqrt(0.5)


def zfloat(x):
    a, b, c, d = x
    return complex(float(a) + (float(b) - float(d)) * SQH, float(c) + (float(b) + float(d)) * SQH)


def xm_mul(A, B):
    n, m, p = len(A), len(B), len(B[0])
    out = []
    for i in range(n):
        row = []
        for j in range(p):
            acc = Z0
            for k in range(m):
                if any(A[i][k]) and any(B[k][j]):
                    acc = zadd(acc, zmul(A[i][k], B[k][j]))
            row.append(acc)
        out.append(row)
    return out


def xm_kron(A, B):
    return [[zmul(a, b) for a in ra for b in rb] for ra in A for rb in B]


def xm_id(d):
    return [[zq(1) if i == j else Z0 for j in range(d)] for i in range(d)]


def xm_scale(A, s):
    return [[zmul(s, a) for a in r] for r in A]


def xm_float(A):
    return np.array([[zfloat(a) for a in r] for r in A], dtype=complex)


def xm_prod(*Ms):
    R = Ms[0]
    for M in Ms[1:]:
        R = xm_mul(R, M)
    return R


def xm_ctrl(A):
    d = len(A)
    out = xm_id(2 * d)
    for i in range(d):
        for j in range(d):
            out[d + i][d + j] = A[i][j]
    return out


def xm_perm(p):
    d = len(p)
    return [[zq(1) if p[j] == i else Z0 for j in range(d)] for i in range(d)]


def xm_embed(A, wires, n):
    """A on `wires` (MSB first) of an n-wire register"""
    k = len(wires)
    D = 1 << n
    out = [[Z0] * D for _ in range(D)]
    for r in range(D):
        rb = [(r >> (n - 1 - i)) & 1 for i in range(n)]
        rs = 0
        for w in wires:
            rs = (rs << 1) | rb[w]
        for x in range(1 << k):
            cb = list(rb)
            for t, w in enumerate(wires):
                cb[w] = (x >> (k - 1 - t)) & 1
            c = 0
            for b in cb:
                c = (c << 1) | b
            out[r][c] = A[rs][x]
    return out


X_I = xm_id(2)
X_X = [[Z0, zq(1)], [zq(1), Z0]]
X_Y = [[Z0, zpow(6)], [zpow(2), Z0]]
X_Z = [[zq(1), Z0], [Z0, zq(-1)]]
_h = (Fr(0), Fr(1, 2), Fr(0), Fr(-1, 2))       # sqrt(2)/2
X_H = [[_h, _h], [_h, zscale(_h, -1)]]
X_S = [[zq(1), Z0], [Z0, zpow(2)]]
X_T = [[zq(1), Z0], [Z0, zpow(1)]]
X_CNOT = xm_perm([0, 1, 3, 2])
X_CNOT10 = xm_perm([0, 3, 2, 1])
X_SWAP = xm_perm([0, 2, 1, 3])
X_CZ = xm_ctrl(X_Z)
X_ISWAP = [[zq(1), Z0, Z0, Z0], [Z0, Z0, zpow(2), Z0], [Z0, zpow(2), Z0, Z0], [Z0, Z0, Z0, zq(1)]]
_p, _m = zcplx(Fr(1, 2), Fr(1, 2)), zcplx(Fr(1, 2), Fr(-1, 2))
X_SQSWAP = [[zq(1), Z0, Z0, Z0], [Z0, _p, _m, Z0], [Z0, _m, _p, Z0], [Z0, Z0, Z0, zq(1)]]
PYTH = [(3, 4, 5), (4, 3, 5), (5, 12, 13), (12, 5, 13), (8, 15, 17), (15, 8, 17), (7, 24, 25), (24, 7, 25), (20, 21, 29), (21, 20, 29),
        (9, 40, 41), (40, 9, 41), (11, 60, 61), (60, 11, 61), (99, 20, 101), (20, 99, 101), (1, 0, 1), (0, 1, 1), (-1, 0, 1), (0, -1, 1)]


def cs_pair(rng, special=0.3):
    """(cos, sin) as exact Q(zeta8) elements: Pythagorean rational pair, or a multiple of pi/4"""
    if rng.random() < special:
        k = rng.randrange(8)
        c = [zq(1), _h, Z0, zscale(_h, -1), zq(-1), zscale(_h, -1), Z0, _h][k]
        s = [Z0, _h, zq(1), _h, Z0, zscale(_h, -1), zq(-1), zscale(_h, -1)][k]
        return c, s
    p, q, r = rng.choice(PYTH)
    sg = rng.choice([1, -1])
    return zq(Fr(p, r)), zq(Fr(sg * q, r))


I_ = zpow(2)


def x_rz(cs):
    c, s = cs
    return [[zadd(c, zmul(zscale(I_, -1), s)), Z0], [Z0, zadd(c, zmul(I_, s))]]


def x_ry(cs):
    c, s = cs
    return [[c, zscale(s, -1)], [s, c]]


def x_rx(cs):
    c, s = cs
    mis = zmul(zscale(I_, -1), s)
    return [[c, mis], [mis, c]]


def x_su2(rng, special=0.3):
    return xm_prod(x_rz(cs_pair(rng, special)), x_ry(cs_pair(rng, special)), x_rz(cs_pair(rng, special)))


def x_u2(rng, special=0.3):
    return xm_scale(x_su2(rng, special), zpow(rng.randrange(8)))


def x_pp(P, cs):
    """exp(i a P) = cos a + i sin a P  for an exact involution P"""
    c, s = cs
    d = len(P)
    return [[zadd(zmul(c, zq(1) if i == j else Z0), zmul(zmul(I_, s), P[i][j])) for j in range(d)] for i in range(d)]


X_XX, X_YY, X_ZZ = xm_kron(X_X, X_X), xm_kron(X_Y, X_Y), xm_kron(X_Z, X_Z)


def x_canonical(a, b, c):
    return xm_prod(x_pp(X_XX, a), x_pp(X_YY, b), x_pp(X_ZZ, c))


def x_local2(rng, special=0.3):
    return xm_kron(x_u2(rng, special), x_u2(rng, special))


def x_phase_el(rng):
    if rng.random() < 0.5:
        return zpow(rng.randrange(8))
    p, q, r = rng.choice(PYTH)
    return zcplx(Fr(p, r), Fr(rng.choice([1, -1]) * q, r))


def x_diag(rng, d):
    ph = [x_phase_el(rng) for _ in range(d)]
    return [[ph[i] if i == j else Z0 for j in range(d)] for i in range(d)]


def x_word(rng, n, length, gates="HSTC"):
    U = xm_id(1 << n)
    for _ in range(length):
        g = rng.choice(gates)
        if g in "HST" or n == 1:
            M = {"H": X_H, "S": X_S, "T": X_T}.get(g, X_H)
            U = xm_mul(xm_embed(M, [rng.randrange(n)], n), U)
        else:
            a, b = rng.sample(range(n), 2)
            M = rng.choice([X_CNOT, X_CZ, X_SWAP])
            U = xm_mul(xm_embed(M, [a, b], n), U)
    return U


def PQ(p, q, r):
    return (zq(Fr(p, r)), zq(Fr(q, r)))


ZERO_CS = (zq(1), Z0)
HALFPI_CS = (Z0, zq(1))
QUARTPI_CS = (_h, _h)


# ------------------------------------------------------------------ case generation
def haar(nprng, d):
    z = (nprng.standard_normal((d, d)) + 1j * nprng.standard_normal((d, d))) / math.sqrt(2)
    q, r = np.linalg.qr(z)
    dg = np.diag(r)
    return q * (dg / np.abs(dg))


def herm(nprng, d):
    a = nprng.standard_normal((d, d)) + 1j * nprng.standard_normal((d, d))
    return (a + a.conj().T) / 2


def perturb(nprng, U, eps):
    from scipy.linalg import expm
    return U @ expm(1j * eps * herm(nprng, U.shape[0]))


def corpus1(rng):
    out = [("identity", X_I), ("clifford", X_X), ("clifford", X_Y), ("clifford", X_Z), ("clifford", X_H), ("clifford", X_S), ("cliffordT", X_T),
           ("clifford", xm_mul(X_H, X_S)), ("clifford", xm_mul(X_S, X_H)), ("minus-identity", xm_scale(X_I, zq(-1))),
           ("phase-identity", xm_scale(X_I, zpow(1))), ("antidiagonal", xm_scale(X_X, zpow(3))), ("antidiagonal", xm_mul(X_X, X_T)),
           ("diagonal", [[zpow(1), Z0], [Z0, zpow(5)]]), ("rot-theta-pi", x_ry((Z0, zq(1)))), ("rot-theta-pi", x_ry((Z0, zq(-1)))),
           ("rx-pi/2", x_rx(QUARTPI_CS)), ("ry-pi/2", x_ry(QUARTPI_CS))]
    return out


def corpus2(rng):
    c = lambda a, b, cc: x_canonical(a, b, cc)
    out = [("identity", xm_id(4)), ("clifford", X_CNOT), ("clifford", X_CNOT10), ("clifford", X_CZ), ("swap-like", X_SWAP), ("swap-like", X_ISWAP),
           ("swap-like", X_SQSWAP), ("minus-identity", xm_scale(xm_id(4), zq(-1))), ("phase-identity", xm_scale(xm_id(4), zpow(2))),
           ("local-product", xm_kron(X_H, X_T)), ("local-product", xm_kron(X_Z, X_Z)), ("local-product", xm_kron(X_X, X_Y)),
           ("controlled", xm_ctrl(X_H)), ("controlled", xm_ctrl(X_S)), ("controlled", xm_ctrl(X_T)), ("controlled", xm_ctrl(X_Y)),
           ("controlled", xm_ctrl(x_rz(PQ(4, 3, 5)))), ("controlled", xm_ctrl(x_ry(PQ(12, 5, 13)))),
           ("degenerate-canonical", c(QUARTPI_CS, ZERO_CS, ZERO_CS)), ("degenerate-canonical", c(QUARTPI_CS, QUARTPI_CS, ZERO_CS)),
           ("degenerate-canonical", c(QUARTPI_CS, QUARTPI_CS, QUARTPI_CS)), ("degenerate-canonical", c(HALFPI_CS, ZERO_CS, ZERO_CS)),
           ("degenerate-canonical", c(HALFPI_CS, QUARTPI_CS, ZERO_CS)), ("degenerate-canonical", c(HALFPI_CS, HALFPI_CS, HALFPI_CS)),
           ("class2", c(PQ(4, 3, 5), PQ(12, 5, 13), ZERO_CS)),
           ("class2", c(PQ(4, 3, 5), ZERO_CS, ZERO_CS)),
           ("class2", c(PQ(4, 3, 5), PQ(4, 3, 5), ZERO_CS)),
           ("class3", c(PQ(4, 3, 5), PQ(12, 5, 13), PQ(15, 8, 17))),
           ("class3", c(PQ(4, 3, 5), PQ(4, 3, 5), PQ(4, 3, 5))),
           ("class3", c(QUARTPI_CS, QUARTPI_CS, PQ(4, 3, 5))),
           ("diagonal", [[[zpow(1), zpow(3), zpow(5), zpow(7)][i] if i == j else Z0 for j in range(4)] for i in range(4)]),
           ("word", xm_prod(xm_kron(X_H, X_I), X_CNOT, xm_kron(X_T, X_H), X_CNOT10, xm_kron(X_S, X_T)))]
    return out


def corpus3(rng):
    tof = xm_perm([0, 1, 2, 3, 4, 5, 7, 6])
    fred = xm_perm([0, 1, 2, 3, 4, 6, 5, 7])
    ccz = xm_ctrl(X_CZ)
    w8 = [[zscale(zmul(zpow(j * k), _h), Fr(1, 2)) for k in range(8)] for j in range(8)]     # QFT: zeta^(jk)/sqrt8 = zeta^(jk) * (sqrt2/2)/2
    out = [("identity", xm_id(8)), ("clifford", tof), ("swap-like", fred), ("controlled", ccz), ("qft", w8),
           ("local-product", xm_kron(xm_kron(X_H, X_T), X_S)), ("controlled", xm_ctrl(X_SQSWAP)), ("controlled", xm_ctrl(xm_kron(X_H, X_H))),
           ("diagonal", [[zpow(i) if i == j else Z0 for j in range(8)] for i in range(8)])]
    return out


def gen_random_exact(rng, n):
    """(kind, exact matrix)"""
    if n == 1:
        k = rng.choice(["su2", "u2", "special", "word", "diag", "antidiag"])
        if k == "su2":
            return "pyth-su2", x_su2(rng)
        if k == "u2":
            return "pyth-u2", x_u2(rng)
        if k == "special":
            return "special-angles", x_u2(rng, special=1.0)
        if k == "word":
            return "cliffordT-word", x_word(rng, 1, rng.randrange(1, 9), "HST")
        if k == "diag":
            return "diagonal", x_diag(rng, 2)
        return "antidiagonal", xm_mul(X_X, x_diag(rng, 2))
    if n == 2:
        k = rng.choice(["local", "class1", "class2", "class3", "class3", "special3", "word", "diag", "swaplocal", "controlled"])
        L, R = x_local2(rng), x_local2(rng)
        if k == "local":
            return "local-product", L
        if k == "class1":
            return "class1", xm_prod(L, rng.choice([X_CNOT, X_CNOT10, X_CZ]), R)
        if k == "class2":
            return "class2", xm_prod(L, x_canonical(cs_pair(rng, 0.2), cs_pair(rng, 0.2), ZERO_CS), R)
        if k == "class3":
            return "class3", xm_prod(L, x_canonical(cs_pair(rng, 0.1), cs_pair(rng, 0.1), cs_pair(rng, 0.1)), R)
        if k == "special3":
            return "degenerate-canonical", xm_prod(L, x_canonical(cs_pair(rng, 1.0), cs_pair(rng, 1.0), cs_pair(rng, 1.0)), R)
        if k == "word":
            return "cliffordT-word", x_word(rng, 2, rng.randrange(2, 14))
        if k == "diag":
            return "diagonal", x_diag(rng, 4)
        if k == "swaplocal":
            return "swap-like", xm_prod(L, rng.choice([X_SWAP, X_ISWAP, X_SQSWAP]), R)
        return "controlled", xm_prod(xm_ctrl(x_u2(rng)), xm_kron(X_I, X_I)) if rng.random() < 0.5 else xm_embed(xm_ctrl(x_u2(rng)), [1, 0], 2)
    k = rng.choice(["local", "word", "diag", "ctrl", "mixed"])
    d = 1 << n
    if k == "local":
        M = x_u2(rng)
        for _ in range(n - 1):
            M = xm_kron(M, x_u2(rng))
        return "local-product", M
    if k == "word":
        return "cliffordT-word", x_word(rng, n, rng.randrange(3, 16))
    if k == "diag":
        return "diagonal", x_diag(rng, d)
    if k == "ctrl":
        sub = gen_random_exact(rng, n - 1)[1]
        M = xm_ctrl(sub)
        return "controlled", M
    M = xm_id(d)
    for _ in range(rng.randrange(2, 6)):
        if rng.random() < 0.5:
            M = xm_mul(xm_embed(x_u2(rng), [rng.randrange(n)], n), M)
        else:
            a, b = rng.sample(range(n), 2)
            M = xm_mul(xm_embed(rng.choice([X_CNOT, X_CZ, X_SWAP, X_ISWAP, x_canonical(cs_pair(rng), cs_pair(rng), cs_pair(rng))]), [a, b], n), M)
    return "mixed-exact", M


EPS1 = ["one:%s:%d" % (r, g) for r in ("ZYZ", "XYX", "XZX", "ZXZ", "rot") for g in (1, 0)] + \
       ["rule:zyz", "rule:zxz", "rule:xzx", "rule:xyx", "rule:rot", "legacy", "compute", "graph:zyz", "graph:xyx", "graph:zx", "graph:rot", "nograph:all"]
EPS2 = ["two", "rule:two", "legacy", "graph:all", "nograph:all"]
EPS3 = ["multi", "rule:multi", "legacy", "graph:all", "nograph:all"]


def ser_c(M):
    return [[[float(np.real(x)), float(np.imag(x))] for x in row] for row in np.asarray(M)]


# ------------------------------------------------------------------ own float semantics of the serialised operators
def _rot(c, s, kind):
    if kind == "Z":
        return np.array([[c - 1j * s, 0], [0, c + 1j * s]])
    if kind == "Y":
        return np.array([[c, -s], [s, c]], dtype=complex)
    return np.array([[c, -1j * s], [-1j * s, c]])


_FIXED = {"CNOT": [[1, 0, 0, 0], [0, 1, 0, 0], [0, 0, 0, 1], [0, 0, 1, 0]], "CZ": np.diag([1, 1, 1, -1]), "SWAP": [[1, 0, 0, 0], [0, 0, 1, 0], [0, 1, 0, 0], [0, 0, 0, 1]],
          "PauliX": [[0, 1], [1, 0]], "PauliY": [[0, -1j], [1j, 0]], "PauliZ": [[1, 0], [0, -1]], "Identity": [[1, 0], [0, 1]],
          "S": [[1, 0], [0, 1j]], "Adjoint(S)": [[1, 0], [0, -1j]], "Hadamard": [[SQH, SQH], [SQH, -SQH]]}


def np_op(o):
    """(wires, matrix) of a serialised operator, by the textbook formulas (independent of qp.matrix)"""
    nm, w = o["name"], list(o["wires"])
    if nm in ("RZ", "RY", "RX"):
        t = o["params"][0] / 2
        return w, _rot(math.cos(t), math.sin(t), nm[1])
    if nm == "Rot":
        phi, th, om = o["params"]
        c, s = math.cos(th / 2), math.sin(th / 2)
        return w, np.array([[cmath.exp(-0.5j * (phi + om)) * c, -cmath.exp(0.5j * (phi - om)) * s],
                            [cmath.exp(-0.5j * (phi - om)) * s, cmath.exp(0.5j * (phi + om)) * c]])
    if nm == "PhaseShift":
        return w, np.diag([1, cmath.exp(1j * o["params"][0])])
    if nm == "GlobalPhase":
        return [], np.array([[cmath.exp(-1j * o["params"][0])]])
    if nm == "QubitUnitary":
        return w, np.array([[complex(a, b) for a, b in r] for r in o["matrix"]])
    if nm == "SelectPauliRot":
        ws = list(o["control"]) + list(o["target"])
        d = 1 << len(ws)
        M = np.zeros((d, d), dtype=complex)
        for j, a in enumerate(o["angles"]):
            M[2 * j:2 * j + 2, 2 * j:2 * j + 2] = _rot(math.cos(a / 2), math.sin(a / 2), o["axis"])
        return ws, M
    if nm in _FIXED:
        return w, np.array(_FIXED[nm], dtype=complex)
    raise KeyError(nm)


def np_embed(M, wires, n):
    k = len(wires)
    if k == 0:
        return M[0, 0] * np.eye(1 << n)
    T = M.reshape((2,) * (2 * k))
    full = np.eye(1 << n, dtype=complex).reshape((2,) * (2 * n))
    # apply on the row indices `wires`
    out = np.tensordot(T, full, axes=(list(range(k, 2 * k)), wires))
    out = np.moveaxis(out, list(range(k)), wires)
    return out.reshape(1 << n, 1 << n)


def np_circuit(ops, n):
    M = np.eye(1 << n, dtype=complex)
    for o in ops:
        w, G = np_op(o)
        M = np_embed(G, w, n) @ M
    return M


# ------------------------------------------------------------------ rational enclosures (mpmath interval arithmetic)
GRID = 60


def _fr_mpf(t):
    s, man, exp, _ = t
    v = Fr(int(man)) * (Fr(2) ** int(exp))
    return -v if s else v


def _ends(x):
    a, b = x._mpi_
    lo, hi = _fr_mpf(a), _fr_mpf(b)
    K = 1 << GRID
    return Fr(math.floor(lo * K), K), Fr(math.ceil(hi * K), K)


def _iv():
    from mpmath import iv
    iv.prec = 110
    return iv


def enc_c(re, im):
    return (_ends(re), _ends(im))


def enc_pt(z):
    return ("float", complex(z))


TRIG = []        # (function, exact argument, enclosure) of every cos/sin enclosure handed to Coq for RZ/RY/RX/SelectPauliRot


def enc_op(o):
    """(wires, matrix of complex enclosures ((relo, rehi), (imlo, imhi))); floats are taken as the exact rationals they are"""
    iv = _iv()
    nm, w = o["name"], list(o["wires"])
    zero, one = iv.mpf(0), iv.mpf(1)
    Z = enc_c(zero, zero)

    def rot(a, kind):
        t = iv.mpf(a) / 2
        c, s = iv.cos(t), iv.sin(t)
        TRIG.append(("cos", Fr(a) / 2, _ends(c)))
        TRIG.append(("sin", Fr(a) / 2, _ends(s)))
        if kind == "Z":
            return [[enc_c(c, -s), Z], [Z, enc_c(c, s)]]
        if kind == "Y":
            return [[enc_c(c, zero), enc_c(-s, zero)], [enc_c(s, zero), enc_c(c, zero)]]
        return [[enc_c(c, zero), enc_c(zero, -s)], [enc_c(zero, -s), enc_c(c, zero)]]
    if nm in ("RZ", "RY", "RX"):
        return w, rot(o["params"][0], nm[1])
    if nm == "Rot":
        phi, th, om = [iv.mpf(x) for x in o["params"]]
        c, s = iv.cos(th / 2), iv.sin(th / 2)
        a, b = (phi + om) / 2, (phi - om) / 2
        return w, [[enc_c(iv.cos(a) * c, -iv.sin(a) * c), enc_c(-iv.cos(b) * s, -iv.sin(b) * s)],
                   [enc_c(iv.cos(b) * s, -iv.sin(b) * s), enc_c(iv.cos(a) * c, iv.sin(a) * c)]]
    if nm == "GlobalPhase":
        p = iv.mpf(o["params"][0])
        e = enc_c(iv.cos(p), -iv.sin(p))
        return [0], [[e, Z], [Z, e]]
    if nm == "QubitUnitary":
        return w, [[enc_pt(complex(a, b)) for a, b in r] for r in o["matrix"]]
    if nm == "SelectPauliRot":
        ws = list(o["control"]) + list(o["target"])
        d = 1 << len(ws)
        M = [[Z] * d for _ in range(d)]
        for j, a in enumerate(o["angles"]):
            R = rot(a, o["axis"])
            for r in range(2):
                for c in range(2):
                    M[2 * j + r][2 * j + c] = R[r][c]
        return ws, M
    if nm in ("CNOT", "CZ", "SWAP", "PauliX", "PauliY", "PauliZ", "Identity", "S", "Adjoint(S)"):
        return w, [[enc_pt(complex(x)) for x in r] for r in np.array(_FIXED[nm], dtype=complex)]
    raise KeyError(nm)


LIMB = 1 << 62


def gzb(n):
    """big integer as limbs of primitive 63-bit integers (cheap to parse for coqc)"""
    n = int(n)
    f = "zn" if n < 0 else "zp"
    n = abs(n)
    limbs = []
    while True:
        limbs.append(n % LIMB)
        n //= LIMB
        if not n:
            break
    return f"({f} [{'; '.join(map(str, limbs))}])"


KGRID = 1 << GRID


def g_fi(p):
    return f"({gzb(p[0] * KGRID)}, {gzb(p[1] * KGRID)})"


def g_float(x):
    num, den = float(x).as_integer_ratio()
    e = -(den.bit_length() - 1)
    return f"{gzb(num)} ({e})%Z"


def g_ci(e):
    if e[0] == "float":
        return f"(FP {g_float(e[1].real)} {g_float(e[1].imag)})"
    (a, b), (c, d) = e
    return "(G4 " + " ".join(gzb(x * KGRID) for x in (a, b, c, d)) + ")"


def g_igate(w, M):
    return "(mkG " + glist(w, gnat) + " " + glist(M, lambda r: glist(r, g_ci)) + ")"


def g_qz(q):
    q = Fr(q)
    return f"(QZ {gzb(q.numerator)} {gzb(q.denominator)})"


def g_z8(x):
    return "(Z8 " + " ".join(g_qz(v) for v in x) + ")"


def half_encl():
    iv = _iv()
    return _ends(iv.sqrt(iv.mpf(1) / 2))


GK = {"RZ": "GRZ", "RY": "GRY", "RX": "GRX", "Rot": "GRot", "CNOT": "GCNOT", "QubitUnitary": "GQU", "GlobalPhase": "GPhase"}


def g_skel(ops):
    out = []
    for o in ops:
        k = GK.get(o["name"])
        ws = o["wires"]
        if o["name"] == "SelectPauliRot":
            k = {"Z": "GSelZ", "Y": "GSelY"}.get(o["axis"], "GOther")
            ws = list(o["control"]) + list(o["target"])
        out.append(f"({k or 'GOther'}, {glist(ws, gnat)})")
    return "[" + "; ".join(out) + "]"


CONV = {"ZYZ": "CZYZ", "XYX": "CXYX", "XZX": "CXZX", "ZXZ": "CZXZ", "rot": "CRot", "zyz": "CZYZ", "xyx": "CXYX", "xzx": "CXZX", "zxz": "CZXZ"}


def g_entry(ep, n):
    if ep.startswith("graph:") or ep.startswith("nograph:"):
        return f"(EElementary {gnat(n)})"
    if n == 1:
        if ep.startswith("one:") or ep.startswith("rule:"):
            return f"(EOne {CONV[ep.split(':')[1]]})"
        return "(EOne CZYZ)"
    if n == 2:
        return "ETwo"
    return f"(EMulti {gnat(n)})"


HDR = "From Coq Require Import List ZArith Bool Uint63.\nFrom PLV Require Import Lin.Vec Num.SynthModel.\nImport ListNotations.\nOpen Scope uint63_scope."
TOL = 1e-9


def u_cols_exact(case):
    """columns of U as z8 entries: exact Q(zeta8) matrix if the case has one, else the float entries as dyadic rationals"""
    X = case.get("exact")
    d = 1 << case["n"]
    if X is not None:
        return [[X[r][c] for r in range(d)] for c in range(d)]
    U = case["Unp"]
    return [[(Fr(float(U[r, c].real)), Fr(0), Fr(float(U[r, c].imag)), Fr(0)) for r in range(d)] for c in range(d)]


# ------------------------------------------------------------------ cases
def _np_rot(phi, th, om):
    return np_op({"name": "Rot", "wires": [0], "params": [phi, th, om]})[1]


_XX = np.kron(np.array([[0, 1], [1, 0]]), np.array([[0, 1], [1, 0]])).astype(complex)


def _ising_xx(t):
    return math.cos(t / 2) * np.eye(4) - 1j * math.sin(t / 2) * _XX


def build_cases(ctx):
    rng = ctx.rng
    nprng = np.random.default_rng(ctx.seed * 7919 + 14)
    quick = ctx.tier == "quick"
    cases = []

    def add(n, kind, stream, U=None, exact=None, eps=None, delta=None):
        if U is None:
            U = xm_float(exact)
        c = {"n": n, "kind": kind, "stream": stream, "Unp": np.asarray(U, dtype=complex), "exact": exact, "delta": delta, "idx": len(cases)}
        if eps is None:
            i = sum(1 for x in cases if x["n"] == n)
            if n == 1:
                eps = [e for e in EPS1 if not e.startswith("graph")] + ([e for e in EPS1 if e.startswith("graph")][i % 4:i % 4 + 1] if i % 2 == 0 or not quick else [])
            elif n == 2:
                eps = list(EPS2) if (i % 2 == 0 or not quick) else EPS2[:3]
            else:
                eps = list(EPS3) if (i % 3 == 0 or not quick) else EPS3[:3]
        c["eps"] = eps
        cases.append(c)
        return c
    # 0. deterministic witnesses of the recorded findings (always first)
    B = _np_rot(1.0, 2.0, 3.0)
    add(2, "witness:X(x)B.IsingXX(1e-5)", "near", U=np.kron(np.array([[0, 1], [1, 0]]), B) @ _ising_xx(1e-5), eps=["two", "rule:two"], delta=5e-6)
    add(2, "witness:A(x)B.IsingXX(1e-4)", "near", U=np.kron(_np_rot(0.3, 0.4, 0.5), B) @ _ising_xx(1e-4), eps=["two", "rule:two"], delta=5e-5)
    add(1, "witness:rot-theta-1e-8", "near", U=cmath.exp(0.3j) * _np_rot(0.7, 1e-8, -1.1), eps=["one:rot:1", "rule:rot"], delta=5e-9)
    # 1. corpus
    for kind, X in corpus1(rng):
        add(1, kind, "corpus", exact=X)
    for kind, X in corpus2(rng):
        add(2, kind, "corpus", exact=X)
    for kind, X in corpus3(rng):
        add(3, kind, "corpus", exact=X)
    # 2. random exact / Haar
    nx = {1: 12, 2: 30, 3: 3, 4: 0} if quick else {1: 60, 2: 200, 3: 24, 4: 3}
    nh = {1: 8, 2: 16, 3: 3, 4: 0} if quick else {1: 40, 2: 150, 3: 16, 4: 3}
    for n in (1, 2, 3, 4):
        for _ in range(nx[n]):
            kind, X = gen_random_exact(rng, n)
            add(n, kind, "exact", exact=X)
        for _ in range(nh[n]):
            add(n, "haar", "haar", U=haar(nprng, 1 << n))
    # 3. near / moderate streams (two qubits): perturbations of structured matrices
    base2 = [c for c in cases if c["n"] == 2 and c["stream"] in ("corpus", "exact")]
    levels = [1e-12, 1e-10, 1e-9, 1e-8, 1e-7, 1e-6, 1e-5, 1e-4, 1e-3]
    for _ in range(36 if quick else 300):
        b = rng.choice(base2)
        e = rng.choice(levels)
        H = herm(nprng, 4)
        from scipy.linalg import expm
        add(2, f"near:{b['kind']}:{e:g}", "near", U=b["Unp"] @ expm(1j * e * H), eps=["two", "rule:two"][:1 if quick else 2], delta=e * float(np.linalg.norm(H, 2)))
    for _ in range(10 if quick else 80):
        b = rng.choice(base2)
        e = rng.choice([0.03, 0.1, 0.3])
        add(2, f"moderate:{b['kind']}:{e:g}", "moderate", U=perturb(nprng, b["Unp"], e), eps=["two"])
    # 4. near-degenerate one-qubit unitaries (theta close to 0, pi, 2 pi)
    for _ in range(8 if quick else 60):
        d = rng.choice([1e-12, 1e-10, 1e-9, 1e-8, 3e-8, 1e-7, 1e-6])
        th = rng.choice([d, math.pi - d, math.pi + d, 2 * math.pi - d])
        U = cmath.exp(1j * rng.uniform(-3, 3)) * _np_rot(rng.uniform(-6, 6), th, rng.uniform(-6, 6))
        add(1, f"near:theta={th!r}", "near", U=U, eps=[e for e in EPS1 if not e.startswith("graph")], delta=d)
    return cases


def case_hash(c):
    return hashlib.sha1(json.dumps(ser_c(c["Unp"])).encode()).hexdigest()[:10]


def up_to_phase_err(M, U):
    k = int(np.argmax(np.abs(U)))
    ph = U.flat[k] / M.flat[k] if abs(M.flat[k]) > 1e-12 else 1.0
    ph = ph / abs(ph)
    return float(np.abs(M * ph - U).max()), cmath.phase(ph)


def run(ctx):
    from concurrent.futures import ThreadPoolExecutor
    ctx.coq_props()
    TRIG.clear()
    quick = ctx.tier == "quick"
    tpool = ThreadPoolExecutor(max_workers=1)
    t_tmpl0 = time.time()
    tmpl_future = tpool.submit(run_templates, ctx)       # part A runs concurrently with part B
    cases = build_cases(ctx)
    if getattr(ctx, "replay", None):
        rp = ctx.replay.get("replay", {})
        if "U" in rp:
            cases = [{"n": rp["n"], "kind": rp.get("kind", "replay"), "stream": rp.get("stream", "exact"), "exact": None, "delta": rp.get("delta"),
                      "Unp": np.array([[complex(a, b) for a, b in r] for r in rp["U"]]), "eps": [rp["ep"]], "idx": 0}]
    # ---- run the implementation (parallel workers)
    NW = 6
    order = sorted(range(len(cases)), key=lambda i: -(4 ** cases[i]["n"]) * len(cases[i]["eps"]))
    parts = [order[k::NW] for k in range(NW)]
    parts = [p for p in parts if p]

    def work(p):
        return ctx.run_impl("c14_impl.py", {"mode": "synth", "cases": [{"n": cases[i]["n"], "U": ser_c(cases[i]["Unp"]), "eps": cases[i]["eps"]} for i in p]}, timeout=3000)
    t0 = time.time()
    results = [None] * len(cases)
    with ThreadPoolExecutor(max_workers=NW) as ex:
        for p, o in zip(parts, ex.map(work, parts)):
            for i, r in zip(p, o["results"]):
                results[i] = r
    t_impl = time.time() - t0
    # ---- B(i): direct oracle
    stats = {"results": 0, "raised": 0, "by_stream": {}, "by_n": {}, "cnot_hist": {}, "max_err": {}, "findings": {}}
    skel_terms, skel_ref, dist_terms, dist_ref = [], [], [], []
    h = half_encl()
    for c, rs in zip(cases, results):
        n, U = c["n"], c["Unp"]
        for r in rs:
            ep = r["ep"]
            stats["results"] += 1
            stats["by_stream"][c["stream"]] = stats["by_stream"].get(c["stream"], 0) + 1
            stats["by_n"][str(n)] = stats["by_n"].get(str(n), 0) + 1
            rep = {"n": n, "kind": c["kind"], "stream": c["stream"], "ep": ep, "U": ser_c(U), "delta": c["delta"]}
            near = c["stream"] == "near"

            def report(what, err=None, base="synth"):
                if near and err is not None:
                    sev = "precision-loss" if err <= 10 * c["delta"] else "wrong-circuit"
                    key = f"finding:{'two' if n == 2 else 'one'}-qubit-near-{'class-boundary' if n == 2 else 'degenerate'}:{sev}"
                    stats["findings"][key] = stats["findings"].get(key, 0) + 1
                else:
                    key = f"{base}:{ep}:{c['kind'].split(':')[0]}:{case_hash(c)}"
                ctx.violation(key, dict(rep, error=err, ops=r.get("ops")), what=what)
            if "raised" in r:
                stats["raised"] += 1
                report(f"{ep} raised on a {n}-qubit unitary ({c['kind']}): {r['raised']}", base="raised")
                continue
            ops = r["ops"]
            phase_free = ep.startswith("one:") and ep.endswith(":0")
            try:
                M = np_circuit(ops, n)
            except KeyError as e:
                report(f"{ep} returned an operator outside the documented gate set: {e}", base="gateset")
                continue
            if phase_free:
                own, ph = up_to_phase_err(M, U)
                impl = r["err_phase"]
            else:
                own, impl, ph = float(np.abs(M - U).max()), r["err"], None
            err = max(own, impl)
            k = (n, ep.split(":")[0])
            stats["max_err"]["%d:%s" % k] = max(stats["max_err"].get("%d:%s" % k, 0.0), err if not near else 0.0)
            ncnot = sum(1 for o in ops if o["name"] == "CNOT")
            nent = sum(1 for o in ops if len(o["wires"]) >= 2)
            if n == 2:
                stats["cnot_hist"][str(nent)] = stats["cnot_hist"].get(str(nent), 0) + 1
                if nent > 3:
                    report(f"{ep}: two-qubit synthesis used {nent} two-qubit gates", base="cnots")
            if abs(own - impl) > 1e-10 + 1e-6 * max(own, impl):
                report(f"{ep}: qp.matrix of the returned circuit disagrees with the textbook matrices of its gates ({impl:.3e} vs {own:.3e})", base="semantics")
            if not (err <= TOL):
                report(f"{ep} on a {n}-qubit unitary ({c['kind']}): returned circuit differs from U by {err:.3e}" + (" up to global phase" if phase_free else " (global phase included)"), err=err)
            # discrete tie (all results)
            skel_terms.append(f"({g_entry(ep, n)}, {g_skel(ops)}, {gnat(ncnot)})")
            skel_ref.append((c, r))
            # numeric tie inside Coq (sample)
            n3 = sum(1 for cc, _ in dist_ref if cc["n"] >= 3)
            stats["results_n%d" % n] = stats.get("results_n%d" % n, 0) + 1
            stride = {1: 6, 2: 3}.get(n, 1) if quick else {1: 3, 2: 2}.get(n, 1)
            sel = (n <= 2 and stats["results_n%d" % n] % stride == 0) or (n == 3 and ep == "multi" and (n3 < 4 or not quick)) \
                or (n == 3 and ep == "graph:all" and n3 < (5 if quick else 14))
            if err <= TOL and sel:
                try:
                    gates = [enc_op(o) for o in ops]
                except KeyError:
                    continue
                if phase_free:
                    gates.append(enc_op({"name": "GlobalPhase", "wires": [], "params": [-ph]}))
                cols = u_cols_exact(c)
                dist_terms.append(f"(DC {gnat(n)} {glist(gates, lambda g: g_igate(*g))}\n {glist(cols, lambda col: glist(col, g_z8))} {g_fi(h)})")
                dist_ref.append((c, r))
    t1 = time.time()
    bad = ctx.coq_eval_cases("skel", HDR, skel_terms, "check_skel", chunk=400)
    for i in bad:
        c, r = skel_ref[i]
        key = f"skeleton:{r['ep']}:{c['kind'].split(':')[0]}:{case_hash(c)}"
        ctx.violation(key, {"n": c["n"], "kind": c["kind"], "ep": r["ep"], "U": ser_c(c["Unp"]), "ops": r["ops"], "stream": c["stream"], "delta": c["delta"]},
                      what=f"{r['ep']}: the emitted circuit {[o['name'] for o in r['ops']]} is not an instance of the documented template / gate set / CNOT bound")
    t2 = time.time()
    badd = ctx.coq_eval_cases("dist", HDR, dist_terms, "check_dist", chunk=30, par=12)
    for i in badd:
        c, r = dist_ref[i]
        key = f"coq-distance:{r['ep']}:{c['kind'].split(':')[0]}:{case_hash(c)}"
        ctx.violation(key, {"n": c["n"], "kind": c["kind"], "ep": r["ep"], "U": ser_c(c["Unp"]), "ops": r["ops"], "stream": c["stream"], "delta": c["delta"]},
                      what=f"{r['ep']}: interval evaluation inside Coq cannot confirm |circuit - U| <= 1e-7")
    t2b = time.time()
    tmpl = tmpl_future.result()          # join part A before generating further obligations (ctx counters are not thread-safe)
    tpool.shutdown()
    # the cos/sin enclosures themselves (computed with mpmath) are re-proved inside Coq with the Interval tactic (sample)
    ntrig = 80 if quick else 800
    step = max(1, len(TRIG) // ntrig)
    trig = TRIG[::step][:ntrig]
    lem = [(f"encl_{i}", f"inF ({fn} (IZR ({a.numerator}) / IZR ({a.denominator}))) (({lo * KGRID})%Z, ({hi * KGRID})%Z)",
            "unfold inF, KR. cbn [fst snd]. change K with 1152921504606846976%Z. interval with (i_prec 120).") for i, (fn, a, (lo, hi)) in enumerate(trig)]
    tfail = ctx.coq_obligations("trig", TRIG_HDR, lem, chunk=40, par=4)
    for name, detail in tfail:
        ctx.broken_obligation("coq", "trig-enclosure:" + name, detail[-800:])
    t3 = time.time()
    ctx.coverage.update({
        "evaluations": stats["results"], "distinct_nontrivial": len({(case_hash(c), r["ep"]) for c, r in skel_ref if len(r["ops"]) > 1}),
        "rule": "one evaluation = one (unitary, entry point) synthesis; non-trivial = circuit with more than one operator",
        "input_distribution": {"by_stream": stats["by_stream"], "by_qubits": stats["by_n"],
                               "kinds": {k: sum(1 for c in cases if c["kind"].split(":")[0] == k) for k in sorted({c["kind"].split(":")[0] for c in cases})}},
        "two_qubit_entangler_histogram": stats["cnot_hist"], "max_error_outside_near_stream": {k: float("%.3g" % v) for k, v in stats["max_err"].items()},
        "raised": stats["raised"], "finding_hits": stats["findings"], "coq_skeleton_cases": len(skel_terms), "coq_distance_cases": len(dist_terms), "trig_enclosures_total": len(TRIG), "trig_enclosures_reproved_with_interval": len(trig) - len(tfail),
        "templates": tmpl, "timing_s": {"impl": round(t_impl, 1), "coq_skel": round(t2 - t1, 1), "coq_dist": round(t2b - t2, 1), "trig": round(t3 - t2b, 1)},
    })
    for c, r in dist_ref[:2]:
        ctx.sample({"n": c["n"], "kind": c["kind"], "ep": r["ep"], "ops": [o["name"] for o in r["ops"]], "err": r.get("err")})


TRIG_HDR = """From Coq Require Import Reals ZArith.
From Interval Require Import Tactic.
From PLV Require Import Num.SynthModel Num.SynthProofs.
Open Scope R_scope.
"""
THDR = """From Coq Require Import List ZArith QArith Bool.
From PLV Require Import Alg.Poly Lin.Vec Lin.PVec.
Import ListNotations.
Open Scope Q_scope.
"""
EXPECTED_TEMPLATES = ["one_%s_%s" % (r, g) for r in ("ZYZ", "XYX", "XZX", "ZXZ", "rot") for g in ("phase", "su2")] + \
    ["one_rot_theta0", "basis_xyx_rx", "basis_xyx_ry", "basis_xzx_rx", "basis_xzx_rz", "two_central_3cnot", "two_kernel_2cnot", "two_const_1cnot"]


def run_templates(ctx):
    """part A: circuit templates with formal angles, proved equal to their closed forms for all angle values"""
    sizes = [1, 2] if ctx.tier == "quick" else [1, 2, 3]
    try:
        out = ctx.run_impl("c14_impl.py", {"mode": "templates", "seed": ctx.seed, "mux_sizes": sizes}, timeout=1200)
    except RuntimeError as e:
        ctx.broken_obligation("tie", "templates", "template extraction with formal angles failed: " + str(e)[-1500:])
        return {"error": str(e)[-300:]}
    obl = out["obligations"]
    names = [o["name"] for o in obl]
    want = EXPECTED_TEMPLATES + [f"mux_{a}_{k}" for k in sizes for a in "ZYX"]
    for w in want:
        if w not in names:
            ctx.broken_obligation("tie", "template:" + w, "template could no longer be extracted with formal angles")
    failed = ctx.coq_obligations("tmpl", THDR, [(o["name"], o["stmt"], "vm_compute. reflexivity.") for o in obl], chunk=3, par=10)
    by = {o["name"]: o for o in obl}
    for name, detail in failed:
        o = by.get(name.replace("_file", ""))
        res = o["numeric_residual"] if o else None
        ctx.violation("template:" + name, {"template": name, "how": o and o["how"], "numeric_residual_at_random_angles": res,
                                           "no_longer_checks": None if (res or 0) > 1e-9 else f"generated lemma {name}", "coq": detail[-600:]},
                      found_input=bool(res and res > 1e-9),
                      what=f"circuit template {name} does not equal its closed form for all angles" + (f" (numeric residual {res:.2e} at random angles)" if res else ""))
    return {"obligations": len(obl), "failed": [n for n, _ in failed], "names": names,
            "max_numeric_residual": max([o["numeric_residual"] for o in obl] or [0])}
