"""C14 Unitary synthesis reproduces any unitary."""
from vlib import *
import math, cmath, hashlib
from fractions import Fraction as Fr
import numpy as np

PID = "C14"
META = {"level": "proof", "technique": "TODO", "design_ref": "DESIGN.md §3 C14", "text": "TODO", "note": "TODO",
        "assumptions": [], "trusted": []}

# ------------------------------------------------------------------ exact arithmetic in Q(zeta_8)
# element = (a, b, c, d)  meaning a + b z + c z^2 + d z^3,  z = exp(i pi/4), z^4 = -1
Z0 = (Fr(0),) * 4


def zq(q):
    return (Fr(q), Fr(0), Fr(0), Fr(0))


def zpow(k, q=1):
    k %= 8
    s = 1
    if k >= 4:
        k -= 4
        s = -1
    return tuple(Fr(s * q) if i == k else Fr(0) for i in range(4))


def zadd(x, y):
    return tuple(a + b for a, b in zip(x, y))


def zmul(x, y):
    r = [Fr(0)] * 4
    for i, a in enumerate(x):
        if a:
            for j, b in enumerate(y):
                if b:
                    k = i + j
                    if k >= 4:
                        r[k - 4] -= a * b
                    else:
                        r[k] += a * b
    return tuple(r)


def zscale(x, q):
    return tuple(a * q for a in x)


def zcplx(re, im):
    return (Fr(re), Fr(0), Fr(im), Fr(0))


_ZF = [cmath.exp(1j * math.pi * k / 4) for k in range(4)]
SQH = math.sqrt(0.5)


def zfloat(x):
    a, b, c, d = x
    return complex(float(a) + (float(b) - float(d)) * SQH, float(c) + (float(b) + float(d)) * SQH)


def xm_mul(A, B):
    n, m, p = len(A), len(B), len(B[0])
    out = []
    for i in range(n):
        row = []
        for j in range(p):
            acc = Z0
            for k in range(m):
                if any(A[i][k]) and any(B[k][j]):
                    acc = zadd(acc, zmul(A[i][k], B[k][j]))
            row.append(acc)
        out.append(row)
    return out


def xm_kron(A, B):
    return [[zmul(a, b) for a in ra for b in rb] for ra in A for rb in B]


def xm_id(d):
    return [[zq(1) if i == j else Z0 for j in range(d)] for i in range(d)]


def xm_scale(A, s):
    return [[zmul(s, a) for a in r] for r in A]


def xm_float(A):
    return np.array([[zfloat(a) for a in r] for r in A], dtype=complex)


def xm_prod(*Ms):
    R = Ms[0]
    for M in Ms[1:]:
        R = xm_mul(R, M)
    return R


def xm_ctrl(A):
    d = len(A)
    out = xm_id(2 * d)
    for i in range(d):
        for j in range(d):
            out[d + i][d + j] = A[i][j]
    return out


def xm_perm(p):
    d = len(p)
    return [[zq(1) if p[j] == i else Z0 for j in range(d)] for i in range(d)]


def xm_embed(A, wires, n):
    """A on `wires` (MSB first) of an n-wire register"""
    k = len(wires)
    D = 1 << n
    out = [[Z0] * D for _ in range(D)]
    for r in range(D):
        rb = [(r >> (n - 1 - i)) & 1 for i in range(n)]
        rs = 0
        for w in wires:
            rs = (rs << 1) | rb[w]
        for x in range(1 << k):
            cb = list(rb)
            for t, w in enumerate(wires):
                cb[w] = (x >> (k - 1 - t)) & 1
            c = 0
            for b in cb:
                c = (c << 1) | b
            out[r][c] = A[rs][x]
    return out


X_I = xm_id(2)
X_X = [[Z0, zq(1)], [zq(1), Z0]]
X_Y = [[Z0, zpow(6)], [zpow(2), Z0]]
X_Z = [[zq(1), Z0], [Z0, zq(-1)]]
_h = (Fr(0), Fr(1, 2), Fr(0), Fr(-1, 2))       # sqrt(2)/2
X_H = [[_h, _h], [_h, zscale(_h, -1)]]
X_S = [[zq(1), Z0], [Z0, zpow(2)]]
X_T = [[zq(1), Z0], [Z0, zpow(1)]]
X_CNOT = xm_perm([0, 1, 3, 2])
X_CNOT10 = xm_perm([0, 3, 2, 1])
X_SWAP = xm_perm([0, 2, 1, 3])
X_CZ = xm_ctrl(X_Z)
X_ISWAP = [[zq(1), Z0, Z0, Z0], [Z0, Z0, zpow(2), Z0], [Z0, zpow(2), Z0, Z0], [Z0, Z0, Z0, zq(1)]]
_p, _m = zcplx(Fr(1, 2), Fr(1, 2)), zcplx(Fr(1, 2), Fr(-1, 2))
X_SQSWAP = [[zq(1), Z0, Z0, Z0], [Z0, _p, _m, Z0], [Z0, _m, _p, Z0], [Z0, Z0, Z0, zq(1)]]
PYTH = [(3, 4, 5), (4, 3, 5), (5, 12, 13), (12, 5, 13), (8, 15, 17), (15, 8, 17), (7, 24, 25), (24, 7, 25), (20, 21, 29), (21, 20, 29),
        (9, 40, 41), (40, 9, 41), (11, 60, 61), (60, 11, 61), (99, 20, 101), (20, 99, 101), (1, 0, 1), (0, 1, 1), (-1, 0, 1), (0, -1, 1)]


def cs_pair(rng, special=0.3):
    """(cos, sin) as exact Q(zeta8) elements: Pythagorean rational pair, or a multiple of pi/4"""
    if rng.random() < special:
        k = rng.randrange(8)
        c = [zq(1), _h, Z0, zscale(_h, -1), zq(-1), zscale(_h, -1), Z0, _h][k]
        s = [Z0, _h, zq(1), _h, Z0, zscale(_h, -1), zq(-1), zscale(_h, -1)][k]
        return c, s
    p, q, r = rng.choice(PYTH)
    sg = rng.choice([1, -1])
    return zq(Fr(p, r)), zq(Fr(sg * q, r))


I_ = zpow(2)


def x_rz(cs):
    c, s = cs
    return [[zadd(c, zmul(zscale(I_, -1), s)), Z0], [Z0, zadd(c, zmul(I_, s))]]


def x_ry(cs):
    c, s = cs
    return [[c, zscale(s, -1)], [s, c]]


def x_rx(cs):
    c, s = cs
    mis = zmul(zscale(I_, -1), s)
    return [[c, mis], [mis, c]]


def x_su2(rng, special=0.3):
    return xm_prod(x_rz(cs_pair(rng, special)), x_ry(cs_pair(rng, special)), x_rz(cs_pair(rng, special)))


def x_u2(rng, special=0.3):
    return xm_scale(x_su2(rng, special), zpow(rng.randrange(8)))


def x_pp(P, cs):
    """exp(i a P) = cos a + i sin a P  for an exact involution P"""
    c, s = cs
    d = len(P)
    return [[zadd(zmul(c, zq(1) if i == j else Z0), zmul(zmul(I_, s), P[i][j])) for j in range(d)] for i in range(d)]


X_XX, X_YY, X_ZZ = xm_kron(X_X, X_X), xm_kron(X_Y, X_Y), xm_kron(X_Z, X_Z)


def x_canonical(a, b, c):
    return xm_prod(x_pp(X_XX, a), x_pp(X_YY, b), x_pp(X_ZZ, c))


def x_local2(rng, special=0.3):
    return xm_kron(x_u2(rng, special), x_u2(rng, special))


def x_phase_el(rng):
    if rng.random() < 0.5:
        return zpow(rng.randrange(8))
    p, q, r = rng.choice(PYTH)
    return zcplx(Fr(p, r), Fr(rng.choice([1, -1]) * q, r))


def x_diag(rng, d):
    ph = [x_phase_el(rng) for _ in range(d)]
    return [[ph[i] if i == j else Z0 for j in range(d)] for i in range(d)]


def x_word(rng, n, length, gates="HSTC"):
    U = xm_id(1 << n)
    for _ in range(length):
        g = rng.choice(gates)
        if g in "HST" or n == 1:
            M = {"H": X_H, "S": X_S, "T": X_T}.get(g, X_H)
            U = xm_mul(xm_embed(M, [rng.randrange(n)], n), U)
        else:
            a, b = rng.sample(range(n), 2)
            M = rng.choice([X_CNOT, X_CZ, X_SWAP])
            U = xm_mul(xm_embed(M, [a, b], n), U)
    return U


def PQ(p, q, r):
    return (zq(Fr(p, r)), zq(Fr(q, r)))


ZERO_CS = (zq(1), Z0)
HALFPI_CS = (Z0, zq(1))
QUARTPI_CS = (_h, _h)


# ------------------------------------------------------------------ case generation
def haar(nprng, d):
    z = (nprng.standard_normal((d, d)) + 1j * nprng.standard_normal((d, d))) / math.sqrt(2)
    q, r = np.linalg.qr(z)
    dg = np.diag(r)
    return q * (dg / np.abs(dg))


def herm(nprng, d):
    a = nprng.standard_normal((d, d)) + 1j * nprng.standard_normal((d, d))
    return (a + a.conj().T) / 2


def perturb(nprng, U, eps):
    from scipy.linalg import expm
    return U @ expm(1j * eps * herm(nprng, U.shape[0]))


def corpus1(rng):
    out = [("identity", X_I), ("clifford", X_X), ("clifford", X_Y), ("clifford", X_Z), ("clifford", X_H), ("clifford", X_S), ("cliffordT", X_T),
           ("clifford", xm_mul(X_H, X_S)), ("clifford", xm_mul(X_S, X_H)), ("minus-identity", xm_scale(X_I, zq(-1))),
           ("phase-identity", xm_scale(X_I, zpow(1))), ("antidiagonal", xm_scale(X_X, zpow(3))), ("antidiagonal", xm_mul(X_X, X_T)),
           ("diagonal", [[zpow(1), Z0], [Z0, zpow(5)]]), ("rot-theta-pi", x_ry((Z0, zq(1)))), ("rot-theta-pi", x_ry((Z0, zq(-1)))),
           ("rx-pi/2", x_rx(QUARTPI_CS)), ("ry-pi/2", x_ry(QUARTPI_CS))]
    return out


def corpus2(rng):
    c = lambda a, b, cc: x_canonical(a, b, cc)
    out = [("identity", xm_id(4)), ("clifford", X_CNOT), ("clifford", X_CNOT10), ("clifford", X_CZ), ("swap-like", X_SWAP), ("swap-like", X_ISWAP),
           ("swap-like", X_SQSWAP), ("minus-identity", xm_scale(xm_id(4), zq(-1))), ("phase-identity", xm_scale(xm_id(4), zpow(2))),
           ("local-product", xm_kron(X_H, X_T)), ("local-product", xm_kron(X_Z, X_Z)), ("local-product", xm_kron(X_X, X_Y)),
           ("controlled", xm_ctrl(X_H)), ("controlled", xm_ctrl(X_S)), ("controlled", xm_ctrl(X_T)), ("controlled", xm_ctrl(X_Y)),
           ("controlled", xm_ctrl(x_rz(PQ(4, 3, 5)))), ("controlled", xm_ctrl(x_ry(PQ(12, 5, 13)))),
           ("degenerate-canonical", c(QUARTPI_CS, ZERO_CS, ZERO_CS)), ("degenerate-canonical", c(QUARTPI_CS, QUARTPI_CS, ZERO_CS)),
           ("degenerate-canonical", c(QUARTPI_CS, QUARTPI_CS, QUARTPI_CS)), ("degenerate-canonical", c(HALFPI_CS, ZERO_CS, ZERO_CS)),
           ("degenerate-canonical", c(HALFPI_CS, QUARTPI_CS, ZERO_CS)), ("degenerate-canonical", c(HALFPI_CS, HALFPI_CS, HALFPI_CS)),
           ("class2", c(PQ(4, 3, 5), PQ(12, 5, 13), ZERO_CS)),
           ("class2", c(PQ(4, 3, 5), ZERO_CS, ZERO_CS)),
           ("class2", c(PQ(4, 3, 5), PQ(4, 3, 5), ZERO_CS)),
           ("class3", c(PQ(4, 3, 5), PQ(12, 5, 13), PQ(15, 8, 17))),
           ("class3", c(PQ(4, 3, 5), PQ(4, 3, 5), PQ(4, 3, 5))),
           ("class3", c(QUARTPI_CS, QUARTPI_CS, PQ(4, 3, 5))),
           ("diagonal", [[[zpow(1), zpow(3), zpow(5), zpow(7)][i] if i == j else Z0 for j in range(4)] for i in range(4)]),
           ("word", xm_prod(xm_kron(X_H, X_I), X_CNOT, xm_kron(X_T, X_H), X_CNOT10, xm_kron(X_S, X_T)))]
    return out


def corpus3(rng):
    tof = xm_perm([0, 1, 2, 3, 4, 5, 7, 6])
    fred = xm_perm([0, 1, 2, 3, 4, 6, 5, 7])
    ccz = xm_ctrl(X_CZ)
    w8 = [[zscale(zmul(zpow(j * k), _h), Fr(1, 2)) for k in range(8)] for j in range(8)]     # QFT: zeta^(jk)/sqrt8 = zeta^(jk) * (sqrt2/2)/2
    out = [("identity", xm_id(8)), ("clifford", tof), ("swap-like", fred), ("controlled", ccz), ("qft", w8),
           ("local-product", xm_kron(xm_kron(X_H, X_T), X_S)), ("controlled", xm_ctrl(X_SQSWAP)), ("controlled", xm_ctrl(xm_kron(X_H, X_H))),
           ("diagonal", [[zpow(i) if i == j else Z0 for j in range(8)] for i in range(8)])]
    return out


def gen_random_exact(rng, n):
    """(kind, exact matrix)"""
    if n == 1:
        k = rng.choice(["su2", "u2", "special", "word", "diag", "antidiag"])
        if k == "su2":
            return "pyth-su2", x_su2(rng)
        if k == "u2":
            return "pyth-u2", x_u2(rng)
        if k == "special":
            return "special-angles", x_u2(rng, special=1.0)
        if k == "word":
            return "cliffordT-word", x_word(rng, 1, rng.randrange(1, 9), "HST")
        if k == "diag":
            return "diagonal", x_diag(rng, 2)
        return "antidiagonal", xm_mul(X_X, x_diag(rng, 2))
    if n == 2:
        k = rng.choice(["local", "class1", "class2", "class3", "class3", "special3", "word", "diag", "swaplocal", "controlled"])
        L, R = x_local2(rng), x_local2(rng)
        if k == "local":
            return "local-product", L
        if k == "class1":
            return "class1", xm_prod(L, rng.choice([X_CNOT, X_CNOT10, X_CZ]), R)
        if k == "class2":
            return "class2", xm_prod(L, x_canonical(cs_pair(rng, 0.2), cs_pair(rng, 0.2), ZERO_CS), R)
        if k == "class3":
            return "class3", xm_prod(L, x_canonical(cs_pair(rng, 0.1), cs_pair(rng, 0.1), cs_pair(rng, 0.1)), R)
        if k == "special3":
            return "degenerate-canonical", xm_prod(L, x_canonical(cs_pair(rng, 1.0), cs_pair(rng, 1.0), cs_pair(rng, 1.0)), R)
        if k == "word":
            return "cliffordT-word", x_word(rng, 2, rng.randrange(2, 14))
        if k == "diag":
            return "diagonal", x_diag(rng, 4)
        if k == "swaplocal":
            return "swap-like", xm_prod(L, rng.choice([X_SWAP, X_ISWAP, X_SQSWAP]), R)
        return "controlled", xm_prod(xm_ctrl(x_u2(rng)), xm_kron(X_I, X_I)) if rng.random() < 0.5 else xm_embed(xm_ctrl(x_u2(rng)), [1, 0], 2)
    k = rng.choice(["local", "word", "diag", "ctrl", "mixed"])
    d = 1 << n
    if k == "local":
        M = x_u2(rng)
        for _ in range(n - 1):
            M = xm_kron(M, x_u2(rng))
        return "local-product", M
    if k == "word":
        return "cliffordT-word", x_word(rng, n, rng.randrange(3, 16))
    if k == "diag":
        return "diagonal", x_diag(rng, d)
    if k == "ctrl":
        sub = gen_random_exact(rng, n - 1)[1]
        M = xm_ctrl(sub)
        return "controlled", M
    M = xm_id(d)
    for _ in range(rng.randrange(2, 6)):
        if rng.random() < 0.5:
            M = xm_mul(xm_embed(x_u2(rng), [rng.randrange(n)], n), M)
        else:
            a, b = rng.sample(range(n), 2)
            M = xm_mul(xm_embed(rng.choice([X_CNOT, X_CZ, X_SWAP, X_ISWAP, x_canonical(cs_pair(rng), cs_pair(rng), cs_pair(rng))]), [a, b], n), M)
    return "mixed-exact", M


EPS1 = ["one:%s:%d" % (r, g) for r in ("ZYZ", "XYX", "XZX", "ZXZ", "rot") for g in (1, 0)] + \
       ["rule:zyz", "rule:zxz", "rule:xzx", "rule:xyx", "rule:rot", "legacy", "compute", "graph:zyz", "graph:xyx", "graph:zx", "graph:rot", "nograph:all"]
EPS2 = ["two", "rule:two", "legacy", "graph:all", "nograph:all"]
EPS3 = ["multi", "rule:multi", "legacy", "graph:all", "nograph:all"]


def ser_c(M):
    return [[[float(np.real(x)), float(np.imag(x))] for x in row] for row in np.asarray(M)]
