"""C25 Noise insertion and error mitigation follow their definitions."""
from fractions import Fraction
import math

from vlib import *

PID = "C25"
META = {
    "level": "proof",
    "technique": "Coq proofs (induction over circuits / models; group-law section; polynomial division over Q) about a Gallina transcription of fold_global, add_noise, insert and exact extrapolation + vm_compute correspondence against pennylane.noise",
    "design_ref": "DESIGN.md §3 C25",
    "text": "Kernel-checked theorems (Props/C25.v): fold_sem - in ANY group the product of the folded circuit equals the product of the original, for all circuits and all rational scale factors; fold_count - length = n(1+2k)+2m with the source's k (floor) and m (round-half-even), 0<=m<=n, and |len - s*n| <= 1 for s >= 1; add_noise_exact / insert_positions_exact - the output is the input with exactly the operators noise(op) for the pairs whose conditional holds placed after the operator (before it only for the part a noise function queues ahead of a re-queued op / before=True), in model order, erasing the inserted operators returns the input, nothing selected => unchanged; poly_extrapolate_exact - for n distinct nodes and data from ANY polynomial of degree <= n-1 over Q the interpolant at 0 is p(0) (all n). The executable model is evaluated inside Coq on the same random circuits / scale factors / noise models / data as the real fold_global, add_noise, insert, richardson_extrapolate, poly_extrapolate and the op sequences (names, wires, parameters, Adjoint nesting, Channel-ness) are compared exactly; extrapolation results are compared with the exact rational interpolant. Direct oracles: numeric unitary equality of folded circuits (<= 3 wires, 1e-9), zero-strength noise = noiseless on default.mixed (1e-9), polynomial data of degree <= order for order < n-1, exponential data a+b*exp(c*x), c<0 (1e-6).",
    "note": "Trusted: Coq kernel; the hand transcription coq/Disc/FoldModel.v is tied to /repo only by the correspondence run. The float least-squares numerics of _polyfit (normal equations + pinv) are not modelled: the model is the exact interpolant, and the tolerance is 1e-9 only for n<=2 nodes (1e-8 n=3, 1e-6 n=4, 1e-4 n=5) because _polyfit itself is not more accurate; order < n-1 and exponential_extrapolate are tie-only (exponentials restricted to decaying ones, c<0, |b|e^{cx} >= eps, which is the function's documented use). zero-strength identity of the built-in channels is checked numerically only (no QSym Kraus theorem here). Not modelled: add_noise meas_map (readout noise) and QNode `level` handling; the decompose() pre-pass of add_noise/insert (inputs contain no templates / Adjoint ops); qp.equal tolerance (parameter codes are multiples of 1/64); interfaces other than numpy.",
    "assumptions": ["scale factors are dyadic floats so that _divmod / round are exact in float arithmetic",
                    "add_noise / insert inputs contain no templates or Adjoint operators (decompose pre-pass is identity)",
                    "noise functions queue the original op at most once"],
    "trusted": ["hand-written model coq/Disc/FoldModel.v tied to /repo by correspondence only",
                "numpy float arithmetic for the direct numeric oracles (unitary equality, default.mixed, extrapolation)"],
}

NAMES = {"Operation": 0, "Channel": 1, "BasisState": 10, "StatePrep": 11, "RX": 12, "RY": 13, "RZ": 14,
         "PhaseShift": 15, "PauliX": 16, "PauliY": 17, "PauliZ": 18, "Hadamard": 19, "S": 20, "T": 21, "SX": 22,
         "CNOT": 23, "CZ": 24, "SWAP": 25, "CRX": 26, "Toffoli": 27, "IsingXX": 28,
         "AmplitudeDamping": 40, "PhaseDamping": 41, "DepolarizingChannel": 42, "BitFlip": 43, "PhaseFlip": 44}
G1P = ["RX", "RY", "RZ", "PhaseShift"]
G1 = ["PauliX", "PauliY", "PauliZ", "Hadamard", "S", "T", "SX"]
G2P = ["CRX", "IsingXX"]
G2 = ["CNOT", "CZ", "SWAP"]
CHANS = ["AmplitudeDamping", "PhaseDamping", "DepolarizingChannel", "BitFlip", "PhaseFlip"]
NWIRES = {**{n: 1 for n in G1P + G1 + CHANS}, **{n: 2 for n in G2P + G2}, "Toffoli": 3}
TOL = {1: 1e-9, 2: 1e-9, 3: 1e-8, 4: 1e-6, 5: 1e-4}


# ------------------------------------------------------------------ generators
def gen_gate(rng, nw, adj=False, names=None):
    r = rng.random()
    if nw >= 3 and r < 0.05:
        name = "Toffoli"
    elif nw >= 2 and r < 0.35:
        name = rng.choice(G2 + G2P)
    else:
        name = rng.choice(G1P + G1P + G1)
    if names:
        name = rng.choice(names)
    wires = rng.sample(range(nw), NWIRES[name])
    pc = rng.choice([8, 16, 32, -24, 100, rng.randint(-200, 200)]) if name in G1P + G2P else 0
    a = 0
    if adj:
        r = rng.random()
        a = 1 if r < 0.15 else (2 if r < 0.18 else 0)
    return ["b", name, wires, pc, a]


def gen_chan(rng, nw, zero=False):
    pc = 0 if zero else rng.choice([4, 8, 16, 32])      # strength pc/64 <= 0.5
    return ["c", rng.choice(CHANS), [rng.randrange(nw)], pc, 0]


def gen_scale(rng):
    q = rng.choice([1, 1, 2, 2, 4, 8, 16])
    r = rng.random()
    if r < 0.8:
        p = rng.randint(q, 7 * q)
    elif r < 0.9:
        p = rng.randint(-3 * q, q)
    else:
        p = q * rng.randint(1, 6) + rng.choice([0, q // 2])
    g = math.gcd(p, q) if p else q
    return p // g, q // g


def gen_fold(rng, thorough):
    unitary = rng.random() < (0.5 if not thorough else 0.6)
    nw = rng.randint(1, 3) if unitary else rng.randint(1, 5)
    n = rng.choice([0, 1, 2, 3, 4, 5, 6, 7, 8, 9, 11]) if not unitary else rng.randint(0, 6)
    ops = [gen_gate(rng, nw, adj=True) for _ in range(n)]
    if rng.random() < 0.04 and ops:
        ops[rng.randrange(len(ops))] = gen_chan(rng, nw)
        unitary = False
    p, q = gen_scale(rng)
    return {"kind": "fold", "ops": ops, "p": p, "q": q, "int": rng.random() < 0.5, "unitary": unitary, "nw": nw}


def gen_cond(rng, nw, depth=0):
    r = rng.random()
    if depth < 2 and r < 0.35:
        t = rng.choice(["and", "or", "xor", "not", "and", "or"])
        if t == "not":
            return ["not", gen_cond(rng, nw, depth + 1)]
        return [t, gen_cond(rng, nw, depth + 1), gen_cond(rng, nw, depth + 1)]
    r = rng.random()
    pool = G1P + G1 + G2 + G2P + ["Toffoli"]
    form = lambda: rng.choice(["str", "cls", "inst"])
    if r < 0.25:
        return ["op_eq", rng.choice(pool), form()]
    if r < 0.5:
        return ["op_in", [[rng.choice(pool), form()] for _ in range(rng.randint(1, 4))]]
    if r < 0.7:
        return ["wires_in", rng.sample(range(nw + 1), rng.randint(1, nw + 1))]
    if r < 0.88:
        return ["wires_eq", rng.sample(range(nw), rng.randint(1, min(nw, 2))), rng.random() < 0.5]
    return ["param_lt", rng.choice([0, 1, 16, 33, -10, 101])]


def gen_nfun(rng, nw, ops, zero=False, only_chan=False):
    if rng.random() < 0.55:
        return ["partial", rng.choice(CHANS), 0 if zero else rng.choice([4, 8, 16, 32])]
    items = []
    for _ in range(rng.randint(1, 3)):
        r = rng.random()
        if r < 0.45 or only_chan:
            items.append(["each", "c", rng.choice(CHANS), 0 if zero else rng.choice([4, 8, 16])])
        elif r < 0.6:
            items.append(["each", "b", rng.choice(G1P), 0 if zero else rng.choice([8, 16, -24])] if rng.random() < 0.6 or zero
                         else ["each", "b", rng.choice(G1), 0])
        elif r < 0.75:
            if zero:
                items.append(["fixed", gen_chan(rng, nw, zero=True)])
            elif ops and rng.random() < 0.4:
                items.append(["fixed", list(rng.choice(ops))])       # structurally equal to a circuit op
            else:
                items.append(["fixed", gen_chan(rng, nw) if rng.random() < 0.6 else gen_gate(rng, nw)])
        elif not zero:
            items.append(["copy", rng.choice(G1P)])
        else:
            items.append(["each", "c", rng.choice(CHANS), 0])
    if rng.random() < 0.35:
        items.insert(rng.randint(0, len(items)), ["self"])
    return ["custom", items]


def gen_noise(rng):
    nw = rng.randint(1, 4)
    ops = [gen_gate(rng, nw) for _ in range(rng.choice([0, 1, 2, 3, 4, 5, 6, 8]))]
    only_chan = rng.random() < 0.4
    model = [[gen_cond(rng, nw), gen_nfun(rng, nw, ops, only_chan=only_chan)] for _ in range(rng.choice([0, 1, 1, 2, 2, 3, 4]))]
    return {"kind": "noise", "ops": ops, "model": model, "nw": nw,
            "mw": rng.sample(range(nw + 1), rng.randint(0, 2))}


def gen_tmpl(rng, zero=False):
    r = rng.random()
    if r < 0.55:
        return {"func": False, "items": [["c", rng.choice(CHANS), 0 if zero else rng.choice([4, 8, 16, 32])]]}
    if r < 0.7:
        return {"func": False, "items": [["b", rng.choice(G1P), 0 if zero else rng.choice([8, 16])]] if rng.random() < 0.6 or zero
                else [["b", rng.choice(G1), 0]]}
    if r < 0.76 and not zero:
        return {"func": False, "items": [["b", rng.choice(G2 + G2P), 16]]}
    return {"func": True, "items": [(["c", rng.choice(CHANS), 0 if zero else rng.choice([4, 8, 16])] if rng.random() < 0.6
                                     else ["b", rng.choice(G1P), 0 if zero else rng.choice([8, -16])])
                                    for _ in range(rng.randint(1, 3))]}


def gen_pos(rng, ops):
    r = rng.random()
    if r < 0.2:
        return "start"
    if r < 0.4:
        return "end"
    if r < 0.62:
        return "all"
    if r < 0.66:
        return "middle"
    present = [g[1] for g in ops] or ["RX"]
    pool = present * 2 + ["Operation", "Channel", "BasisState", "RX", "CNOT", "Hadamard"]
    return [rng.choice(pool) for _ in range(rng.randint(1, 3))]


def gen_insert(rng):
    nw = rng.randint(1, 4)
    ops = [gen_gate(rng, nw) for _ in range(rng.choice([0, 1, 2, 3, 4, 5, 6]))]
    if rng.random() < 0.15 and ops:
        ops[rng.randrange(len(ops))] = gen_chan(rng, nw)            # circuits may already contain channels
    npre = rng.choice([0, 0, 0, 1, 1, 2])
    for _ in range(npre):
        ws = rng.sample(range(nw + 1), rng.randint(1, 2))
        ops.insert(0, ["b", "BasisState", ws, rng.randrange(2 ** len(ws)), 0])
    if rng.random() < 0.08 and len(ops) > npre:
        ops.insert(rng.randint(npre + 1, len(ops)), ["b", "BasisState", [0], 1, 0])   # not a leading prep
    pos = gen_pos(rng, ops)
    return {"kind": "insert", "ops": ops, "tmpl": gen_tmpl(rng), "pos": pos, "before": rng.random() < 0.4,
            "mw": rng.sample(range(nw + 2), rng.randint(0, 3)), "single": rng.random() < 0.5, "nw": nw}


def gen_zero(rng):
    nw = rng.randint(1, 3)
    ops = [gen_gate(rng, nw) for _ in range(rng.randint(1, 6))]
    if rng.random() < 0.5:
        model = [[gen_cond(rng, nw), gen_nfun(rng, nw, ops, zero=True)] for _ in range(rng.randint(1, 3))]
        if rng.random() < 0.6:
            model[0][0] = ["wires_in", list(range(nw))]
        return {"kind": "zero", "mode": "noise", "ops": ops, "model": model, "nw": nw}
    pos = rng.choice(["start", "end", "all", "all", [rng.choice([g[1] for g in ops])]])
    return {"kind": "zero", "mode": "insert", "ops": ops, "tmpl": gen_tmpl(rng, zero=True), "pos": pos,
            "before": rng.random() < 0.4, "nw": nw}


def gen_extrap(rng):
    n = rng.choice([1, 2, 2, 3, 3, 3, 4, 4, 5])
    pool = [Fraction(k) for k in range(1, 8)] if rng.random() < 0.6 else [Fraction(k, 2) for k in range(2, 9)]
    xs = rng.sample(pool, n)
    fn = rng.choice(["richardson", "poly", "poly"])
    order = n - 1 if fn == "richardson" or rng.random() < 0.5 else rng.randint(0, n - 1)
    deg = rng.randint(0, order)
    cs = [rng.randint(-3, 3) for _ in range(deg + 1)]
    ys = [sum(c * x ** i for i, c in enumerate(cs)) for x in xs]
    fr = lambda f: [f.numerator, f.denominator]
    return {"kind": "extrap", "fn": fn, "xs": [fr(x) for x in xs], "ys": [fr(y) for y in ys], "order": order,
            "cs": cs, "n": n}


def gen_expo(rng):
    n = rng.randint(2, 6)
    xs = sorted(rng.sample([k / 4 for k in range(4, 21)], n))
    asym = rng.random() < 0.6
    a = rng.randint(-8, 8) / 4 if asym else 0.0
    return {"kind": "expo", "xs": xs, "a": a, "b": rng.choice([-1, 1]) * rng.randint(1, 8) / 4,
            "c": -rng.randint(1, 8) / 8, "asym": asym}


# ------------------------------------------------------------------ Gallina printers
def g_gate(g):
    kind, name, wires, pc, adj = g
    code = NAMES.get(name, 9999)
    s = f"({'Chan' if kind == 'c' else 'Base'} {gz(code)} {glist(wires, gz)} {gz(pc)})"
    for _ in range(adj):
        s = f"(Adj {s})"
    return s


def g_ops(ops):
    return glist(ops, g_gate)


def g_oops(o):
    return "None" if o == "ERR" else f"(Some {g_ops(o['ops'])})"


def g_cond(c):
    t = c[0]
    if t == "op_eq":
        return f"(COpEq {gz(NAMES[c[1]])})"
    if t == "op_in":
        return f"(COpIn {glist([NAMES[n] for n, _ in c[1]], gz)})"
    if t == "wires_in":
        return f"(CWiresIn {glist(c[1], gz)})"
    if t == "wires_eq":
        return f"(CWiresEq {glist(c[1], gz)})"
    if t == "param_lt":
        return f"(CParamLt {gz(c[1])})"
    if t == "not":
        return f"(CNot {g_cond(c[1])})"
    return f"({ {'and': 'CAnd', 'or': 'COr', 'xor': 'CXor'}[t]} {g_cond(c[1])} {g_cond(c[2])})"


def g_item(it):
    if it[0] == "self":
        return "NSelf"
    if it[0] == "each":
        return f"(NEach {gbool(it[1] == 'c')} {gz(NAMES[it[2]])} {gz(it[3])})"
    if it[0] == "fixed":
        return f"(NFixed {g_gate(it[1])})"
    return f"(NCopy {gz(NAMES[it[1]])})"


def g_nfun(f):
    if f[0] == "partial":
        return f"(NPartial {gz(NAMES[f[1]])} {gz(f[2])})"
    return f"(NCustom {glist(f[1], g_item)})"


def g_pos(p):
    if isinstance(p, list):
        return f"(POps {glist([NAMES[n] for n in p], gz)})"
    return {"start": "PStart", "end": "PEnd", "all": "PAll"}.get(p, "PBad")


def g_case(c, o):
    k = c["kind"]
    if k == "fold":
        return f"TFold {g_ops(c['ops'])} {gz(c['p'])} {gz(c['q'])} {g_oops(o)}"
    if k == "noise":
        model = glist(c["model"], lambda cf: f"({g_cond(cf[0])}, {g_nfun(cf[1])})")
        return f"TNoise {model} {g_ops(c['ops'])} {g_ops(o['ops'])}"
    if k == "insert":
        t = c["tmpl"]
        nw = 1 if t["func"] else NWIRES[t["items"][0][1]]
        tm = glist(t["items"], lambda i: f"({gbool(i[0] == 'c')}, {gz(NAMES[i[1]])}, {gz(i[2])})")
        return (f"TInsert {gbool(t['func'])} {gz(nw)} {tm} {g_pos(c['pos'])} {gbool(c['before'])} "
                f"{g_ops(c['ops'])} {glist(c['mw'], gz)} {g_oops(o)}")
    if k == "extrap":
        d = glist(list(zip(c["xs"], c["ys"])), lambda xy: f"({gq(Fraction(*xy[0]))}, {gq(Fraction(*xy[1]))})")
        return f"TExtrap {d} {gq(Fraction(*o['res']))} {gq(Fraction(TOL[c['n']]).limit_denominator(10**12))}"
    raise KeyError(k)


# ------------------------------------------------------------------ direct oracles (property itself)
def fold_km(p, q, n):
    """k and m of the source, in exact rational arithmetic (independent of the Coq model)"""
    a = Fraction(p, q) - 1
    k = math.floor(a / 2)
    frac = a - 2 * k
    x = frac * n / 2
    f = math.floor(x)
    r = x - f
    m = f if r < Fraction(1, 2) else (f + 1 if r > Fraction(1, 2) else (f if f % 2 == 0 else f + 1))
    return k, m, r == Fraction(1, 2)


def only_channels_inserted(c):
    if c["kind"] == "noise":
        for _, f in c["model"]:
            if f[0] == "custom" and any(not (it[0] == "self" or (it[0] == "each" and it[1] == "c") or
                                             (it[0] == "fixed" and it[1][0] == "c")) for it in f[1]):
                return False
        return True
    return all(i[0] == "c" for i in c["tmpl"]["items"]) and all(g[0] == "b" for g in c["ops"])


def direct_oracle(c, o):
    k = c["kind"]
    if o == "ERR":
        if k == "fold":
            return any(g[0] == "c" for g in c["ops"]), "fold_global raised on a channel-free circuit"
        return True, ""
    if k == "fold":
        n = len(c["ops"])
        kk, m, _ = fold_km(c["p"], c["q"], n)
        if len(o["ops"]) != n * (1 + 2 * max(kk, 0)) + 2 * m:
            return False, "folded gate count differs from n(1+2k)+2m"
        if c["unitary"] and o.get("udiff", 0.0) > 1e-9:
            return False, "folded circuit has a different unitary"
        return True, ""
    if k in ("noise", "insert") and only_channels_inserted(c):
        if [g for g in o["ops"] if g[0] != "c"] != [g for g in c["ops"] if g[0] != "c"] and k == "noise":
            return False, "erasing the inserted channels does not give back the input circuit"
        if k == "insert" and [g for g in o["ops"] if g[0] != "c"] != c["ops"]:
            return False, "erasing the inserted channels does not give back the input circuit"
        return True, ""
    if k == "zero":
        return o["diff"] <= 1e-9, "zero-strength noise changes the result"
    if k == "extrap":
        return abs(Fraction(*o["res"]) - c["cs"][0]) <= Fraction(TOL[c["n"]]), "extrapolation of polynomial data is not p(0)"
    if k == "expo":
        return abs(o["res"] - (c["a"] + c["b"])) <= 1e-6, "exponential extrapolation of a+b*exp(cx) is not a+b"
    return True, ""


CORPUS = [
    {"kind": "fold", "ops": [["b", "RX", [0], 32, 0], ["b", "CNOT", [0, 1], 0, 0], ["b", "S", [1], 0, 1],
                             ["b", "RY", [1], 16, 0], ["b", "T", [0], 0, 0]], "p": 2, "q": 1, "int": True, "unitary": True, "nw": 2},
    {"kind": "fold", "ops": [["b", "RX", [0], 32, 0], ["b", "CNOT", [0, 1], 0, 0], ["b", "S", [1], 0, 1],
                             ["b", "RY", [1], 16, 0], ["b", "T", [0], 0, 0]], "p": 15, "q": 4, "int": False, "unitary": True, "nw": 2},
    {"kind": "fold", "ops": [["b", "RX", [0], 32, 0], ["b", "T", [0], 0, 0], ["b", "RZ", [0], 8, 0]], "p": 1, "q": 2,
     "int": False, "unitary": True, "nw": 1},
    {"kind": "fold", "ops": [["b", "Hadamard", [0], 0, 0], ["c", "BitFlip", [0], 8, 0]], "p": 3, "q": 1, "int": True,
     "unitary": False, "nw": 1},
    {"kind": "fold", "ops": [], "p": 5, "q": 2, "int": False, "unitary": True, "nw": 1},
    {"kind": "noise", "nw": 4, "mw": [0],
     "ops": [["b", "RX", [0], 32, 0], ["b", "CNOT", [0, 1], 0, 0], ["b", "RY", [1], 16, 0], ["b", "T", [3], 0, 0]],
     "model": [[["op_in", [["RX", "str"], ["CNOT", "str"]]],
                ["custom", [["each", "c", "PhaseFlip", 8], ["self"], ["each", "c", "BitFlip", 16]]]],
               [["and", ["wires_in", [0, 1]], ["not", ["op_eq", "RY", "str"]]], ["partial", "AmplitudeDamping", 32]],
               [["param_lt", 25], ["custom", [["copy", "RZ"]]]],
               [["wires_eq", [0, 1], False], ["custom", [["fixed", ["c", "PhaseFlip", [0], 8, 0]], ["self"]]]]]},
    {"kind": "insert", "nw": 4, "single": False, "before": True, "pos": "all", "mw": [5, 1, 4],
     "ops": [["b", "BasisState", [2, 0], 1, 0], ["b", "RX", [0], 32, 0], ["b", "CNOT", [0, 1], 0, 0], ["b", "T", [3], 0, 0]],
     "tmpl": {"func": False, "items": [["c", "AmplitudeDamping", 16]]}},
    {"kind": "insert", "nw": 4, "single": False, "before": False, "pos": ["RX", "Operation"], "mw": [],
     "ops": [["b", "BasisState", [2, 0], 1, 0], ["b", "RX", [0], 32, 0], ["b", "CNOT", [0, 1], 0, 0], ["b", "T", [3], 0, 0]],
     "tmpl": {"func": True, "items": [["b", "RX", 8], ["c", "PhaseDamping", 16]]}},
    {"kind": "extrap", "fn": "richardson", "xs": [[1, 1], [2, 1], [3, 1]], "ys": [[3, 1], [7, 1], [13, 1]], "order": 2,
     "cs": [1, 1, 1], "n": 3},
]


def run(ctx):
    ctx.coq_props()
    thorough = ctx.tier != "quick"
    rng = ctx.rng
    cnt = ({"fold": 320, "noise": 320, "insert": 320, "zero": 40, "extrap": 160, "expo": 60} if not thorough else
           {"fold": 6000, "noise": 6000, "insert": 6000, "zero": 600, "extrap": 3000, "expo": 800})
    gens = {"fold": lambda: gen_fold(rng, thorough), "noise": lambda: gen_noise(rng), "insert": lambda: gen_insert(rng),
            "zero": lambda: gen_zero(rng), "extrap": lambda: gen_extrap(rng), "expo": lambda: gen_expo(rng)}
    cases = [dict(c) for c in CORPUS]
    for kind, n in cnt.items():
        cases.extend(gens[kind]() for _ in range(n))
    rp = getattr(ctx, "replay", None)
    if rp and isinstance(rp.get("replay"), dict) and "case" in rp["replay"]:
        cases = [rp["replay"]["case"]]          # ./check C25 --replay file : re-run only the recorded case
    # the driver is run in 4 (thorough: 8) interleaved shards in parallel (wall time); order is restored afterwards
    from concurrent.futures import ThreadPoolExecutor
    nsh = (8 if thorough else 4) if len(cases) >= 40 else 1
    with ThreadPoolExecutor(max_workers=nsh) as ex:
        parts = list(ex.map(lambda k: ctx.run_impl("c25_impl.py", {"cases": cases[k::nsh]}), range(nsh)))
    obs = [None] * len(cases)
    for k, part in enumerate(parts):
        obs[k::nsh] = part

    hist = {"fold": 0, "noise": 0, "insert": 0, "zero": 0, "extrap": 0, "expo": 0, "errors": 0,
            "fold_k_neg": 0, "fold_k0": 0, "fold_k_ge1": 0, "fold_m_pos": 0, "fold_half_tie": 0, "fold_unitary_checked": 0,
            "fold_adjoint_inputs": 0, "noise_changed": 0, "noise_self_requeue": 0, "noise_pre_inserted": 0,
            "insert_changed": 0, "insert_before": 0, "insert_with_preps": 0, "insert_class_list": 0,
            "zero_inserted_something": 0, "extrap_model_compared": 0, "extrap_lstsq_only": 0, "erase_oracle": 0}
    distinct = set()
    terms, tidx = [], []
    for i, (c, o) in enumerate(zip(cases, obs)):
        k = c["kind"]
        hist[k] += 1
        key = json.dumps(c, sort_keys=True)
        if o == "ERR":
            hist["errors"] += 1
        if k == "fold":
            kk, m, tie = fold_km(c["p"], c["q"], len(c["ops"]))
            hist["fold_k_neg" if kk < 0 else ("fold_k0" if kk == 0 else "fold_k_ge1")] += 1
            hist["fold_m_pos"] += m > 0
            hist["fold_half_tie"] += bool(tie and c["ops"])
            hist["fold_unitary_checked"] += bool(c["unitary"] and o != "ERR")
            hist["fold_adjoint_inputs"] += any(g[4] for g in c["ops"])
            if o != "ERR" and len(o["ops"]) > len(c["ops"]):
                distinct.add(key)
        elif k == "noise":
            if o["ops"] != c["ops"]:
                hist["noise_changed"] += 1
                distinct.add(key)
            hist["noise_self_requeue"] += any(f[0] == "custom" and ["self"] in f[1] for _, f in c["model"])
            firsts = [g for g in o["ops"][:1] if c["ops"] and g != c["ops"][0]]
            hist["noise_pre_inserted"] += bool(firsts)
        elif k == "insert":
            if o != "ERR" and o["ops"] != c["ops"]:
                hist["insert_changed"] += 1
                distinct.add(key)
            hist["insert_before"] += c["before"]
            hist["insert_with_preps"] += bool(c["ops"] and c["ops"][0][1] == "BasisState")
            hist["insert_class_list"] += isinstance(c["pos"], list)
        elif k == "zero":
            hist["zero_inserted_something"] += o != "ERR" and o["inserted"] > 0
        if k in ("noise", "insert") and o != "ERR" and only_channels_inserted(c):
            hist["erase_oracle"] += 1
        ok, what = direct_oracle(c, o)
        if not ok:
            ctx.violation("direct:" + key, {"case": c, "observed": o}, what=what)
        if k in ("fold", "noise", "insert") or (k == "extrap" and c["order"] == c["n"] - 1 and o != "ERR"):
            terms.append("(" + g_case(c, o) + ")")
            tidx.append(i)
            hist["extrap_model_compared"] += k == "extrap"
        elif k == "extrap":
            hist["extrap_lstsq_only"] += 1
    bad = ctx.coq_eval_cases("cases", "From PLV Require Import Disc.FoldModel.\nRequire Import QArith.", terms,
                             "check_case", chunk=150 if not thorough else 400)
    for j in bad:
        c, o = cases[tidx[j]], obs[tidx[j]]
        ctx.violation("corr:" + json.dumps(c, sort_keys=True),
                      {"case": c, "implementation": o, "model": "coq/Gen/C25 (vm_compute of Disc.FoldModel.check_case is false)"},
                      found_input=True, what=f"{c['kind']}: implementation differs from the proved model")
    ctx.coverage.update({
        "evaluations": len(cases), "distinct_nontrivial": len(distinct),
        "rule": "seeded generators: fold (0-11 gates incl. Adjoint-wrapped inputs, 1-5 wires, dyadic/integer scale factors in [-3,7], 4% channel -> error); "
                "add_noise (0-8 gates, 0-4 (conditional, noise fn) pairs; conditionals op_eq/op_in (str/class/instance forms), wires_in, wires_eq, custom parameter predicate, &,|,^,~ to depth 2; "
                "noise fns partial_wires(channel) or custom with per-wire / fixed / parameter-copy items and optional qp.apply(op)); "
                "insert (positions start/end/all/class lists incl. Operation/Channel/invalid, before flag, class or qfunc op, leading and non-leading BasisState, measurement-only wires); "
                "zero-strength variants on default.mixed; polynomial data (1-5 nodes) and decaying exponential data; non-trivial = output differs from input",
        "input_distribution": hist})
    shown = set()
    for c, o in zip(cases, obs):
        if c["kind"] not in shown and len(shown) < 6:
            shown.add(c["kind"])
            ctx.sample({"case": c, "observed": o})
