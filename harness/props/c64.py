"""C64 Dataset attributes survive HDF5 round trips."""
import re

from vlib import *

PID = "C64"
META = {
    "level": "proof",
    "technique": "Coq structural-induction proofs over a Gallina model of the DatasetAttribute codecs and dataset "
                 "histories + vm_compute correspondence against real qp.data.Dataset objects on temporary HDF5 files",
    "design_ref": "DESIGN.md §3 C64",
    "text": "Kernel-checked theorems (Props/C64.v): for ALL well-formed nested values of the modelled grammar "
            "(None, Python/numpy scalars, str, arrays with dtype/shape/interface, list, tuple, dict, nested dataset, "
            "opaque leaves) decode(encode v) returns the value with the same Python-level content (same container "
            "kinds, key order, dtypes, shapes, numbers); type ids / py_type make encode injective; for ALL histories "
            "of set / overwrite / delete / write(copy, overwrite or ignore) / open-copy / reopen the tree-level "
            "execution equals the encoding of a plain last-write-wins value store, so every attribute reads back as "
            "the last value written and copies are unaffected by later writes to the source. Tie: the model's "
            "encode/decode/run are evaluated inside Coq on generated histories and compared with (a) the on-disk "
            "layout extracted with h5py (type_id, py_type, array_interface, group/dataset layout, link creation "
            "order, dtype, shape, payload), (b) the values read back through Dataset.open/getattr/copy_value, "
            "(c) Ok/Err of every operation. A direct oracle additionally compares every value read back (deep, "
            "type-sensitive; qp.equal for operators, structural equality for sparse matrices and molecules) with "
            "a last-write-wins simulation.",
    "note": "Trusted / not verified: h5py and HDF5 themselves (persistence across close/open is the identity in the "
            "model; utf-8 storage of strings, dtype conversion of Python scalars bool/int/float/complex to "
            "bool/int64/float64/complex128 are taken from the observed file), lazy loading (DatasetList/DatasetDict "
            "views are compared with copy_value() but not modelled), remote datasets, AttributeInfo extras (doc), "
            "identifiers, declarative fields. Operators, Hamiltonians/Sums/Prods, scipy sparse matrices and "
            "Molecules are tie-only: the model treats their sub-tree as an opaque leaf identified by a digest of a "
            "stand-alone encoding (so copy/nesting must preserve it bit for bit) and equality of the read-back "
            "object is checked by the direct oracle only. Floats are exact dyadics; NaN/inf/-0.0, byte-string "
            "arrays, ints outside int64 and dict keys containing '/' are outside the generated grammar.",
    "assumptions": ["dict keys / attribute names are non-empty strings without '/' and other than '.' (HDF5 link names)",
                    "mapping keys pairwise distinct (wf)",
                    "closing and reopening an HDF5 file returns the same tree (h5py/HDF5 trusted)",
                    "operators / sparse / molecule sub-trees are opaque to the model (tie-only)"],
    "trusted": ["hand-written model coq/Disc/CodecModel.v tied to /repo by correspondence only",
                "h5py / HDF5 / numpy"],
}

DT = {"bool": "DBool", "int8": "DI8", "int16": "DI16", "int32": "DI32", "int64": "DI64", "uint8": "DU8",
      "uint16": "DU16", "uint32": "DU32", "uint64": "DU64", "float16": "DF16", "float32": "DF32",
      "float64": "DF64", "complex64": "DC64", "complex128": "DC128"}
INT_RANGE = {"int8": (-128, 127), "int16": (-2 ** 15, 2 ** 15 - 1), "int32": (-2 ** 31, 2 ** 31 - 1),
             "int64": (-2 ** 63, 2 ** 63 - 1), "uint8": (0, 255), "uint16": (0, 2 ** 16 - 1),
             "uint32": (0, 2 ** 32 - 1), "uint64": (0, 2 ** 64 - 1)}
PYTY = {"None": "PyNone", "bool": "PyBool", "int": "PyInt", "float": "PyFloat", "complex": "PyComplex",
        "str": "PyStr", "numpy.ndarray": "PyNdarray", "pennylane.numpy.tensor.tensor": "PyTensor",
        "list": "PyList", "tuple": "PyTuple", "dict": "PyDict",
        "pennylane.data.base.dataset.Dataset": "PyDataset"}
TID = {"none": "TNone", "scalar": "TScalar", "string": "TString", "array": "TArray", "list": "TList",
       "tuple": "TTuple", "dict": "TDict", "dataset": "TDataset"}

ATTR_NAMES = ["x", "y", "z", "w", "data", "énergie", "a.b", "k 1", "0", "10", "007", "H2"]
DICT_KEYS = ["a", "b", "c", "key", "ünï", "0", "1", "2", "10", "00", "x y", "a.b", "Z", "日本"]
STRINGS = ["", "a", "hello", "héllo wörld", "日本語", "a/b", "line\nbreak", "  sp  ", "0", "naïve ☃", "𝔘nicode"]


# ------------------------------------------------------------------ generators
def gen_dy(rng, wide=False):
    if rng.random() < 0.12:
        return [0, 0]
    if wide and rng.random() < 0.3:
        m = rng.getrandbits(53) | 1 | (1 << 52)
        return [m * rng.choice([1, -1]), rng.randint(-80, 20)]
    m = rng.randint(1, 255) | 1
    return [m * rng.choice([1, -1]), rng.randint(-6, 6)]


def gen_num(rng, d):
    if d == "bool":
        return rng.random() < 0.5
    if d in INT_RANGE:
        lo, hi = INT_RANGE[d]
        return rng.choice([lo, hi, 0, 1, max(lo, -1), rng.randint(lo, hi), rng.randint(max(lo, -9), min(hi, 9))])
    if d.startswith("float"):
        return gen_dy(rng, wide=(d == "float64"))
    return [gen_dy(rng, wide=(d == "complex128")), gen_dy(rng, wide=(d == "complex128"))]


def gen_opspec(rng, depth=0):
    r = rng.random()
    w = rng.sample([0, 1, 2, "a", "b"], 2)
    if depth < 2 and r < 0.3:
        k = rng.choice(["prod", "sum", "sprod", "ham"])
        if k == "sprod":
            return {"g": k, "p": gen_dy(rng) if rng.random() < 0.8 else [3, -1], "ops": [gen_opspec(rng, 2)]}
        n = rng.randint(2, 3)
        ops = [gen_opspec(rng, 2) for _ in range(n)]
        if k == "ham":
            return {"g": k, "cs": [[rng.randint(1, 9) | 1, rng.randint(-3, 1)] for _ in range(n)], "ops": ops}
        return {"g": k, "ops": ops}
    if r < 0.6:
        return {"g": rng.choice(["RX", "RY", "RZ", "PhaseShift"]), "p": gen_dy(rng), "w": w}
    if r < 0.85:
        return {"g": rng.choice(["X", "Y", "Z", "H", "S", "T"]), "w": w}
    if r < 0.9:
        return {"g": "Rot", "ps": [gen_dy(rng) for _ in range(3)], "w": w}
    if r < 0.95:
        return {"g": "IsingXX", "p": gen_dy(rng), "w": w}
    return {"g": "CNOT", "w": w}


def gen_opaque(rng, tier):
    r = rng.random()
    if r < 0.6:
        return {"t": "opaque", "kind": "op", "spec": gen_opspec(rng)}
    if r < 0.93 or tier == "quick" and r < 0.985:
        d = rng.choice(["float64", "int64", "complex128", "float32"])
        n, m = rng.randint(1, 3), rng.randint(1, 4)
        rows = [[(gen_num(rng, d) if rng.random() < 0.4 else gen_num_zero(d)) for _ in range(m)] for _ in range(n)]
        return {"t": "opaque", "kind": "sparse",
                "spec": {"cls": rng.choice(["csr_matrix", "csc_matrix", "coo_matrix", "csr_array", "lil_matrix"]),
                         "d": d, "rows": rows}}
    return {"t": "opaque", "kind": "mol",
            "spec": {"symbols": ["H", "H"], "coords": [[[0, 0], [0, 0], [0, 0]], [[0, 0], [0, 0], gen_dy_pos(rng)]]}}


def gen_dy_pos(rng):
    return [rng.choice([3, 5, 7, 11]), rng.choice([-2, -1, 0])]


def gen_num_zero(d):
    if d.startswith("complex"):
        return [[0, 0], [0, 0]]
    if d.startswith("float"):
        return [0, 0]
    return 0


def gen_val(rng, depth, tier, opaque=True):
    r = rng.random()
    if depth >= 3:
        r *= 0.66
    if r < 0.05:
        return {"t": "none"}
    if r < 0.10:
        return {"t": "bool", "v": rng.random() < 0.5}
    if r < 0.20:
        return {"t": "int", "v": gen_num(rng, "int64")}
    if r < 0.28:
        return {"t": "float", "v": gen_dy(rng, True)}
    if r < 0.32:
        return {"t": "complex", "v": [gen_dy(rng, True), gen_dy(rng, True)]}
    if r < 0.39:
        d = rng.choice(list(DT))
        return {"t": "np", "d": d, "n": gen_num(rng, d)}
    if r < 0.48:
        return {"t": "str", "v": rng.choice(STRINGS) if rng.random() < 0.7 else
                "".join(rng.choice("abcXYZ éß→0 9") for _ in range(rng.randint(1, 12)))}
    if r < 0.61:
        d = rng.choice(list(DT))
        shape = rng.choice([[], [0], [1], [3], [2, 2], [2, 3], [1, 0, 2], [2, 1, 2], [4]])
        n = 1
        for s in shape:
            n *= s
        auto = rng.random() < 0.2 and d not in ("bool",)
        return {"t": "array", "d": d, "shape": shape, "data": [gen_num(rng, d) for _ in range(n)],
                "if": "autograd" if auto else "numpy", "rg": (rng.random() < 0.5) if auto else None}
    if opaque and r < 0.66:
        return gen_opaque(rng, tier)
    n = rng.choice([0, 1, 2, 2, 3, 4]) if depth < 2 else rng.choice([0, 1, 2])
    if r < 0.76:
        if opaque and rng.random() < 0.12:   # the common "list of operators"
            return {"t": "list", "v": [{"t": "opaque", "kind": "op", "spec": gen_opspec(rng)} for _ in range(max(n, 1))]}
        return {"t": "list", "v": [gen_val(rng, depth + 1, tier, opaque) for _ in range(n)]}
    if r < 0.85:
        return {"t": "tuple", "v": [gen_val(rng, depth + 1, tier, opaque) for _ in range(n)]}
    if r < 0.96:
        keys = rng.sample(DICT_KEYS, n)
        return {"t": "dict", "v": [[k, gen_val(rng, depth + 1, tier, opaque)] for k in keys]}
    keys = rng.sample(ATTR_NAMES, min(n, 3))
    return {"t": "dataset", "v": [[k, gen_val(rng, depth + 1, tier, opaque)] for k in keys]}


def depth_of(v):
    if v["t"] in ("list", "tuple"):
        return 1 + max([depth_of(x) for x in v["v"]] + [0])
    if v["t"] in ("dict", "dataset"):
        return 1 + max([depth_of(x) for _, x in v["v"]] + [0])
    return 0


# ------------------------------------------------------------------ last-write-wins simulation (direct oracle)
def sim_put(s, k, v):
    s[:] = [p for p in s if p[0] != k] + [[k, v]]


def sim_step(w, o):
    op = o["op"]
    if op == "init":
        for k, v in o["kv"]:
            w[o["i"]].append([k, v])
    elif op == "set":
        if all(p[0] != o["k"] for p in w[o["i"]]):
            w[o["i"]].append([o["k"], o["v"]])
    elif op == "put":
        sim_put(w[o["i"]], o["k"], o["v"])
    elif op == "del":
        w[o["i"]][:] = [p for p in w[o["i"]] if p[0] != o["k"]]
    elif op == "write":
        src, dst = w[o["src"]], w[o["dst"]]
        keys = o["keys"] or [p[0] for p in src]
        for k in keys:
            hit = [p for p in src if p[0] == k]
            if not hit:
                break
            if any(p[0] == k for p in dst):
                if o["ov"]:
                    sim_put(dst, k, hit[0][1])
            else:
                dst.append([k, hit[0][1]])
    elif op == "snap":
        w[o["dst"]] = [list(p) for p in w[o["src"]]]


def pyview(v, opq):
    """Python-level content with type sensitivity (mirrors CodecModel.pyview)"""
    t = v["t"]
    if t == "bool":
        return ["num", "numpy", None, "bool", [], [v["v"]]]
    if t == "int":
        return ["num", "numpy", None, "int64", [], [v["v"]]]
    if t == "float":
        return ["num", "numpy", None, "float64", [], [v["v"]]]
    if t == "complex":
        return ["num", "numpy", None, "complex128", [], [v["v"]]]
    if t == "np":
        return ["num", "numpy", None, v["d"], [], [v["n"]]]
    if t == "array":
        return ["num", v["if"], v["rg"], v["d"], v["shape"], v["data"]]
    if t in ("list", "tuple"):
        return [t, [pyview(x, opq) for x in v["v"]]]
    if t in ("dict", "dataset"):
        return [t, [[k, pyview(x, opq)] for k, x in v["v"]]]
    if t == "opaque":
        if "id" in v:
            return ["opaque", v["id"], v["eq"]]
        return ["opaque", opq.get(json.dumps(v, sort_keys=True)), True]
    if t == "str":
        return ["str", v["v"]]
    if t == "none":
        return ["none"]
    return ["other", v.get("repr")]


# ------------------------------------------------------------------ Gallina printers
CHUNK = 35
CANON = re.compile(r"0|[1-9][0-9]*", re.ASCII)


def g_str(s):
    return glist([ord(c) for c in s], gz)


def g_name(k):
    if CANON.fullmatch(k) and all(c in "0123456789" for c in k) and len(k) < 18:
        return f"(KIdx {int(k)}%N)"
    return f"(KStr {g_str(k)})"


def g_num(n, d):
    if d == "bool":
        return f"(NB {gbool(n)})"
    if d in INT_RANGE:
        return f"(NI {gz(n)})"
    if d.startswith("float"):
        return f"(NF {gz(n[0])} {gz(n[1])})"
    return f"(NC {gz(n[0][0])} {gz(n[0][1])} {gz(n[1][0])} {gz(n[1][1])})"


def g_iface(i, rg):
    return "INumpy" if i == "numpy" else f"(IAutograd {gbool(rg)})"


def g_val(v, opq):
    t = v["t"]
    if t == "none":
        return "VNone"
    if t == "bool":
        return f"(VBool {gbool(v['v'])})"
    if t == "int":
        return f"(VInt {gz(v['v'])})"
    if t == "float":
        return f"(VFloat {gz(v['v'][0])} {gz(v['v'][1])})"
    if t == "complex":
        a, b = v["v"]
        return f"(VComplex {gz(a[0])} {gz(a[1])} {gz(b[0])} {gz(b[1])})"
    if t == "np":
        if v["d"] not in DT:
            return "(VOpaque (-1))"
        return f"(VNp {DT[v['d']]} {g_num(v['n'], v['d'])})"
    if t == "str":
        return f"(VStr {g_str(v['v'])})"
    if t == "array":
        if v["d"] not in DT:
            return "(VOpaque (-1))"
        return (f"(VArray {g_iface(v['if'], v['rg'])} {DT[v['d']]} {glist(v['shape'], gz)} "
                f"{glist(v['data'], lambda n: g_num(n, v['d']))})")
    if t == "list":
        return f"(VList {glist(v['v'], lambda x: g_val(x, opq))})"
    if t == "tuple":
        return f"(VTuple {glist(v['v'], lambda x: g_val(x, opq))})"
    if t in ("dict", "dataset"):
        c = "VDict" if t == "dict" else "VDataset"
        return f"({c} {glist(v['v'], lambda kv: f'({g_name(kv[0])}, {g_val(kv[1], opq)})')})"
    if t == "opaque":
        i = v["id"] if "id" in v else opq.get(json.dumps(v, sort_keys=True), -2)
        return f"(VOpaque {gz(i)})"
    return "(VOpaque (-1))"


def g_pyty(p):
    if p in PYTY:
        return PYTY[p]
    if isinstance(p, str) and p.startswith("numpy.") and p[6:] in DT:
        return f"(PyNp {DT[p[6:]]})"
    return "PyOther"


def g_node(n):
    if "opaque" in n:
        return f"(NOpaque {gz(n['opaque'])})"
    if "bad" in n:
        return "(NOpaque (-1))"
    ifc = "None" if n["if"] is None else ("(Some INumpy)" if n["if"] == "numpy" else
                                          f"(Some (IAutograd {gbool(bool(n['rg']))}))" if n["if"] == "autograd" else "(Some (IAutograd true))")
    at = f"(mkA {TID[n['tid']]} {g_pyty(n['py'])} {ifc})"
    if "ch" in n:
        return f"(NGroup {at} {glist(n['ch'], lambda kc: f'({g_name(kc[0])}, {g_node(kc[1])})')})"
    p = n["payload"]
    if "empty" in p:
        pl = f"(PEmpty {DT[p['empty']]})" if p["empty"] in DT else "PWeird"
    elif "str" in p:
        pl = f"(PStr {g_str(p['str'])})"
    elif "dt" in p and p["dt"] in DT:
        pl = f"(PData {DT[p['dt']]} {glist(p['shape'], gz)} {glist(p['data'], lambda x: g_num(x, p['dt']))})"
    else:
        pl = "PWeird"
    return f"(NData {at} {pl})"


def g_ops(c, opq):
    out = []
    for o in c["ops"]:
        op = o["op"]
        if op == "init":
            out += [f"OSet {gnat(o['i'])} {g_name(k)} {g_val(v, opq)}" for k, v in o["kv"]]
        elif op == "set":
            out.append(f"OSet {gnat(o['i'])} {g_name(o['k'])} {g_val(o['v'], opq)}")
        elif op == "put":
            out.append(f"OPut {gnat(o['i'])} {g_name(o['k'])} {g_val(o['v'], opq)}")
        elif op == "del":
            out.append(f"ODel {gnat(o['i'])} {g_name(o['k'])}")
        elif op == "write":
            out.append(f"OWrite {gnat(o['src'])} {gnat(o['dst'])} {glist(o['keys'], g_name)} {gbool(o['ov'])}")
        elif op == "snap":
            out.append(f"OSnap {gnat(o['src'])} {gnat(o['dst'])}")
        else:
            out.append(f"OReopen {gnat(o['i'])}")
    return glist(out)


def g_sts(c, ob):
    out = []
    for o, s in zip(c["ops"], ob["sts"]):
        st = "SOk" if s == "ok" else "SErr"
        out += [st] * (len(o["kv"]) if o["op"] == "init" else 1)
    return glist(out)


def g_case(c, ob, opq):
    trees = glist(ob["trees"], lambda s: glist(s, lambda kn: f"({g_name(kn[0])}, {g_node(kn[1])})"))
    vals = glist(ob["vals"], lambda s: glist(s, lambda kv: f"({g_name(kv[0])}, {g_val(kv[1], opq)})"))
    return f"(({gnat(len(c['kinds']))}, {g_ops(c, opq)}), ({g_sts(c, ob)}, {trees}, {vals}))"


# ------------------------------------------------------------------ case generation
def pick_name(rng):
    """few hot names so that set/copy conflicts between datasets are frequent"""
    return rng.choice(ATTR_NAMES[:3]) if rng.random() < 0.6 else rng.choice(ATTR_NAMES)


def gen_case(rng, tier):
    kinds = rng.choice([["file", "file", "mem"]] * 4 + [["file", "mem"], ["file", "file", "file", "mem"], ["file"]])
    n = len(kinds)
    files = [i for i, k in enumerate(kinds) if k == "file"]
    mems = [i for i, k in enumerate(kinds) if k == "mem"]
    w = [[] for _ in kinds]
    ops = []
    touched = set()
    nops = rng.randint(2, 9 if tier == "quick" else 14)
    for _ in range(nops):
        r = rng.random()
        i = rng.randrange(n)
        have = [p[0] for p in w[i]]
        if r < 0.10 and i not in touched:
            ks = rng.sample(ATTR_NAMES[:5], rng.randint(0, 3))
            o = {"op": "init", "i": i, "kv": [[k, gen_val(rng, 0, tier)] for k in ks]}
        elif r < 0.45:
            k = rng.choice(have) if have and rng.random() < 0.15 else pick_name(rng)
            o = {"op": "set", "i": i, "k": k, "v": gen_val(rng, 0, tier)}
        elif r < 0.57:
            k = rng.choice(have) if have and rng.random() < 0.55 else pick_name(rng)
            o = {"op": "put", "i": i, "k": k, "v": gen_val(rng, 0, tier)}
        elif r < 0.67:
            k = rng.choice(have) if have and rng.random() < 0.85 else rng.choice(ATTR_NAMES)
            o = {"op": "del", "i": i, "k": k}
        elif r < 0.87 and n > 1:
            full = [j for j in range(n) if w[j]]
            src = rng.choice(full) if (not w[i] and full) else i
            dst = rng.choice([j for j in range(n) if j != src])
            shave = [p[0] for p in w[src]]
            q = rng.random()
            if q < 0.5 or not shave:
                keys = []
            else:
                keys = rng.sample(shave, rng.randint(1, len(shave)))
                if q > 0.88:
                    keys.insert(rng.randrange(len(keys) + 1), "missing")
            vias = ["obj"]
            if kinds[dst] == "file":
                vias.append("path")
            if kinds[src] == "file":
                vias.append("read")
            o = {"op": "write", "src": src, "dst": dst, "keys": keys, "ov": rng.random() < 0.5, "via": rng.choice(vias)}
        elif r < 0.93 and files and mems:
            o = {"op": "snap", "src": rng.choice(files), "dst": rng.choice(mems)}
        else:
            o = {"op": "reopen", "i": i}
        ops.append(o)
        sim_step(w, o)
        touched.add(o.get("i", o.get("dst")))
    return {"kinds": kinds, "ops": ops}


def V(t, **kw):
    return dict(t=t, **kw)


def corpus():
    i3 = V("int", v=3)
    nested = V("list", v=[V("int", v=1), V("str", v="x"), V("none"), V("list", v=[V("float", v=[5, -1]), V("tuple", v=[V("int", v=1)])])])
    dd = V("dict", v=[["b", V("int", v=1)], ["a", V("list", v=[V("int", v=1)])], ["10", V("int", v=2)], ["2", V("tuple", v=[])]])
    arr = V("array", d="int32", shape=[2, 2], data=[1, 2, 3, 4], **{"if": "numpy", "rg": None})
    ten = V("array", d="float64", shape=[2], data=[[1, 0], [3, -1]], **{"if": "autograd", "rg": True})
    ham = {"t": "opaque", "kind": "op", "spec": {"g": "ham", "cs": [[1, -1], [3, -1]],
                                                  "ops": [{"g": "Z", "w": [0, 1]}, {"g": "prod", "ops": [{"g": "X", "w": [0, 1]}, {"g": "Y", "w": ["a", 1]}]}]}}
    rx = {"t": "opaque", "kind": "op", "spec": {"g": "RX", "p": [1, -1], "w": [0, 1]}}
    spm = {"t": "opaque", "kind": "sparse", "spec": {"cls": "csr_matrix", "d": "float64", "rows": [[[0, 0], [3, -1]], [[1, 1], [0, 0]]]}}
    mol = {"t": "opaque", "kind": "mol", "spec": {"symbols": ["H", "H"], "coords": [[[0, 0]] * 3, [[0, 0], [0, 0], [1, 0]]]}}
    sub = V("dataset", v=[["a", i3], ["b", V("list", v=[V("int", v=1), V("tuple", v=[V("int", v=2)])])]])
    return [
        {"kinds": ["file", "file", "mem"], "ops": [
            {"op": "init", "i": 0, "kv": [["n", V("none")], ["b", V("bool", v=True)], ["i", i3], ["f", V("float", v=[1, -1])],
                                          ["c", V("complex", v=[[1, 0], [1, 1]])], ["s", V("str", v="héllo")], ["a", arr],
                                          ["l", nested], ["t", V("tuple", v=[i3, V("float", v=[1, 1]), V("str", v="z")])], ["dd", dd],
                                          ["e", V("list", v=[])], ["et", V("tuple", v=[])], ["ed", V("dict", v=[])], ["es", V("str", v="")]]},
            {"op": "reopen", "i": 0}, {"op": "write", "src": 0, "dst": 1, "keys": [], "ov": False, "via": "path"},
            {"op": "snap", "src": 0, "dst": 2}, {"op": "del", "i": 0, "k": "l"}, {"op": "set", "i": 0, "k": "l", "v": V("tuple", v=[i3])}]},
        {"kinds": ["file", "file", "mem"], "ops": [
            {"op": "set", "i": 0, "k": "x", "v": i3}, {"op": "set", "i": 0, "k": "x", "v": V("str", v="again")},
            {"op": "set", "i": 1, "k": "x", "v": V("float", v=[3, 0])}, {"op": "set", "i": 1, "k": "y", "v": ten},
            {"op": "write", "src": 0, "dst": 1, "keys": [], "ov": False, "via": "obj"},
            {"op": "write", "src": 0, "dst": 1, "keys": ["x"], "ov": True, "via": "read"},
            {"op": "put", "i": 0, "k": "x", "v": V("none")}, {"op": "write", "src": 1, "dst": 2, "keys": ["y", "missing", "x"], "ov": True, "via": "obj"},
            {"op": "del", "i": 1, "k": "nope"}]},
        {"kinds": ["file", "mem"], "ops": [
            {"op": "init", "i": 0, "kv": [["op", rx], ["h", ham], ["spm", spm], ["mol", mol], ["ops", V("list", v=[rx, ham])], ["sub", sub],
                                          ["nb", V("np", d="bool", n=True)], ["nf", V("np", d="float32", n=[3, -1])], ["u", V("np", d="uint64", n=2 ** 64 - 1)]]},
            {"op": "snap", "src": 0, "dst": 1}, {"op": "put", "i": 0, "k": "h", "v": V("dict", v=[["k", ham]])},
            {"op": "write", "src": 1, "dst": 0, "keys": ["sub", "op"], "ov": True, "via": "path"}]},
    ]


def count_types(v, h):
    h[v["t"]] = h.get(v["t"], 0) + 1
    if v["t"] == "opaque":
        h["opaque:" + v["kind"]] = h.get("opaque:" + v["kind"], 0) + 1
    if v["t"] in ("list", "tuple"):
        for x in v["v"]:
            count_types(x, h)
    if v["t"] in ("dict", "dataset"):
        for _, x in v["v"]:
            count_types(x, h)


def check_tree_attrs(n, path, bad):
    """direct structural checks that are not part of the model: no unexpected info keys, the
    __data_len__ counter equals the number of info entries, interface attrs only on arrays"""
    if "tid" not in n:
        if "bad" in n:
            bad.append(f"{path}: {n['bad']}")
        return
    if n["extra"]:
        bad.append(f"{path}: unexpected attrs {n['extra']}")
    if n["len_attr"] != n["n_info"]:
        bad.append(f"{path}: __data_len__={n['len_attr']} but {n['n_info']} info entries")
    if n["tid"] != "array" and (n["if"] is not None or n["rg"] is not None):
        bad.append(f"{path}: array attrs on {n['tid']}")
    if n["tid"] == "array" and n["if"] == "numpy" and n["rg"] is not None:
        bad.append(f"{path}: requires_grad on numpy array")
    for k, c in n.get("ch", []):
        check_tree_attrs(c, path + "/" + k, bad)


def run(ctx):
    ctx.coq_props()
    rng = ctx.rng
    n = 150 if ctx.tier == "quick" else 3000
    cases = corpus()
    while len(cases) < n:
        cases.append(gen_case(rng, ctx.tier))
    res = ctx.run_impl("c64_impl.py", {"cases": cases, "probes": True})
    obs, opq = res["obs"], res["opaque_ids"]
    terms = [g_case(c, o, opq) for c, o in zip(cases, obs)]
    bad = ctx.coq_eval_cases("cases", "From PLV Require Import Disc.CodecModel.", terms, "check_case", chunk=CHUNK)

    hist = {"ops": {}, "values": {}, "errors": 0, "vias": {}}
    nontrivial = set()
    maxdepth = 0
    nvals = 0
    for c, o in zip(cases, obs):
        key = json.dumps(c, sort_keys=True)
        # ---- direct oracle: every attribute reads back as the last value written
        w = [[] for _ in c["kinds"]]
        for op in c["ops"]:
            if op["op"] == "write":
                hist["vias"][op["via"]] = hist["vias"].get(op["via"], 0) + 1
                sk, dk = {p[0] for p in w[op["src"]]}, {p[0] for p in w[op["dst"]]}
                if (set(op["keys"]) or sk) & sk & dk:
                    hist["copy_conflicts"] = hist.get("copy_conflicts", 0) + 1
            sim_step(w, op)
            hist["ops"][op["op"]] = hist["ops"].get(op["op"], 0) + 1
            for v in ([op["v"]] if "v" in op else [x for _, x in op.get("kv", [])]):
                count_types(v, hist["values"])
                maxdepth = max(maxdepth, depth_of(v))
                nvals += 1
        hist["errors"] += sum(1 for s in o["sts"] if s == "err")
        for i, (exp, got) in enumerate(zip(w, o["vals"])):
            e = {k: pyview(v, opq) for k, v in exp}
            g = {k: pyview(v, opq) for k, v in got}
            if e != g:
                diff = sorted(k for k in set(e) | set(g) if e.get(k) != g.get(k))
                ctx.violation("direct:" + key, {"case": c, "dataset": i, "attributes": diff,
                                                "expected": {k: e.get(k) for k in diff}, "read_back": {k: g.get(k) for k in diff},
                                                "observed": o},
                              what=f"attribute(s) {diff} of dataset {i} do not read back equal to the last value written")
            if any(depth_of(v) > 1 for _, v in exp) and len(c["ops"]) > 2:
                nontrivial.add(key)
        attr_bad = []
        for i, s in enumerate(o["trees"]):
            for k, nd in s:
                check_tree_attrs(nd, f"ds{i}/{k}", attr_bad)
        for r in o["roots"]:
            if r.get("qp.data.type_id") != "dataset":
                attr_bad.append("root type_id " + repr(r.get("qp.data.type_id")))
        if attr_bad:
            ctx.violation("attrs:" + key, {"case": c, "problems": attr_bad[:10], "observed": o},
                          what="on-disk attribute metadata inconsistent: " + attr_bad[0])
    for i in bad:
        ctx.violation("corr:" + json.dumps(cases[i], sort_keys=True),
                      {"case": cases[i], "implementation": obs[i], "model_term": f"coq/Gen/C64/cases_{i // CHUNK}.v item {i % CHUNK}"},
                      what="on-disk layout / read-back values / statuses differ from the proved model of the dataset codecs")
    # ---- fixed probe outside the generated grammar (dict key containing '/')
    pr = res.get("probes", {}).get("dict_key_slash")
    want = {"t": "dict", "v": [["a/b", {"t": "np", "d": "int64", "n": 1}]]}
    if pr != want:
        ctx.violation("quirk:dict-key-with-slash", {"written": {"a/b": 1}, "read_back": pr,
                      "python": "d = qp.data.Dataset(); d.x = {'a/b': 1}; d.x.copy_value()"},
                      what="a dict with the str key 'a/b' does not read back (HDF5 path separator creates an untyped nested group)")
    ctx.coverage.update({
        "evaluations": len(cases), "distinct_nontrivial": len(nontrivial),
        "rule": "corpus of 3 hand-written histories, then seeded random histories (2..9 ops quick / 2..14 thorough) over "
                "1-4 datasets (files reopened for every operation + one in-memory dataset); non-trivial = history with >2 "
                "ops whose final state holds a value nested deeper than 1",
        "input_distribution": {**hist, "values_written": nvals, "max_nesting_depth": maxdepth,
                               "opaque_values_distinct": len(opq)}})
    for c, o in list(zip(cases, obs))[3:5]:
        ctx.sample({"case": c, "statuses": o["sts"], "read_back": o["vals"]})
