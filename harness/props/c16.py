"""C16 Exact ring arithmetic behind gridsynth is lawful."""
from vlib import *
import math

PID = "C16"
META = {
    "level": "proof",
    "technique": "Coq proofs (ring/lia, invariants over fuelled loops) about a Gallina transcription of rings.py + norm_solver.py; vm_compute correspondence against the real classes; direct law/solution/primality oracles",
    "design_ref": "DESIGN.md §3 C16",
    "text": "28 kernel-checked theorems (Props/C16.v, all closed under the global context) about the transcription, for ALL elements: commutative-ring laws of Z[sqrt2] and Z[omega] (assoc, comm, distributivity, identities, additive inverses, sub = add neg), int-operand forms = ring ops with the embedded integer, pow laws (x^0, x^1, x^(p+q), negative -> raises; omega^4 = -1), conj/adj2 are commuting involutive ring homomorphisms, abs(x*y) = abs x * abs y in both rings and abs = norm of x*conj x, to_omega/to_sqrt_two are mutually inverse homomorphic embeddings, exact division and sqrt are sound (q*y = x, y*y = x), % is a signed congruence, ZOmega.normalize and DyadicMatrix.normalize preserve the denoted value (A = sqrt2^j * A', k' = k - j; stated cross-multiplied in Z[omega]), 2x2 product assoc/identity/distributivity/conj and 3x3 product assoc; for EVERY scale / factor list / loop outcome the final checks of _solve_diophantine only return t with conj(t)*t = xi; the trial-division oracle primeb is equivalent to Znumtheory.prime and the Miller-Rabin transcription equals it for every n < 12000 (vm_compute, bound in the theorem). Tie: the same Gallina definitions are evaluated in Coq on generated inputs (1..200-bit random, exhaustive small elements, H/T/S word matrices, structured operands) and compared with the results of the real classes for 60 operations; every solution the real solver returns is re-checked inside Coq (model multiplication) and by independent Python arithmetic; ring laws are also evaluated directly on the real classes; _primality_test is compared with trial division evaluated in Coq (n < 2^22) and with an independent Python test (n < 2^64, pseudoprime corpus included).",
    "note": "Trusted: Coq kernel; the hand transcription (coq/Disc/RingsModel.v) is tied to /repo only by the correspondence run. Oracles, not modelled: _prime_factorize/_integer_factorize (randomised Pollard-Brent) - their observable effect (loop outcome + list of Z[omega] factors) enters solve_dioph as recorded arguments and the soundness theorem quantifies over all of them. NOT proved, only tested: Miller-Rabin correctness above 12000 (that primes are accepted needs Fermat's little theorem; that the 7 bases reject all composites < 2^64 is a published search); _sqrt_modulo_p returns a square root (direct oracle r^2 = n mod p and residuosity for prime p + correspondence); DyadicMatrix.__add__ denotes the sum (law bundles compare denoted values on the real class); SO3Matrix.from_matrix is a homomorphism (transcribed + compared only); termination of _gcd (the classes' % is not Euclidean: modelled with fuel, a hang of the implementation where the model returns is reported). Restricted domains: ZSqrtTwo.__mod__ uses float round(n/d), modelled exactly only for |n|,|d| < 2^52 - __mod__/_gcd operands are kept below 2^21; ZOmega.__truediv__ uses float division and is wrong for quotients >= 2^53 ((ZOmega(2**60+1,0,0,3)*3)/3 != original) - tested only for quotients < 2^50; DyadicMatrix.__add__ computes 2**n via float pow - exponent differences <= 15 tested. Quirks transcribed as they are: SO3Matrix.from_matrix tests `s.parity` (a bound method, always truthy) so its else-branch is dead; ZOmega(0,0,0,0).normalize() does not terminate (not exercised); DyadicMatrix.mult2k(k) returns the matrix unchanged when self.k >= 2k (transcribed and compared, no law claimed); DyadicMatrix.adj2 is entrywise and is not multiplicative on denoted values for odd k (not claimed).",
    "assumptions": ["ring elements hold Python ints (float/complex operands of the operators are outside the model)",
                    "_primality_test is claimed exact only for n < 2^64 (documented range of its bases)"],
    "trusted": ["hand-written model coq/Disc/RingsModel.v tied to /repo by correspondence only",
                "harness-side independent integer arithmetic used by the direct oracles"],
}

# ----------------------------------------------------------------- independent reference arithmetic
def r_smul(x, y):
    return [x[0] * y[0] + 2 * x[1] * y[1], x[0] * y[1] + x[1] * y[0]]


def r_omul(x, y):
    """polynomial product modulo w^4 = -1; coefficient order [a (w^3), b (w^2), c (w), d (1)]"""
    px, py = x[::-1], y[::-1]
    acc = [0] * 7
    for i in range(4):
        for j in range(4):
            acc[i + j] += px[i] * py[j]
    low = [acc[i] - (acc[i + 4] if i + 4 < 7 else 0) for i in range(4)]
    return low[::-1]


def r_oconj(x):
    # conj(w) = w^7 = -w^3, conj(w^2) = -w^2, conj(w^3) = -w
    return [-x[2], -x[1], -x[0], x[3]]


def r_s2o(x):
    return [-x[1], 0, x[1], x[0]]


SQ2 = [-1, 0, 1, 0]


def r_sq2pow(x, j):
    for _ in range(j):
        x = r_omul(x, SQ2)
    return x


def dm_same_value(u, v):
    """u, v flat DyadicMatrix observations (16 coefficients + k): equal as matrices over D[omega]"""
    ku, kv = u[16], v[16]
    k = max(ku, kv)
    for i in range(4):
        a, b = u[4 * i:4 * i + 4], v[4 * i:4 * i + 4]
        if r_sq2pow(a, k - ku) != r_sq2pow(b, k - kv):
            return False
    return True


def sieve(n):
    s = bytearray([1]) * (n + 1)
    s[0:2] = b"\0\0"
    for i in range(2, int(n ** 0.5) + 1):
        if s[i]:
            s[i * i::i] = bytearray(len(s[i * i::i]))
    return [i for i in range(n + 1) if s[i]]


PRIMES = sieve(1 << 20)
PSET = set(PRIMES)


def ref_is_prime(n):
    """independent oracle: table / trial division below 2^40, else Miller-Rabin with the first 13 primes
    as bases (deterministic below 3.3e24)"""
    if n < 2:
        return False
    if n <= PRIMES[-1]:
        return n in PSET
    for p in PRIMES:
        if p * p > n:
            return True
        if n % p == 0:
            return False
    d, s = n - 1, 0
    while d % 2 == 0:
        d //= 2
        s += 1
    for a in (2, 3, 5, 7, 11, 13, 17, 19, 23, 29, 31, 37, 41):
        x = pow(a, d, n)
        if x in (1, n - 1):
            continue
        for _ in range(s - 1):
            x = x * x % n
            if x == n - 1:
                break
        else:
            return False
    return True


# ----------------------------------------------------------------- generators
def rint(rng, bits=None):
    if bits is None:
        bits = rng.choice([1, 2, 3, 8, 30, 64, 200, 200])
    v = rng.getrandbits(bits)
    return -v if rng.random() < 0.5 else v


def rs(rng, bits=None):
    return [rint(rng, bits), rint(rng, bits)]


def ro(rng, bits=None):
    r = rng.random()
    v = [rint(rng, bits) for _ in range(4)]
    if r < 0.1:
        v[rng.randrange(4)] = 0
    return v


def rdm(rng, bits=None):
    """raw DyadicMatrix arguments; common factors of 2 / sqrt2 injected so that normalize has work to do"""
    if rng.random() < 0.04:
        return {"e": [[0] * 4] * 4, "k": rng.randint(-2, 5)}
    b = bits if bits is not None else rng.choice([2, 4, 10, 60, 200])
    e = [ro(rng, b) for _ in range(4)]
    r = rng.random()
    if r < 0.5:
        j = rng.choice([1, 1, 2, 3, 5])
        e = [r_sq2pow(x, j) for x in e]
    elif r < 0.6:
        e = [[2 * c for c in x] for x in e[:3]] + [r_sq2pow(e[3], 1)]   # not uniformly divisible
    return {"e": e, "k": rng.choice([0, 0, 1, 2, 3, 4, 5, 7, 12, -1, -3])}


def r_oadd(x, y):
    return [a + b for a, b in zip(x, y)]


GATES = {"H": ([[0, 0, 0, 1], [0, 0, 0, 1], [0, 0, 0, 1], [0, 0, 0, -1]], 1),
         "T": ([[0, 0, 0, 1], [0, 0, 0, 0], [0, 0, 0, 0], [0, 0, 1, 0]], 0),
         "S": ([[0, 0, 0, 1], [0, 0, 0, 0], [0, 0, 0, 0], [0, 1, 0, 0]], 0)}


def rword(rng, n=None):
    """raw (un-normalised) DyadicMatrix arguments of a random word in H, T, S: odd and even k, real gridsynth shapes"""
    e, k = [[0, 0, 0, 1], [0, 0, 0, 0], [0, 0, 0, 0], [0, 0, 0, 1]], 0
    letters = rng.choice(["HHTTS", "HS", "HHS"])     # Clifford-only words reduce all the way to k = 0
    for _ in range(n if n is not None else rng.choice([1, 2, 3, 5, 8, 13, 20])):
        g, gk = GATES[rng.choice(letters)]
        e = [r_oadd(r_omul(e[0], g[0]), r_omul(e[1], g[2])), r_oadd(r_omul(e[0], g[1]), r_omul(e[1], g[3])),
             r_oadd(r_omul(e[2], g[0]), r_omul(e[3], g[2])), r_oadd(r_omul(e[2], g[1]), r_omul(e[3], g[3]))]
        k += gk
    return {"e": e, "k": k}


def small_s():
    return [[a, b] for a in range(-2, 3) for b in range(-2, 3)]


def small_o():
    return [[a, b, c, d] for a in (-1, 0, 1) for b in (-1, 0, 1) for c in (-1, 0, 1) for d in (-1, 0, 1)]


def find_zs_factor(p):
    """(a, b) with |a^2 - 2 b^2| = p by search (small p)"""
    for b in range(0, 2000):
        for sgn in (1, -1):
            v = sgn * p + 2 * b * b
            if v >= 0:
                a = math.isqrt(v)
                if a * a == v:
                    return [a, b]
    return None


def gen_cases(rng, tier):
    q = tier == "quick"
    C = []
    add = C.append
    SS, SO_ = small_s(), small_o()
    # ---- exhaustive small elements
    for x in SS:
        for y in SS:
            add({"op": "SMul", "x": x, "y": y})
            add({"op": "SMod", "x": x, "y": y})
            if not q:
                add({"op": "SAdd", "x": x, "y": y}); add({"op": "SSub", "x": x, "y": y})
                add({"op": "SDiv", "x": x, "y": y}); add({"op": "SGcd", "x": x, "y": y})
                add({"op": "SEq", "x": x, "y": y})
    for x in [[a, b] for a in range(-6, 7) for b in range(-6, 7)]:
        for op in ("SNeg", "SAbs", "SConj", "SAdj2", "SSqrt", "SToOmega"):
            add({"op": op, "x": x})
        add({"op": "SPow", "x": x, "n": (x[0] + x[1]) % 5})
    for x in SO_:
        for op in ("ONeg", "OAbs", "OConj", "OAdj2", "ONorm", "OParity", "OToSqrt2"):
            add({"op": op, "x": x})
        if any(x):
            add({"op": "ONormalize", "x": x})
    pairs = [(x, y) for x in SO_ for y in SO_]
    for x, y in (rng.sample(pairs, 400) if q else pairs):
        add({"op": "OMul", "x": x, "y": y})
        add({"op": "OMod", "x": x, "y": y})
    # ---- random, mostly large
    n = 75 if q else 700
    for _ in range(n):
        x, y = rs(rng), rs(rng)
        for op in ("SAdd", "SSub", "SMul", "SEq"):
            add({"op": op, "x": x, "y": rng.choice([y, y, y, x]) if op == "SEq" else y})
        for op in ("SNeg", "SAbs", "SConj", "SAdj2", "SToOmega"):
            add({"op": op, "x": x})
        m = rint(rng)
        add({"op": "SAddZ", "x": x, "n": m, "r": rng.random() < 0.5})
        add({"op": "SMulZ", "x": x, "n": m, "r": rng.random() < 0.5})
        add({"op": "SRsubZ", "x": x, "n": m})
        add({"op": "SPow", "x": rs(rng, rng.choice([2, 8, 64])), "n": rng.choice([0, 1, 2, 3, 4, 7, 12, -1])})
        yd = rs(rng, rng.choice([2, 8, 64, 200]))
        add({"op": "SDiv", "x": r_smul(x, yd) if rng.random() < 0.8 else x, "y": yd})
        d = rint(rng, rng.choice([1, 2, 8, 64]))
        add({"op": "SDivZ", "x": [x[0] * d, x[1] * d] if rng.random() < 0.7 else x, "n": d})
        add({"op": "SFloorZ", "x": x, "n": d})
        add({"op": "SModZ", "x": x, "n": d})
        xs, ys = rs(rng, rng.choice([3, 8, 20])), rs(rng, rng.choice([2, 5, 20]))
        add({"op": "SMod", "x": xs, "y": ys})
        add({"op": "SMod", "x": r_smul(xs, ys) if rng.random() < 0.5 else [xs[0] + 1, xs[1]], "y": xs})
        add({"op": "SGcd", "x": xs, "y": ys})
        g = rs(rng, 6)
        add({"op": "SGcd", "x": r_smul(xs, g), "y": r_smul(ys, g)})
        r = rng.random()
        w = [abs(c) for c in rs(rng, rng.choice([3, 30, 100]))]
        if r < 0.6:
            add({"op": "SSqrt", "x": r_smul(w, w) if rng.random() < 0.7 else r_smul([w[0], -w[1]], [w[0], -w[1]])})
        else:
            add({"op": "SSqrt", "x": rs(rng, rng.choice([3, 6, 40]))})
        # Z[omega]
        x, y = ro(rng), ro(rng)
        for op in ("OAdd", "OSub", "OMul", "OEq", "OMod"):
            add({"op": op, "x": x, "y": rng.choice([y, y, y, x]) if op == "OEq" else y})
        for op in ("ONeg", "OAbs", "OConj", "OAdj2", "ONorm", "OParity"):
            add({"op": op, "x": x})
        add({"op": "OAddZ", "x": x, "n": m, "r": rng.random() < 0.5})
        add({"op": "OMulZ", "x": x, "n": m, "r": rng.random() < 0.5})
        add({"op": "ORsubZ", "x": x, "n": m})
        add({"op": "OPow", "x": ro(rng, rng.choice([2, 8, 64])), "n": rng.choice([0, 1, 2, 3, 5, 9, -2])})
        xq = ro(rng, rng.choice([3, 20, 48]))
        add({"op": "ODivZ", "x": [c * d for c in xq] if rng.random() < 0.7 else xq, "n": d})
        add({"op": "OFloorZ", "x": x, "n": d})
        add({"op": "OFromPair", "al": rs(rng), "be": rs(rng), "sh": ro(rng)})
        add({"op": "OToSqrt2", "x": r_s2o(rs(rng)) if rng.random() < 0.7 else ro(rng, 3)})
        z = ro(rng, rng.choice([2, 10, 100]))
        if any(z):
            add({"op": "ONormalize", "x": r_sq2pow(z, rng.choice([0, 1, 2, 5]))})
        xs, ys = ro(rng, rng.choice([3, 8, 14])), ro(rng, rng.choice([2, 5, 12]))
        add({"op": "OGcd", "x": xs, "y": ys})
        g = ro(rng, 4)
        add({"op": "OGcd", "x": r_omul(xs, g), "y": r_omul(ys, g)})
        # dyadic / SO(3)
        m1, m2 = rdm(rng), rdm(rng)
        add({"op": "DMk", "m": m1})
        add({"op": rng.choice(["DNeg", "DConj", "DAdj2"]), "m": m1})
        add({"op": "DMulZ", "m": m1, "n": rint(rng, rng.choice([1, 3, 40]))})
        add({"op": "DMulO", "m": m1, "w": rng.choice([SQ2, [0, 0, 1, 1], ro(rng, 5)])})
        add({"op": "DAdd", "m": m1, "m2": m2})
        add({"op": "DMatmul", "m": m1, "m2": m2})
        add({"op": "DMult2k", "m": m1, "n": rng.randint(-3, 5)})
        add({"op": "DEq", "m": m1, "m2": rng.choice([m1, m2, dict(m1, k=m1["k"] + 2)])})
        t1, t2 = rdm(rng, rng.choice([2, 6, 50])), rdm(rng, rng.choice([2, 6, 50]))
        add({"op": "TMk", "m": t1})
        add({"op": "TMatmul", "m": t1, "m2": t2})
        add({"op": "TParity", "m": t1})
        w1, w2 = rword(rng), rword(rng)
        add({"op": "TMk", "m": w1})
        add({"op": "TMatmul", "m": w1, "m2": w2})
        add({"op": "TParity", "m": w2})
        add({"op": "DMatmul", "m": w1, "m2": w2})
        add({"op": "DAdd", "m": w1, "m2": w2})
        # law bundles (direct oracle only)
        b = rng.choice([2, 30, 200])
        add({"op": "SLaw", "x": rs(rng, b), "y": rs(rng, b), "z": rs(rng, b), "n": rint(rng, 40)})
        add({"op": "OLaw", "x": ro(rng, b), "y": ro(rng, b), "z": ro(rng, b), "n": rint(rng, 40)})
        add({"op": "DLaw", "m": rdm(rng, 12), "m2": rdm(rng, 12), "m3": rdm(rng, 12)})
    # ---- primality
    for v in range(-3, 1200 if q else 20000):
        add({"op": "PPrime", "n": v})
        add({"op": "PPrimeb", "n": v})
    corpus = [561, 1105, 1729, 2047, 3277, 4033, 4681, 8321, 9409, 10201, 3215031751, 2152302898747,
              3474749660383, 341550071728321, 3825123056546413051, 2 ** 31 - 1, 2 ** 61 - 1, 2 ** 32 + 1,
              2 ** 64 - 59, 2 ** 64 - 1, 97 * 97, 97 * 101, 101 * 103, 101 * 101, 4, 25, 49, 10 ** 12 + 39,
              7 * (2 ** 61 - 1) % (2 ** 64), 18446744073709551557, 18446744073709551533, 4759123141, 1122004669633]
    for v in corpus:
        add({"op": "PPrime", "n": v})
    for _ in range(150 if q else 1500):
        r = rng.random()
        if r < 0.25:
            v = rng.getrandbits(rng.choice([12, 16, 20, 22]))
            add({"op": "PPrimeb", "n": v})
        elif r < 0.45:
            v = rng.choice(PRIMES[25:]) * rng.choice(PRIMES[25:])
        elif r < 0.55:
            v = rng.choice(PRIMES[25:2000]) * rng.choice(PRIMES[25:2000]) * rng.choice(PRIMES[25:2000])
        elif r < 0.65:
            v = rng.choice(PRIMES[25:]) ** 2
        else:
            v = rng.getrandbits(rng.choice([24, 32, 40, 52, 63, 64])) | 1
            if rng.random() < 0.6:       # walk to a nearby (reference) prime
                while not ref_is_prime(v):
                    v += 2
        if v < 2 ** 64:
            add({"op": "PPrime", "n": v})
    # ---- legendre / sqrt mod p / prime factorisation in the rings
    bigp = [p for p in (2 ** 31 - 1, 2 ** 61 - 1, 10 ** 12 + 39, 4759123141, 1000000007, 998244353, 2 ** 32 - 5,
                        (1 << 40) + 15) if ref_is_prime(p)]
    for _ in range(120 if q else 1200):
        r = rng.random()
        if r < 0.55:
            p = rng.choice(PRIMES[: rng.choice([10, 200, len(PRIMES)])])
        elif r < 0.7:
            p = rng.choice(bigp)
        elif r < 0.8:
            p = rng.choice([q_ for q_ in PRIMES[:3000] if q_ % 16 == 1] + [65537, 12289, 40961, 786433, 998244353])
        else:
            p = rng.randrange(3, 1500) | 1       # odd, often composite
        v = rng.choice([rint(rng, 8), rint(rng, 40), 2, -1, -2, 0, p, rng.randrange(p) ** 2])
        add({"op": "PSqrtMod", "n": v, "p": p})
        add({"op": "PLegendre", "a": v % p, "p": p})
    plist = [2, -2] + PRIMES[1:60] + [rng.choice(PRIMES[60:20000]) for _ in range(40 if q else 400)]
    for p in plist:
        add({"op": "PFactS", "p": p})
        if p > 0:
            f = find_zs_factor(p) if p < 3000 else None
            xs = [f] if f else []
            xs.append([p, 0])
            if rng.random() < 0.3:
                xs.append(rs(rng, 4))
            for x in xs:
                add({"op": "PFactO", "x": x, "p": p})
    # ---- norm equations
    for xi in ([0, 0], [1, 0], [-1, 0], [2, 0], [2, 1], [3, 1], [7, 0], [5, 2], [-3, 1], [4, 3], [1, 1], [0, 1]):
        add({"op": "dioph", "xi": xi})
    for _ in range(60 if q else 500):
        r = rng.random()
        if r < 0.7:     # solvable by construction: xi = conj(t) * t
            t = ro(rng, rng.choice([1, 2, 3, 4, 6, 8, 10]))
            nn = r_omul(r_oconj(t), t)
            xi = [nn[3], (nn[2] - nn[0]) // 2]
        elif r < 0.85:
            xi = rs(rng, rng.choice([2, 4, 8]))
        else:           # totally positive candidates
            b = rint(rng, 6)
            xi = [abs(rint(rng, 8)) + 2 * abs(b), b]
        add({"op": "dioph", "xi": xi})
    return C


# ----------------------------------------------------------------- Gallina printers
def g_s(v):
    return f"(ZS {gz(v[0])} {gz(v[1])})"


def g_o(v):
    return f"(ZO {gz(v[0])} {gz(v[1])} {gz(v[2])} {gz(v[3])})"


def g_d(m):
    e = m["e"]
    return f"(RD {g_o(e[0])} {g_o(e[1])} {g_o(e[2])} {g_o(e[3])} {gz(m['k'])})"


def g_obs(o):
    if o == "ERR":
        return "OErr"
    if o is None:
        return "ONone"
    return "OVal " + glist(o, gz)


XY = {"SAdd", "SSub", "SMul", "SEq", "SDiv", "SMod", "SGcd"}
XN = {"SAddZ", "SMulZ", "SPow", "SDivZ", "SFloorZ", "SModZ"}
X1 = {"SNeg", "SAbs", "SConj", "SAdj2", "SSqrt", "SToOmega"}
OXY = {"OAdd", "OSub", "OMul", "OEq", "OMod", "OGcd"}
OXN = {"OAddZ", "OMulZ", "OPow", "ODivZ", "OFloorZ"}
OX1 = {"ONeg", "OAbs", "OConj", "OAdj2", "ONorm", "OParity", "OToSqrt2", "ONormalize"}


def g_case(c):
    op = c["op"]
    if op in XY: return f"{op} {g_s(c['x'])} {g_s(c['y'])}"
    if op in XN: return f"{op} {g_s(c['x'])} {gz(c['n'])}"
    if op in X1: return f"{op} {g_s(c['x'])}"
    if op == "SRsubZ": return f"SRsubZ {gz(c['n'])} {g_s(c['x'])}"
    if op in OXY: return f"{op} {g_o(c['x'])} {g_o(c['y'])}"
    if op in OXN: return f"{op} {g_o(c['x'])} {gz(c['n'])}"
    if op in OX1: return f"{op} {g_o(c['x'])}"
    if op == "ORsubZ": return f"ORsubZ {gz(c['n'])} {g_o(c['x'])}"
    if op == "OFromPair": return f"OFromPair {g_s(c['al'])} {g_s(c['be'])} {g_o(c['sh'])}"
    if op in ("DMk", "DNeg", "DConj", "DAdj2", "TMk", "TParity"): return f"{op} {g_d(c['m'])}"
    if op in ("DMulZ", "DMult2k"): return f"{op} {g_d(c['m'])} {gz(c['n'])}"
    if op == "DMulO": return f"DMulO {g_d(c['m'])} {g_o(c['w'])}"
    if op in ("DAdd", "DMatmul", "DEq", "TMatmul"): return f"{op} {g_d(c['m'])} {g_d(c['m2'])}"
    if op in ("PPrime", "PPrimeb"): return f"{op} {gz(c['n'])}"
    if op == "PLegendre": return f"PLegendre {gz(c['a'])} {gz(c['p'])}"
    if op == "PSqrtMod": return f"PSqrtMod {gz(c['n'])} {gz(c['p'])}"
    if op == "PFactS": return f"PFactS {gz(c['p'])}"
    if op == "PFactO": return f"PFactO {g_s(c['x'])} {gz(c['p'])}"
    raise KeyError(op)


def run(ctx):
    ctx.coq_props()
    rng = ctx.rng
    cases = gen_cases(rng, ctx.tier)
    obs = ctx.run_impl("c16_impl.py", {"cases": cases, "timeout": 3.0})
    terms, owner = [], []
    hist = {}
    stats = {"timeouts": 0, "errors": 0, "none": 0, "dioph_solved": 0, "dioph_none": 0, "dioph_err": 0,
             "dioph_helper_err": 0, "laws_checked": 0, "prime_true": 0, "prime_false": 0,
             "dm_normalized_nontrivially": 0, "sqrt_found": 0, "sqrtmod_found": 0, "bits200": 0}
    distinct = set()

    def viol(kind, c, o, what):
        ctx.violation(kind + ":" + json.dumps(c, sort_keys=True), {"case": c, "implementation": o}, what=what)

    for i, (c, o) in enumerate(zip(cases, obs)):
        op = c["op"]
        hist[op] = hist.get(op, 0) + 1
        if o == "TIMEOUT":
            stats["timeouts"] += 1
            if op in ("dioph", "SLaw", "OLaw", "DLaw"):
                continue            # randomised factoring inside: a slow run is not a disagreement
            # the model must not produce a value where the implementation hangs (fuel exhausted = OErr)
            terms.append(f"({g_case(c)}, OErr)")
            owner.append((i, "implementation did not terminate within the time limit but the model returns"))
            continue
        if o == "ERR":
            stats["errors"] += 1
        if o is None:
            stats["none"] += 1
        if any(isinstance(v, int) and abs(v) >> 150 for k in ("x", "y") if isinstance(c.get(k), list) for v in c[k]):
            stats["bits200"] += 1
        # ---------------- direct oracles (the property's own statement on the implementation's output)
        if op in ("SLaw", "OLaw", "DLaw"):
            if o == "ERR":
                viol("direct", c, o, "ring-law bundle raised")
                continue
            for j, (l, r) in enumerate(o):
                stats["laws_checked"] += 1
                same = dm_same_value(l, r) if op == "DLaw" else l == r
                if not same:
                    viol("direct", c, {"law_index": j, "lhs": l, "rhs": r}, f"ring law #{j} of {op} fails on the real classes")
            distinct.add(i)
            continue
        if op == "dioph":
            xi = c["xi"]
            res = o["res"]
            if res == "ERR":
                stats["dioph_err"] += 1
                if o["exc_in_helper"]:
                    stats["dioph_helper_err"] += 1
                    continue            # raised inside the (unmodelled) factoring helpers
            elif res is None:
                stats["dioph_none"] += 1
            else:
                stats["dioph_solved"] += 1
                distinct.add(i)
                if r_omul(r_oconj(res), res) != r_s2o(xi):
                    viol("direct", c, o, "returned solution t does not satisfy conj(t)*t = xi")
                terms.append(f"(PSol {g_s(xi)} {g_o(res)}, OVal [1%Z])")
                owner.append((i, "solution re-checked in Coq"))
            terms.append(f"(PDioph {g_s(xi)} {gbool(o['loop_ok'])} {glist(o['ts'], g_o)}, {g_obs(res)})")
            owner.append((i, "solver tail vs model"))
            continue
        if op == "PPrime" and c["n"] < 2 ** 64 and o != "ERR":
            ref = ref_is_prime(c["n"])
            stats["prime_true" if ref else "prime_false"] += 1
            if bool(o[0]) != ref:
                viol("direct", c, o, "_primality_test disagrees with the independent primality oracle")
        if op == "PSqrtMod" and c["p"] > 2 and ref_is_prime(c["p"]) and o != "ERR":
            a = c["n"] % c["p"]
            qr = a == 0 or pow(a, (c["p"] - 1) // 2, c["p"]) == 1
            if (o is None) == qr or (o is not None and (o[0] * o[0] - a) % c["p"] != 0):
                viol("direct", c, o, "_sqrt_modulo_p result is not a square root / wrong residuosity")
            if o is not None:
                stats["sqrtmod_found"] += 1
        if op == "SSqrt" and isinstance(o, list):
            stats["sqrt_found"] += 1
            if r_smul(o, o) != c["x"]:
                viol("direct", c, o, "ZSqrtTwo.sqrt result does not square to its argument")
        if op == "DMk" and isinstance(o, list):
            raw = [v for e in c["m"]["e"] for v in e] + [c["m"]["k"]]
            if any(c["m"]["e"][j] != [0, 0, 0, 0] for j in range(4)) and not dm_same_value(raw, o):
                viol("direct", c, o, "DyadicMatrix normalisation changed the denoted matrix")
            if o != raw:
                stats["dm_normalized_nontrivially"] += 1
        if op in ("SMul", "OMul") and isinstance(o, list):
            exp = r_smul(c["x"], c["y"]) if op == "SMul" else r_omul(c["x"], c["y"])
            if exp != o:
                viol("direct", c, o, "product differs from the reference ring product")
        if isinstance(o, list) and op[0] in "SODT":
            distinct.add(i)
        terms.append(f"({g_case(c)}, {g_obs(o)})")
        owner.append((i, "implementation differs from the model"))

    # interleave so that every shard gets the same mix of cheap and expensive (200-bit) cases
    nsh = 8
    order = sorted(range(len(terms)), key=lambda j: (j % nsh, j))
    terms = [terms[j] for j in order]
    owner = [owner[j] for j in order]
    bad = ctx.coq_eval_cases("cases", "From PLV Require Import Disc.RingsModel.", terms, "check_case",
                             chunk=max(400, -(-len(terms) // nsh)))
    for b in bad:
        i, why = owner[b]
        ctx.violation("corr:" + json.dumps(cases[i], sort_keys=True),
                      {"case": cases[i], "implementation": obs[i], "coq_term": terms[b][:2000]},
                      what=f"{cases[i]['op']}: {why}")
    ctx.coverage.update({
        "evaluations": len(cases), "distinct_nontrivial": len(distinct),
        "rule": "exhaustive small elements (Z[sqrt2] coefficients in [-2,2] pairwise, [-6,6] unary; Z[omega] coefficients in {-1,0,1}) + seeded random elements (1..200-bit coefficients), structured operands for division/sqrt/normalisation/gcd, law bundles evaluated on the real classes, primality on a full initial range + pseudoprime corpus + random up to 2^64, sqrt mod p for prime and composite p, norm equations xi = conj(t) t and random xi; non-trivial = returned a value (not an error) in a ring/matrix op, a law bundle, or a solved norm equation",
        "input_distribution": {"ops": hist, **stats}})
    for c, o in list(zip(cases, obs)):
        if c["op"] in ("dioph", "DAdd", "SMod", "TMk") and o not in ("ERR", None, "TIMEOUT"):
            if not any(s["case"]["op"] == c["op"] for s in ctx.samples):
                ctx.sample({"case": c, "observed": o})
