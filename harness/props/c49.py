"""C49 Quantum-information functions match their definitions."""
import hashlib
import math
from fractions import Fraction as F

from vlib import *

PID = "C49"
META = {
    "level": "proof",
    "technique": "Coq proofs by structural induction over an exact quad-tree model (Gaussian rationals) of reduce_dm / "
                 "partial_trace / reduce_statevector / expand_matrix / purity / pure fidelity + vm_compute correspondence "
                 "against pennylane.math on dyadic states; eigenvalue-based quantities by numerical oracles (mpmath)",
    "design_ref": "DESIGN.md §3 C49",
    "text": "21 kernel-checked theorems (Props/C49.v, all qubit numbers, all index sets): the transcribed partial_trace loop "
            "equals the mask contraction; reduce_dm (sorted and permuted kept wires) equals the explicit index-contraction "
            "sum entry by entry; partial traces preserve the trace, compose (A then B = A u B) and are order-independent; "
            "the reduced state of rho_A (x) rho_B is tr(rho_B) rho_A; reduce_statevector = "
            "partial trace of |psi><psi|; Kronecker expansion with identities is multiplicative, unital and reducing it "
            "back gives 2^k times the operator; entry formula of the tensor re-indexing (permute_dense / build-get laws); "
            "pure fidelity is symmetric, = |<psi|phi>|^2, >= 0 and <= <psi|psi><phi|phi> (Cauchy-Schwarz over Q(i)); "
            "purity of |psi><psi| is <psi|psi>^2 (= 1 when normalised). The model's executable definitions are run inside "
            "Coq on the same generated dyadic (exactly representable) states/operators as qp.math.reduce_dm, partial_trace "
            "(numpy and autograd code paths), reduce_statevector, dm_from_state_vector, expand_matrix (dense, batched, "
            "scipy-sparse), purity, fidelity_statevector and every entry is compared exactly.",
    "note": "NOT proved, validated numerically only (tie-only oracles, 1e-8, mpmath 30 digits from the definitions): "
            "vn_entropy, max/min_entropy, mutual_info, relative_entropy, trace_distance, mixed-state fidelity and their "
            "bounds/inequalities (0<=S<=log d, I>=0, S(rho||sigma)>=0 / +inf on support mismatch, metric axioms on "
            "random triples, fidelity in [0,1] and symmetric). FINDING reported under the single key "
            "finding:relative_entropy_rank_deficient: qp.math.relative_entropy returns nan/inf for rank-deficient arguments "
            "(e.g. relative_entropy(|+><+|, |+><+|) = inf instead of 0). Trusted: Coq kernel; the hand transcription "
            "coq/Num/QInfoModel.v (quad-tree representation, big-endian conversion from flat arrays) is tied to /repo "
            "only by the correspondence run; the multiplicativity / trace-preservation theorems for expand_matrix cover "
            "the Kronecker-with-identity part (the link to the transcribed expand_matrix is proved for <= 3+3+3 ordered "
            "contiguous wires), the general wire permutation is characterised entrywise (permute_dense_is_reindexing) but its "
            "multiplicativity and trace invariance are not proved (reduce_dm_trace_preserved is therefore partial: sorted "
            "kept wires); batching is modelled per batch element; "
            "floating-point rounding, c_dtype and check_state=True validation are outside the model (inputs are dyadic so "
            "the float results are exact).",
    "assumptions": ["inputs well-formed: 2^n x 2^n arrays, distinct in-range indices, wires contained in wire_order",
                    "expand_matrix on a batch of size 1 drops the batch axis when further identities are attached "
                    "(shape quirk, values agree; normalised by the harness)"],
    "trusted": ["hand-written model coq/Num/QInfoModel.v tied to /repo by correspondence only",
                "mpmath.eighe (30 digits) and exact Fraction rank/support computations for the tie-only oracles"],
}

# ------------------------------------------------------------------ exact complex arithmetic on Fraction pairs
Z0 = (F(0), F(0))


def cm(a, b):
    return (a[0] * b[0] - a[1] * b[1], a[0] * b[1] + a[1] * b[0])


def ca(a, b):
    return (a[0] + b[0], a[1] + b[1])


def cj(a):
    return (a[0], -a[1])


def cdiv(a, b):
    d = b[0] * b[0] + b[1] * b[1]
    n = cm(a, cj(b))
    return (n[0] / d, n[1] / d)


def crank(rows):
    m = [list(r) for r in rows]
    rank, ncols = 0, len(m[0]) if m else 0
    for col in range(ncols):
        piv = next((i for i in range(rank, len(m)) if m[i][col] != Z0), None)
        if piv is None:
            continue
        m[rank], m[piv] = m[piv], m[rank]
        for i in range(rank + 1, len(m)):
            if m[i][col] != Z0:
                f = cdiv(m[i][col], m[rank][col])
                m[i] = [ca(x, (-(cm(f, y))[0], -(cm(f, y))[1])) for x, y in zip(m[i], m[rank])]
        rank += 1
    return rank


# ------------------------------------------------------------------ generators (all dyadic)
SX = [[(F(1, 2), F(1, 2)), (F(1, 2), F(-1, 2))], [(F(1, 2), F(-1, 2)), (F(1, 2), F(1, 2))]]
GX = [[Z0, (F(1), F(0))], [(F(1), F(0)), Z0]]
GZ = [[(F(1), F(0)), Z0], [Z0, (F(-1), F(0))]]
GS = [[(F(1), F(0)), Z0], [Z0, (F(0), F(1))]]
HU = [[(F(1), F(0)), (F(1), F(0))], [(F(1), F(0)), (F(-1), F(0))]]      # sqrt(2) * H


def apply_1q(psi, n, q, g):
    step = 1 << (n - 1 - q)
    out = list(psi)
    for i in range(len(psi)):
        if not i & step:
            a, b = psi[i], psi[i | step]
            out[i] = ca(cm(g[0][0], a), cm(g[0][1], b))
            out[i | step] = ca(cm(g[1][0], a), cm(g[1][1], b))
    return out


def rand_pure(rng, n):
    """exactly normalised dyadic state: basis state through X, Z, S, sqrtX, CNOT, CZ, SWAP, H(x)H (<= 3 halvings)"""
    dim = 1 << n
    psi = [Z0] * dim
    psi[rng.randrange(dim)] = (F(1), F(0))
    halvings = 0
    for _ in range(rng.randint(1, 2 * n + 4)):
        g = rng.choice(["X", "Z", "S", "SX", "SX", "CNOT", "CZ", "SWAP", "HH", "HH"])
        if g in ("X", "Z", "S"):
            psi = apply_1q(psi, n, rng.randrange(n), {"X": GX, "Z": GZ, "S": GS}[g])
        elif g == "SX":
            if halvings < 3:
                halvings += 1
                psi = apply_1q(psi, n, rng.randrange(n), SX)
        elif n >= 2:
            a, b = rng.sample(range(n), 2)
            ma, mb = 1 << (n - 1 - a), 1 << (n - 1 - b)
            if g == "CNOT":
                psi = [psi[i ^ mb] if i & ma else psi[i] for i in range(dim)]
            elif g == "CZ":
                psi = [(-psi[i][0], -psi[i][1]) if (i & ma and i & mb) else psi[i] for i in range(dim)]
            elif g == "SWAP":
                psi = [psi[(i ^ ma ^ mb) if bool(i & ma) != bool(i & mb) else i] for i in range(dim)]
            elif halvings < 3:
                halvings += 1
                psi = apply_1q(apply_1q(psi, n, a, HU), n, b, HU)
                psi = [(x[0] / 2, x[1] / 2) for x in psi]
    return psi


def outer(psi, phi=None):
    phi = psi if phi is None else phi
    return [[cm(a, cj(b)) for b in phi] for a in psi]


def rand_mixed(rng, n, max_terms=None):
    """dyadic convex combination of projectors on exactly normalised dyadic states (often rank-deficient)"""
    dim = 1 << n
    k = rng.randint(1, max_terms or min(dim + 1, 5))
    s = rng.choice([1, 2, 3])
    tot = 1 << s
    k = min(k, tot)
    cuts = sorted(rng.sample(range(1, tot), k - 1)) if k > 1 else []
    ws = [b - a for a, b in zip([0] + cuts, cuts + [tot])]
    rho = [[Z0] * dim for _ in range(dim)]
    for w in ws:
        p = outer(rand_pure(rng, n))
        for i in range(dim):
            for j in range(dim):
                if p[i][j] != Z0:
                    rho[i][j] = ca(rho[i][j], (p[i][j][0] * F(w, tot), p[i][j][1] * F(w, tot)))
    return rho


def rand_entry(rng):
    if rng.random() < 0.35:
        return Z0
    s = rng.choice([0, 1, 2, 3])
    return (F(rng.randint(-8, 8), 1 << s), F(rng.randint(-8, 8), 1 << s) if rng.random() < 0.7 else F(0))


def rand_matrix(rng, dim):
    return [[rand_entry(rng) for _ in range(dim)] for _ in range(dim)]


def rand_vector(rng, dim):
    return [rand_entry(rng) for _ in range(dim)]


def rand_dm(rng, n, arbitrary_ok=True):
    r = rng.random()
    if arbitrary_ok and r < 0.3:
        return "arbitrary", rand_matrix(rng, 1 << n)
    if r < 0.45:
        return "pure", outer(rand_pure(rng, n))
    return "mixed", rand_mixed(rng, n)


# ------------------------------------------------------------------ encoding
def flat(x):
    if isinstance(x, tuple):
        yield x
    else:
        for y in x:
            yield from flat(y)


def encode(x):
    """nested lists of Fraction pairs -> {"d": den, "e": nested [re, im] ints}"""
    d = 1
    for re, im in flat(x):
        d = d * re.denominator // math.gcd(d, re.denominator)
        d = d * im.denominator // math.gcd(d, im.denominator)

    def go(y):
        if isinstance(y, tuple):
            return [int(y[0] * d), int(y[1] * d)]
        return [go(z) for z in y]
    assert d & (d - 1) == 0 and d < 2 ** 40
    return {"d": d, "e": go(x)}


def decode(a):
    d = a["d"]

    def go(y):
        if y and isinstance(y[0], int):
            return (F(y[0], d), F(y[1], d))
        return [go(z) for z in y]
    return go(a["e"])


def g_zc(e):
    return f"({e[0]}, {e[1]})"


def g_dmat(a):
    return f"({a['d']}%positive, {glist(a['e'], lambda r: glist(r, g_zc))})"


def g_dvec(a):
    return f"({a['d']}%positive, {glist(a['e'], g_zc)})"


def g_nats(l):
    return glist(l, gnat)


def float_array_to_dmat(x):
    """nested lists of [re, im] floats -> encoded exact array, or None if a value is not finite"""
    def go(y):
        if y and isinstance(y[0], (int, float)):
            if not (math.isfinite(y[0]) and math.isfinite(y[1])):
                raise ValueError
            return (F(y[0]), F(y[1]))
        return [go(z) for z in y]
    try:
        fr = go(x)
        d = 1
        for re, im in flat(fr):
            d = max(d, re.denominator, im.denominator)
        if d > 2 ** 200:
            return None

        def ints(y):
            if isinstance(y, tuple):
                return [int(y[0] * d), int(y[1] * d)]
            return [ints(z) for z in y]
        return {"d": d, "e": ints(fr)}
    except (ValueError, OverflowError):
        return None


# ------------------------------------------------------------------ independent exact reference (direct oracles)
def bits(i, k):
    return [(i >> (k - 1 - j)) & 1 for j in range(k)]


def unbits(bs):
    v = 0
    for b in bs:
        v = 2 * v + b
    return v


def py_reduce(rho, n, indices):
    """explicit index contraction; output qubit j = wire indices[j]"""
    k = len(indices)
    traced = [w for w in range(n) if w not in indices]

    def full(r, t):
        b = [0] * n
        for j, w in enumerate(indices):
            b[w] = r[j]
        for j, w in enumerate(traced):
            b[w] = t[j]
        return unbits(b)
    out = [[Z0] * (1 << k) for _ in range(1 << k)]
    for r in range(1 << k):
        for c in range(1 << k):
            acc = Z0
            for t in range(1 << len(traced)):
                tb = bits(t, len(traced))
                acc = ca(acc, rho[full(bits(r, k), tb)][full(bits(c, k), tb)])
            out[r][c] = acc
    return out


def py_expand(mat, wires, wire_order):
    L = len(wire_order)
    pos = [wire_order.index(w) for w in wires]
    other = [p for p in range(L) if p not in pos]
    out = [[Z0] * (1 << L) for _ in range(1 << L)]
    for r in range(1 << L):
        rb = bits(r, L)
        for c in range(1 << L):
            cb = bits(c, L)
            if all(rb[p] == cb[p] for p in other):
                out[r][c] = mat[unbits([rb[p] for p in pos])][unbits([cb[p] for p in pos])]
    return out


def exact_eq_float(frmat, fl):
    """Fraction-pair matrix == nested [re, im] float matrix exactly"""
    try:
        return len(frmat) == len(fl) and all(
            len(a) == len(b) and all(F(y[0]) == x[0] and F(y[1]) == x[1] for x, y in zip(a, b)) for a, b in zip(frmat, fl))
    except (ValueError, OverflowError, TypeError):
        return False


# ------------------------------------------------------------------ mpmath oracles from the definitions
def mp_setup():
    import mpmath
    mpmath.mp.dps = 30
    return mpmath


def to_mp(mp, m):
    return mp.matrix([[mp.mpc(mp.mpf(x[0].numerator) / x[0].denominator, mp.mpf(x[1].numerator) / x[1].denominator)
                       for x in row] for row in m])


def mp_eigs(mp, m, vecs=False):
    if len(m) == 1:
        e = [mp.mpf(m[0][0][0].numerator) / m[0][0][0].denominator]
        return (e, mp.matrix([[1]])) if vecs else e
    if vecs:
        E, Q = mp.eighe(to_mp(mp, m))
        return list(E), Q
    return list(mp.eighe(to_mp(mp, m), eigvals_only=True))


def mp_entropy(mp, m, base):
    s = mp.mpf(0)
    for l in mp_eigs(mp, m):
        if l > mp.mpf(10) ** -22:
            s -= l * mp.log(l)
    return s / (mp.log(base) if base else 1)


def mp_rel_entropy(mp, rho, sigma, base):
    """Tr rho (log rho - log sigma); caller has checked supp rho <= supp sigma exactly"""
    p, U = mp_eigs(mp, rho, True)
    q, V = mp_eigs(mp, sigma, True)
    d = len(rho)
    eps = mp.mpf(10) ** -22
    s = mp.mpf(0)
    for i in range(d):
        if p[i] > eps:
            s += p[i] * mp.log(p[i])
            for j in range(d):
                if q[j] > eps:
                    ov = sum(mp.conj(U[k, i]) * V[k, j] for k in range(d))
                    s -= p[i] * abs(ov) ** 2 * mp.log(q[j])
    return s / (mp.log(base) if base else 1)


def mp_fidelity(mp, rho, sigma):
    p, U = mp_eigs(mp, rho, True)
    d = len(rho)
    D = mp.diag([mp.sqrt(x) if x > 0 else 0 for x in p])
    sq = U * D * U.H
    M = sq * to_mp(mp, sigma) * sq
    M = (M + M.H) / 2
    ev = [M[0, 0].real] if d == 1 else list(mp.eighe(M, eigvals_only=True))
    return sum(mp.sqrt(x) for x in ev if x > 0) ** 2


def mp_trace_distance(mp, rho, sigma):
    diff = [[ca(a, (-b[0], -b[1])) for a, b in zip(r, s)] for r, s in zip(rho, sigma)]
    return sum(abs(x) for x in mp_eigs(mp, diff)) / 2


# ------------------------------------------------------------------ case generation
def pick_n(rng, tier, cap=5):
    pool = [1, 2, 2, 3, 3, 3, 4, 4, 5] if tier == "quick" else [1, 2, 2, 3, 3, 3, 4, 4, 4, 5, 5]
    return min(rng.choice(pool), cap)


def rand_indices(rng, n, allow_empty=False, allow_full=True):
    lo = 0 if allow_empty else 1
    hi = n if allow_full else n - 1
    if n >= 3 and hi >= 3 and rng.random() < 0.3:
        k = rng.randint(3, hi)
        ix = sorted(rng.sample(range(n), k))
        s = rng.randint(1, k - 1)
        return ix[s:] + ix[:s]                     # cyclic shift: a permutation that is not an involution
    k = rng.randint(lo, max(lo, hi))
    ix = rng.sample(range(n), k)
    if rng.random() < 0.4:
        ix.sort()
    return ix


def gen_tie_case(rng, tier):
    op = rng.choice(["reduce_dm"] * 6 + ["partial_trace"] * 4 + ["reduce_sv"] * 3 + ["dm_from_sv"] + ["expand"] * 6 +
                    ["purity"] * 2 + ["fid_sv"] * 2 + ["fid_dm_pure"])
    batch = rng.choice([1, 2, 3]) if rng.random() < 0.25 else None
    if op in ("reduce_dm", "partial_trace", "purity"):
        n = pick_n(rng, tier, 3 if batch else 5)
        kinds, mats = zip(*[rand_dm(rng, n, arbitrary_ok=True) for _ in range(batch or 1)])
        c = {"op": op, "n": n, "kind": list(kinds), "batch": batch,
             "rho": encode(list(mats) if batch else mats[0])}
        if op == "partial_trace":
            c["indices"] = rand_indices(rng, n, allow_empty=True)
            if rng.random() < 0.35:
                c["iface"] = "autograd"
        else:
            c["indices"] = rand_indices(rng, n)
        return c
    if op in ("reduce_sv", "dm_from_sv"):
        n = pick_n(rng, tier, 3 if batch else 5)
        vs = [rand_pure(rng, n) if rng.random() < 0.7 else rand_vector(rng, 1 << n) for _ in range(batch or 1)]
        c = {"op": op, "n": n, "batch": batch, "psi": encode(vs if batch else vs[0])}
        if op == "reduce_sv":
            c["indices"] = rand_indices(rng, n)
        return c
    if op in ("fid_sv", "fid_dm_pure"):
        n = pick_n(rng, tier, 3 if batch else (5 if op == "fid_sv" else 4))
        if op == "fid_dm_pure":
            batch = None
        mk = (lambda: rand_pure(rng, n)) if (op == "fid_dm_pure" or rng.random() < 0.7) else (lambda: rand_vector(rng, 1 << n))
        b0 = batch if (batch and rng.random() < 0.7) else None
        b1 = batch if (batch and (b0 is None or rng.random() < 0.6)) else None
        v0 = [mk() for _ in range(b0 or 1)]
        v1 = [mk() for _ in range(b1 or 1)]
        if rng.random() < 0.15:
            v1 = [list(v) for v in v0[:len(v1)]] + [mk() for _ in range(len(v1) - len(v0))]
        return {"op": op, "n": n, "b0": b0, "b1": b1, "psi": encode(v0 if b0 else v0[0]),
                "phi": encode(v1 if b1 else v1[0])}
    # expand_matrix
    k = rng.choice([0, 1, 1, 2, 2, 2, 3])
    maxL = 5 if tier == "thorough" or rng.random() < 0.3 else 4
    L = rng.randint(max(k, 1) if rng.random() < 0.97 else k, maxL)
    labels = rng.sample(range(8), L)
    wires = rng.sample(labels, k)
    r = rng.random()
    if r < 0.06:
        wire_order = list(wires)
    elif r < 0.09:
        wire_order = None
    else:
        wire_order = labels
    if batch and k == 0:
        batch = None
    ms = [rand_matrix(rng, 1 << k) for _ in range(batch or 1)]
    c = {"op": "expand", "k": k, "batch": batch, "mat": encode(ms if batch else ms[0]), "wires": wires,
         "wire_order": wire_order}
    if not batch and rng.random() < 0.2:
        c["sparse"] = True
    return c


def tie_terms(c, out):
    """-> list of (gallina_op, gallina_res) one per batch element, or raises ValueError on non-finite/odd shape"""
    op = c["op"]

    def items(a, b):
        return [{"d": a["d"], "e": e} for e in a["e"]] if b else [a]
    if op in ("reduce_dm", "partial_trace", "purity", "reduce_sv", "dm_from_sv", "expand"):
        key = {"reduce_sv": "psi", "dm_from_sv": "psi", "expand": "mat"}.get(op, "rho")
        ins = items(c[key], c["batch"])
        outs = out
        if op == "expand" and c["batch"] and outs and isinstance(outs[0][0][0], (int, float)):
            outs = [outs]                                    # batch of size 1 came back un-batched (shape quirk)
        if not c["batch"]:
            outs = [outs]
        if len(outs) != len(ins):
            raise ValueError("batch size of the result differs")
        terms = []
        for a, o in zip(ins, outs):
            if op == "reduce_dm":
                g = f"OReduceDm {gnat(c['n'])} {g_dmat(a)} {g_nats(c['indices'])}"
            elif op == "partial_trace":
                g = f"OPartialTrace {gnat(c['n'])} {g_dmat(a)} {g_nats(c['indices'])}"
            elif op == "purity":
                g = f"OPurity {gnat(c['n'])} {g_dmat(a)} {g_nats(c['indices'])}"
            elif op == "reduce_sv":
                g = f"OReduceSv {gnat(c['n'])} {g_dvec(a)} {g_nats(c['indices'])}"
            elif op == "dm_from_sv":
                g = f"ODmFromSv {gnat(c['n'])} {g_dvec(a)}"
            else:
                g = f"OExpand {gnat(c['k'])} {g_dmat(a)} {g_nats(c['wires'])} {gopt(c['wire_order'], g_nats)}"
            if op == "purity":
                if not isinstance(o, (int, float)) or not math.isfinite(o):
                    raise ValueError("purity not a finite real")
                terms.append(f"({g}, RReal {gq(F(o))} 0%Q)")
            else:
                e = float_array_to_dmat(o)
                if e is None:
                    raise ValueError("non-finite entries")
                terms.append(f"({g}, RMat {g_dmat(e)})")
        return terms
    # fidelities
    p, q = items(c["psi"], c["b0"]), items(c["phi"], c["b1"])
    nb = max(len(p), len(q))
    outs = out if (c["b0"] or c["b1"]) else [out]
    if len(outs) != nb:
        raise ValueError("batch size of the result differs")
    tol = "(1 # 1000000000000)%Q" if op == "fid_sv" else "(1 # 2000000)%Q"
    terms = []
    for j in range(nb):
        o = outs[j]
        if not isinstance(o, (int, float)) or not math.isfinite(o):
            raise ValueError("fidelity not a finite real")
        terms.append(f"(OFidSv {gnat(c['n'])} {g_dvec(p[j % len(p)])} {g_dvec(q[j % len(q)])}, RReal {gq(F(o))} {tol})")
    return terms


def impl_calls(c):
    """the impl-driver calls for a tie case"""
    if c["op"] == "fid_dm_pure":
        psi, phi = decode(c["psi"]), decode(c["phi"])
        return [{"op": "fid_dm", "rho": encode(outer(psi)), "sigma": encode(outer(phi))}]
    return [c]


def direct_tie_oracle(c, out):
    """the property's own statement evaluated in python (independent explicit contraction / re-indexing)"""
    op = c["op"]
    try:
        if op in ("reduce_dm", "partial_trace"):
            ins = decode(c["rho"])
            ins = ins if c["batch"] else [ins]
            outs = out if c["batch"] else [out]
            n = c["n"]
            keep = c["indices"] if op == "reduce_dm" else [w for w in range(n) if w not in c["indices"]]
            return all(exact_eq_float(py_reduce(m, n, keep), o) for m, o in zip(ins, outs)) and len(ins) == len(outs)
        if op == "expand" and c["wire_order"] is not None and c["wire_order"] != c["wires"]:
            ins = decode(c["mat"])
            ins = ins if c["batch"] else [ins]
            outs = out if c["batch"] else [out]
            if c["batch"] and outs and isinstance(outs[0][0][0], (int, float)):
                outs = [outs]
            return all(exact_eq_float(py_expand(m, c["wires"], c["wire_order"]), o) for m, o in zip(ins, outs))
        if op in ("reduce_sv", "dm_from_sv"):
            ins = decode(c["psi"])
            ins = ins if c["batch"] else [ins]
            outs = out if c["batch"] else [out]
            keep = c["indices"] if op == "reduce_sv" else list(range(c["n"]))
            return all(exact_eq_float(py_reduce(outer(v), c["n"], keep), o) for v, o in zip(ins, outs))
    except (TypeError, IndexError, KeyError):
        return False
    return True


# ------------------------------------------------------------------ eigenvalue-based oracle scenarios
def gen_oracle_scenario(rng, tier):
    kind = rng.choice(["entropy"] * 4 + ["mutual_info"] * 3 + ["rel_entropy"] * 3 + ["trace_distance"] * 3 + ["fidelity"] * 3)
    base = rng.choice([None, None, 2, 10, 3])
    cap = 4 if tier == "quick" else 5
    if kind == "entropy":
        n = pick_n(rng, tier, cap)
        _, rho = rand_dm(rng, n, arbitrary_ok=False)
        ix = rand_indices(rng, n)
        if len(ix) > 4:
            ix = ix[:4]
        return {"kind": kind, "n": n, "rho": encode(rho), "indices": ix, "base": base}
    if kind == "mutual_info":
        n = max(2, pick_n(rng, tier, cap))
        _, rho = rand_dm(rng, n, arbitrary_ok=False)
        ws = rng.sample(range(n), rng.randint(2, min(n, 4)))
        cut = rng.randint(1, len(ws) - 1)
        return {"kind": kind, "n": n, "rho": encode(rho), "indices0": ws[:cut], "indices1": ws[cut:], "base": base}
    n = pick_n(rng, tier, 3 if kind != "trace_distance" else 4)
    if kind == "rel_entropy":
        r = rng.random()
        sigma = rand_mixed(rng, n, max_terms=(1 << n) + 2)
        if r < 0.35:        # full-rank sigma: mix with the maximally mixed state
            dim = 1 << n
            sigma = [[(x[0] / 2 + (F(1, 2 * dim) if i == j else 0), x[1] / 2) for j, x in enumerate(row)]
                     for i, row in enumerate(sigma)]
            _, rho = rand_dm(rng, n, arbitrary_ok=False)
        elif r < 0.6:       # supp rho inside supp sigma: sigma = (rho + tau)/2
            _, rho = rand_dm(rng, n, arbitrary_ok=False)
            sigma = [[((a[0] + b[0]) / 2, (a[1] + b[1]) / 2) for a, b in zip(ra, rb)] for ra, rb in zip(rho, sigma)]
        elif r < 0.7:
            rho = [list(row) for row in sigma]
        else:
            _, rho = rand_dm(rng, n, arbitrary_ok=False)
        return {"kind": kind, "n": n, "rho": encode(rho), "sigma": encode(sigma), "base": base}
    sts = [rand_dm(rng, n, arbitrary_ok=False)[1] for _ in range(3)]
    if rng.random() < 0.15:
        sts[1] = [list(r) for r in sts[0]]
    return {"kind": kind, "n": n, "states": [encode(s) for s in sts]}


def scenario_calls(s):
    k = s["kind"]
    if k == "entropy":
        a = {"rho": s["rho"], "indices": s["indices"], "base": s["base"]}
        return [dict(a, op="vn_entropy"), dict(a, op="max_entropy"), dict(a, op="min_entropy")]
    if k == "mutual_info":
        return [{"op": "mutual_info", "rho": s["rho"], "indices0": s["indices0"], "indices1": s["indices1"], "base": s["base"]},
                {"op": "mutual_info", "rho": s["rho"], "indices0": s["indices1"], "indices1": s["indices0"], "base": s["base"]},
                {"op": "mutual_info", "rho": s["rho"], "indices0": s["indices0"], "indices1": s["indices0"][:1] + s["indices1"],
                 "base": s["base"]}]
    if k == "rel_entropy":
        return [{"op": "rel_entropy", "rho": s["rho"], "sigma": s["sigma"], "base": s["base"]},
                {"op": "rel_entropy", "rho": s["rho"], "sigma": s["rho"], "base": s["base"]}]
    op = "trace_distance" if k == "trace_distance" else "fid_dm"
    a, b, c = s["states"]
    return [{"op": op, "rho": a, "sigma": b}, {"op": op, "rho": b, "sigma": a}, {"op": op, "rho": b, "sigma": c},
            {"op": op, "rho": a, "sigma": c}, {"op": op, "rho": a, "sigma": a},
            {"op": op, "rho": {"d": a["d"], "e": [a["e"], a["e"]]} if a["d"] == b["d"] else a,
             "sigma": {"d": b["d"], "e": [b["e"], b["e"]]} if a["d"] == b["d"] else b}]


def close(x, y, tol):
    try:
        return math.isfinite(x) and abs(x - float(y)) <= tol
    except TypeError:
        return False


def check_scenario(mp, s, outs, stats):
    """returns a list of human-readable failures"""
    k, fails = s["kind"], []
    vals = [o.get("ok") if isinstance(o, dict) else None for o in outs]
    TOL = 1e-8
    if k == "entropy":
        rho = decode(s["rho"])
        red = py_reduce(rho, s["n"], s["indices"])
        d = len(red)
        base = s["base"]
        lb = math.log(base) if base else 1.0
        S = mp_entropy(mp, red, base)
        ev = mp_eigs(mp, red)
        rk = crank(red)
        stats["rank_deficient"] += rk < d
        Smax = math.log(rk) / lb
        Smin = -float(mp.log(max(ev))) / lb
        for name, v, ref in (("vn_entropy", vals[0], S), ("max_entropy", vals[1], Smax), ("min_entropy", vals[2], Smin)):
            if not isinstance(v, (int, float)) or not close(v, ref, TOL):
                fails.append(f"{name}={v!r} but definition gives {float(ref)!r}")
        if not fails:
            if not (-1e-9 <= vals[0] <= math.log(d) / lb + 1e-9):
                fails.append(f"vn_entropy={vals[0]} outside [0, log d]")
            if not (vals[2] - 1e-8 <= vals[0] <= vals[1] + 1e-8):
                fails.append(f"S_min <= S <= S_max violated: {vals[2]}, {vals[0]}, {vals[1]}")
    elif k == "mutual_info":
        rho = decode(s["rho"])
        n, i0, i1, base = s["n"], s["indices0"], s["indices1"], s["base"]
        ref = (mp_entropy(mp, py_reduce(rho, n, i0), base) + mp_entropy(mp, py_reduce(rho, n, i1), base)
               - mp_entropy(mp, py_reduce(rho, n, sorted(i0 + i1)), base))
        if not isinstance(vals[0], (int, float)) or not close(vals[0], ref, TOL):
            fails.append(f"mutual_info={vals[0]!r} but definition gives {float(ref)!r}")
        elif vals[0] < -1e-9:
            fails.append(f"mutual_info={vals[0]} negative")
        elif not isinstance(vals[1], (int, float)) or abs(vals[0] - vals[1]) > 1e-9:
            fails.append(f"mutual_info not symmetric: {vals[0]} vs {vals[1]}")
        if not (isinstance(outs[2], dict) and outs[2].get("err") == "ValueError"):
            fails.append("overlapping subsystems not rejected with ValueError")
    elif k == "rel_entropy":
        rho, sigma, base = decode(s["rho"]), decode(s["sigma"]), s["base"]
        inside = crank(sigma + rho) == crank(sigma)
        stats["rel_support_mismatch"] += not inside
        stats["rank_deficient"] += crank(sigma) < len(sigma)
        v = vals[0]
        if not isinstance(v, (int, float)) or math.isnan(v):
            fails.append(f"relative_entropy={v!r}")
        elif not inside:
            if v != math.inf:
                fails.append(f"relative_entropy={v!r} but supp(rho) is not inside supp(sigma): +inf expected")
        else:
            ref = mp_rel_entropy(mp, rho, sigma, base)
            if not close(v, ref, TOL):
                fails.append(f"relative_entropy={v!r} but definition gives {float(ref)!r}")
            elif v < -1e-9:
                fails.append(f"relative_entropy={v} negative")
        if not isinstance(vals[1], (int, float)) or not abs(vals[1]) <= 1e-9:
            fails.append(f"relative_entropy(rho, rho)={vals[1]!r} != 0")
    else:
        a, b, c = [decode(x) for x in s["states"]]
        fn = mp_trace_distance if k == "trace_distance" else mp_fidelity
        tol = TOL if k == "trace_distance" else 5e-7
        refs = [fn(mp, a, b), None, fn(mp, b, c), fn(mp, a, c)]
        stats["rank_deficient"] += crank(a) < len(a)
        if not all(isinstance(v, (int, float)) and math.isfinite(v) for v in vals[:5]):
            return [f"{k} values not finite reals: {vals[:5]!r}"]
        for j in (0, 2, 3):
            if not close(vals[j], refs[j], tol):
                fails.append(f"{k}[{j}]={vals[j]!r} but definition gives {float(refs[j])!r}")
        if abs(vals[0] - vals[1]) > tol:
            fails.append(f"{k} not symmetric: {vals[0]} vs {vals[1]}")
        if not all(-tol <= v <= 1 + tol for v in vals[:5]):
            fails.append(f"{k} outside [0, 1]: {vals[:5]}")
        if k == "trace_distance":
            if vals[3] > vals[0] + vals[2] + 1e-9:
                fails.append(f"triangle inequality violated: T(a,c)={vals[3]} > T(a,b)+T(b,c)={vals[0] + vals[2]}")
            if abs(vals[4]) > 1e-12:
                fails.append(f"T(a,a)={vals[4]} != 0")
            if (a == b) != (abs(vals[0]) <= 1e-12):
                fails.append(f"T(a,b)={vals[0]} but a==b is {a == b}")
        else:
            if abs(vals[4] - 1) > tol:
                fails.append(f"F(a,a)={vals[4]} != 1")
        if s["states"][0]["d"] == s["states"][1]["d"]:
            v = vals[5]
            if not (isinstance(v, list) and len(v) == 2 and all(isinstance(x, (int, float)) and abs(x - vals[0]) <= tol for x in v)):
                fails.append(f"batched {k} = {v!r} differs from the single value {vals[0]}")
    return fails


def ckey(prefix, c):
    return f"{prefix}:{c.get('op', c.get('kind'))}:" + hashlib.sha1(json.dumps(c, sort_keys=True).encode()).hexdigest()[:16]


CORPUS = [
    {"op": "reduce_dm", "n": 2, "kind": ["pure"], "batch": None, "indices": [1],
     "rho": {"d": 2, "e": [[[1, 0], [0, 0], [1, 0], [0, 0]], [[0, 0]] * 4, [[1, 0], [0, 0], [1, 0], [0, 0]], [[0, 0]] * 4]}},
    {"op": "reduce_dm", "n": 2, "kind": ["arbitrary"], "batch": None, "indices": [1, 0],
     "rho": {"d": 1, "e": [[[4 * i + j + 1, i - j] for j in range(4)] for i in range(4)]}},
    {"op": "partial_trace", "n": 3, "kind": ["arbitrary"], "batch": None, "indices": [2, 0],
     "rho": {"d": 1, "e": [[[8 * i + j, j] for j in range(8)] for i in range(8)]}},
    {"op": "partial_trace", "n": 3, "kind": ["arbitrary"], "batch": None, "indices": [2, 0], "iface": "autograd",
     "rho": {"d": 1, "e": [[[8 * i + j, j] for j in range(8)] for i in range(8)]}},
    {"op": "expand", "k": 2, "batch": None, "wires": [0, 2], "wire_order": [2, 0],
     "mat": {"d": 1, "e": [[[4 * i + j + 1, 0] for j in range(4)] for i in range(4)]}},
    {"op": "expand", "k": 2, "batch": None, "wires": [0, 2], "wire_order": [0, 1, 2],
     "mat": {"d": 1, "e": [[[4 * i + j + 1, 0] for j in range(4)] for i in range(4)]}},
    {"op": "expand", "k": 2, "batch": None, "wires": [3, 0], "wire_order": [0, 1, 2, 3, 4],
     "mat": {"d": 2, "e": [[[4 * i + j + 1, i] for j in range(4)] for i in range(4)]}},
    {"op": "expand", "k": 1, "batch": 1, "wires": [0], "wire_order": [0, 1],
     "mat": {"d": 1, "e": [[[[1, 0], [2, 1]], [[3, 0], [4, -1]]]]}},
    {"op": "reduce_sv", "n": 2, "batch": None, "indices": [1, 0], "psi": {"d": 2, "e": [[1, 1], [1, -1], [0, 0], [0, 2]]}},
    {"op": "fid_sv", "n": 1, "b0": None, "b1": None, "psi": {"d": 2, "e": [[1, 1], [1, -1]]},
     "phi": {"d": 1, "e": [[0, 1], [0, 0]]}},
]


def run(ctx):
    ctx.coq_props()
    rng = ctx.rng
    quick = ctx.tier == "quick"
    n_tie, n_or = (180, 60) if quick else (1000, 300)
    replay_case = None
    if getattr(ctx, "replay", None) and isinstance(ctx.replay.get("replay", {}).get("case"), dict):
        replay_case = ctx.replay["replay"]["case"]
    if replay_case is not None and "op" in replay_case:
        ties, scen = [replay_case], []
    elif replay_case is not None:
        ties, scen = [], [replay_case]
    else:
        ties = [json.loads(json.dumps(c)) for c in CORPUS]
        while len(ties) < n_tie:
            ties.append(gen_tie_case(rng, ctx.tier))
        scen = [gen_oracle_scenario(rng, ctx.tier) for _ in range(n_or)]

    calls, tie_ix, scen_ix = [], [], []
    for c in ties:
        tie_ix.append(len(calls))
        calls.extend(impl_calls(c))
    for s in scen:
        cs = scenario_calls(s)
        scen_ix.append((len(calls), len(cs)))
        calls.extend(cs)
    t_a = time.time()
    obs = ctx.run_impl("c49_impl.py", {"cases": calls})
    t_b = time.time()

    # ---- tie K: exact correspondence with the Coq model
    terms, owner = [], []
    hist = {"ops": {}, "n": {}, "batched": 0, "unsorted_indices": 0, "non_involutive_index_perms": 0, "autograd": 0, "sparse": 0,
            "expand_permuted": 0, "expand_batch1_axis_dropped": 0, "state_kinds": {}}
    nontrivial = set()
    for ci, (c, k) in enumerate(zip(ties, tie_ix)):
        o = obs[k]
        hist["ops"][c["op"]] = hist["ops"].get(c["op"], 0) + 1
        nn = str(c.get("n", c.get("k")))
        hist["n"][nn] = hist["n"].get(nn, 0) + 1
        hist["batched"] += bool(c.get("batch") or c.get("b0") or c.get("b1"))
        hist["autograd"] += c.get("iface") == "autograd"
        hist["sparse"] += bool(c.get("sparse"))
        for kd in c.get("kind", []):
            hist["state_kinds"][kd] = hist["state_kinds"].get(kd, 0) + 1
        if "indices" in c and c["indices"] != sorted(c["indices"]):
            hist["unsorted_indices"] += 1
            srt = sorted(c["indices"])
            pm = [srt.index(w) for w in c["indices"]]
            hist["non_involutive_index_perms"] += any(pm[pm[j]] != j for j in range(len(pm)))
        if c["op"] == "expand" and c["wire_order"] and c["wires"] and \
                [w for w in c["wire_order"] if w in c["wires"]] != c["wires"]:
            hist["expand_permuted"] += 1
        if "err" in o:
            ctx.violation(ckey("direct", c), {"case": c, "observed": o},
                          what=f"{c['op']} raised {o['err']} on a well-formed input")
            continue
        out = o["ok"]
        if c["op"] == "expand" and c["batch"] == 1 and c["wire_order"] is not None and \
                isinstance(out[0][0][0], (int, float)) and len(out) != 1:
            hist["expand_batch1_axis_dropped"] += 1
        if not direct_tie_oracle(c, out):
            ctx.violation(ckey("direct", c), {"case": c, "observed": out},
                          what=f"{c['op']} differs from the explicit index contraction / re-indexing (python reference)")
        try:
            ts = tie_terms(c, out)
        except (ValueError, TypeError, IndexError) as ex:
            ctx.violation(ckey("direct", c), {"case": c, "observed": out}, what=f"{c['op']}: malformed result ({ex})")
            continue
        if c.get("n", c.get("k", 0)) >= 2:
            nontrivial.add(ckey("k", c))
        for t in ts:
            terms.append(t)
            owner.append(ci)
    bad = ctx.coq_eval_cases("cases", "From PLV Require Import Num.QInfoModel.\nRequire Import ZArith QArith.\nOpen Scope Z_scope.",
                             terms, "check_case", chunk=max(40, len(terms) // (3 if quick else 8) + 1))
    for i in bad:
        c = ties[owner[i]]
        ctx.violation(ckey("corr", c), {"case": c, "implementation": obs[tie_ix[owner[i]]],
                                        "model": "coq/Gen/C49 (check_case false: model differs)"},
                      what=f"{c['op']}: implementation differs from the proved Coq model")

    t_c = time.time()
    # ---- tie-only oracles for the eigenvalue-based quantities
    mp = mp_setup()
    stats = {"rank_deficient": 0, "rel_support_mismatch": 0}
    okinds = {}
    for s, (k, m) in zip(scen, scen_ix):
        okinds[s["kind"]] = okinds.get(s["kind"], 0) + 1
        for f in check_scenario(mp, s, obs[k:k + m], stats)[:1]:
            key = ckey("direct", s)
            if s["kind"] == "rel_entropy":
                rho, sigma = decode(s["rho"]), decode(s["sigma"])
                if crank(rho) < len(rho) or crank(sigma) < len(sigma):
                    # one stable key for the whole class (see FINDING below): rank-deficient arguments
                    key = "finding:relative_entropy_rank_deficient"
                    stats["rel_rank_deficient_failures"] = stats.get("rel_rank_deficient_failures", 0) + 1
            ctx.violation(key, {"case": s, "observed": obs[k:k + m], "failure": f}, what=f"{s['kind']}: {f}")
    hist["oracle_scenarios"] = okinds
    ctx.notes.append(f"timing: impl {t_b - t_a:.1f}s, coq tie {t_c - t_b:.1f}s, mpmath oracles {time.time() - t_c:.1f}s")
    hist.update(stats)
    ctx.coverage.update({
        "evaluations": len(terms) + sum(m for _, m in scen_ix),
        "distinct_nontrivial": len(nontrivial),
        "rule": "seeded generator: exactly normalised dyadic pure states (Clifford+sqrtX+H(x)H circuits), dyadic convex "
                "mixtures (rank-deficient common), arbitrary dyadic operators; random index subsets in random order, "
                "batches 1-3, autograd + sparse code paths; non-trivial = tie case on >= 2 qubits; oracle scenarios "
                "evaluate the eigenvalue formulas independently with mpmath (30 digits)",
        "input_distribution": hist})
    for c, k in list(zip(ties, tie_ix))[10:13]:
        ctx.sample({"case": {kk: (v if kk not in ("rho", "psi", "phi", "mat") else "<array>") for kk, v in c.items()},
                    "observed": str(obs[k])[:200]})
