"""C15 Clifford+T approximations meet their precision bound."""
import math
import re
import time
from fractions import Fraction

from vlib import *

PID = "C15"
META = {
    "level": "proof",
    "technique": "Coq proofs over an exact Z[omega]/sqrt2^k matrix model of Clifford+T words (induction over words) + per-run exact word multiplication, unitarity and rational-enclosure distance check inside Coq (vm_compute) on the words returned by the real synthesis functions",
    "design_ref": "DESIGN.md §3 C15",
    "text": "Kernel-checked for ALL words: the exact denotation of a Clifford+T word over Z[omega] with a sqrt2-power denominator is multiplicative under concatenation (word_denote_app) and exactly unitary (word_unitary); the output alphabet is a decidable predicate (gates_in_set); every Ross-Selinger candidate [[u,-t*],[t,u*]]/sqrt2^k with u*u+t*t=2^k is exactly unitary (candidate_unitary, all u,t,k); entrywise proportionality is reflexive/scale-invariant (exact-stage tie); the rational interval test used for the distance is sound (enclosure_check_sound: if it passes and the 16 target numbers lie in their enclosures then |tr(M^dagger T)|^2 >= 2^k (2-eps^2)^2, i.e. operator-norm distance up to global phase <= eps). Per run, the real rs_decomposition, sk_decomposition and clifford_t_decomposition (both methods; every gate they approximate) are executed on boundary and random angles and precisions 1e-1..1e-8; every returned word is multiplied exactly inside Coq, checked for alphabet, exact unitarity, the enclosure-based distance bound, and (rs) proportionality to the exact DyadicMatrix the implementation synthesised. A float oracle additionally checks the distance including the returned GlobalPhase and the whole-circuit error of the transform.",
    "note": "NOT proved: completeness/termination of the Ross-Selinger grid search, Diophantine solver and Solovay-Kitaev recursion (that a word within eps is FOUND) -- this is validated per run only; _ma_normal_form's loop invariant is not transcribed (its output is checked exactly per run instead). The distance is the documented operator norm up to global phase; the distance WITH the returned GlobalPhase, and the whole-circuit error of the transform, are checked in float64 only. Target enclosures (cos/sin/sqrt2 from mpmath interval arithmetic at 60 digits, rounded outwards to integers at scale 2^128) are trusted; the soundness theorem is stated over Q for abstract enclosed numbers (no real numbers in Coq), and the identification of the two integer linear forms with 2Re/2Im tr(M^dagger T) rests on re_im_multiplicative/linear_forms_meaning plus the float cross-check 'model-vs-float'. An allowance for the float64 resolution of the implementations' own acceptance tests is applied (rs: eps^2+4e-15, sk: eps+1e-10); strict failures inside the allowance are counted as 'marginal'. The documented escapes (max_search_trials / max_depth exhausted -> error may exceed eps) are classified with read-only hooks (trial counter, group-commutator counter) and counted. qp.gridsynth is a Catalyst pass front-end without a tape implementation in this checkout (NotImplementedError; confirmed each run) and is therefore not executable here: only method='gridsynth' of clifford_t_decomposition is covered. Solovay-Kitaev words longer than ~6000 gates are only exercised in the thorough tier (exact evaluation of a 22k-gate word costs ~10 s). Three genuine deviations of the pinned tree are reported under stable keys: finding:rs-grid-search-aborted-by-float-error (eps <~ 1.3e-8: float cancellation inside GridIterator raises, is swallowed, and a ~1e-3 fallback is returned without exhausting max_search_trials), finding:ct-phaseshift-3pi/4-replaced-by-T (PhaseShift(k pi/4), k=3,5 mod 8, mapped to T/Adjoint(T): off by Pauli Z), finding:ct-angle-within-1e-6-of-k*pi-snapped (atol 1e-6 snapping exceeds epsilon < ~5e-7).",
    "assumptions": ["mpmath.iv enclosures of cos, sin, sqrt(2) at 60 digits contain the true values",
                    "PennyLane's own matrices of H,S,T,X,Y,Z,Adjoint(S),Adjoint(T),Identity are the standard ones (cross-checked in float64 against the exact model each run)",
                    "QJIT / Catalyst code paths (is_qjit=True, qp.gridsynth) are outside the model"],
    "trusted": ["hand-written model coq/Disc/CliffordTModel.v tied to /repo by per-run exact evaluation only",
                "mpmath interval arithmetic for the target enclosures",
                "numpy float64 for the with-phase and whole-circuit oracles"],
}

HDR = "From PLV Require Import Disc.CliffordTModel.\nRequire Import QArith List ZArith. Import ListNotations."
SCALE_BITS = 128
NIB = {"H": "1", "S": "2", "T": "3", "X": "4", "Y": "5", "Z": "6", "s": "7", "t": "8", "I": "9", "P": "a"}
DPS = 60
ALLOWED_CT = {"Hadamard", "S", "T", "PauliX", "PauliY", "PauliZ", "Adjoint(S)", "Adjoint(T)", "Identity", "GlobalPhase",
              "CNOT", "CY", "CZ", "SWAP", "ISWAP", "SX", "Adjoint(SX)", "Adjoint(ISWAP)"}
PI = math.pi


# ------------------------------------------------------------------ enclosures
def _fr(t):
    s, man, exp, _ = t
    v = Fraction(int(man)) * (Fraction(2) ** int(exp))
    return -v if s else v


def _ends(x):
    a, b = x._mpi_
    return _fr(a), _fr(b)


def target_enclosures(gate, params):
    """16 rational enclosures: per entry (00,01,10,11) of the target matrix: Re, Im, sqrt2*Re, sqrt2*Im.
    The float parameters are taken as exact dyadic rationals."""
    from mpmath import iv
    iv.dps = DPS
    r2 = iv.sqrt(2)
    one, zero = iv.mpf(1), iv.mpf(0)
    p = [iv.mpf(float(x)) for x in params]
    if gate == "RZ":
        c, s = iv.cos(p[0] / 2), iv.sin(p[0] / 2)
        ent = [(c, -s), (zero, zero), (zero, zero), (c, s)]
    elif gate == "PhaseShift":
        ent = [(one, zero), (zero, zero), (zero, zero), (iv.cos(p[0]), iv.sin(p[0]))]
    elif gate == "RX":
        c, s = iv.cos(p[0] / 2), iv.sin(p[0] / 2)
        ent = [(c, zero), (zero, -s), (zero, -s), (c, zero)]
    elif gate == "RY":
        c, s = iv.cos(p[0] / 2), iv.sin(p[0] / 2)
        ent = [(c, zero), (-s, zero), (s, zero), (c, zero)]
    elif gate == "Rot":
        phi, th, om = p
        c, s = iv.cos(th / 2), iv.sin(th / 2)
        a, b = (phi + om) / 2, (phi - om) / 2
        ent = [(iv.cos(a) * c, -iv.sin(a) * c), (-iv.cos(b) * s, -iv.sin(b) * s),
               (iv.cos(b) * s, -iv.sin(b) * s), (iv.cos(a) * c, iv.sin(a) * c)]
    else:
        raise ValueError(gate)
    out = []
    for re, im in ent:
        out += [_ends(re), _ends(im), _ends(r2 * re), _ends(r2 * im)]
    return out


def target_float(enc):
    """midpoints as a complex 2x2 (for the float cross-check of the formulas above against qp.matrix)"""
    m = [complex(float((enc[4 * e][0] + enc[4 * e][1]) / 2), float((enc[4 * e + 1][0] + enc[4 * e + 1][1]) / 2)) for e in range(4)]
    return m


def g_word(word):
    """first operator in the least significant nibble, sentinel 1 on top"""
    return glist([word[k:k + 60] for k in range(0, len(word), 60)],
                 lambda w: "0x1" + "".join(NIB.get(ch, "f") for ch in reversed(w)) + "%Z")


def ghex(n):
    n = int(n)
    return f"(-0x{-n:x})%Z" if n < 0 else f"0x{n:x}%Z"


def ghq(fr):
    return f"({ghex(fr.numerator)} # 0x{fr.denominator:x})"


def g_case(word, enc, eps2, eps2a, dyd):
    """enclosures are scaled by 2^SCALE_BITS and rounded outwards to integers"""
    sc = 1 << SCALE_BITS
    st = f"(Some ({glist(dyd[0], gz)}, {gz(dyd[1])}))" if dyd else "(None : option (list Z * Z))"
    iv = lambda e: "(" + ghex(math.floor(e[0] * sc)) + ", " + ghex(math.ceil(e[1] * sc)) + ")"
    return f'({g_word(word)}, {glist(enc, iv)}, {ghex(sc)}, {ghq(eps2)}, {ghq(eps2a)}, {st})'


def eps_pair(kind, eps):
    e = Fraction(float(eps))
    if kind == "rs":
        return e * e, e * e + Fraction(4, 10 ** 15)
    ea = e + Fraction(1, 10 ** 10)
    return e * e, ea * ea


# ------------------------------------------------------------------ generators
BOUNDARY = ([k * PI / 4 for k in range(-8, 9)] + [k * PI / 8 for k in (-15, -9, -3, -1, 1, 3, 5, 7, 11, 13)]
            + [1e-3, -1e-3, 1e-5, 3e-7, -1e-9, 1e-12]
            + [2 * PI - 1e-3, 2 * PI + 1e-3, -2 * PI + 1e-4, -2 * PI - 1e-6, 2 * PI - 1e-9, 4 * PI - 1e-3, -4 * PI + 1e-2, 4 * PI + 0.5]
            + [PI / 4 + 1e-7, PI / 4 - 1e-7, 3 * PI / 4 + 1e-13, PI / 2 - 1e-10, PI / 3, -2.2, 1.0])
EPS_GRID = [1e-1, 3e-2, 1e-2, 1e-3, 1e-4, 1e-5, 1e-6, 1e-7, 3e-8, 1e-8]
ODD_K = list(range(-15, 16, 2))      # odd multiples of pi/4 in (-4pi, 4pi)


def gen_rs(rng, n):
    cases = []
    # corpus: every boundary angle at two precisions, alternating gate kinds
    for i, th in enumerate(BOUNDARY):
        for eps in (EPS_GRID[i % len(EPS_GRID)], 1e-3):
            cases.append({"fn": "rs", "gate": "RZ" if (i + (eps == 1e-3)) % 3 else "PhaseShift", "theta": th, "eps": eps})
    for eps in EPS_GRID:
        cases.append({"fn": "rs", "gate": "RZ", "theta": PI / 3, "eps": eps})
    cases.append({"fn": "rs", "gate": "RZ", "theta": 0.3, "eps": 1e-4, "wire": 3})
    cases.append({"fn": "rs", "gate": "RZ", "theta": 1.234, "eps": 1e-5, "kw": {"max_search_trials": 1}})
    # exact odd multiples of pi/4 over the whole period (-4pi, 4pi), both gate kinds: the half-angle is an exact odd
    # multiple of pi/8 (closed-form branch of _domain_correction), and for 2pi < |phi| < 4pi it folds beyond pi
    exact = [{"fn": "rs", "gate": g, "theta": k * PI / 4, "eps": 1e-4} for k in ODD_K for g in ("RZ", "PhaseShift")]
    cases += exact
    n += len(exact)          # the number (and stream) of random cases is unchanged
    while len(cases) < n:
        r = rng.random()
        th = rng.uniform(-2.2 * PI, 2.2 * PI) if r < 0.8 else rng.choice(BOUNDARY) + rng.choice([0, 1e-6, -1e-4, 1e-2]) * rng.random()
        eps = rng.choice(EPS_GRID) if rng.random() < 0.5 else 10 ** rng.uniform(-8, -1)
        c = {"fn": "rs", "gate": rng.choice(["RZ", "RZ", "PhaseShift"]), "theta": th, "eps": eps}
        if rng.random() < 0.1:
            c["kw"] = {"max_search_trials": rng.choice([1, 3, 8, 40])}
        cases.append(c)
    return cases


def gen_sk(rng, n, thorough):
    cases = [{"fn": "sk", "gate": "RZ", "params": [PI / 3], "eps": 1e-2},
             {"fn": "sk", "gate": "RX", "params": [0.4], "eps": 1e-1},
             {"fn": "sk", "gate": "RZ", "params": [PI / 4], "eps": 1e-3},
             {"fn": "sk", "gate": "RY", "params": [-2 * PI + 1e-3], "eps": 5e-2, "wire": 2},
             {"fn": "sk", "gate": "PhaseShift", "params": [1e-3], "eps": 1e-2},
             {"fn": "sk", "gate": "Rot", "params": [0.3, 1.1, -0.7], "eps": 3e-2, "kw": {"max_depth": 2}},
             {"fn": "sk", "gate": "RZ", "params": [2.5], "eps": 1e-3, "kw": {"max_depth": 2}}]
    eps_pool = [1e-1, 5e-2, 3e-2, 1e-2] + ([3e-3, 1e-3] if thorough else [])
    while len(cases) < n:
        g = rng.choice(["RZ", "RX", "RY", "PhaseShift", "Rot"])
        params = [rng.uniform(-2 * PI, 2 * PI) for _ in range(3 if g == "Rot" else 1)]
        if rng.random() < 0.25:
            params[0] = rng.choice(BOUNDARY)
        c = {"fn": "sk", "gate": g, "params": params, "eps": rng.choice(eps_pool)}
        r = rng.random()
        if r < 0.3 or not thorough:          # quick tier: bounded depth keeps the words below ~6000 gates
            c["kw"] = {"max_depth": rng.choice([1, 2, 3])}
        elif r < 0.45:
            c["kw"] = {"basis_set": ["H", "T", "T*"], "basis_length": 8}
        cases.append(c)
    return cases


def gen_circuit(rng, single=False):
    nw = 1 if single else rng.choice([1, 2, 2, 3])
    ops = []
    for _ in range(1 if single else rng.randint(2, 6)):
        r = rng.random()
        w = rng.randrange(nw)
        ang = lambda: (rng.uniform(-2 * PI, 4 * PI) if rng.random() < 0.8 else rng.choice(BOUNDARY))
        if r < 0.55 or single:
            g = rng.choice(["RZ", "RZ", "RX", "RY", "PhaseShift"])
            ops.append([g, [ang()], [w]])
        elif r < 0.65:
            ops.append(["Rot", [ang(), ang(), ang()], [w]])
        elif r < 0.85 or nw == 1:
            ops.append([rng.choice(["Hadamard", "S", "T", "PauliX", "SX", "Adjoint(T)", "PauliY"]), [], [w]])
        else:
            w2 = rng.choice([x for x in range(nw) if x != w])
            ops.append([rng.choice(["CNOT", "CZ", "CNOT", "SWAP"]), [], [w, w2]])
    return ops


def gen_ct(rng, n, n_sk):
    cases = [{"fn": "ct", "ops": [["RZ", [0.3], [0]]], "eps": 1e-3, "method": "gridsynth"},
             {"fn": "ct", "ops": [["RZ", [7.0], [0]]], "eps": 1e-4, "method": "gridsynth"},      # adjoint-cache path (theta >= 2pi)
             {"fn": "ct", "ops": [["PhaseShift", [1.1], [0]]], "eps": 1e-5, "method": "gridsynth"},
             {"fn": "ct", "ops": [["RX", [0.3], [0]], ["CNOT", [], [0, 1]], ["RY", [1.1], [1]], ["RZ", [0.3], [0]]], "eps": 1e-3, "method": "gridsynth"},
             {"fn": "ct", "ops": [["RZ", [PI / 4], [0]], ["RX", [PI], [0]], ["RY", [2.0], [0]]], "eps": 1e-6, "method": "gridsynth"},
             {"fn": "ct", "ops": [["RZ", [5e-7], [0]]], "eps": 1e-7, "method": "gridsynth"},   # below _simplify_param's atol
             {"fn": "ct", "ops": [["PhaseShift", [3 * PI / 4], [0]]], "eps": 1e-3, "method": "gridsynth"},   # T-shortcut of _rot_decompose
             {"fn": "ct", "ops": [["RX", [0.4], [0]]], "eps": 1e-1, "method": "sk"},
             # history: the module-level decomposition cache filled at a loose epsilon must not serve a tighter request (and vice versa)
             {"fn": "ct", "ops": [["RZ", [0.7391], [0]]], "eps": 1e-2, "method": "gridsynth"},
             {"fn": "ct", "ops": [["RZ", [0.7391], [0]]], "eps": 1e-5, "method": "gridsynth", "keep_cache": True},
             {"fn": "ct", "ops": [["RZ", [0.7391], [0]]], "eps": 1e-3, "method": "gridsynth", "keep_cache": True},
             {"fn": "ct", "ops": [["RX", [1.1], [0]], ["CNOT", [], [0, 1]], ["RY", [2.2], [1]]], "eps": 1e-1, "method": "gridsynth"},
             {"fn": "ct", "ops": [["RX", [1.1], [0]], ["CNOT", [], [0, 1]], ["RY", [2.2], [1]]], "eps": 1e-4, "method": "gridsynth", "keep_cache": True}]
    # exact odd multiples of pi/4 through the transform (negative angles are wrapped to [2pi, 4pi) and served by the
    # adjoint of the decomposition of the wrapped angle); H .. H keeps the rotation from being merged away
    exact = [{"fn": "ct", "ops": [["Hadamard", [], [0]], [g, [k * PI / 4], [0]], ["Hadamard", [], [0]]], "eps": 1e-4, "method": "gridsynth"}
             for k in ODD_K for g in ("RZ", "PhaseShift")]
    cases += exact
    n += len(exact)          # the number (and stream) of random circuits is unchanged
    k = 0
    while len(cases) < n + n_sk:
        sk = k < n_sk - 1
        k += 1
        cases.append({"fn": "ct", "ops": gen_circuit(rng, single=sk or rng.random() < 0.3),
                      "eps": rng.choice([1e-1, 3e-2]) if sk else rng.choice([1e-1, 1e-2, 1e-3, 1e-4, 1e-5, 1e-6, 1e-7]),
                      "method": "sk" if sk else "gridsynth", **({"kw": {"max_depth": 3}} if sk else {})})
    return cases


# ------------------------------------------------------------------ run
def bad_phaseshift(theta):
    """angles for which _rot_decompose's shortcut `PhaseShift(k*pi/4) is T / T*` is wrong: k = 3, 5 mod 8"""
    k = round(theta / (PI / 4))
    return abs(theta - k * PI / 4) < 1e-5 and k % 8 in (3, 5)


def classify(kind, o, kw):
    """documented escape / known abort, from the read-only hooks"""
    if kind == "rs":
        if o.get("abort"):
            return "abort"
        if o.get("trials", 0) >= kw.get("max_search_trials", 20):
            return "escape"
        return None
    n = o.get("gcd", 0)
    j = round(math.log(2 * n + 1, 3)) if n else 0
    return "escape" if j >= kw.get("max_depth", 5) else None


def run(ctx):
    ctx.coq_props()
    thorough = ctx.tier != "quick"
    rng = ctx.rng
    if getattr(ctx, "replay", None):
        cases = [ctx.replay["replay"]["case"]]
    else:
        cases = ([{"fn": "gridsynth_alias"}] + gen_rs(rng, 1500 if thorough else 190)
                 + gen_sk(rng, 40 if thorough else 9, thorough) + gen_ct(rng, 60 if thorough else 14, 6 if thorough else 3))
    t0 = time.time()
    obs = ctx.run_impl("c15_impl.py", {"cases": cases}, timeout=3000)
    t_impl = time.time() - t0

    # flatten into word-level items: (case, kind, gate, params, eps, kw, observation, tag)
    items = []
    hist = {"rs": 0, "sk": 0, "ct": 0, "ct_gates": 0, "errors": 0, "alias_tape_impl": None}
    for c, o in zip(cases, obs):
        if c["fn"] == "gridsynth_alias":
            hist["alias_tape_impl"] = o.get("tape_impl")
            if o.get("tape_impl"):
                ctx.notes.append("qp.gridsynth now has a tape implementation: extend the C15 check to run it")
            continue
        hist[c["fn"]] += 1
        key = json.dumps(c, sort_keys=True)
        if "err" in o:
            hist["errors"] += 1
            ctx.violation("raised:" + key, {"case": c, "observed": o}, what=f"{c['fn']} raised instead of returning a decomposition: {o['err']}")
            continue
        if c["fn"] == "rs":
            items.append((c, "rs", c["gate"], [c["theta"]], c["eps"], c.get("kw", {}), o, "top"))
        elif c["fn"] == "sk":
            items.append((c, "sk", c["gate"], c["params"], c["eps"], c.get("kw", {}), o, "top"))
        else:
            for r in o["rec"]:
                hist["ct_gates"] += 1
                items.append((c, r["kind"], r["gate"], [r["theta"]], r["eps"], c.get("kw", {}), r, "gate"))

    terms, n_stage = [], 0
    for idx, (c, kind, gate, params, eps, kw, o, tag) in enumerate(items):
        enc = target_enclosures(gate, params)
        e2, e2a = eps_pair(kind, eps)
        n_stage += bool(o.get("dyd"))
        terms.append(g_case(o["word"], enc, e2, e2a, o.get("dyd")))
    t1 = time.time()
    # short words in big shards, long (Solovay-Kitaev) words one per shard, all in parallel
    short = [i for i, it in enumerate(items) if len(it[6]["word"]) <= 1500]
    long_ = [i for i, it in enumerate(items) if len(it[6]["word"]) > 1500]
    from concurrent.futures import ThreadPoolExecutor
    with ThreadPoolExecutor(max_workers=2) as ex:
        f1 = ex.submit(ctx.coq_eval_cases, "cases", HDR, [terms[i] for i in short], "ct_check_case", 40 if len(short) < 600 else 100, 900, 6)
        f2 = ex.submit(ctx.coq_eval_cases, "long", HDR, [terms[i] for i in long_], "ct_check_case", 1, 900, 6) if long_ else None
        bad = sorted([short[i] for i in f1.result()] + ([long_[i] for i in f2.result()] if f2 else []))
    ctx.coverage["correspondence_cases"] = len(terms)
    codes = {}
    if bad:
        res = ctx.coq_eval_terms("codes", HDR, [f"ct_code {terms[i]}" for i in bad])
        codes = {i: int(re.sub(r"[^0-9]", "", r) or 0) for i, r in zip(bad, res)}
    t_coq = time.time() - t1
    flag = lambda b: {i for i, v in codes.items() if v & b}
    bad_alpha, bad_unit, bad_encl, bad_dist, bad_strict, bad_stage = (flag(b) for b in (1, 2, 4, 8, 16, 32))
    if bad_encl:
        raise CoqError("harness produced an empty enclosure")

    stats = {"within_eps": 0, "marginal_float_resolution": 0, "documented_escape": 0, "known_abort": 0,
             "exact_stage_checked": n_stage, "max_word": 0, "nontrivial_words": 0}
    escaped_cases = set()
    for idx, (c, kind, gate, params, eps, kw, o, tag) in enumerate(items):
        key = json.dumps(c, sort_keys=True) + (f"|gate={gate}:{params[0]!r}:{eps!r}" if tag == "gate" else "")
        rep = {"case": c, "kind": kind, "gate": gate, "params": params, "eps": eps,
               "observed": {k: v for k, v in o.items() if k != "word"}, "word_len": len(o["word"]), "word_head": o["word"][:200]}
        stats["max_word"] = max(stats["max_word"], len(o["word"]))
        if len(set(o["word"]) & set("T t".split())) and len(o["word"]) > 3:
            stats["nontrivial_words"] += 1
        # alphabet / shape (documented: Clifford+T gates followed by one final GlobalPhase, on the operator's wire)
        if idx in bad_alpha or o["others"]:
            ctx.violation("alphabet:" + key, rep, what=f"operator outside the Clifford+T alphabet returned: {o['others']}")
        if not o["last_is_phase"] or o["word"].count("P") != 1:
            ctx.violation("shape:" + key, rep, what="decomposition does not end with exactly one GlobalPhase")
        if tag == "top" and o["wires"] not in ([str(c.get("wire", 0))], []):
            ctx.violation("wires:" + key, rep, what=f"decomposition acts on wires {o['wires']}")
        if idx in bad_unit:
            ctx.violation("unitary:" + key, rep, what="exact product of the returned word is not unitary (model/alphabet mismatch)")
        if idx in bad_stage:
            ctx.violation("exact-stage:" + key, rep, what="returned word does not denote (up to phase) the exact matrix handed to _ma_normal_form, or that matrix is not unitary")
        # float cross-check of the exact model against PennyLane's own matrices (ties gate_mat / target formulas)
        cls = classify(kind, o, kw)
        far = idx in bad_dist
        slack = float(eps) * 1e-6 + 1e-9
        coq_says_close = idx not in bad_strict
        if coq_says_close and o["d_free"] > float(eps) + slack or (far and o["d_free"] < float(eps) - slack - 4e-8):
            ctx.violation("model-vs-float:" + key, rep, what=f"exact (Coq) verdict and float distance {o['d_free']} disagree: the Coq gate matrices or target formula no longer match PennyLane's matrices")
        phase_far = o["d_phase"] > math.sqrt(float(eps_pair(kind, eps)[1])) * (1 + 1e-6) + 1e-10
        if far or phase_far:
            if cls == "abort":
                stats["known_abort"] += 1
                escaped_cases.add(id(c))
                ctx.violation("finding:rs-grid-search-aborted-by-float-error", rep,
                              what=f"rs_decomposition gave up (swallowed {o.get('abort')} after {o.get('trials')} of {kw.get('max_search_trials', 20)} trials) and returned error {o['d_free']:.3g} > eps={eps}")
            elif cls == "escape":
                stats["documented_escape"] += 1
                escaped_cases.add(id(c))
            elif far:
                ctx.violation("dist:" + key, rep, what=f"returned word is farther than eps={eps} from {gate}{params} up to global phase (float estimate {o['d_free']:.3g}); search budget not exhausted")
            else:
                ctx.violation("phase:" + key, rep, what=f"with the returned GlobalPhase the distance is {o['d_phase']:.3g} > eps={eps} although the distance up to phase is within eps")
        else:
            stats["within_eps"] += 1
            if idx in bad_strict:
                stats["marginal_float_resolution"] += 1

    # transform-level checks
    circ = {"n": 0, "approximated_gates": 0, "max_ratio": 0.0}
    for c, o in zip(cases, obs):
        if c["fn"] != "ct" or "err" in o:
            continue
        key = json.dumps(c, sort_keys=True)
        circ["n"] += 1
        circ["approximated_gates"] += len(o["rec"])
        rep = {"case": c, "observed": {k: v for k, v in o.items() if k not in ("rec", "full")},
               "gates": [{k: v for k, v in r.items() if k != "word"} for r in o["rec"]]}
        extra = sorted(set(o["names"]) - ALLOWED_CT)
        if extra or o["n_rz_in_out"]:
            ctx.violation("ct-alphabet:" + key, rep, what=f"transform output contains non-Clifford+T operators {extra}")
        for r in o["rec"]:
            if r["eps"] * len(o["rec"]) > c["eps"] * (1 + 1e-9):
                ctx.violation("ct-eps:" + key, rep, what=f"per-gate precision {r['eps']} x {len(o['rec'])} approximated gates exceeds the requested circuit precision {c['eps']}")
        if id(c) not in escaped_cases:
            if o["d_circ"] > c["eps"] * (1 + 1e-6) + 1e-9:
                snap = sum(abs(x - round(x / PI) * PI) for n, p, _ in c["ops"] for x in p if 0 < abs(x - round(x / PI) * PI) <= 1.1e-6)
                if snap and o["d_circ"] <= c["eps"] * (1 + 1e-6) + snap:
                    circ["known_snapped_angle"] = circ.get("known_snapped_angle", 0) + 1
                    ctx.violation("finding:ct-angle-within-1e-6-of-k*pi-snapped", rep,
                                  what=f"clifford_t_decomposition treats a rotation angle within 1e-6 of a multiple of pi as that multiple (allclose atol=1e-6 in _simplify_param): whole-circuit error {o['d_circ']:.3g} > epsilon={c['eps']}")
                elif any(n == "PhaseShift" and bad_phaseshift(p[0]) for n, p, _ in c["ops"]):
                    circ["known_phaseshift_defect"] = circ.get("known_phaseshift_defect", 0) + 1
                    ctx.violation("finding:ct-phaseshift-3pi/4-replaced-by-T", rep,
                                  what=f"clifford_t_decomposition replaces PhaseShift(k*pi/4), k = 3 or 5 mod 8, by T / Adjoint(T) (off by a Pauli Z): whole-circuit error {o['d_circ']:.3g} > epsilon={c['eps']}")
                else:
                    ctx.violation("ct-circuit:" + key, rep, what=f"whole-circuit operator-norm error {o['d_circ']:.3g} exceeds epsilon={c['eps']}")
            else:
                circ["max_ratio"] = max(circ["max_ratio"], o["d_circ"] / c["eps"])

    hist.update(stats)
    ab = [float(it[4]) for it in items if classify(it[1], it[6], it[5]) == "abort" and it[1] == "rs"]
    hist["abort_eps_range"] = [min(ab), max(ab)] if ab else None
    hist["escape_cases"] = [f"{it[1]} {it[2]}{it[3]} eps={it[4]} kw={it[5]}" for it in items
                            if classify(it[1], it[6], it[5]) == "escape"][:12]
    ctx.coverage.update({
        "evaluations": len(terms), "distinct_nontrivial": stats["nontrivial_words"],
        "rule": "corpus (all multiples of pi/4 in [-2pi,2pi], all odd multiples of pi/4 in (-4pi,4pi) for RZ and PhaseShift both directly and through the transform, odd multiples of pi/8, tiny angles, angles near +-2pi/+-4pi, each at grid precisions 1e-1..1e-8) then seeded random angles in [-2.2pi,2.2pi] x precisions (grid or log-uniform 1e-8..1e-1) for rs (RZ/PhaseShift); sk on RZ/RX/RY/PhaseShift/Rot; random 1-3 wire circuits for the transform (every approximated gate checked); non-trivial = word containing T gates",
        "input_distribution": hist, "transform": circ, "seconds": {"implementation": round(t_impl, 1), "coq_cases": round(t_coq, 1)},
        "enclosure_digits": DPS})
    for (c, kind, gate, params, eps, kw, o, tag) in items[:3] + items[-2:]:
        ctx.sample({"case": c if tag == "top" else {"transform_gate": [gate, params, eps]}, "word_len": len(o["word"]),
                    "word_head": o["word"][:60], "d_free_float": o["d_free"], "d_phase_float": o["d_phase"]})
